#!/usr/bin/env python3
"""gen_detection.py <matrix-dir> [--check-only]: rebuilds seeded/detection.json from the per-seed outputs of
tools/matrix_seed.sh (one <seed>.txt per seed directory under /verif/seeded). With --check-only it only reports
(a) seeds whose own property's check is silent and (b) pairs listed in the current detection.json that the
matrix no longer shows."""
import json, os, re, sys, glob
mdir = sys.argv[1]
check_only = '--check-only' in sys.argv
old = {d['seed']: d for d in json.load(open('/verif/seeded/detection.json'))}
out, problems = [], []
for sd in sorted(glob.glob('/verif/seeded/*/')):
    seed = os.path.basename(sd.rstrip('/'))
    f = os.path.join(mdir, seed + '.txt')
    if not os.path.exists(f):
        problems.append(f'{seed}: no matrix output')
        continue
    verdict = {}
    for line in open(f, errors="replace"):
        m = re.match(r'^(\S+) (C\d\d): (silent|ALARM rc=(\d+))', line)
        if m and m.group(1) == seed:
            verdict[m.group(2)] = 'silent' if m.group(3) == 'silent' else 'rc' + m.group(4)
    if len(verdict) != 18:
        problems.append(f'{seed}: {len(verdict)} of 18 verdicts')
    bad = [p for p, v in verdict.items() if v not in ('silent', 'rc1')]
    if bad:
        problems.append(f'{seed}: error verdicts {bad}')
    det = sorted(p for p, v in verdict.items() if v == 'rc1')
    meta = {}
    if os.path.exists(sd + 'meta.json'):
        meta = json.load(open(sd + 'meta.json'))
    own = meta.get('property')
    breaks = old.get(seed, {}).get('breaks') or own or ''
    if seed.startswith('revert-'):
        want = old[seed]['detected_by']
        missing = [p for p in want if p not in det]
        if missing:
            problems.append(f'{seed}: no longer reported by {missing}')
    elif own and own not in det and meta.get('open_miss'):
        # recorded in DESIGN 6.20 as not reported by its own check (no rule was added for it): a note, not a regression
        print('NOTE', f'{seed}: open miss, own check {own} is silent (reported by {det})')
    elif own and own not in det:
        problems.append(f'{seed}: own check {own} is silent (reported by {det})')
    if seed in old:
        lost = [p for p in old[seed]['detected_by'] if p not in det]
        if lost and own and own in det and not seed.startswith('revert-'):
            # another property's check used to report it as well and no longer does: recorded, not a problem
            print('NOTE', f'{seed}: no longer reported under {lost} (still reported by its own check {own})')
        elif lost:
            problems.append(f'{seed}: listed for {lost} but the matrix no longer shows it')
    out.append({'seed': seed, 'detected_by': det, 'breaks': breaks})
for p in problems:
    print('PROBLEM', p)
print(len(out), 'seeds,', len(problems), 'problems')
if not check_only and not problems:
    json.dump(out, open('/verif/seeded/detection.json', 'w'), indent=0)
    print('written')
