#!/usr/bin/env python3
import json, sys, glob, jsonschema
jsonschema.validate(json.load(open('/verif/MANIFEST.json')), json.load(open('/root/.vp/MANIFEST.schema.json')))
es = json.load(open('/root/.vp/EVIDENCE.schema.json'))
for f in sorted(glob.glob('/verif/evidence/*.json')):
    jsonschema.validate(json.load(open(f)), es)
print("manifest and", len(glob.glob('/verif/evidence/*.json')), "evidence files valid")
