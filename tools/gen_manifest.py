#!/usr/bin/env python3
"""Regenerates /verif/MANIFEST.json from tools/props.json (one entry per property:
either a claimed check or a not_applicable reason)."""
import json, os
here = os.path.dirname(os.path.abspath(__file__))
root = os.path.dirname(here)
props = json.load(open(os.path.join(here, "props.json")))
checks, na = [], []
for pid in sorted(props):
    p = props[pid]
    if "na" in p:
        na.append({"property_id": pid, "reason": p["na"]})
        continue
    checks.append({
        "property_id": pid,
        "quick_cmd": "bin/hrverif check %s --tier quick" % pid,
        "thorough_cmd": "bin/hrverif check %s --tier thorough" % pid,
        "evidence_file": "/verif/evidence/%s.json" % pid,
        "replay_cmd_template": "bin/hrverif explain {path}",
        "engine": "hrverif",
        "level_claimed": {"category": "other", "text": p["text"], "design_ref": "DESIGN.md Part 3, " + pid},
        "level_note": p["note"],
        "technique": p["technique"],
    })
m = {
    "version": 1,
    "setup_cmd": "cd checker && GOWORK=off GOFLAGS=-mod=vendor GOPROXY=off GOSUMDB=off GOTOOLCHAIN=local go build -o ../bin/hrverif ./cmd/hrverif",
    "hooks": {
        "guard": "verif",
        "enable": "none: the checks read /repo's sources (go/packages + go/ssa); nothing from /repo is built or run, so there are no hooks to enable",
        "baseline_off_cmd": "for m in . ./cmd/hranoprovod-cli; do (cd /repo/$m && GOPROXY=off GOSUMDB=off GOTOOLCHAIN=local go test -json -vet=off -count=1 -timeout 25m ./...); done",
        "source_commits": [],
        "add_only": True,
    },
    "engines": [{
        "name": "hrverif",
        "path": "checker/",
        "serves_properties": [c["property_id"] for c in checks],
        "kind_free_text": "repository-specific static analyser: go/packages + go/types + go/ssa + VTA call graph; AST/CFG/SSA structural rules, path-sensitive finite-domain abstract interpretation (property simulation), field-based provenance graph, effect summaries, constant/template/format analysis",
    }],
    "checks": checks,
    "not_applicable": na,
    "notes": "Static analysis only: every verdict is computed from /repo's current working tree as loaded by go/packages; nothing from /repo is compiled to a binary or executed. All claims are level 'other': each check decides named structural necessary conditions of its property (listed in evidence coverage.explanation and DESIGN.md Part 3, Part 6 and Appendix D) and states what it does not decide.",
}
json.dump(m, open(os.path.join(root, "MANIFEST.json"), "w"), indent=1)
print("checks:", [c["property_id"] for c in checks], "na:", [n["property_id"] for n in na])
