#!/bin/bash
# matrix_seed.sh <seed-dir> [props...] : like try_seed.sh but loads the patched tree once and runs the quick
# rules of all (or the named) properties in one process. HRVERIF_BIN overrides the checker binary.
set -u
D=$(realpath "$1"); shift
ID=$(basename "$D")
BIN=${HRVERIF_BIN:-/verif/bin/hrverif}
WT=$(mktemp -d /tmp/ts-$ID-XXXX); SV=$(mktemp -d /tmp/tsv-$ID-XXXX)
git -C /repo worktree add -q --detach "$WT" HEAD || exit 2
trap 'git -C /repo worktree remove --force "$WT" 2>/dev/null; rm -rf "$WT" "$SV"' EXIT
git -C "$WT" apply "$D/patch.diff" 2>/dev/null || git -C "$WT" apply --3way "$D/patch.diff" 2>/dev/null || { echo "$ID: patch does not apply"; exit 2; }
ln -s /verif/checker "$SV/checker"; cp /verif/known_findings.json "$SV/"
"$BIN" matrix --repo "$WT" --verif "$SV" "$@" 2>&1 | awk -v id="$ID" -v lines="${TS_LINES:-3}" -v cols="${TS_COLS:-400}" '
  /^(VIOLATED|UNDECIDED|hrverif:)/ { if (n < lines) buf[n++] = substr($0, 1, cols); next }
  /^== / { split($3, a, "="); if (a[2] == "0") print id, $2 ": silent"; else { print id, $2 ": ALARM rc=" a[2]; for (i = 0; i < n; i++) print "    " buf[i] } n = 0; next }'
