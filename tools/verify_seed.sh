#!/bin/bash
# verify_seed.sh <seed-dir> : confirms that a seeded change applies to /repo HEAD, builds, passes the
# existing suite, and that its demo passes without it and fails with it. Writes <seed-dir>/verify.json.
set -u
D=$(realpath "$1"); ID=$(basename "$D")
export GOPROXY=off GOSUMDB=off GOTOOLCHAIN=local
WT=$(mktemp -d /tmp/sv-$ID-XXXX)
git -C /repo worktree add -q --detach "$WT" HEAD || exit 2
cleanup() { git -C /repo worktree remove --force "$WT" 2>/dev/null; rm -rf "$WT"; }
trap cleanup EXIT
res() { echo "{\"id\":\"$ID\",\"applies\":$1,\"builds\":$2,\"suite_passes\":$3,\"demo_clean_rc\":$4,\"demo_patched_rc\":$5,\"repo_head\":\"$(git -C /repo rev-parse --short HEAD)\"}" > "$D/verify.json"; cat "$D/verify.json"; }
chmod +x "$D/demo.sh"
( cd "$D" && timeout 900 ./demo.sh "$WT" >"$D/demo_clean.log" 2>&1 ); RC_CLEAN=$?
( cd "$WT" && git checkout -q -- . && git clean -fdq )
if ! git -C "$WT" apply "$D/patch.diff" 2>"$D/apply.log"; then res false false false $RC_CLEAN -1; exit 0; fi
B=true; ( cd "$WT" && go build ./... && cd cmd/hranoprovod-cli && go build ./... ) >"$D/build.log" 2>&1 || B=false
S=true; ( cd "$WT" && go test -vet=off -count=1 ./... && cd cmd/hranoprovod-cli && go test -vet=off -count=1 ./... ) >"$D/suite.log" 2>&1 || S=false
( cd "$D" && timeout 900 ./demo.sh "$WT" >"$D/demo_patched.log" 2>&1 ); RC_PATCHED=$?
res true $B $S $RC_CLEAN $RC_PATCHED
