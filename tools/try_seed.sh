#!/bin/bash
# try_seed.sh <seed-dir> [props...] : run checks against a scratch worktree with the seeded change applied.
# Prints, per property, whether the check raised an alarm. Nothing in /repo or /verif/evidence is touched.
set -u
D=$(realpath "$1"); shift
ID=$(basename "$D")
WT=$(mktemp -d /tmp/ts-$ID-XXXX); SV=$(mktemp -d /tmp/tsv-$ID-XXXX)
git -C /repo worktree add -q --detach "$WT" HEAD || exit 2
trap 'git -C /repo worktree remove --force "$WT" 2>/dev/null; rm -rf "$WT" "$SV"' EXIT
git -C "$WT" apply "$D/patch.diff" 2>/dev/null || git -C "$WT" apply --3way "$D/patch.diff" 2>/dev/null || { echo "$ID: patch does not apply"; exit 2; }
ln -s /verif/checker "$SV/checker"; cp /verif/known_findings.json "$SV/"
PROPS="$@"; [ -z "$PROPS" ] && PROPS=$(/verif/bin/hrverif list | cut -d' ' -f1)
for P in $PROPS; do
  OUT=$(/verif/bin/hrverif check $P --repo "$WT" --verif "$SV" 2>&1); RC=$?
  if [ $RC -eq 0 ]; then echo "$ID $P: silent"; else echo "$ID $P: ALARM rc=$RC"; echo "$OUT" | grep -E "^(VIOLATED|UNDECIDED|hrverif:)" | head -${TS_LINES:-4} | cut -c1-${TS_COLS:-400} | sed 's/^/    /'; fi
done
