package main

import (
	"encoding/json"
	"fmt"
	"io"
	"os"
	"os/exec"
	"path/filepath"
	"sort"
	"strings"
	"sync"
)

// Thorough tier, part two: mutation validation of the checker itself.
//
// /verif/seeded holds changes to the repository that break a property while
// compiling and passing the existing tests (produced independently, each
// confirmed), plus the reverse of every fix: commit. seeded/detection.json
// records which property's check must report each of them. For the property
// being checked, every such change is applied to a scratch copy of /repo's
// current working tree (under /tmp, removed afterwards), the quick rules are run
// on the copy in a child process, and the run must end with a violation. A
// change that no longer applies because the code moved on is skipped and listed;
// it never fails the check. A change that applies but is no longer reported
// means the rules lost detection power: that fails the thorough check.

type detection struct {
	Seed   string   `json:"seed"`
	Props  []string `json:"detected_by"`
	Breaks string   `json:"breaks"`
}

func copyTree(src, dst string) error {
	return filepath.Walk(src, func(p string, info os.FileInfo, err error) error {
		if err != nil {
			return err
		}
		rel, _ := filepath.Rel(src, p)
		if rel == ".git" || strings.HasPrefix(rel, ".git"+string(filepath.Separator)) {
			if info.IsDir() {
				return filepath.SkipDir
			}
			return nil
		}
		target := filepath.Join(dst, rel)
		if info.IsDir() {
			return os.MkdirAll(target, 0o755)
		}
		if !info.Mode().IsRegular() {
			return nil
		}
		in, err := os.Open(p)
		if err != nil {
			return err
		}
		defer in.Close()
		out, err := os.OpenFile(target, os.O_CREATE|os.O_WRONLY|os.O_TRUNC, info.Mode().Perm())
		if err != nil {
			return err
		}
		defer out.Close()
		_, err = io.Copy(out, in)
		return err
	})
}

func thoroughSeeds(prop, repo, verif string) (map[string]interface{}, []string) {
	var table []detection
	b, err := os.ReadFile(filepath.Join(verif, "seeded", "detection.json"))
	if err != nil {
		return map[string]interface{}{"mutants": map[string]interface{}{"note": "no seeded/detection.json"}}, nil
	}
	if err := json.Unmarshal(b, &table); err != nil {
		return map[string]interface{}{"mutants": map[string]interface{}{"note": "seeded/detection.json: " + err.Error()}}, nil
	}
	var mine []detection
	for _, d := range table {
		for _, p := range d.Props {
			if p == prop {
				mine = append(mine, d)
			}
		}
	}
	sort.Slice(mine, func(i, j int) bool { return mine[i].Seed < mine[j].Seed })
	type result struct {
		seed, state, detail string
	}
	results := make([]result, len(mine))
	self, _ := os.Executable()
	sem := make(chan struct{}, 8)
	var wg sync.WaitGroup
	for i, d := range mine {
		wg.Add(1)
		go func(i int, d detection) {
			defer wg.Done()
			sem <- struct{}{}
			defer func() { <-sem }()
			tmp, err := os.MkdirTemp("", "hrverif-mut-")
			if err != nil {
				results[i] = result{d.Seed, "skipped", err.Error()}
				return
			}
			defer os.RemoveAll(tmp)
			tree := filepath.Join(tmp, "tree")
			sv := filepath.Join(tmp, "verif")
			os.MkdirAll(sv, 0o755)
			if err := copyTree(repo, tree); err != nil {
				results[i] = result{d.Seed, "skipped", "copy: " + err.Error()}
				return
			}
			patch := filepath.Join(verif, "seeded", d.Seed, "patch.diff")
			ap := exec.Command("git", "apply", patch)
			ap.Dir = tree
			if out, err := ap.CombinedOutput(); err != nil {
				results[i] = result{d.Seed, "skipped", "patch no longer applies to the current tree: " + strings.TrimSpace(string(out))}
				return
			}
			os.Symlink(filepath.Join(verif, "checker"), filepath.Join(sv, "checker"))
			if kf, err := os.ReadFile(filepath.Join(verif, "known_findings.json")); err == nil {
				os.WriteFile(filepath.Join(sv, "known_findings.json"), kf, 0o644)
			}
			cmd := exec.Command(self, "check", prop, "--tier", "quick", "--repo", tree, "--verif", sv)
			cmd.Env = append(os.Environ(), "HRVERIF_CHILD=1")
			out, err := cmd.CombinedOutput()
			code := 0
			if ee, ok := err.(*exec.ExitError); ok {
				code = ee.ExitCode()
			} else if err != nil {
				code = -1
			}
			first := ""
			for _, l := range strings.Split(string(out), "\n") {
				if strings.HasPrefix(l, "VIOLATED") || strings.HasPrefix(l, "UNDECIDED") || strings.HasPrefix(l, "hrverif:") {
					first = l
					if len(first) > 300 {
						first = first[:300]
					}
					break
				}
			}
			switch code {
			case 1:
				results[i] = result{d.Seed, "detected", first}
			case 0:
				results[i] = result{d.Seed, "missed", "the check is silent on a tree that breaks the property: " + d.Breaks}
			default:
				results[i] = result{d.Seed, "error", fmt.Sprintf("exit %d: %s", code, first)}
			}
		}(i, d)
	}
	wg.Wait()
	counts := map[string]int{}
	var list []map[string]string
	var failures []string
	for _, r := range results {
		counts[r.state]++
		list = append(list, map[string]string{"seed": r.seed, "result": r.state, "detail": r.detail})
		if r.state == "missed" || r.state == "error" {
			failures = append(failures, fmt.Sprintf("seeded change %s: %s (%s)", r.seed, r.state, r.detail))
		}
	}
	return map[string]interface{}{"mutants": map[string]interface{}{
		"formed": len(mine) - counts["skipped"], "detected": counts["detected"], "missed": counts["missed"], "skipped": counts["skipped"], "errors": counts["error"],
		"results": list,
		"rule":    "each seeded change recorded for this property in seeded/detection.json is applied to a scratch copy of the current tree and the quick rules must report a violation",
	}}, failures
}
