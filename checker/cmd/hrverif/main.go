// hrverif decides structural clauses of the properties C01..C18 of
// aquilax/hranoprovod-cli from its type-checked source and SSA form.
package main

import (
	"encoding/json"
	"fmt"
	"os"
	"path/filepath"
	"runtime/debug"
	"sort"
	"strconv"
	"strings"
	"time"

	"hrverif/internal/core"
	"hrverif/internal/rules"
)

func usage() {
	fmt.Fprintln(os.Stderr, "usage: hrverif check <Cnn> [--tier quick|thorough] [--repo DIR] [--verif DIR]\n       hrverif explain <replay.json>\n       hrverif list")
	os.Exit(2)
}

func main() {
	if len(os.Args) < 2 {
		usage()
	}
	switch os.Args[1] {
	case "list":
		var ids []string
		for id := range rules.Props {
			ids = append(ids, id)
		}
		sort.Strings(ids)
		for _, id := range ids {
			fmt.Printf("%s  %s\n", id, strings.Join(rules.Props[id].Rules, " "))
		}
	case "explain":
		if len(os.Args) < 3 {
			usage()
		}
		b, err := os.ReadFile(os.Args[2])
		if err != nil {
			fmt.Fprintln(os.Stderr, err)
			os.Exit(2)
		}
		var rec map[string]interface{}
		json.Unmarshal(b, &rec)
		out, _ := json.MarshalIndent(rec, "", "  ")
		fmt.Println(string(out))
		if p, ok := rec["property"].(string); ok {
			fmt.Printf("\nre-running %s on the current tree:\n", p)
			os.Exit(check(p, "quick", envOr("HRVERIF_REPO", "/repo"), envOr("HRVERIF_DIR", "/verif")))
		}
	case "paths":
		debugPaths(envOr("HRVERIF_REPO", "/repo"), os.Args[2])
	case "baseline":
		// hrverif baseline [--repo DIR] [--verif DIR]: writes universe_baseline.json from the current tree.
		// Run by hand when rule instances were re-confirmed; never run by a check.
		repo, verif := envOr("HRVERIF_REPO", "/repo"), envOr("HRVERIF_DIR", "/verif")
		p, err := core.LoadRepo(repo, nil)
		if err != nil {
			fmt.Fprintf(os.Stderr, "hrverif: cannot analyse %s: %v\n", repo, err)
			os.Exit(2)
		}
		bl := core.Baseline{Obligations: map[string]map[string]int{}, Universes: map[string]map[string]int{}}
		var ids []string
		for id := range rules.Props {
			ids = append(ids, id)
		}
		sort.Strings(ids)
		for _, id := range ids {
			ctx := core.NewCtx(id, "quick", p)
			rules.Props[id].Run(ctx)
			bl.Obligations[id], bl.Universes[id] = ctx.BaselineOf()
		}
		b, _ := json.MarshalIndent(bl, "", " ")
		if err := os.WriteFile(filepath.Join(verif, "universe_baseline.json"), append(b, '\n'), 0o644); err != nil {
			fmt.Fprintln(os.Stderr, err)
			os.Exit(2)
		}
		fmt.Printf("baseline of %d properties written\n", len(ids))
	case "matrix":
		// hrverif matrix --repo DIR --verif SCRATCH [Cnn...]: one load, the quick rules of every named property (development aid)
		repo, verif := envOr("HRVERIF_REPO", "/repo"), ""
		var props []string
		for i := 2; i < len(os.Args); i++ {
			switch os.Args[i] {
			case "--repo":
				i++
				repo = os.Args[i]
			case "--verif":
				i++
				verif = os.Args[i]
			default:
				props = append(props, os.Args[i])
			}
		}
		if verif == "" {
			fmt.Fprintln(os.Stderr, "hrverif matrix: --verif SCRATCH is required (evidence is written there)")
			os.Exit(2)
		}
		if len(props) == 0 {
			for id := range rules.Props {
				props = append(props, id)
			}
		}
		sort.Strings(props)
		p, err := core.LoadRepo(repo, nil)
		if err != nil {
			fmt.Fprintf(os.Stderr, "hrverif: cannot analyse %s: %v\n", repo, err)
			os.Exit(2)
		}
		worst := 0
		for _, id := range props {
			rc := runQuick(p, id, verif)
			fmt.Printf("== %s rc=%d\n", id, rc)
			if rc > worst {
				worst = rc
			}
		}
		os.Exit(worst)
	case "check":
		if len(os.Args) < 3 {
			usage()
		}
		prop := os.Args[2]
		tier := envOr("VERIF_TIER", "quick")
		repo := envOr("HRVERIF_REPO", "/repo")
		verif := envOr("HRVERIF_DIR", "/verif")
		for i := 3; i < len(os.Args); i++ {
			switch os.Args[i] {
			case "--tier":
				i++
				tier = os.Args[i]
			case "--repo":
				i++
				repo = os.Args[i]
			case "--verif":
				i++
				verif = os.Args[i]
			default:
				usage()
			}
		}
		os.Exit(check(prop, tier, repo, verif))
	default:
		usage()
	}
}

func runQuick(p *core.Program, prop, verif string) (code int) {
	start := time.Now()
	pr := rules.Props[prop]
	if pr == nil {
		return 2
	}
	defer func() {
		if r := recover(); r != nil {
			fmt.Fprintf(os.Stderr, "hrverif: internal error in %s: %v\n%s\n", prop, r, debug.Stack())
			code = 2
		}
	}()
	ctx := core.NewCtx(prop, "quick", p)
	pr.Run(ctx)
	return ctx.Finish(verif, 0, start, "matrix", map[string]interface{}{})
}

func envOr(k, d string) string {
	if v := os.Getenv(k); v != "" {
		return v
	}
	return d
}

func check(prop, tier, repo, verif string) (code int) {
	start := time.Now()
	pr := rules.Props[prop]
	if pr == nil {
		fmt.Fprintf(os.Stderr, "hrverif: unknown property %s\n", prop)
		return 2
	}
	if tier != "quick" && tier != "thorough" {
		fmt.Fprintf(os.Stderr, "hrverif: unknown tier %s\n", tier)
		return 2
	}
	seed, _ := strconv.ParseInt(os.Getenv("VERIF_SEED"), 10, 64)
	defer func() {
		if r := recover(); r != nil {
			fmt.Fprintf(os.Stderr, "hrverif: internal error in %s: %v\n%s\n", prop, r, debug.Stack())
			code = 2
		}
	}()
	// canaries first: a rule that does not fire on its violating twin is broken
	canDir := filepath.Join(verif, "checker", "testdata", "canary")
	canary, err := core.LoadTree(canDir)
	if err != nil {
		fmt.Fprintf(os.Stderr, "hrverif: canaries: %v\n", err)
		return 2
	}
	canRes := rules.RunCanaries(pr, canary)
	if len(canRes.Failures) > 0 {
		for _, f := range canRes.Failures {
			fmt.Fprintf(os.Stderr, "hrverif: canary failed: %s\n", f)
		}
		return 2
	}
	p, err := core.LoadRepo(repo, nil)
	if err != nil {
		fmt.Fprintf(os.Stderr, "hrverif: cannot analyse %s: %v\n", repo, err)
		return 2
	}
	ctx := core.NewCtx(prop, tier, p)
	ctx.Explain(pr.Explain)
	for _, a := range pr.Assumptions {
		ctx.Assume(a)
	}
	pr.Run(ctx)
	deepInfo := map[string]interface{}{}
	if tier == "thorough" {
		// second pass with deeper exploration parameters. A violation it finds is added; an exploration
		// that exceeds its (larger) budget is noted and the first pass's verdict for it stands.
		deep := core.NewCtx(prop, tier, p)
		deep.Deep = true
		pr.Run(deep)
		have := map[string]bool{}
		for _, o := range ctx.Obs {
			if o.Verdict != core.Discharged {
				have[o.Rule+"|"+o.Func+"|"+o.Msg] = true
			}
		}
		added, budget := 0, 0
		for _, o := range deep.Obs {
			if o.Verdict == core.Discharged {
				continue
			}
			if strings.Contains(o.Msg, "budget of") {
				budget++
				ctx.Note("deep pass: " + o.Key + ": " + o.Msg + " — the quick-depth verdict stands")
				continue
			}
			if !have[o.Rule+"|"+o.Func+"|"+o.Msg] {
				added++
				o.Key += "|deep"
				ctx.Obs = append(ctx.Obs, o)
			}
		}
		ctx.States += deep.States
		ctx.Transitions += deep.Transitions
		deepInfo = map[string]interface{}{"obligations": len(deep.Obs), "abstract_states": deep.States, "explorations_over_budget": budget, "violations_found_only_at_depth": added, "parameters": "two exactly explored iterations per loop, inlining depth 7, 400000 states / 60 s per exploration"}
	}
	extra := map[string]interface{}{
		"canaries":        map[string]interface{}{"checked": canRes.Checked, "fired_on_bad": canRes.Fired, "silent_on_good": canRes.Silent},
		"rules":           pr.Rules,
		"does_not_decide": pr.NotDecided,
	}
	if len(deepInfo) > 0 {
		extra["deep_pass"] = deepInfo
	}
	if tier == "thorough" && pr.Thorough != nil {
		for k, v := range pr.Thorough(ctx, repo, verif, seed) {
			extra[k] = v
		}
	}
	if tier == "thorough" && os.Getenv("HRVERIF_CHILD") == "" {
		ev, misses := thoroughSeeds(prop, repo, verif)
		for k, v := range ev {
			extra[k] = v
		}
		for _, m := range misses {
			// a lost detection is a weakness of the checker, not a violation of the analysed tree: reported, never an alarm
			fmt.Println("note: " + m)
		}
	}
	cmd := fmt.Sprintf("bin/hrverif check %s --tier %s", prop, tier)
	return ctx.Finish(verif, seed, start, cmd, extra)
}
