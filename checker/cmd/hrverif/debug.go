package main

import (
	"fmt"

	"golang.org/x/tools/go/ssa"
	"os"
	"sort"
	"strings"

	"hrverif/internal/absint"
	"hrverif/internal/core"
)

// debugPaths dumps the abstract paths of every function whose name contains pat.
func debugPaths(repo, pat string) {
	p, err := core.LoadRepo(repo, nil)
	if err != nil {
		fmt.Fprintln(os.Stderr, err)
		os.Exit(2)
	}
	for _, fn := range p.Funcs {
		if !strings.Contains(core.FuncName(fn), pat) {
			continue
		}
		x := absint.New(p.SSA, p.InScope)
		if os.Getenv("HRNOINLINE") != "" {
			x.Hooks.Inline = func(*ssa.Function, int) bool { return false }
		}
		if os.Getenv("HRTRACK") == "none" {
			x.Track = func(string) bool { return false }
		}
		s := x.NewState(fn, nil, nil)
		posCount := map[string]int{}
		posKeys := map[string][]string{}
		if os.Getenv("HRDEBUG") != "" {
			x.MaxStates = 20000
			x.Debug = func(pos, key string) {
				posCount[pos]++
				if len(posKeys[pos]) < 3 {
					posKeys[pos] = append(posKeys[pos], key)
				}
			}
		}
		terms := x.Run(s)
		if os.Getenv("HRDEBUG") != "" {
			best, bn := "", 0
			for k, n := range posCount {
				if n > bn {
					best, bn = k, n
				}
			}
			fmt.Printf("hottest position %s: %d states\n", best, bn)
			for _, k := range posKeys[best] {
				fmt.Println("  ", k)
			}
			return
		}
		fmt.Printf("== %s: %d terminals, %d states, %d transitions, problems=%v\n", core.FuncName(fn), len(terms), x.States, x.Transitions, x.Problems)
		for i, t := range terms {
			var rs []string
			for _, r := range t.Ret {
				rs = append(rs, r.Key())
			}
			fmt.Printf(" [%d] %s ret=(%s)\n     when %s\n", i, t.Kind, strings.Join(rs, ", "), x.Valuation(t.State))
			for _, e := range t.State.Trace {
				fmt.Printf("     ev %s\n", e)
			}
			var hk []string
			for k := range t.State.Heap {
				hk = append(hk, k)
			}
			sort.Strings(hk)
			for _, k := range hk {
				fmt.Printf("     heap %s = %s\n", k, t.State.Heap[k].Key())
			}
		}
	}
}
