// Package absint is engine E2: a path-sensitive abstract interpreter over
// go/ssa with a finite value domain (property simulation in the ESP sense).
//
// Values are constants, opaque symbols (identity only), bounded-depth terms over
// them, pointers to abstract locations, closures, interface wrappers, tuples and
// structs, or ⊤. Branches whose condition is not definite fork on a named atom
// with a finite outcome set; the outcomes still possible are part of the state,
// so every later test of the same atom is consistent. States are memoised per
// block entry on (frames, live environment, heap, atom valuation, observer),
// which turns loops into fixpoints. Nothing is executed and no solver is used.
package absint

import (
	"fmt"
	"go/constant"
	"go/token"
	"go/types"
	"sort"
	"strings"

	"golang.org/x/tools/go/ssa"
)

type Value interface {
	Key() string
}

type Top struct{}

func (Top) Key() string { return "⊤" }

type Const struct {
	V   constant.Value // nil for nil/zero aggregate
	Nil bool
}

func (c Const) Key() string {
	if c.Nil {
		return "nil"
	}
	if c.V == nil {
		return "zero"
	}
	return "c:" + c.V.ExactString()
}

type Sym struct{ Name string }

func (s Sym) Key() string { return "§" + s.Name }

type Term struct {
	Op   string
	Args []Value
	key  string
}

func (t *Term) Key() string {
	if t.key == "" {
		var sb strings.Builder
		sb.WriteString(t.Op)
		sb.WriteByte('(')
		for i, a := range t.Args {
			if i > 0 {
				sb.WriteByte(',')
			}
			sb.WriteString(a.Key())
		}
		sb.WriteByte(')')
		t.key = sb.String()
	}
	return t.key
}

// Ptr points to an abstract location. Fresh = allocated during the analysed
// execution (definitely non-nil, not aliased by symbols).
type Ptr struct {
	Loc   string
	Fresh bool
}

func (p Ptr) Key() string { return "&" + p.Loc }

type Closure struct {
	Fn    *ssa.Function
	Binds []Value
}

func (c *Closure) Key() string {
	var sb strings.Builder
	sb.WriteString("fn:")
	sb.WriteString(c.Fn.String())
	if c.Fn.Pos().IsValid() {
		fmt.Fprintf(&sb, "@%d", c.Fn.Pos())
	}
	for _, b := range c.Binds {
		sb.WriteByte('|')
		sb.WriteString(b.Key())
	}
	return sb.String()
}

// Iface is a non-nil interface value holding V of dynamic type T.
type Iface struct {
	T types.Type
	V Value
}

func (i *Iface) Key() string { return "i{" + i.T.String() + ":" + i.V.Key() + "}" }

type Tuple struct{ Elems []Value }

func (t *Tuple) Key() string {
	ks := make([]string, len(t.Elems))
	for i, e := range t.Elems {
		ks[i] = e.Key()
	}
	return "(" + strings.Join(ks, ",") + ")"
}

type Struct struct {
	T      types.Type
	Fields []Value
}

func (s *Struct) Key() string {
	ks := make([]string, len(s.Fields))
	for i, e := range s.Fields {
		ks[i] = e.Key()
	}
	return "{" + strings.Join(ks, ",") + "}"
}

func NewTerm(op string, args ...Value) Value {
	t := &Term{Op: op, Args: args}
	if depth(t) > MaxTermDepth {
		return Top{}
	}
	return t
}

var MaxTermDepth = 6

func depth(v Value) int {
	switch v := v.(type) {
	case *Term:
		d := 0
		for _, a := range v.Args {
			if x := depth(a); x > d {
				d = x
			}
		}
		return d + 1
	case *Iface:
		return depth(v.V)
	case *Struct:
		d := 0
		for _, a := range v.Fields {
			if x := depth(a); x > d {
				d = x
			}
		}
		return d
	case *Tuple:
		d := 0
		for _, a := range v.Elems {
			if x := depth(a); x > d {
				d = x
			}
		}
		return d
	}
	return 0
}

// Mentions reports whether v contains symbol name.
func Mentions(v Value, name string) bool {
	switch v := v.(type) {
	case Sym:
		return v.Name == name
	case *Term:
		for _, a := range v.Args {
			if Mentions(a, name) {
				return true
			}
		}
	case *Iface:
		return Mentions(v.V, name)
	case *Struct:
		for _, a := range v.Fields {
			if Mentions(a, name) {
				return true
			}
		}
	case *Tuple:
		for _, a := range v.Elems {
			if Mentions(a, name) {
				return true
			}
		}
	case *Closure:
		for _, a := range v.Binds {
			if Mentions(a, name) {
				return true
			}
		}
	case Ptr:
		return strings.Contains(v.Loc, "§"+name)
	}
	return false
}

// Subst replaces every occurrence of symbol name by repl.
func Subst(v Value, name string, repl Value) Value {
	if !Mentions(v, name) {
		return v
	}
	switch v := v.(type) {
	case Sym:
		return repl
	case *Term:
		args := make([]Value, len(v.Args))
		for i, a := range v.Args {
			args[i] = Subst(a, name, repl)
			if _, isTop := args[i].(Top); isTop {
				return Top{}
			}
		}
		return NewTerm(v.Op, args...)
	case *Iface:
		return &Iface{T: v.T, V: Subst(v.V, name, repl)}
	case *Struct:
		f := make([]Value, len(v.Fields))
		for i, a := range v.Fields {
			f[i] = Subst(a, name, repl)
		}
		return &Struct{T: v.T, Fields: f}
	case *Tuple:
		f := make([]Value, len(v.Elems))
		for i, a := range v.Elems {
			f[i] = Subst(a, name, repl)
		}
		return &Tuple{Elems: f}
	case *Closure:
		f := make([]Value, len(v.Binds))
		for i, a := range v.Binds {
			f[i] = Subst(a, name, repl)
		}
		return &Closure{Fn: v.Fn, Binds: f}
	case Ptr:
		return Top{}
	}
	return v
}

func isTop(v Value) bool { _, ok := v.(Top); return ok }

func constOf(c *ssa.Const) Value {
	if c.Value == nil {
		// nil or zero aggregate
		switch c.Type().Underlying().(type) {
		case *types.Struct, *types.Array:
			return Const{}
		}
		return Const{Nil: true}
	}
	return Const{V: c.Value}
}

func boolConst(b bool) Value { return Const{V: constant.MakeBool(b)} }

func asBool(v Value) (bool, bool) {
	if c, ok := v.(Const); ok && c.V != nil && c.V.Kind() == constant.Bool {
		return constant.BoolVal(c.V), true
	}
	return false, false
}

// zeroValue builds the zero value of t (structs expanded one level deep lazily by the heap).
func zeroValue(t types.Type) Value {
	switch u := t.Underlying().(type) {
	case *types.Basic:
		switch {
		case u.Info()&types.IsBoolean != 0:
			return boolConst(false)
		case u.Info()&types.IsString != 0:
			return Const{V: constant.MakeString("")}
		case u.Info()&types.IsInteger != 0:
			return Const{V: constant.MakeInt64(0)}
		case u.Info()&types.IsFloat != 0:
			return Const{V: constant.MakeFloat64(0)}
		case u.Kind() == types.UnsafePointer:
			return Const{Nil: true}
		}
		return Const{V: constant.MakeInt64(0)}
	case *types.Struct:
		f := make([]Value, u.NumFields())
		for i := range f {
			f[i] = zeroValue(u.Field(i).Type())
		}
		return &Struct{T: t, Fields: f}
	case *types.Array:
		return Const{}
	}
	return Const{Nil: true}
}

func commutative(op token.Token) bool {
	switch op {
	case token.ADD, token.MUL, token.AND, token.OR, token.XOR, token.EQL, token.NEQ:
		return true
	}
	return false
}

func sortedKeys(m map[string]Value) []string {
	ks := make([]string, 0, len(m))
	for k := range m {
		ks = append(ks, k)
	}
	sort.Strings(ks)
	return ks
}

// symsIn adds every symbol name occurring in key (a Key() or location string) to set.
func symsIn(key string, set map[string]bool) {
	for i := 0; i < len(key); {
		j := strings.Index(key[i:], "§")
		if j < 0 {
			return
		}
		i += j + len("§")
		k := i
		for k < len(key) {
			c := key[k]
			if c == ',' || c == '(' || c == ')' || c == '[' || c == ']' || c == '{' || c == '}' || c == '|' || c == ';' || c == '=' || c == ' ' {
				break
			}
			if strings.HasPrefix(key[k:], "·") || strings.HasPrefix(key[k:], "§") {
				break
			}
			k++
		}
		set[key[i:k]] = true
		i = k
	}
}
