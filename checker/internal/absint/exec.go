package absint

import (
	"fmt"
	"go/constant"
	"go/token"
	"go/types"
	"os"
	"sort"
	"strconv"
	"strings"
	"time"

	"golang.org/x/tools/go/ssa"
)

// ---------------------------------------------------------------------------
// State
// ---------------------------------------------------------------------------

type deferred struct {
	fn   Value // Closure or nil when static
	stat *ssa.Function
	args []Value
	site *ssa.Defer
}

type Frame struct {
	Fn     *ssa.Function
	Env    map[ssa.Value]Value
	Block  *ssa.BasicBlock
	PC     int
	Defers []deferred
	Site   ssa.CallInstruction // call in the caller that created this frame (nil for root / deferred)
	IsDef  bool                // frame runs a deferred call: results are dropped
	Ctx    string              // call-string used to name cells
	Binds  []Value             // free variable bindings
	Visits map[int]int         // block index -> entries
	PhiOld map[ssa.Value]string
	Loops  map[int]*loopSnap // loop header index -> state at loop entry
}

// loopSnap is what a frame remembers when it enters a loop from outside.
type loopSnap struct {
	heap  map[string]string
	pc    map[string]uint16
	gens  map[string]int
	phis  map[ssa.Value]string
	iters int
}

type State struct {
	Frames []*Frame
	Heap   map[string]Value
	PC     map[string]uint16 // atom -> still-possible outcomes
	Gens   map[string]int
	Obs    string            // observer state (rule-defined, part of the memo key)
	Trace  []string          // diagnostic trail of events (not part of the memo key)
	Path   []string          // decisions taken (diagnostic)
	Data   map[string]string // rule-defined scratch (part of the memo key)
}

func (s *State) clone() *State {
	n := &State{Heap: make(map[string]Value, len(s.Heap)), PC: make(map[string]uint16, len(s.PC)), Gens: make(map[string]int, len(s.Gens)), Obs: s.Obs}
	for k, v := range s.Heap {
		n.Heap[k] = v
	}
	for k, v := range s.PC {
		n.PC[k] = v
	}
	for k, v := range s.Gens {
		n.Gens[k] = v
	}
	if s.Data != nil {
		n.Data = make(map[string]string, len(s.Data))
		for k, v := range s.Data {
			n.Data[k] = v
		}
	}
	n.Trace = append([]string(nil), s.Trace...)
	n.Path = append([]string(nil), s.Path...)
	n.Frames = make([]*Frame, len(s.Frames))
	for i, f := range s.Frames {
		nf := *f
		nf.Env = make(map[ssa.Value]Value, len(f.Env))
		for k, v := range f.Env {
			nf.Env[k] = v
		}
		nf.Defers = append([]deferred(nil), f.Defers...)
		nf.Visits = make(map[int]int, len(f.Visits))
		for k, v := range f.Visits {
			nf.Visits[k] = v
		}
		nf.PhiOld = make(map[ssa.Value]string, len(f.PhiOld))
		for k, v := range f.PhiOld {
			nf.PhiOld[k] = v
		}
		nf.Loops = make(map[int]*loopSnap, len(f.Loops))
		for k, v := range f.Loops {
			c := *v
			nf.Loops[k] = &c
		}
		n.Frames[i] = &nf
	}
	return n
}

func (s *State) top() *Frame { return s.Frames[len(s.Frames)-1] }

func (s *State) SetData(k, v string) {
	if s.Data == nil {
		s.Data = map[string]string{}
	}
	s.Data[k] = v
}

func (s *State) Event(format string, a ...interface{}) {
	s.Trace = append(s.Trace, fmt.Sprintf(format, a...))
	if len(s.Trace) > 60 {
		s.Trace = s.Trace[len(s.Trace)-60:]
	}
}

// Atom describes a finite-outcome predicate and which outcomes make a
// condition true.
type Atom struct {
	Name   string
	Domain []string
	True   []string
}

type Terminal struct {
	Kind  string // "return" | "panic" | "exit"
	Ret   []Value
	State *State
	Pos   token.Pos
}

// Valuation renders the decided atoms of a terminal state.
func (x *Exec) Valuation(s *State) string {
	var ks []string
	for k := range s.PC {
		ks = append(ks, k)
	}
	sort.Strings(ks)
	var parts []string
	for _, k := range ks {
		dom := x.domains[k]
		var outs []string
		for i, d := range dom {
			if s.PC[k]&(1<<uint(i)) != 0 {
				outs = append(outs, d)
			}
		}
		if len(outs) == len(dom) {
			continue
		}
		parts = append(parts, k+"∈{"+strings.Join(outs, ",")+"}")
	}
	return strings.Join(parts, " ∧ ")
}

// Possible returns the outcomes of atom name still possible in s (nil if the atom was never consulted).
func (x *Exec) Possible(s *State, name string) []string {
	m, ok := s.PC[name]
	if !ok {
		return nil
	}
	var outs []string
	for i, d := range x.domains[name] {
		if m&(1<<uint(i)) != 0 {
			outs = append(outs, d)
		}
	}
	return outs
}

// Restrict narrows atom name to the outcomes keep (used to set up a root's contract).
func (x *Exec) Restrict(s *State, a Atom, keep ...string) {
	x.domains[a.Name] = a.Domain
	var m uint16
	for i, d := range a.Domain {
		for _, k := range keep {
			if d == k {
				m |= 1 << uint(i)
			}
		}
	}
	if cur, ok := s.PC[a.Name]; ok {
		m &= cur
	}
	s.PC[a.Name] = m
}

// ---------------------------------------------------------------------------
// Exec
// ---------------------------------------------------------------------------

type Hooks struct {
	// Call may model a call (atoms, events, stubs). handled=false falls through
	// to inlining or the unknown-call rule.
	Call func(x *Exec, s *State, site ssa.CallInstruction, callee *ssa.Function, fnv Value, args []Value) (res Value, handled bool)
	// Atom may map a condition onto a named finite-outcome atom.
	Atom func(x *Exec, s *State, cond Value) *Atom
	// Observe hooks.
	Store     func(x *Exec, s *State, in *ssa.Store, addr, val Value)
	MapUpdate func(x *Exec, s *State, in *ssa.MapUpdate, m, k, v Value)
	Send      func(x *Exec, s *State, in *ssa.Send, ch, v Value)
	Deref     func(x *Exec, s *State, in ssa.Instruction, ptr Value) // load/field access through a possibly-nil pointer
	Load      func(x *Exec, s *State, in *ssa.UnOp, addr, val Value)
	Inline    func(callee *ssa.Function, depth int) bool
	Enter     func(x *Exec, s *State, fn *ssa.Function)
	BackEdge  func(x *Exec, s *State, f *Frame, header *ssa.BasicBlock) // a loop iteration of frame f ended
	// Decide is told every time a branch narrows an atom (outs = outcomes still possible).
	Decide func(x *Exec, s *State, atom string, outs []string)
	Instr  func(x *Exec, s *State, in ssa.Instruction)
	// Builtin is told that a builtin (append, len, …) is about to be evaluated.
	Builtin func(x *Exec, s *State, in *ssa.Call, name string, args []Value)
	// (see Exec.FuncVars for calls through write-once package variables)
	// Devirt, when set, names the single function an interface method call on a value of unknown dynamic type can reach
	// (nil: leave the call unresolved).
	Devirt func(fn *ssa.Function, site ssa.CallInstruction) *ssa.Function
}

type Exec struct {
	InScope   func(*ssa.Function) bool
	Prog      *ssa.Program
	MaxDepth  int
	MaxStates int
	MaxWall   time.Duration // wall-clock budget of one Run (0 = none)
	Unroll    int           // loop iterations explored exactly before the loop head is widened
	Widen     bool          // generalise everything a loop changed in one step (faster, coarser) instead of joining arrivals
	Hooks     Hooks
	Debug     func(pos, key string)
	KeepSyms  map[string]bool // symbols whose facts are never pruned (root parameters)
	// Track selects the atoms that stay path-sensitive at join points. nil
	// keeps every atom (states are merged at loop heads only); otherwise
	// states that agree on the tracked atoms, the observer and Data are joined
	// at every block with several predecessors (ESP's property simulation).
	Track func(atom string) bool

	States      int
	Transitions int
	Joins       int
	heads       map[string]*State
	Exhausted   bool
	Problems    []string

	domains map[string][]string
	locID   map[string]string
	LocOf   map[string]string
	// FuncVars: package variables that hold one function from their initialiser on; a load yields that function
	FuncVars map[*ssa.Global]*ssa.Function
	// ErrVars: sentinel errors (package variables set once to errors.New of a constant text): variable -> text
	ErrVars map[*ssa.Global]string
	// FuncField: the one function ever stored into field i of the structure ptrT points to, or nil
	FuncField func(ptrT types.Type, i int) *ssa.Function
	// NilVars: function variables of the tree that nothing ever assigns
	NilVars map[*ssa.Global]bool
	// SoleMethod: the method an interface method call reaches when the interface has a single implementation, or nil
	SoleMethod func(c *ssa.CallCommon) *ssa.Function
	seen       map[string]bool
	live       map[*ssa.Function]map[*ssa.BasicBlock]map[ssa.Value]bool
	terms      []Terminal
	termKey    map[string]bool
	work       []*State
	tables     map[*ssa.Global]map[string]Value
	arrays     map[*ssa.Global]map[int64]Value
	globals    map[string]*ssa.Global
	arrayLen   map[string]int64 // arrays a whole-array slice was taken of (slice literals): location -> length
	stepLists  map[string]bool  // those of them whose elements are functions (lists of steps to run in order)
	initLits   map[*ssa.Global][]ssa.Instruction
}

func New(prog *ssa.Program, inScope func(*ssa.Function) bool) *Exec {
	return &Exec{Prog: prog, InScope: inScope, MaxDepth: 5, MaxStates: 200000, MaxWall: 240 * time.Second, Unroll: 1,
		domains: map[string][]string{}, locID: map[string]string{}, LocOf: map[string]string{}, live: map[*ssa.Function]map[*ssa.BasicBlock]map[ssa.Value]bool{}}
}

// constTable returns the contents of a package-level map that is built in the
// package initialiser from constant keys and values only and is neither
// reassigned nor updated anywhere in its package; nil otherwise.
func (x *Exec) constTable(g *ssa.Global) map[string]Value {
	if x.tables == nil {
		x.tables = map[*ssa.Global]map[string]Value{}
	}
	if t, ok := x.tables[g]; ok {
		return t
	}
	x.tables[g] = nil
	if g.Pkg == nil {
		return nil
	}
	if _, isMap := g.Type().(*types.Pointer).Elem().Underlying().(*types.Map); !isMap {
		return nil
	}
	var mk *ssa.MakeMap
	stores := 0
	var fns []*ssa.Function
	var collect func(fn *ssa.Function)
	collect = func(fn *ssa.Function) {
		fns = append(fns, fn)
		for _, a := range fn.AnonFuncs {
			collect(a)
		}
	}
	for _, m := range g.Pkg.Members {
		switch m := m.(type) {
		case *ssa.Function:
			collect(m)
		case *ssa.Type:
			for _, t := range []types.Type{m.Type(), types.NewPointer(m.Type())} {
				ms := g.Pkg.Prog.MethodSets.MethodSet(t)
				for i := 0; i < ms.Len(); i++ {
					if fn := g.Pkg.Prog.MethodValue(ms.At(i)); fn != nil && fn.Pkg == g.Pkg {
						collect(fn)
					}
				}
			}
		}
	}
	for _, fn := range fns {
		for _, b := range fn.Blocks {
			for _, in := range b.Instrs {
				switch in := in.(type) {
				case *ssa.Store:
					if in.Addr == ssa.Value(g) {
						stores++
						if m, ok := in.Val.(*ssa.MakeMap); ok && fn.Name() == "init" {
							mk = m
						}
					}
				case *ssa.MapUpdate:
					if ld, ok := in.Map.(*ssa.UnOp); ok && ld.X == ssa.Value(g) {
						return nil
					}
				}
			}
		}
	}
	if mk == nil || stores != 1 {
		return nil
	}
	tab := map[string]Value{}
	for _, r := range *mk.Referrers() {
		switch r := r.(type) {
		case *ssa.MapUpdate:
			kc, ok1 := r.Key.(*ssa.Const)
			vc, ok2 := r.Value.(*ssa.Const)
			if !ok1 || !ok2 || kc.Value == nil || vc.Value == nil {
				return nil
			}
			tab[kc.Value.ExactString()] = Const{V: vc.Value}
		case *ssa.Store:
			if r.Addr != ssa.Value(g) {
				return nil
			}
		case *ssa.DebugRef:
		default:
			return nil
		}
	}
	x.tables[g] = tab
	return tab
}

// ConstArray returns the non-zero entries of the package-level array stored at
// the location "G:<name>" when the array is a composite literal of constants
// assigned in the package initialiser and written nowhere else; nil otherwise.
func (x *Exec) ConstArray(loc string) map[int64]Value {
	g := x.globals[strings.TrimPrefix(loc, "G:")]
	if g == nil || g.Pkg == nil {
		return nil
	}
	if x.arrays == nil {
		x.arrays = map[*ssa.Global]map[int64]Value{}
	}
	if t, ok := x.arrays[g]; ok {
		return t
	}
	x.arrays[g] = nil
	if _, isArr := g.Type().(*types.Pointer).Elem().Underlying().(*types.Array); !isArr {
		return nil
	}
	var lit *ssa.Alloc
	stores := 0
	direct := map[int64]Value{} // elements assigned one by one in the initialiser
	var fns []*ssa.Function
	var collect func(fn *ssa.Function)
	collect = func(fn *ssa.Function) {
		fns = append(fns, fn)
		for _, a := range fn.AnonFuncs {
			collect(a)
		}
	}
	for _, m := range g.Pkg.Members {
		switch m := m.(type) {
		case *ssa.Function:
			collect(m)
		case *ssa.Type:
			for _, t := range []types.Type{m.Type(), types.NewPointer(m.Type())} {
				ms := g.Pkg.Prog.MethodSets.MethodSet(t)
				for i := 0; i < ms.Len(); i++ {
					if fn := g.Pkg.Prog.MethodValue(ms.At(i)); fn != nil && fn.Pkg == g.Pkg {
						collect(fn)
					}
				}
			}
		}
	}
	for _, fn := range fns {
		for _, b := range fn.Blocks {
			for _, in := range b.Instrs {
				st, ok := in.(*ssa.Store)
				if !ok {
					continue
				}
				if st.Addr == ssa.Value(g) {
					stores++
					if ld, ok := st.Val.(*ssa.UnOp); ok && ld.Op == token.MUL && fn.Name() == "init" {
						lit, _ = ld.X.(*ssa.Alloc)
					}
				}
				if ia, ok := st.Addr.(*ssa.IndexAddr); ok && ia.X == ssa.Value(g) {
					ic, okI := ia.Index.(*ssa.Const)
					vc, okV := st.Val.(*ssa.Const)
					if fn.Name() != "init" || !okI || !okV || ic.Value == nil || vc.Value == nil {
						return nil // an element is assigned while the program runs
					}
					direct[ic.Int64()] = Const{V: vc.Value}
				}
			}
		}
	}
	if lit == nil && stores == 0 && len(direct) > 0 {
		x.arrays[g] = direct
		return direct
	}
	if lit == nil || stores != 1 || len(direct) > 0 {
		return nil
	}
	tab := map[int64]Value{}
	for _, r := range *lit.Referrers() {
		switch r := r.(type) {
		case *ssa.IndexAddr:
			ic, ok := r.Index.(*ssa.Const)
			if !ok || ic.Value == nil {
				return nil
			}
			for _, rr := range *r.Referrers() {
				if _, isDbg := rr.(*ssa.DebugRef); isDbg {
					continue
				}
				st, ok := rr.(*ssa.Store)
				if !ok {
					return nil
				}
				vc, ok := st.Val.(*ssa.Const)
				if !ok || vc.Value == nil {
					return nil
				}
				tab[ic.Int64()] = Const{V: vc.Value}
			}
		case *ssa.UnOp, *ssa.DebugRef:
		default:
			return nil
		}
	}
	x.arrays[g] = tab
	return tab
}

// ArrayLen: the length of the array at loc, when a whole-array slice (a slice
// literal) was taken of it during this exploration.
func (x *Exec) ArrayLen(loc string) (int64, bool) {
	n, ok := x.arrayLen[loc]
	return n, ok
}

func zeroConst(t types.Type) Value {
	if b, ok := t.Underlying().(*types.Basic); ok {
		switch {
		case b.Info()&types.IsString != 0:
			return Const{V: constant.MakeString("")}
		case b.Info()&types.IsBoolean != 0:
			return Const{V: constant.MakeBool(false)}
		case b.Info()&types.IsInteger != 0:
			return Const{V: constant.MakeInt64(0)}
		case b.Info()&types.IsFloat != 0:
			return Const{V: constant.MakeFloat64(0)}
		}
	}
	return Top{}
}

func (x *Exec) problem(format string, a ...interface{}) {
	msg := fmt.Sprintf(format, a...)
	for _, p := range x.Problems {
		if p == msg {
			return
		}
	}
	x.Problems = append(x.Problems, msg)
}

// NewState creates the initial state for root with the given parameter and
// free-variable values (missing ones become symbols named after them).
func (x *Exec) NewState(root *ssa.Function, params []Value, binds []Value) *State {
	s := &State{Heap: map[string]Value{}, PC: map[string]uint16{}, Gens: map[string]int{}}
	f := &Frame{Fn: root, Env: map[ssa.Value]Value{}, Ctx: "r", Visits: map[int]int{}, PhiOld: map[ssa.Value]string{}, Loops: map[int]*loopSnap{}}
	if x.KeepSyms == nil {
		x.KeepSyms = map[string]bool{}
	}
	for i, p := range root.Params {
		if i < len(params) && params[i] != nil {
			f.Env[p] = params[i]
		} else {
			f.Env[p] = Sym{Name: p.Name()}
		}
		tmp := map[string]bool{}
		symsIn(f.Env[p].Key(), tmp)
		for n := range tmp {
			x.KeepSyms[n] = true
		}
	}
	for i, fv := range root.FreeVars {
		if i < len(binds) && binds[i] != nil {
			f.Binds = append(f.Binds, binds[i])
		} else {
			f.Binds = append(f.Binds, Ptr{Loc: "fv:" + fv.Name()})
		}
	}
	f.Block = root.Blocks[0]
	s.Frames = []*Frame{f}
	return s
}

// Run explores every abstract path from s and returns the terminal states.
func (x *Exec) Run(s *State) []Terminal {
	x.seen = map[string]bool{}
	x.heads = map[string]*State{}
	x.terms = nil
	x.termKey = map[string]bool{}
	x.work = []*State{s}
	start := time.Now()
	if x.Hooks.Enter != nil {
		x.Hooks.Enter(x, s, s.top().Fn)
	}
	x.enterBlock(s, nil, s.top().Block, true)
	for len(x.work) > 0 {
		st := x.work[len(x.work)-1]
		x.work = x.work[:len(x.work)-1]
		x.run(st)
		if x.States > x.MaxStates {
			x.Exhausted = true
			x.problem("state budget of %d exceeded", x.MaxStates)
			break
		}
		if x.MaxWall > 0 && time.Since(start) > x.MaxWall {
			x.Exhausted = true
			x.problem("time budget of %s exceeded after %d states", x.MaxWall, x.States)
			break
		}
	}
	return x.terms
}

func (x *Exec) terminal(kind string, ret []Value, s *State, pos token.Pos) {
	k := kind + "|" + x.stateKey(s, true)
	for _, r := range ret {
		k += "|" + r.Key()
	}
	if x.termKey[k] {
		return
	}
	x.termKey[k] = true
	x.terms = append(x.terms, Terminal{Kind: kind, Ret: ret, State: s, Pos: pos})
}

// ---------------------------------------------------------------------------
// liveness (for memo keys)
// ---------------------------------------------------------------------------

func (x *Exec) liveIn(fn *ssa.Function) map[*ssa.BasicBlock]map[ssa.Value]bool {
	if l, ok := x.live[fn]; ok {
		return l
	}
	in := map[*ssa.BasicBlock]map[ssa.Value]bool{}
	for _, b := range fn.Blocks {
		in[b] = map[ssa.Value]bool{}
	}
	tracked := func(v ssa.Value) bool {
		switch v.(type) {
		case *ssa.Const, *ssa.Function, *ssa.Global, *ssa.Builtin, nil:
			return false
		}
		return true
	}
	changed := true
	for changed {
		changed = false
		for i := len(fn.Blocks) - 1; i >= 0; i-- {
			b := fn.Blocks[i]
			live := map[ssa.Value]bool{}
			for _, s := range b.Succs {
				for v := range in[s] {
					live[v] = true
				}
				// φ operands along the edge b->s
				for _, ins := range s.Instrs {
					phi, ok := ins.(*ssa.Phi)
					if !ok {
						break
					}
					for pi, p := range s.Preds {
						if p == b && tracked(phi.Edges[pi]) {
							live[phi.Edges[pi]] = true
						}
					}
				}
			}
			for j := len(b.Instrs) - 1; j >= 0; j-- {
				ins := b.Instrs[j]
				if v, ok := ins.(ssa.Value); ok {
					delete(live, v)
				}
				if _, isPhi := ins.(*ssa.Phi); isPhi {
					continue
				}
				for _, op := range ins.Operands(nil) {
					if *op != nil && tracked(*op) {
						live[*op] = true
					}
				}
			}
			// φ results are defined at block entry; keep them live-in as themselves
			for _, ins := range b.Instrs {
				if phi, ok := ins.(*ssa.Phi); ok {
					delete(live, ssa.Value(phi))
				} else {
					break
				}
			}
			if len(live) != len(in[b]) {
				in[b] = live
				changed = true
			} else {
				for v := range live {
					if !in[b][v] {
						in[b] = live
						changed = true
						break
					}
				}
			}
		}
	}
	x.live[fn] = in
	return in
}

func (x *Exec) stateKey(s *State, final bool) string {
	var sb strings.Builder
	for fi, f := range s.Frames {
		fmt.Fprintf(&sb, "F%s:%d.%d;", f.Ctx, f.Block.Index, f.PC)
		var live map[ssa.Value]bool
		if !final {
			live = x.liveIn(f.Fn)[f.Block]
		}
		var ks []string
		for v, av := range f.Env {
			if final {
				continue
			}
			if fi == len(s.Frames)-1 {
				if !live[v] {
					if phi, isPhi := v.(*ssa.Phi); !isPhi || phi.Block() != f.Block {
						continue
					}
				}
			} else {
				// suspended frame: values live into the block or defined in it
				if !live[v] {
					if in, ok := v.(ssa.Instruction); !ok || in.Block() != f.Block {
						continue
					}
				}
			}
			ks = append(ks, v.Name()+"="+av.Key())
		}
		sort.Strings(ks)
		sb.WriteString(strings.Join(ks, ","))
		fmt.Fprintf(&sb, ";d%d;", len(f.Defers))
		for _, b := range f.Binds {
			sb.WriteString(b.Key())
			sb.WriteByte(',')
		}
	}
	sb.WriteString("|H:")
	for _, k := range sortedKeys(s.Heap) {
		sb.WriteString(k)
		sb.WriteByte('=')
		sb.WriteString(s.Heap[k].Key())
		sb.WriteByte(';')
	}
	sb.WriteString("|P:")
	var pk []string
	for k, m := range s.PC {
		pk = append(pk, fmt.Sprintf("%s:%d", k, m))
	}
	sort.Strings(pk)
	sb.WriteString(strings.Join(pk, ";"))
	sb.WriteString("|O:")
	sb.WriteString(s.Obs)
	if len(s.Data) > 0 {
		var dk []string
		for k, v := range s.Data {
			dk = append(dk, k+"="+v)
		}
		sort.Strings(dk)
		sb.WriteString("|D:" + strings.Join(dk, ";"))
	}
	return sb.String()
}

// ---------------------------------------------------------------------------
// symbols with generations
// ---------------------------------------------------------------------------

const genCap = 2

// fresh returns a symbol for a definition site; re-executions get new
// generations, and at the cap the oldest name is recycled after every fact and
// reference to it has been forgotten.
func (x *Exec) fresh(s *State, site string) Sym {
	g := s.Gens[site]
	name := fmt.Sprintf("%s#%d", site, g)
	if g >= genCap {
		name = fmt.Sprintf("%s#%d", site, genCap)
		x.forget(s, name)
	} else {
		s.Gens[site] = g + 1
	}
	if g >= genCap {
		s.Gens[site] = genCap
	}
	return Sym{Name: name}
}

func (x *Exec) forget(s *State, name string) {
	needle := "§" + name
	for k := range s.PC {
		if strings.Contains(k, needle) {
			delete(s.PC, k)
		}
	}
	for _, f := range s.Frames {
		for v, av := range f.Env {
			if Mentions(av, name) {
				f.Env[v] = Subst(av, name, Top{})
			}
		}
		for i, b := range f.Binds {
			if Mentions(b, name) {
				f.Binds[i] = Subst(b, name, Top{})
			}
		}
	}
	for k, av := range s.Heap {
		if strings.Contains(k, needle) {
			delete(s.Heap, k)
			continue
		}
		if Mentions(av, name) {
			s.Heap[k] = Subst(av, name, Top{})
		}
	}
}

func siteName(f *Frame, in ssa.Instruction) string {
	idx := 0
	if in.Block() != nil {
		for i, o := range in.Block().Instrs {
			if o == in {
				idx = i
				break
			}
		}
		return fmt.Sprintf("%s/%s.%d.%d", f.Ctx, shortFn(f.Fn), in.Block().Index, idx)
	}
	return f.Ctx + "/" + shortFn(f.Fn)
}

// CleanName shortens a qualified function name and removes the characters
// that delimit symbols inside keys.
func CleanName(name string) string {
	var sb strings.Builder
	// drop directory parts of import paths
	parts := strings.FieldsFunc(name, func(r rune) bool {
		return r == '(' || r == ')' || r == '*' || r == ',' || r == ' ' || r == '[' || r == ']' || r == '{' || r == '}' || r == '|' || r == ';' || r == '='
	})
	for _, p := range parts {
		if i := strings.LastIndexByte(p, '/'); i >= 0 {
			p = p[i+1:]
		}
		sb.WriteString(p)
	}
	return sb.String()
}

func shortFn(fn *ssa.Function) string {
	n := fn.Name()
	if fn.Parent() != nil {
		return shortFn(fn.Parent()) + "$" + n
	}
	return n
}

// ---------------------------------------------------------------------------
// heap
// ---------------------------------------------------------------------------

func (x *Exec) load(s *State, p Value, t types.Type) Value {
	ptr, ok := p.(Ptr)
	if !ok {
		switch pv := p.(type) {
		case Sym, *Term:
			ptr = Ptr{Loc: "L:" + pv.Key()}
		default:
			return Top{}
		}
	}
	return x.loadLoc(s, ptr.Loc, ptr.Fresh, t)
}

func (x *Exec) loadLoc(s *State, loc string, freshCell bool, t types.Type) Value {
	if v, ok := s.Heap[loc]; ok {
		return v
	}
	// a field of a field … of a location stored as a whole: a.b.c where only a (a symbolic structure) is in the heap
	if i := strings.LastIndex(loc, "·"); i > 0 {
		if _, direct := s.Heap[loc[:i]]; !direct {
			rest := loc[:i]
			var path []string
			path = append(path, loc[i+len("·"):])
			for {
				j := strings.LastIndex(rest, "·")
				if j <= 0 || strings.ContainsAny(rest[j:], "[]()") {
					break
				}
				path = append([]string{rest[j+len("·"):]}, path...)
				rest = rest[:j]
				if whole, ok := s.Heap[rest]; ok {
					switch whole.(type) {
					case Sym, *Term:
						v := whole
						for _, f := range path {
							v = NewTerm("field", v, Const{V: constant.MakeString(f)})
						}
						return v
					}
					break
				}
			}
		}
	}
	// a field of a location stored as a whole
	if i := strings.LastIndex(loc, "·"); i > 0 {
		if whole, ok := s.Heap[loc[:i]]; ok {
			switch w := whole.(type) {
			case *Struct:
				if st, ok := w.T.Underlying().(*types.Struct); ok {
					for fi := 0; fi < st.NumFields(); fi++ {
						if st.Field(fi).Name() == loc[i+len("·"):] && fi < len(w.Fields) {
							return w.Fields[fi]
						}
					}
				}
			case Top:
				return Top{}
			case Const:
				if t != nil {
					return zeroValue(t)
				}
			default:
				return NewTerm("field", whole, Const{V: constant.MakeString(loc[i+len("·"):])})
			}
		}
	}
	if t == nil {
		if freshCell || strings.HasPrefix(loc, "A:") {
			return Top{}
		}
		return Sym{Name: "@" + x.intern(loc)}
	}
	if st, ok := t.Underlying().(*types.Struct); ok {
		f := make([]Value, st.NumFields())
		for i := range f {
			f[i] = x.loadLoc(s, loc+"·"+st.Field(i).Name(), freshCell, st.Field(i).Type())
		}
		return &Struct{T: t, Fields: f}
	}
	if freshCell || strings.HasPrefix(loc, "A:") {
		if t != nil {
			return zeroValue(t)
		}
		return Top{}
	}
	return Sym{Name: "@" + x.intern(loc)}
}

// intern gives a location a short stable number so that symbol names stay flat.
func (x *Exec) intern(loc string) string {
	if id, ok := x.locID[loc]; ok {
		return id
	}
	id := fmt.Sprintf("%d", len(x.locID)+1)
	x.locID[loc] = id
	x.LocOf[id] = loc
	return id
}

func (x *Exec) store(s *State, p Value, v Value) {
	ptr, ok := p.(Ptr)
	if !ok {
		switch pv := p.(type) {
		case Sym, *Term:
			ptr = Ptr{Loc: "L:" + pv.Key()}
		default:
			return // store through ⊤: tracked cells are never aliased by ⊤ pointers (asserted by escape check)
		}
	}
	x.storeLoc(s, ptr.Loc, v)
}

func (x *Exec) storeLoc(s *State, loc string, v Value) {
	// drop sub-locations
	pre := loc + "·"
	pre2 := loc + "["
	for k := range s.Heap {
		if strings.HasPrefix(k, pre) || strings.HasPrefix(k, pre2) {
			delete(s.Heap, k)
		}
	}
	if sv, ok := v.(*Struct); ok {
		if st, ok := sv.T.Underlying().(*types.Struct); ok {
			delete(s.Heap, loc)
			for i := 0; i < st.NumFields() && i < len(sv.Fields); i++ {
				x.storeLoc(s, loc+"·"+st.Field(i).Name(), sv.Fields[i])
			}
			return
		}
	}
	s.Heap[loc] = v
}

// Load and Store give rules access to the abstract heap (used by call stubs).
func (x *Exec) Load(s *State, p Value, t types.Type) Value { return x.load(s, p, t) }
func (x *Exec) Store(s *State, p Value, v Value)           { x.store(s, p, v) }

// Fresh returns a new opaque symbol for a definition site.
func (x *Exec) Fresh(s *State, site string) Value { return x.fresh(s, site) }

// OrdOutcomes returns the outcomes of comparing a with b that are still
// possible in s, oriented as "a ? b" (nil if the pair was never compared).
func (x *Exec) OrdOutcomes(s *State, aKey, bKey string) []string {
	flip := false
	ka, kb := aKey, bKey
	if ka > kb {
		ka, kb = kb, ka
		flip = true
	}
	outs := x.Possible(s, "ord("+ka+","+kb+")")
	if outs == nil {
		return nil
	}
	if !flip {
		return outs
	}
	res := make([]string, len(outs))
	for i, o := range outs {
		switch o {
		case "<":
			res[i] = ">"
		case ">":
			res[i] = "<"
		default:
			res[i] = o
		}
	}
	return res
}

// havoc forgets everything stored under the cell that p points into.
func (x *Exec) havoc(s *State, p Value, why string) {
	ptr, ok := p.(Ptr)
	if !ok {
		return
	}
	base := ptr.Loc
	for k := range s.Heap {
		if k == base || strings.HasPrefix(k, base+"·") || strings.HasPrefix(k, base+"[") {
			s.Heap[k] = Top{}
		}
	}
	if _, ok := s.Heap[base]; !ok {
		s.Heap[base] = Top{}
	}
	_ = why
}

// ---------------------------------------------------------------------------
// evaluation helpers
// ---------------------------------------------------------------------------

func (x *Exec) val(s *State, f *Frame, v ssa.Value) Value {
	switch v := v.(type) {
	case *ssa.Const:
		return constOf(v)
	case *ssa.Function:
		return &Closure{Fn: v}
	case *ssa.Global:
		if x.globals == nil {
			x.globals = map[string]*ssa.Global{}
		}
		x.globals[v.String()] = v
		return Ptr{Loc: "G:" + v.String()}
	case *ssa.Builtin:
		return Sym{Name: "builtin:" + v.Name()}
	case *ssa.FreeVar:
		for i, fv := range f.Fn.FreeVars {
			if fv == v && i < len(f.Binds) {
				return f.Binds[i]
			}
		}
		return Top{}
	}
	if av, ok := f.Env[v]; ok {
		return av
	}
	return Top{}
}

// nilness: 0 unknown, 1 nil, 2 non-nil
func (x *Exec) nilness(s *State, v Value) int {
	switch v := v.(type) {
	case Const:
		if v.Nil {
			return 1
		}
		return 2
	case Ptr:
		if v.Fresh || strings.HasPrefix(v.Loc, "A:") || strings.HasPrefix(v.Loc, "G:") || strings.Contains(v.Loc, "·") || strings.Contains(v.Loc, "[") {
			return 2
		}
		return 0
	case *Closure, *Iface, *Struct:
		return 2
	case Sym, *Term:
		if m, ok := s.PC["nil("+v.Key()+")"]; ok {
			if m == 1 {
				return 1
			}
			if m == 2 {
				return 2
			}
		}
		if t, ok := v.(*Term); ok {
			switch t.Op {
			case "new", "addr", "append", "make", "call:fmt.Errorf", "call:errors.New":
				return 2
			}
		}
	}
	return 0
}

// AssumeNil narrows the nil atom of v.
func (x *Exec) AssumeNil(s *State, v Value, isNil bool) {
	a := Atom{Name: "nil(" + v.Key() + ")", Domain: []string{"nil", "nonnil"}}
	if isNil {
		x.Restrict(s, a, "nil")
	} else {
		x.Restrict(s, a, "nonnil")
	}
}

func ordAtom(a, b Value, op token.Token) (*Atom, bool) {
	ka, kb := a.Key(), b.Key()
	swapped := false
	if ka > kb {
		ka, kb = kb, ka
		swapped = true
		switch op {
		case token.LSS:
			op = token.GTR
		case token.GTR:
			op = token.LSS
		case token.LEQ:
			op = token.GEQ
		case token.GEQ:
			op = token.LEQ
		}
	}
	_ = swapped
	at := &Atom{Name: "ord(" + ka + "," + kb + ")", Domain: []string{"<", "=", ">"}}
	switch op {
	case token.LSS:
		at.True = []string{"<"}
	case token.LEQ:
		at.True = []string{"<", "="}
	case token.GTR:
		at.True = []string{">"}
	case token.GEQ:
		at.True = []string{">", "="}
	case token.EQL:
		at.True = []string{"="}
	case token.NEQ:
		at.True = []string{"<", ">"}
	default:
		return nil, false
	}
	return at, true
}

// atomFor maps a condition value onto an atom (or a definite boolean).
func (x *Exec) atomFor(s *State, cond Value) (definite bool, val bool, at *Atom) {
	if b, ok := asBool(cond); ok {
		return true, b, nil
	}
	if x.Hooks.Atom != nil {
		if a := x.Hooks.Atom(x, s, cond); a != nil {
			return false, false, a
		}
	}
	t, ok := cond.(*Term)
	if !ok {
		if _, isTop := cond.(Top); isTop {
			return false, false, nil
		}
		return false, false, &Atom{Name: "b(" + cond.Key() + ")", Domain: []string{"F", "T"}, True: []string{"T"}}
	}
	switch t.Op {
	case "!":
		d, v, a := x.atomFor(s, t.Args[0])
		if d {
			return true, !v, nil
		}
		if a == nil {
			return false, false, nil
		}
		// complement
		var tr []string
		for _, o := range a.Domain {
			in := false
			for _, y := range a.True {
				if y == o {
					in = true
				}
			}
			if !in {
				tr = append(tr, o)
			}
		}
		return false, false, &Atom{Name: a.Name, Domain: a.Domain, True: tr}
	case "==", "!=":
		a, b := t.Args[0], t.Args[1]
		neq := t.Op == "!="
		// nil tests
		for _, pr := range [][2]Value{{a, b}, {b, a}} {
			if c, ok := pr[1].(Const); ok && c.Nil {
				switch x.nilness(s, pr[0]) {
				case 1:
					return true, !neq, nil
				case 2:
					return true, neq, nil
				}
				at := &Atom{Name: "nil(" + pr[0].Key() + ")", Domain: []string{"nil", "nonnil"}, True: []string{"nil"}}
				if neq {
					at.True = []string{"nonnil"}
				}
				return false, false, at
			}
		}
		if a.Key() == b.Key() && !isTop(a) {
			return true, !neq, nil
		}
		if ordered(t) {
			op := token.EQL
			if neq {
				op = token.NEQ
			}
			at, _ := ordAtom(a, b, op)
			return false, false, at
		}
		ka, kb := a.Key(), b.Key()
		if ka > kb {
			ka, kb = kb, ka
		}
		at := &Atom{Name: "eq(" + ka + "," + kb + ")", Domain: []string{"F", "T"}, True: []string{"T"}}
		if neq {
			at.True = []string{"F"}
		}
		return false, false, at
	case "<", "<=", ">", ">=":
		var op token.Token
		switch t.Op {
		case "<":
			op = token.LSS
		case "<=":
			op = token.LEQ
		case ">":
			op = token.GTR
		default:
			op = token.GEQ
		}
		if isTop(t.Args[0]) || isTop(t.Args[1]) {
			return false, false, nil
		}
		at, _ := ordAtom(t.Args[0], t.Args[1], op)
		return false, false, at
	}
	return false, false, &Atom{Name: "b(" + cond.Key() + ")", Domain: []string{"F", "T"}, True: []string{"T"}}
}

// ordered: the == term compares values of an ordered kind (marked by binop).
func ordered(t *Term) bool {
	return len(t.Args) == 3
}

// branch returns the states for the true and false outcomes of cond (nil when impossible).
func (x *Exec) branch(s *State, cond Value) (tS, fS *State) {
	def, v, at := x.atomFor(s, cond)
	if def {
		if v {
			return s, nil
		}
		return nil, s
	}
	if at == nil {
		// ⊤ condition: both successors, nothing learnt
		t := s.clone()
		t.Path = append(t.Path, "⊤→T")
		s.Path = append(s.Path, "⊤→F")
		return t, s
	}
	if len(at.Domain) > 16 {
		panic("atom domain too large: " + at.Name)
	}
	x.domains[at.Name] = at.Domain
	full := uint16(1)<<uint(len(at.Domain)) - 1
	cur, ok := s.PC[at.Name]
	if !ok {
		cur = full
		// a negative literal against a value known not to be negative (a position, a length, a loop counter): only one
		// ordering is possible (pos == -1 after the search loop found the name is not a path)
		if t, isT := cond.(*Term); isT && len(t.Args) >= 2 && len(at.Domain) == 3 && strings.HasPrefix(at.Name, "ord(") {
			for i := 0; i < 2; i++ {
				k, isC := t.Args[i].(Const)
				if !isC || k.V == nil || k.V.Kind() != constant.Int || constant.Sign(k.V) >= 0 || !x.nonNeg(s, t.Args[1-i]) {
					continue
				}
				only := "<" // the literal is the first operand of the atom
				if t.Args[i].Key() > t.Args[1-i].Key() {
					only = ">"
				}
				for di, d := range at.Domain {
					if d == only {
						cur = 1 << uint(di)
					}
				}
			}
		}
	}
	if !ok && cur == full && len(at.Domain) == 3 && strings.HasPrefix(at.Name, "ord(") {
		// what earlier comparisons of the same value with other integer literals leave possible (len(l) == 1 settles len(l) == 0)
		if t, isT := cond.(*Term); isT && len(t.Args) >= 2 {
			for i := 0; i < 2; i++ {
				k, isC := t.Args[i].(Const)
				if _, otherC := t.Args[1-i].(Const); !isC || otherC || k.V == nil || k.V.Kind() != constant.Int {
					continue
				}
				// only for values that are integers for certain: lengths and counters (between two literals a
				// floating-point amount has room that an integer has not)
				if kv, exact := constant.Int64Val(k.V); exact && x.nonNeg(s, t.Args[1-i]) {
					lit := x.againstLiterals(s, t.Args[1-i], kv, t.Args[i].Key() < t.Args[1-i].Key())
					var tm0 uint16
					for di, d := range at.Domain {
						for _, y := range at.True {
							if d == y {
								tm0 |= 1 << uint(di)
							}
						}
					}
					// used only where it settles the test (one side impossible): a test that stays open keeps the
					// full domain, as before, so that states met again at a loop head still look alike
					if lit&tm0 == 0 || lit&^tm0 == 0 {
						cur = lit
					}
				}
			}
		}
	}
	var tm uint16
	for i, d := range at.Domain {
		for _, y := range at.True {
			if d == y {
				tm |= 1 << uint(i)
			}
		}
	}
	tmask, fmask := cur&tm, cur&^tm
	switch {
	case tmask == 0 && fmask == 0:
		return nil, nil
	case fmask == 0:
		if x.Hooks.Decide != nil && ok {
			x.Hooks.Decide(x, s, at.Name, x.Possible(s, at.Name))
		}
		return s, nil
	case tmask == 0:
		if x.Hooks.Decide != nil && ok {
			x.Hooks.Decide(x, s, at.Name, x.Possible(s, at.Name))
		}
		return nil, s
	}
	t := s.clone()
	t.PC[at.Name] = tmask
	t.Path = append(t.Path, at.Name+"→T")
	s.PC[at.Name] = fmask
	s.Path = append(s.Path, at.Name+"→F")
	if x.Hooks.Decide != nil {
		x.Hooks.Decide(x, t, at.Name, x.Possible(t, at.Name))
		x.Hooks.Decide(x, s, at.Name, x.Possible(s, at.Name))
	}
	return t, s
}

// ---------------------------------------------------------------------------
// control
// ---------------------------------------------------------------------------

// enterBlock moves the top frame to block b coming from pred, evaluates φs,
// applies widening and memoises. It pushes s on the worklist unless the state
// was seen before.
func (x *Exec) enterBlock(s *State, pred, b *ssa.BasicBlock, first bool) {
	f := s.top()
	x.Transitions++
	f.Visits[b.Index]++
	// φ evaluation (parallel)
	var phis []*ssa.Phi
	var vals []Value
	if pred != nil {
		idx := -1
		for i, p := range b.Preds {
			if p == pred {
				idx = i
				break
			}
		}
		for _, in := range b.Instrs {
			phi, ok := in.(*ssa.Phi)
			if !ok {
				break
			}
			phis = append(phis, phi)
			if idx >= 0 {
				vals = append(vals, x.val(s, f, phi.Edges[idx]))
			} else {
				vals = append(vals, Top{})
			}
		}
		for i, phi := range phis {
			f.Env[phi] = vals[i]
		}
	}
	f.Block = b
	x.gc(s)
	if pred != nil && isLoopHeader(b) {
		if b.Dominates(pred) {
			// back edge
			if x.Hooks.BackEdge != nil {
				x.Hooks.BackEdge(x, s, f, b)
			}
			if snap := f.Loops[b.Index]; snap != nil {
				snap.iters++
				// a loop whose exit test compares literals this time round (a range over a slice literal,
				// for i := 0; i < 3; i++) is followed exactly, iteration by iteration, up to a small bound
				if snap.iters > x.Unroll && !(snap.iters <= 12 && x.concreteHeader(s, f, b)) {
					if x.Widen {
						x.widen(s, f, b, snap, phis)
					}
					f.PC = 0
					hk := x.headKey(s)
					if prev := x.heads[hk]; prev == nil {
						x.heads[hk] = s.clone()
					} else {
						j, changed := x.join(prev, s)
						if !changed {
							return
						}
						x.heads[hk] = j.clone()
						s = j
						f = s.top()
						x.Joins++
					}
				}
			}
		} else {
			snap := &loopSnap{heap: map[string]string{}, pc: map[string]uint16{}, gens: map[string]int{}, phis: map[ssa.Value]string{}}
			for k, v := range s.Heap {
				snap.heap[k] = v.Key()
			}
			for k, v := range s.PC {
				snap.pc[k] = v
			}
			for k, v := range s.Gens {
				snap.gens[k] = v
			}
			for i, phi := range phis {
				snap.phis[phi] = vals[i].Key()
			}
			f.Loops[b.Index] = snap
		}
	}
	f.Block = b
	f.PC = 0
	for f.PC < len(b.Instrs) {
		if _, ok := b.Instrs[f.PC].(*ssa.Phi); ok {
			f.PC++
		} else {
			break
		}
	}
	x.prunePC(s)
	if x.Track != nil && pred != nil && len(b.Preds) > 1 && !(isLoopHeader(b) && b.Dominates(pred)) {
		f.PC = 0
		hk := "J" + x.headKey(s)
		if prev := x.heads[hk]; prev == nil {
			x.heads[hk] = s.clone()
		} else {
			j, changed := x.join(prev, s)
			if !changed {
				return
			}
			x.heads[hk] = j.clone()
			s = j
			f = s.top()
			x.Joins++
		}
	}
	f.PC = 0
	for f.PC < len(b.Instrs) {
		if _, ok := b.Instrs[f.PC].(*ssa.Phi); ok {
			f.PC++
		} else {
			break
		}
	}
	key := x.stateKey(s, false)
	if x.seen[key] {
		return
	}
	x.seen[key] = true
	x.States++
	if os.Getenv("HRTRACE") != "" {
		fmt.Fprintf(os.Stderr, "state %d: %s block %d (from %v) path=%v\n", x.States, f.Fn.Name(), b.Index, pred, s.Path)
	}
	if x.Debug != nil {
		x.Debug(x.headKey(s), key)
	}
	x.work = append(x.work, s)
}

func isLoopHeader(b *ssa.BasicBlock) bool {
	for _, p := range b.Preds {
		if b.Dominates(p) {
			return true
		}
	}
	return false
}

// widen generalises the state at a loop head after the exactly-explored
// iterations: everything the loop changed since it was entered becomes a
// symbol named after its location, facts learnt inside the loop are dropped,
// and symbol generations restart, so the next iteration reproduces this state
// and the memo table closes the loop.
func (x *Exec) widen(s *State, f *Frame, b *ssa.BasicBlock, snap *loopSnap, phis []*ssa.Phi) {
	for loc, v := range s.Heap {
		if old, ok := snap.heap[loc]; !ok || old != v.Key() {
			s.Heap[loc] = Sym{Name: "w@" + x.intern(loc)}
		}
	}
	for loc := range snap.heap {
		if _, ok := s.Heap[loc]; !ok {
			s.Heap[loc] = Sym{Name: "w@" + x.intern(loc)}
		}
	}
	for _, phi := range phis {
		if f.Env[phi].Key() != snap.phis[phi] {
			f.Env[phi] = Sym{Name: "wphi:" + siteName(f, phi)}
		}
	}
	for k, m := range s.PC {
		if x.Track != nil && x.Track(k) && !volatileAtom(k) {
			continue
		}
		if old, ok := snap.pc[k]; !ok || old != m || strings.Contains(k, "§w@") || strings.Contains(k, "§wphi:") {
			delete(s.PC, k)
		}
	}
	s.Gens = map[string]int{}
	for k, v := range snap.gens {
		s.Gens[k] = v
	}
}

// prunePC forgets facts about symbols that no live value, binding, deferred
// call or heap cell mentions any more. Dropping a fact only adds paths.
func (x *Exec) prunePC(s *State) {
	if len(s.PC) == 0 {
		return
	}
	live := map[string]bool{}
	for fi, f := range s.Frames {
		var lv map[ssa.Value]bool
		if fi == len(s.Frames)-1 {
			lv = x.liveIn(f.Fn)[f.Block]
		}
		for v, av := range f.Env {
			if lv != nil && !lv[v] {
				if phi, isPhi := v.(*ssa.Phi); !isPhi || phi.Block() != f.Block {
					continue
				}
			}
			symsIn(av.Key(), live)
		}
		for _, b := range f.Binds {
			symsIn(b.Key(), live)
		}
		for _, d := range f.Defers {
			if d.fn != nil {
				symsIn(d.fn.Key(), live)
			}
			for _, a := range d.args {
				symsIn(a.Key(), live)
			}
		}
	}
	for k, v := range s.Heap {
		symsIn(k, live)
		symsIn(v.Key(), live)
	}
	// a load symbol is as live as the symbols of its location
	for changed := true; changed; {
		changed = false
		for name := range live {
			if strings.HasPrefix(name, "@") || strings.HasPrefix(name, "w@") || strings.HasPrefix(name, "j@") {
				id := name[strings.IndexByte(name, '@')+1:]
				if loc, ok := x.LocOf[id]; ok {
					n := len(live)
					symsIn(loc, live)
					if len(live) != n {
						changed = true
					}
				}
			}
		}
	}
	tmp := map[string]bool{}
	for k := range s.PC {
		for n := range tmp {
			delete(tmp, n)
		}
		symsIn(k, tmp)
		for n := range tmp {
			if !x.symAlive(n, live, 0) {
				delete(s.PC, k)
				break
			}
		}
	}
}

// symAlive: a symbol is worth keeping facts about if something live mentions
// it, if it belongs to the root's inputs, or if it is the content of a location
// that can be read again because the location itself is still addressable.
func (x *Exec) symAlive(n string, live map[string]bool, depth int) bool {
	if live[n] || x.keepSym(n) {
		return true
	}
	if depth > 4 {
		return false
	}
	for _, pre := range []string{"@", "j@", "w@"} {
		if strings.HasPrefix(n, pre) {
			loc, ok := x.LocOf[n[len(pre):]]
			if !ok || strings.HasPrefix(loc, "A:") {
				return false
			}
			tmp := map[string]bool{}
			symsIn(loc, tmp)
			if len(tmp) == 0 {
				return strings.HasPrefix(loc, "G:") || strings.HasPrefix(loc, "fv:")
			}
			for m := range tmp {
				if m == n || !x.symAlive(m, live, depth+1) {
					return false
				}
			}
			return true
		}
	}
	return false
}

// keepSym: facts about the root's parameters and about the initial contents of
// memory reachable from them (or from its captured variables) are never pruned.
func (x *Exec) keepSym(n string) bool {
	if x.KeepSyms[n] {
		return true
	}
	if strings.HasPrefix(n, "@") {
		loc, ok := x.LocOf[n[1:]]
		if !ok {
			return false
		}
		if strings.HasPrefix(loc, "fv:") {
			return true
		}
		tmp := map[string]bool{}
		symsIn(loc, tmp)
		if len(tmp) == 0 {
			return false
		}
		for m := range tmp {
			if m == n || !x.keepSym(m) {
				return false
			}
		}
		return true
	}
	return false
}

// headKey identifies a loop head by position and property state only.
func (x *Exec) headKey(s *State) string {
	var sb strings.Builder
	for _, f := range s.Frames {
		fmt.Fprintf(&sb, "%s:%d.%d/d%d;", f.Ctx, f.Block.Index, f.PC, len(f.Defers))
	}
	sb.WriteString("|O:" + s.Obs)
	if len(s.Data) > 0 {
		var dk []string
		for k, v := range s.Data {
			dk = append(dk, k+"="+v)
		}
		sort.Strings(dk)
		sb.WriteString("|D:" + strings.Join(dk, ";"))
	}
	if x.Track != nil {
		var pk []string
		for k, m := range s.PC {
			if x.Track(k) {
				pk = append(pk, fmt.Sprintf("%s:%d", k, m))
			}
		}
		sort.Strings(pk)
		sb.WriteString("|T:" + strings.Join(pk, ";"))
	}
	return sb.String()
}

// concreteHeader: the loop header b ends in a test whose two operands evaluate
// to integer literals in the current state.
func (x *Exec) concreteHeader(s *State, f *Frame, b *ssa.BasicBlock) bool {
	if len(b.Instrs) == 0 {
		return false
	}
	iff, ok := b.Instrs[len(b.Instrs)-1].(*ssa.If)
	if !ok {
		return false
	}
	cmp, ok := iff.Cond.(*ssa.BinOp)
	if !ok {
		return false
	}
	switch cmp.Op {
	case token.LSS, token.LEQ, token.GTR, token.GEQ, token.NEQ, token.EQL:
	default:
		return false
	}
	_, ok1 := x.concreteInt(s, f, cmp.X, 0)
	_, ok2 := x.concreteInt(s, f, cmp.Y, 0)
	return ok1 && ok2
}

func (x *Exec) concreteInt(s *State, f *Frame, v ssa.Value, depth int) (int64, bool) {
	if depth > 4 {
		return 0, false
	}
	if c, ok := v.(*ssa.Const); ok {
		if c.Value != nil && c.Value.Kind() == constant.Int {
			return c.Int64(), true
		}
		return 0, false
	}
	if ev, ok := f.Env[v]; ok {
		if c, ok := ev.(Const); ok && c.V != nil && c.V.Kind() == constant.Int {
			n, exact := constant.Int64Val(c.V)
			return n, exact
		}
	}
	switch t := v.(type) {
	case *ssa.BinOp:
		a, ok1 := x.concreteInt(s, f, t.X, depth+1)
		b, ok2 := x.concreteInt(s, f, t.Y, depth+1)
		if !ok1 || !ok2 {
			return 0, false
		}
		switch t.Op {
		case token.ADD:
			return a + b, true
		case token.SUB:
			return a - b, true
		}
	case *ssa.Call:
		if bi, ok := t.Call.Value.(*ssa.Builtin); ok && bi.Name() == "len" && len(t.Call.Args) == 1 {
			// len of a slice taken of a whole array: s := arr[:]
			if sl, ok := t.Call.Args[0].(*ssa.Slice); ok && sl.Low == nil && sl.High == nil {
				if pt, ok := sl.X.Type().Underlying().(*types.Pointer); ok {
					if at, ok := pt.Elem().Underlying().(*types.Array); ok {
						return at.Len(), true
					}
				}
			}
		}
	}
	return 0, false
}

// nonNeg: v is an integer known to be >= 0 in s (a literal, a generalised
// counter that carries that fact, or such a value plus a non-negative literal).
func (x *Exec) nonNeg(s *State, v Value) bool {
	switch t := v.(type) {
	case Const:
		return t.V != nil && t.V.Kind() == constant.Int && constant.Sign(t.V) >= 0
	case Sym:
		if !strings.HasPrefix(t.Name, "j:") {
			return false
		}
		outs := x.OrdOutcomes(s, "c:0", t.Key())
		if outs == nil {
			return false
		}
		for _, o := range outs {
			if o == ">" {
				return false
			}
		}
		return true
	case *Term:
		if t.Op == "len" || t.Op == "cap" {
			return true
		}
		if t.Op != "+" || len(t.Args) != 2 {
			return false
		}
		return x.nonNeg(s, t.Args[0]) && x.nonNeg(s, t.Args[1])
	}
	return false
}

func volatileAtom(k string) bool {
	return strings.Contains(k, "#") || strings.Contains(k, "§w@") || strings.Contains(k, "§wphi:") || strings.Contains(k, "§j")
}

func joinVal(a, b Value, name string) (Value, bool) {
	if a.Key() == b.Key() {
		return a, false
	}
	j := Sym{Name: name}
	if a.Key() == j.Key() {
		return a, false
	}
	if ca, ok := a.(*Closure); ok {
		if cb, ok := b.(*Closure); ok && ca.Fn == cb.Fn && len(ca.Binds) == len(cb.Binds) {
			out := &Closure{Fn: ca.Fn, Binds: make([]Value, len(ca.Binds))}
			ch := false
			for i := range ca.Binds {
				v, c := joinVal(ca.Binds[i], cb.Binds[i], fmt.Sprintf("%s-b%d", name, i))
				out.Binds[i] = v
				ch = ch || c
			}
			return out, ch
		}
	}
	return j, true
}

// join generalises prev (the state remembered at a loop head) so that it also
// covers cur. It reports whether prev had to change; if not, cur adds nothing.
func (x *Exec) join(prev, cur *State) (*State, bool) {
	out := prev.clone()
	changed := false
	var nonNegSyms []string
	for fi, pf := range out.Frames {
		cf := cur.Frames[fi]
		for v, pv := range pf.Env {
			cv, ok := cf.Env[v]
			if !ok {
				continue
			}
			nv, ch := joinVal(pv, cv, "j:"+pf.Ctx+"/"+v.Name())
			if ch {
				pf.Env[v] = nv
				changed = true
				// a counter that is non-negative on both arrivals stays non-negative (loop indices start at a
				// literal and grow): keep that one fact about the generalised value
				if js, isSym := nv.(Sym); isSym && x.nonNeg(prev, pv) && x.nonNeg(cur, cv) {
					nonNegSyms = append(nonNegSyms, js.Key())
				}
			}
		}
		for v, cv := range cf.Env {
			if _, ok := pf.Env[v]; !ok {
				pf.Env[v] = cv
			}
		}
		for i := range pf.Defers {
			if i < len(cf.Defers) {
				for ai := range pf.Defers[i].args {
					if ai < len(cf.Defers[i].args) {
						nv, ch := joinVal(pf.Defers[i].args[ai], cf.Defers[i].args[ai], fmt.Sprintf("j:%s/defer%d.%d", pf.Ctx, i, ai))
						if ch {
							pf.Defers[i].args[ai] = nv
							changed = true
						}
					}
				}
			}
		}
		// loop bookkeeping follows the current path
		pf.Loops = make(map[int]*loopSnap, len(cf.Loops))
		for k, v := range cf.Loops {
			c := *v
			pf.Loops[k] = &c
		}
	}
	for loc, pv := range out.Heap {
		cv, ok := cur.Heap[loc]
		if !ok {
			j := Sym{Name: "j@" + x.intern(loc)}
			if pv.Key() != j.Key() {
				out.Heap[loc] = j
				changed = true
			}
			continue
		}
		nv, ch := joinVal(pv, cv, "j@"+x.intern(loc))
		if ch {
			out.Heap[loc] = nv
			changed = true
		}
	}
	for loc := range cur.Heap {
		if _, ok := out.Heap[loc]; !ok {
			out.Heap[loc] = Sym{Name: "j@" + x.intern(loc)}
			changed = true
		}
	}
	for k, m := range out.PC {
		if cm, ok := cur.PC[k]; !ok || cm != m {
			delete(out.PC, k)
			changed = true
		}
	}
	for _, kb := range nonNegSyms {
		ka := "c:0"
		if ka < kb {
			x.Restrict(out, Atom{Name: "ord(" + ka + "," + kb + ")", Domain: []string{"<", "=", ">"}}, "<", "=")
		} else {
			x.Restrict(out, Atom{Name: "ord(" + kb + "," + ka + ")", Domain: []string{"<", "=", ">"}}, ">", "=")
		}
	}
	out.Trace = append([]string(nil), cur.Trace...)
	out.Path = append([]string(nil), cur.Path...)
	return out, changed
}

// gc drops fresh cells that nothing live refers to any more.
func (x *Exec) gc(s *State) {
	has := false
	for k := range s.Heap {
		if strings.HasPrefix(k, "A:") {
			has = true
			break
		}
	}
	if !has {
		return
	}
	reach := map[string]bool{}
	var work []string
	var mark func(v Value)
	mark = func(v Value) {
		switch v := v.(type) {
		case Ptr:
			base := cellBase(v.Loc)
			if !reach[base] {
				reach[base] = true
				work = append(work, base)
			}
		case *Term:
			for _, a := range v.Args {
				mark(a)
			}
		case *Iface:
			mark(v.V)
		case *Struct:
			for _, a := range v.Fields {
				mark(a)
			}
		case *Tuple:
			for _, a := range v.Elems {
				mark(a)
			}
		case *Closure:
			for _, a := range v.Binds {
				mark(a)
			}
		case Sym:
			_ = v
		}
	}
	for fi, f := range s.Frames {
		var live map[ssa.Value]bool
		if fi == len(s.Frames)-1 {
			live = x.liveIn(f.Fn)[f.Block]
		}
		for v, av := range f.Env {
			if live != nil && !live[v] {
				if _, isPhi := v.(*ssa.Phi); !isPhi || v.(*ssa.Phi).Block() != f.Block {
					continue
				}
			}
			mark(av)
		}
		for _, b := range f.Binds {
			mark(b)
		}
		for _, d := range f.Defers {
			if d.fn != nil {
				mark(d.fn)
			}
			for _, a := range d.args {
				mark(a)
			}
		}
	}
	for k, v := range s.Heap {
		if !strings.HasPrefix(k, "A:") {
			mark(v)
			// a symbolic location may itself be rooted at a fresh cell
			if i := strings.Index(k, "A:"); i > 0 {
				mark(Ptr{Loc: k[i:]})
			}
		}
	}
	for len(work) > 0 {
		base := work[len(work)-1]
		work = work[:len(work)-1]
		for k, v := range s.Heap {
			if k == base || strings.HasPrefix(k, base+"·") || strings.HasPrefix(k, base+"[") {
				mark(v)
			}
		}
	}
	for k := range s.Heap {
		if strings.HasPrefix(k, "A:") && !reach[cellBase(k)] {
			delete(s.Heap, k)
		}
	}
}

// cellBase cuts a location down to its allocation cell "A:site#gen".
func cellBase(loc string) string {
	i := strings.IndexByte(loc, '#')
	if i < 0 {
		return loc
	}
	j := i + 1
	for j < len(loc) && loc[j] >= '0' && loc[j] <= '9' {
		j++
	}
	return loc[:j]
}

// run executes s until it forks, terminates or is memoised away.
func (x *Exec) run(s *State) {
	for {
		if len(s.Frames) == 0 {
			return
		}
		f := s.top()
		if f.PC >= len(f.Block.Instrs) {
			x.problem("fell off block %d of %s", f.Block.Index, f.Fn)
			return
		}
		in := f.Block.Instrs[f.PC]
		if x.Hooks.Instr != nil {
			x.Hooks.Instr(x, s, in)
		}
		switch in := in.(type) {
		case *ssa.If:
			cond := x.val(s, f, in.Cond)
			tS, fS := x.branch(s, cond)
			b := f.Block
			if tS != nil {
				x.enterBlock(tS, b, b.Succs[0], false)
			}
			if fS != nil {
				x.enterBlock(fS, b, b.Succs[1], false)
			}
			return
		case *ssa.Jump:
			b := f.Block
			x.enterBlock(s, b, b.Succs[0], false)
			return
		case *ssa.Return:
			var rets []Value
			for _, r := range in.Results {
				rets = append(rets, x.val(s, f, r))
			}
			if !x.doReturn(s, rets, in.Pos()) {
				return
			}
			continue
		case *ssa.Panic:
			s.Event("panic %s", x.val(s, f, in.X).Key())
			x.terminal("panic", []Value{x.val(s, f, in.X)}, s, in.Pos())
			return
		case *ssa.RunDefers:
			if len(f.Defers) > 0 {
				d := f.Defers[len(f.Defers)-1]
				f.Defers = f.Defers[:len(f.Defers)-1]
				// stay on RunDefers until the stack is empty
				if !x.invoke(s, nil, d.stat, d.fn, d.args, true, d.site) {
					return
				}
				continue
			}
			f.PC++
			continue
		}
		if !x.step(s, f, in) {
			return
		}
	}
}

// doReturn pops the top frame; false means the path ended (terminal recorded).
func (x *Exec) doReturn(s *State, rets []Value, pos token.Pos) bool {
	f := s.top()
	if len(s.Frames) == 1 {
		x.terminal("return", rets, s, pos)
		return false
	}
	s.Frames = s.Frames[:len(s.Frames)-1]
	caller := s.top()
	if f.IsDef {
		// back to the caller's RunDefers instruction
		return true
	}
	if f.Site != nil {
		if v := f.Site.Value(); v != nil {
			switch len(rets) {
			case 0:
			case 1:
				caller.Env[v] = rets[0]
			default:
				caller.Env[v] = &Tuple{Elems: rets}
			}
		}
	}
	caller.PC++
	return true
}

func (x *Exec) onStack(s *State, fn *ssa.Function) bool {
	for _, f := range s.Frames {
		if f.Fn == fn {
			return true
		}
	}
	return false
}

// invoke calls callee (static) or fnv (closure) with args. For ordinary calls
// site is the call instruction; for deferred calls isDef is true. It returns
// false if the path ended.
func (x *Exec) invoke(s *State, site ssa.CallInstruction, callee *ssa.Function, fnv Value, args []Value, isDef bool, dsite *ssa.Defer) bool {
	f := s.top()
	var binds []Value
	if callee == nil {
		if c, ok := fnv.(*Closure); ok {
			callee = c.Fn
			binds = c.Binds
		}
	} else if c, ok := fnv.(*Closure); ok && c.Fn == callee {
		binds = c.Binds
	}
	var csite ssa.CallInstruction = site
	if isDef {
		csite = dsite
	}
	if x.Hooks.Call != nil && csite != nil {
		if res, handled := x.Hooks.Call(x, s, csite, callee, fnv, args); handled {
			if !isDef && site != nil {
				if v := site.Value(); v != nil && res != nil {
					f.Env[v] = res
				}
				f.PC++
			}
			return true
		}
	}
	inline := callee != nil && len(callee.Blocks) > 0 && x.InScope(callee) && len(s.Frames) <= x.MaxDepth && !x.onStack(s, callee)
	if x.Hooks.Inline != nil && callee != nil && len(callee.Blocks) > 0 {
		inline = x.Hooks.Inline(callee, len(s.Frames)) && !x.onStack(s, callee) && len(s.Frames) <= x.MaxDepth+2
	}
	if inline {
		nf := &Frame{Fn: callee, Env: map[ssa.Value]Value{}, Site: site, IsDef: isDef, Binds: binds, Visits: map[int]int{}, PhiOld: map[ssa.Value]string{}, Loops: map[int]*loopSnap{}}
		if csite != nil {
			nf.Ctx = siteCtx(f, csite.(ssa.Instruction))
		} else {
			nf.Ctx = f.Ctx + ">"
		}
		for i, p := range callee.Params {
			if i < len(args) {
				nf.Env[p] = args[i]
			} else {
				nf.Env[p] = Top{}
			}
		}
		s.Frames = append(s.Frames, nf)
		if x.Hooks.Enter != nil {
			x.Hooks.Enter(x, s, callee)
		}
		nf.Block = callee.Blocks[0]
		nf.PC = 0
		nf.Visits[0] = 1
		return true
	}
	// unknown call
	res := x.unknownCall(s, f, csite, callee, fnv, args)
	if !isDef && site != nil {
		if v := site.Value(); v != nil {
			f.Env[v] = res
		}
		f.PC++
	}
	return true
}

func siteCtx(f *Frame, in ssa.Instruction) string {
	idx := 0
	for i, o := range in.Block().Instrs {
		if o == in {
			idx = i
		}
	}
	return fmt.Sprintf("%s>%d.%d", f.Ctx, in.Block().Index, idx)
}

// pure external functions: modelled as uninterpreted function symbols.
func pureExternal(name string) bool {
	if strings.HasPrefix(name, "strings.") || strings.HasPrefix(name, "strconv.") || strings.HasPrefix(name, "math.") ||
		strings.HasPrefix(name, "unicode.") || strings.HasPrefix(name, "unicode/utf8.") || strings.HasPrefix(name, "path.") ||
		strings.HasPrefix(name, "path/filepath.") || strings.HasPrefix(name, "errors.") {
		return true
	}
	switch name {
	case "fmt.Sprintf", "fmt.Sprint", "fmt.Sprintln", "fmt.Errorf", "os.IsNotExist", "os.IsExist",
		"(time.Time).Equal", "(time.Time).After", "(time.Time).Before", "(time.Time).AddDate", "(time.Time).Add",
		"(time.Time).Local", "(time.Time).UTC", "(time.Time).Format", "(time.Time).IsZero", "(time.Time).Sub",
		"(time.Time).Year", "(time.Time).Month", "(time.Time).Day", "(time.Time).Location", "(time.Time).Date", "strconv.FormatFloat", "time.Date", "time.Parse",
		"(time.Duration).Hours", "regexp.MatchString", "regexp.Compile", "regexp.CompilePOSIX", "(*regexp.Regexp).MatchString", "(*regexp.Regexp).Match", "sort.Strings", "sort.Sort", "sort.Stable",
		"github.com/aquilax/truncate.Truncate", "(*os.File).Close", "os.Stat":
		return true
	}
	return false
}

func (x *Exec) unknownCall(s *State, f *Frame, site ssa.CallInstruction, callee *ssa.Function, fnv Value, args []Value) Value {
	name := "?"
	if callee != nil {
		name = callee.String()
	} else if site != nil && site.Common().IsInvoke() {
		name = "invoke:" + site.Common().Method.FullName()
	} else if fnv != nil {
		name = "dyn"
	}
	var sig *types.Signature
	if site != nil {
		sig = site.Common().Signature()
	}
	pure := pureExternal(name)
	if !pure {
		for _, a := range args {
			if p, ok := a.(Ptr); ok && (strings.HasPrefix(p.Loc, "A:") || strings.HasPrefix(p.Loc, "fv:")) {
				x.havoc(s, p, name)
			}
			if c, ok := a.(*Closure); ok {
				for _, b := range c.Binds {
					if p, ok := b.(Ptr); ok {
						x.havoc(s, p, name)
					}
				}
			}
		}
		s.Event("call %s", name)
	}
	if sig == nil || sig.Results().Len() == 0 {
		return Const{}
	}
	mk := func(i int, t types.Type) Value {
		if pure {
			op := "call:" + name
			if sig.Results().Len() > 1 {
				op = fmt.Sprintf("call:%s#%d", name, i)
			}
			return NewTerm(op, args...)
		}
		var in ssa.Instruction
		if site != nil {
			in = site.(ssa.Instruction)
		}
		nm := "call:" + CleanName(name)
		if in != nil && in.Block() != nil {
			nm = "call:" + CleanName(name) + "@" + siteName(f, in)
		}
		if sig.Results().Len() > 1 {
			nm = fmt.Sprintf("%s.%d", nm, i)
		}
		return x.fresh(s, nm)
	}
	if sig.Results().Len() == 1 {
		return mk(0, sig.Results().At(0).Type())
	}
	el := make([]Value, sig.Results().Len())
	for i := range el {
		el[i] = mk(i, sig.Results().At(i).Type())
	}
	return &Tuple{Elems: el}
}

// step executes one non-control instruction; false ends the path.
func (x *Exec) step(s *State, f *Frame, in ssa.Instruction) bool {
	switch in := in.(type) {
	case *ssa.Alloc:
		site := "A:" + siteName(f, in)
		g := s.Gens[site]
		loc := fmt.Sprintf("%s#%d", site, g)
		if g >= genCap {
			loc = fmt.Sprintf("%s#%d", site, genCap)
			// recycle: forget the old cell's contents and references
			for k := range s.Heap {
				if k == loc || strings.HasPrefix(k, loc+"·") || strings.HasPrefix(k, loc+"[") {
					delete(s.Heap, k)
				}
			}
		} else {
			s.Gens[site] = g + 1
		}
		f.Env[in] = Ptr{Loc: loc, Fresh: true}
	case *ssa.Store:
		addr, val := x.val(s, f, in.Addr), x.val(s, f, in.Val)
		switch av := addr.(type) {
		case Sym, *Term:
			addr = Ptr{Loc: "L:" + av.Key()}
		}
		if x.Hooks.Store != nil {
			x.Hooks.Store(x, s, in, addr, val)
		}
		x.derefCheck(s, in, addr)
		x.store(s, addr, val)
	case *ssa.UnOp:
		xv := x.val(s, f, in.X)
		switch in.Op {
		case token.MUL:
			if g, ok := in.X.(*ssa.Global); ok && x.FuncVars[g] != nil {
				// a write-once package variable that holds a function (var openFile = os.Open)
				f.Env[in] = x.val(s, f, x.FuncVars[g])
				break
			}
			if g, ok := in.X.(*ssa.Global); ok && x.NilVars[g] {
				// a function variable nothing ever sets (a diagnostics hook): nil for good
				f.Env[in] = Const{Nil: true}
				break
			}
			if g, ok := in.X.(*ssa.Global); ok {
				if text, isErr := x.ErrVars[g]; isErr {
					// a sentinel error: the value errors.New gave it once and for all
					f.Env[in] = NewTerm("call:errors.New", Const{V: constant.MakeString(text)})
					break
				}
			}
			if g, ok := in.X.(*ssa.Global); ok {
				x.materialise(s, g)
			}
			if fa, ok := in.X.(*ssa.FieldAddr); ok && x.FuncField != nil {
				if fn := x.FuncField(fa.X.Type(), fa.Field); fn != nil {
					f.Env[in] = x.val(s, f, fn) // a field only one function is ever stored into
					break
				}
			}
			x.derefCheck(s, in, xv)
			f.Env[in] = x.load(s, xv, in.Type())
			if x.Hooks.Load != nil {
				av := xv
				switch p := xv.(type) {
				case Sym, *Term:
					av = Ptr{Loc: "L:" + p.Key()}
				}
				x.Hooks.Load(x, s, in, av, f.Env[in])
			}
		case token.NOT:
			if b, ok := asBool(xv); ok {
				f.Env[in] = boolConst(!b)
			} else if t, ok := xv.(*Term); ok && t.Op == "!" {
				f.Env[in] = t.Args[0]
			} else {
				f.Env[in] = NewTerm("!", xv)
			}
		case token.SUB:
			if c, ok := xv.(Const); ok && c.V != nil {
				f.Env[in] = Const{V: constant.UnaryOp(token.SUB, c.V, 0)}
			} else {
				f.Env[in] = NewTerm("neg", xv)
			}
		case token.ARROW:
			f.Env[in] = x.fresh(s, "recv:"+siteName(f, in))
		default:
			f.Env[in] = NewTerm("un"+in.Op.String(), xv)
		}
	case *ssa.BinOp:
		a, b := x.val(s, f, in.X), x.val(s, f, in.Y)
		if v, ok := x.decidedNilTest(s, in.Op, a, b); ok {
			f.Env[in] = v
			break
		}
		f.Env[in] = x.binop(in, a, b)
	case *ssa.FieldAddr:
		base := x.val(s, f, in.X)
		x.derefCheck(s, in, base)
		name := fieldName(in.X.Type(), in.Field)
		switch b := base.(type) {
		case Ptr:
			f.Env[in] = Ptr{Loc: b.Loc + "·" + name, Fresh: b.Fresh}
		case Sym, *Term:
			f.Env[in] = Ptr{Loc: "L:" + b.Key() + "·" + name}
		default:
			f.Env[in] = Top{}
		}
	case *ssa.Field:
		base := x.val(s, f, in.X)
		switch b := base.(type) {
		case *Struct:
			if in.Field < len(b.Fields) {
				f.Env[in] = b.Fields[in.Field]
			} else {
				f.Env[in] = Top{}
			}
		case Top:
			f.Env[in] = Top{}
		case Const:
			f.Env[in] = zeroValue(in.Type())
		default:
			f.Env[in] = NewTerm("field", base, Const{V: constant.MakeString(fieldNameV(in.X.Type(), in.Field))})
		}
	case *ssa.IndexAddr:
		base, idx := x.val(s, f, in.X), x.val(s, f, in.Index)
		switch b := base.(type) {
		case Ptr:
			f.Env[in] = Ptr{Loc: b.Loc + "[" + idx.Key() + "]", Fresh: b.Fresh}
		case Sym, *Term:
			if t, ok := b.(*Term); ok && t.Op == "slice" && len(t.Args) == 3 {
				// an element of arr[:] (a slice literal) is the element of the array itself
				if p, ok := t.Args[0].(Ptr); ok && (t.Args[1].Key() == "zero" || t.Args[1].Key() == "c:0") {
					if ic, isC := idx.(Const); isC && ic.V != nil && ic.V.Kind() == constant.Int {
						if k, exact := constant.Int64Val(ic.V); exact && k >= 0 && k < x.arrayLen[p.Loc] {
							f.Env[in] = Ptr{Loc: p.Loc + "[" + idx.Key() + "]", Fresh: p.Fresh}
							break
						}
					}
				}
			}
			f.Env[in] = Ptr{Loc: "L:" + b.Key() + "[" + idx.Key() + "]"}
		default:
			f.Env[in] = Top{}
		}
	case *ssa.Index:
		f.Env[in] = NewTerm("index", x.val(s, f, in.X), x.val(s, f, in.Index))
	case *ssa.Lookup:
		m, k := x.val(s, f, in.X), x.val(s, f, in.Index)
		if kc, isConst := k.(Const); isConst && kc.V != nil {
			if ld, ok := in.X.(*ssa.UnOp); ok && ld.Op == token.MUL {
				if g, ok := ld.X.(*ssa.Global); ok {
					if tab := x.constTable(g); tab != nil {
						// a package-level lookup table that is filled from constants in init and never written again
						ev, found := tab[kc.V.ExactString()]
						if !found {
							ev = zeroConst(in.X.Type().Underlying().(*types.Map).Elem())
						}
						if in.CommaOk {
							f.Env[in] = &Tuple{Elems: []Value{ev, Const{V: constant.MakeBool(found)}}}
						} else {
							f.Env[in] = ev
						}
						break
					}
				}
			}
		}
		v := NewTerm("lookup", m, k)
		if in.CommaOk {
			f.Env[in] = &Tuple{Elems: []Value{v, NewTerm("has", m, k)}}
		} else {
			f.Env[in] = v
		}
	case *ssa.MapUpdate:
		m, k, v := x.val(s, f, in.Map), x.val(s, f, in.Key), x.val(s, f, in.Value)
		if x.Hooks.MapUpdate != nil {
			x.Hooks.MapUpdate(x, s, in, m, k, v)
		}
		s.Event("mapupdate %s[%s]=%s", m.Key(), k.Key(), v.Key())
	case *ssa.Extract:
		tv := x.val(s, f, in.Tuple)
		if t, ok := tv.(*Tuple); ok && in.Index < len(t.Elems) {
			f.Env[in] = t.Elems[in.Index]
		} else if _, isTop := tv.(Top); isTop {
			f.Env[in] = Top{}
		} else {
			f.Env[in] = NewTerm(fmt.Sprintf("extract#%d", in.Index), tv)
		}
	case *ssa.MakeInterface:
		f.Env[in] = &Iface{T: in.X.Type(), V: x.val(s, f, in.X)}
	case *ssa.ChangeInterface:
		f.Env[in] = x.val(s, f, in.X)
	case *ssa.ChangeType:
		f.Env[in] = x.val(s, f, in.X)
	case *ssa.SliceToArrayPointer:
		f.Env[in] = x.val(s, f, in.X)
	case *ssa.MultiConvert:
		f.Env[in] = x.val(s, f, in.X)
	case *ssa.Convert:
		xv := x.val(s, f, in.X)
		if c, ok := xv.(Const); ok && c.V != nil {
			f.Env[in] = convertConst(c, in.Type())
		} else {
			f.Env[in] = xv
		}
	case *ssa.MakeClosure:
		c := &Closure{Fn: in.Fn.(*ssa.Function)}
		for _, b := range in.Bindings {
			c.Binds = append(c.Binds, x.val(s, f, b))
		}
		f.Env[in] = c
	case *ssa.MakeMap:
		f.Env[in] = x.fresh(s, "map:"+siteName(f, in))
		x.AssumeNil(s, f.Env[in], false)
	case *ssa.MakeSlice:
		f.Env[in] = NewTerm("make", x.fresh(s, "slice:"+siteName(f, in)), x.val(s, f, in.Len))
	case *ssa.MakeChan:
		f.Env[in] = NewTerm("makechan", x.val(s, f, in.Size))
	case *ssa.Slice:
		base := x.val(s, f, in.X)
		whole := in.High == nil
		if hc, ok := in.High.(*ssa.Const); ok && in.Max == nil {
			// arr[:n] with n the length of the array (what make(T, n) with a constant n compiles to) is arr[:]
			if pt, ok := in.X.Type().Underlying().(*types.Pointer); ok {
				if at, ok := pt.Elem().Underlying().(*types.Array); ok && hc.Value != nil && hc.Value.Kind() == constant.Int && hc.Int64() == at.Len() {
					whole = true
				}
			}
		}
		if p, ok := base.(Ptr); ok && in.Low == nil && whole {
			if pt, ok := in.X.Type().Underlying().(*types.Pointer); ok {
				if at, ok := pt.Elem().Underlying().(*types.Array); ok {
					if x.arrayLen == nil {
						x.arrayLen = map[string]int64{}
					}
					x.arrayLen[p.Loc] = at.Len() // arr[:] of a literal: its cells are arr's cells
					if isStepType(at.Elem()) {
						if x.stepLists == nil {
							x.stepLists = map[string]bool{}
						}
						x.stepLists[p.Loc] = true
					}
				}
			}
		}
		if whole && in.Low == nil {
			f.Env[in] = NewTerm("slice", base, Const{}, Const{})
		} else {
			f.Env[in] = NewTerm("slice", base, x.optVal(s, f, in.Low), x.optVal(s, f, in.High))
		}
	case *ssa.TypeAssert:
		xv := x.val(s, f, in.X)
		var inner Value = NewTerm("assert:"+in.AssertedType.String(), xv)
		okv := Value(NewTerm("is:"+in.AssertedType.String(), xv))
		if iv, ok := xv.(*Iface); ok {
			if types.Identical(iv.T, in.AssertedType) {
				inner, okv = iv.V, boolConst(true)
			} else if _, isI := in.AssertedType.Underlying().(*types.Interface); isI {
				inner, okv = iv, boolConst(true)
			} else {
				okv = boolConst(false)
			}
		}
		if in.CommaOk {
			f.Env[in] = &Tuple{Elems: []Value{inner, okv}}
		} else {
			f.Env[in] = inner
		}
	case *ssa.Range:
		f.Env[in] = NewTerm("range", x.val(s, f, in.X))
	case *ssa.Next:
		site := siteName(f, in)
		f.Env[in] = &Tuple{Elems: []Value{x.fresh(s, "next.ok:"+site), x.fresh(s, "next.k:"+site), x.fresh(s, "next.v:"+site)}}
	case *ssa.Send:
		ch, v := x.val(s, f, in.Chan), x.val(s, f, in.X)
		if x.Hooks.Send != nil {
			x.Hooks.Send(x, s, in, ch, v)
		}
		s.Event("send %s <- %s", ch.Key(), v.Key())
	case *ssa.Select:
		s.Event("select")
		f.Env[in] = Top{}
	case *ssa.Go:
		s.Event("go")
	case *ssa.Defer:
		d := deferred{site: in}
		d.stat = in.Call.StaticCallee()
		if !in.Call.IsInvoke() {
			d.fn = x.val(s, f, in.Call.Value)
		}
		for _, a := range in.Call.Args {
			d.args = append(d.args, x.val(s, f, a))
		}
		if in.Call.IsInvoke() {
			recv := x.val(s, f, in.Call.Value)
			d.stat, d.fn, d.args = x.resolveInvoke(recv, in.Call.Method, d.args)
			if d.stat == nil {
				d.fn = NewTerm("method:"+in.Call.Method.Name(), recv)
			}
		}
		// a defer inside a loop piles up one entry per iteration: keep at most two per site
		same := 0
		for _, e := range f.Defers {
			if e.site == in {
				same++
			}
		}
		if same < 2 {
			f.Defers = append(f.Defers, d)
		}
	case *ssa.Call:
		return x.call(s, f, in)
	case *ssa.DebugRef:
	default:
		if v, ok := in.(ssa.Value); ok {
			f.Env[v] = Top{}
			x.problem("unmodelled instruction %T in %s", in, f.Fn)
		}
	}
	f.PC++
	return true
}

func (x *Exec) optVal(s *State, f *Frame, v ssa.Value) Value {
	if v == nil {
		return Const{}
	}
	return x.val(s, f, v)
}

func convertConst(c Const, t types.Type) Value {
	if b, ok := t.Underlying().(*types.Basic); ok {
		switch {
		case b.Info()&types.IsFloat != 0:
			return Const{V: constant.ToFloat(c.V)}
		case b.Info()&types.IsInteger != 0 && c.V.Kind() == constant.Int:
			return c
		case b.Info()&types.IsString != 0 && c.V.Kind() == constant.String:
			return c
		}
	}
	return NewTerm("conv:"+t.String(), c)
}

func fieldName(ptrT types.Type, i int) string {
	if p, ok := ptrT.Underlying().(*types.Pointer); ok {
		if st, ok := p.Elem().Underlying().(*types.Struct); ok && i < st.NumFields() {
			return st.Field(i).Name()
		}
	}
	return fmt.Sprintf("f%d", i)
}

func fieldNameV(t types.Type, i int) string {
	if st, ok := t.Underlying().(*types.Struct); ok && i < st.NumFields() {
		return st.Field(i).Name()
	}
	return fmt.Sprintf("f%d", i)
}

func (x *Exec) derefCheck(s *State, in ssa.Instruction, p Value) {
	if x.Hooks.Deref == nil {
		return
	}
	switch x.nilness(s, p) {
	case 2:
		return
	}
	x.Hooks.Deref(x, s, in, p)
}

// decidedNilTest: v == nil / v != nil as a value (stop = err != nil) when the path already knows which it is.
func (x *Exec) decidedNilTest(s *State, op token.Token, a, b Value) (Value, bool) {
	if op != token.EQL && op != token.NEQ {
		return nil, false
	}
	if c, ok := a.(Const); ok && c.Nil {
		a, b = b, a
	}
	c, ok := b.(Const)
	if !ok || !c.Nil {
		return nil, false
	}
	switch a.(type) {
	case Sym, *Term:
	default:
		return nil, false
	}
	o := x.Possible(s, "nil("+a.Key()+")")
	if len(o) != 1 {
		return nil, false
	}
	return boolConst((o[0] == "nil") == (op == token.EQL)), true
}

func (x *Exec) binop(in *ssa.BinOp, a, b Value) Value {
	ca, okA := a.(Const)
	cb, okB := b.(Const)
	if okA && okB && ca.V != nil && cb.V != nil {
		switch in.Op {
		case token.EQL, token.NEQ, token.LSS, token.LEQ, token.GTR, token.GEQ:
			if ca.V.Kind() == cb.V.Kind() || (ca.V.Kind() != constant.String && cb.V.Kind() != constant.String && ca.V.Kind() != constant.Bool) {
				return boolConst(constant.Compare(ca.V, in.Op, cb.V))
			}
		case token.ADD, token.SUB, token.MUL, token.AND, token.OR, token.XOR, token.REM:
			if ca.V.Kind() == cb.V.Kind() {
				return Const{V: constant.BinaryOp(ca.V, in.Op, cb.V)}
			}
		case token.QUO:
			if ca.V.Kind() == constant.Int && cb.V.Kind() == constant.Int && constant.Sign(cb.V) != 0 {
				return Const{V: constant.BinaryOp(ca.V, token.QUO_ASSIGN, cb.V)}
			}
			if constant.Sign(cb.V) != 0 {
				return Const{V: constant.BinaryOp(ca.V, token.QUO, cb.V)}
			}
		}
	}
	if isTop(a) || isTop(b) {
		switch in.Op {
		case token.EQL, token.NEQ:
			// nil tests against ⊤ stay ⊤
		}
		return Top{}
	}
	op := in.Op.String()
	switch in.Op {
	case token.EQL, token.NEQ, token.LSS, token.LEQ, token.GTR, token.GEQ:
		args := []Value{a, b}
		if bt, ok := in.X.Type().Underlying().(*types.Basic); ok && bt.Info()&(types.IsOrdered) != 0 {
			args = append(args, Const{V: constant.MakeString("ord")})
		}
		return NewTerm(op, args...)
	}
	isString := false
	if bt, ok := in.X.Type().Underlying().(*types.Basic); ok && bt.Info()&types.IsString != 0 {
		isString = true // concatenation keeps its order
	}
	if isString && in.Op == token.ADD {
		// concatenation is associative: a chain a+b+c+… is one flat term, adjacent literals joined
		var parts []Value
		for _, v := range []Value{a, b} {
			if t, ok := v.(*Term); ok && t.Op == "+" {
				parts = append(parts, t.Args...)
			} else {
				parts = append(parts, v)
			}
		}
		var flat []Value
		for _, v := range parts {
			if c, ok := v.(Const); ok && c.V != nil && c.V.Kind() == constant.String && len(flat) > 0 {
				if pc, ok := flat[len(flat)-1].(Const); ok && pc.V != nil && pc.V.Kind() == constant.String {
					flat[len(flat)-1] = Const{V: constant.MakeString(constant.StringVal(pc.V) + constant.StringVal(c.V))}
					continue
				}
			}
			flat = append(flat, v)
		}
		if len(flat) == 1 {
			return flat[0]
		}
		return NewTerm("+", flat...)
	}
	if commutative(in.Op) && !isString && a.Key() > b.Key() {
		a, b = b, a
	}
	return NewTerm(op, a, b)
}

func (x *Exec) resolveInvoke(recv Value, m *types.Func, args []Value) (*ssa.Function, Value, []Value) {
	iv, ok := recv.(*Iface)
	if !ok {
		return nil, nil, args
	}
	fn := x.Prog.LookupMethod(iv.T, m.Pkg(), m.Name())
	if fn == nil {
		return nil, nil, args
	}
	return fn, nil, append([]Value{iv.V}, args...)
}

func (x *Exec) call(s *State, f *Frame, in *ssa.Call) bool {
	c := in.Common()
	var args []Value
	for _, a := range c.Args {
		args = append(args, x.val(s, f, a))
	}
	if b, ok := c.Value.(*ssa.Builtin); ok {
		if x.Hooks.Builtin != nil {
			x.Hooks.Builtin(x, s, in, b.Name(), args)
		}
		f.Env[in] = x.builtin(s, f, in, b.Name(), args)
		f.PC++
		return true
	}
	if c.IsInvoke() {
		recv := x.val(s, f, c.Value)
		callee, fnv, a2 := x.resolveInvoke(recv, c.Method, args)
		if callee == nil && x.SoleMethod != nil {
			// an interface of the tree that only one type is ever converted to
			if cal := x.SoleMethod(c); cal != nil {
				callee, a2 = cal, append([]Value{NewTerm("dyn", recv)}, args...)
			}
		}
		if callee == nil && x.Hooks.Devirt != nil {
			// an interface value of unknown dynamic type: the rule may know that only one implementation can be meant
			if cal := x.Hooks.Devirt(f.Fn, in); cal != nil {
				callee, a2 = cal, append([]Value{NewTerm("dyn", recv)}, args...)
			}
		}
		if callee == nil {
			fnv = NewTerm("method:"+c.Method.Name(), recv)
			if x.Hooks.Call != nil {
				if res, handled := x.Hooks.Call(x, s, in, nil, fnv, append([]Value{recv}, args...)); handled {
					if res != nil {
						f.Env[in] = res
					}
					f.PC++
					return true
				}
			}
			f.Env[in] = x.unknownCall(s, f, in, nil, fnv, append([]Value{recv}, args...))
			f.PC++
			return true
		}
		return x.invoke(s, in, callee, fnv, a2, false, nil)
	}
	callee := c.StaticCallee()
	fnv := x.val(s, f, c.Value)
	return x.invoke(s, in, callee, fnv, args, false, nil)
}

func (x *Exec) builtin(s *State, f *Frame, in *ssa.Call, name string, args []Value) Value {
	switch name {
	case "len":
		if in != nil && len(in.Call.Args) == 1 {
			// the length of a slice of a whole array (a slice literal) is the array's length
			if sl, ok := in.Call.Args[0].(*ssa.Slice); ok && sl.Low == nil && sl.High == nil {
				if pt, ok := sl.X.Type().Underlying().(*types.Pointer); ok {
					if at, ok := pt.Elem().Underlying().(*types.Array); ok {
						return Const{V: constant.MakeInt64(at.Len())}
					}
				}
			}
		}
		if c, ok := args[0].(Const); ok {
			if c.Nil {
				return Const{V: constant.MakeInt64(0)}
			}
			if c.V != nil && c.V.Kind() == constant.String {
				return Const{V: constant.MakeInt64(int64(len(constant.StringVal(c.V))))}
			}
		}
		if t, ok := args[0].(*Term); ok && t.Op == "make" && len(t.Args) == 2 {
			return t.Args[1]
		}
		// a whole-array slice handed to a callee (the list behind a variadic parameter)
		// — only for lists of functions: a helper that runs its steps in order must be followed step by step (a generalised
		// index would make the callee unknown), whereas a table of data rows handed to a helper is walked in general
		if t, ok := args[0].(*Term); ok && t.Op == "slice" && len(t.Args) == 3 && t.Args[1].Key() == "zero" && t.Args[2].Key() == "zero" {
			if p, ok := t.Args[0].(Ptr); ok && x.stepLists[p.Loc] {
				if n, known := x.arrayLen[p.Loc]; known {
					return Const{V: constant.MakeInt64(n)}
				}
			}
		}
		if isTop(args[0]) {
			return Top{}
		}
		return NewTerm("len", args[0])
	case "cap":
		return NewTerm("cap", args[0])
	case "append":
		if len(args) == 2 {
			return NewTerm("append", args[0], args[1])
		}
		return NewTerm("append", args...)
	case "delete":
		s.Event("delete %s[%s]", args[0].Key(), args[1].Key())
		return Const{}
	case "copy":
		return Top{}
	case "print", "println":
		return Const{}
	case "min", "max":
		return NewTerm(name, args...)
	case "close":
		s.Event("close %s", args[0].Key())
		return Const{}
	}
	x.problem("unmodelled builtin %s", name)
	return Top{}
}

// isStepType: a function, or a structure made of functions only (a row of a table of predicates and constructors).
func isStepType(t types.Type) bool {
	if _, isFn := t.Underlying().(*types.Signature); isFn {
		return true
	}
	st, ok := t.Underlying().(*types.Struct)
	if !ok || st.NumFields() == 0 {
		return false
	}
	for i := 0; i < st.NumFields(); i++ {
		if _, isFn := st.Field(i).Type().Underlying().(*types.Signature); !isFn {
			return false
		}
	}
	return true
}

// initLiteral describes an unexported package variable of slice type that is given a composite literal of steps
// (isStepType) in its package initialiser and is written nowhere else, neither as a whole nor element by element:
// the instructions of the initialiser that build it, ending with the store into the variable.
func (x *Exec) initLiteral(g *ssa.Global) []ssa.Instruction {
	if x.initLits == nil {
		x.initLits = map[*ssa.Global][]ssa.Instruction{}
	}
	if l, ok := x.initLits[g]; ok {
		return l
	}
	x.initLits[g] = nil
	if g.Pkg == nil || g.Object() == nil || g.Object().Exported() {
		return nil
	}
	sl, ok := g.Type().(*types.Pointer).Elem().Underlying().(*types.Slice)
	if !ok || !isStepType(sl.Elem()) {
		return nil
	}
	var fns []*ssa.Function
	var collect func(fn *ssa.Function)
	collect = func(fn *ssa.Function) {
		fns = append(fns, fn)
		for _, a := range fn.AnonFuncs {
			collect(a)
		}
	}
	for _, m := range g.Pkg.Members {
		switch m := m.(type) {
		case *ssa.Function:
			collect(m)
		case *ssa.Type:
			for _, t := range []types.Type{m.Type(), types.NewPointer(m.Type())} {
				ms := g.Pkg.Prog.MethodSets.MethodSet(t)
				for i := 0; i < ms.Len(); i++ {
					if fn := g.Pkg.Prog.MethodValue(ms.At(i)); fn != nil && fn.Pkg == g.Pkg {
						collect(fn)
					}
				}
			}
		}
	}
	// readOnly: everything done with v (a value loaded from the variable) only reads
	var readOnly func(v ssa.Value, depth int) bool
	readOnly = func(v ssa.Value, depth int) bool {
		if depth > 6 || v.Referrers() == nil {
			return false
		}
		for _, r := range *v.Referrers() {
			switch r := r.(type) {
			case *ssa.DebugRef:
			case *ssa.IndexAddr, *ssa.FieldAddr, *ssa.Phi, *ssa.Field, *ssa.Index:
				if !readOnly(r.(ssa.Value), depth+1) {
					return false
				}
			case *ssa.Slice:
				if r.X != v || !readOnly(r, depth+1) {
					return false
				}
			case *ssa.UnOp:
				if r.Op != token.MUL {
					return false
				}
				// a loaded row (a function or a structure of functions) is a copy: nothing done with it changes the table
			case *ssa.Call:
				b, isB := r.Call.Value.(*ssa.Builtin)
				if isB && (b.Name() == "len" || b.Name() == "cap") {
					continue
				}
				// calling a function taken from the table
				if r.Call.Value == v {
					for _, a := range r.Call.Args {
						if a == v {
							return false
						}
					}
					continue
				}
				return false
			case *ssa.BinOp, *ssa.If:
			default:
				return false
			}
		}
		return true
	}
	var st *ssa.Store
	for _, fn := range fns {
		for _, b := range fn.Blocks {
			for _, in := range b.Instrs {
				switch in := in.(type) {
				case *ssa.Store:
					if in.Addr == ssa.Value(g) {
						if st != nil || fn.Name() != "init" || fn.Parent() != nil {
							return nil
						}
						st = in
					} else if in.Val == ssa.Value(g) {
						return nil
					}
				case *ssa.UnOp:
					if in.X == ssa.Value(g) && !readOnly(in, 0) {
						return nil
					}
				default:
					for _, op := range in.Operands(nil) {
						if *op == ssa.Value(g) {
							return nil // the address of the variable goes somewhere
						}
					}
				}
			}
		}
	}
	if st == nil {
		return nil
	}
	// the instructions of the same block that build the stored value
	need := map[ssa.Value]bool{}
	var mark func(v ssa.Value, depth int) bool
	mark = func(v ssa.Value, depth int) bool {
		if depth > 8 {
			return false
		}
		switch v := v.(type) {
		case *ssa.Const, *ssa.Function, *ssa.Global, nil:
			return true
		case *ssa.Slice:
			need[v] = true
			return v.Low == nil && v.Max == nil && mark(v.X, depth+1)
		case *ssa.Alloc:
			if need[v] {
				return true
			}
			need[v] = true
			for _, r := range *v.Referrers() {
				switch r := r.(type) {
				case *ssa.IndexAddr, *ssa.FieldAddr:
					if !mark(r.(ssa.Value), depth+1) {
						return false
					}
				case *ssa.Store:
					if r.Addr != ssa.Value(v) || !mark(r.Val, depth+1) {
						return false
					}
				case *ssa.Slice, *ssa.UnOp, *ssa.DebugRef:
				default:
					return false
				}
			}
			return true
		case *ssa.IndexAddr:
			if need[v] {
				return true
			}
			need[v] = true
			if _, isC := v.Index.(*ssa.Const); !isC {
				return false
			}
			for _, r := range *v.Referrers() {
				switch r := r.(type) {
				case *ssa.FieldAddr:
					if !mark(r, depth+1) {
						return false
					}
				case *ssa.Store:
					if r.Addr != ssa.Value(v) || !mark(r.Val, depth+1) {
						return false
					}
				case *ssa.DebugRef:
				default:
					return false
				}
			}
			return mark(v.X, depth+1)
		case *ssa.FieldAddr:
			if need[v] {
				return true
			}
			need[v] = true
			for _, r := range *v.Referrers() {
				switch r := r.(type) {
				case *ssa.Store:
					if r.Addr != ssa.Value(v) || !mark(r.Val, depth+1) {
						return false
					}
				case *ssa.DebugRef:
				default:
					return false
				}
			}
			return mark(v.X, depth+1)
		case *ssa.MakeClosure:
			need[v] = true
			return len(v.Bindings) == 0
		case *ssa.ChangeType:
			need[v] = true
			return mark(v.X, depth+1)
		}
		return false
	}
	if !mark(st.Val, 0) {
		return nil
	}
	var out []ssa.Instruction
	for _, in := range st.Block().Instrs {
		if in == ssa.Instruction(st) {
			out = append(out, in)
			break
		}
		if v, ok := in.(ssa.Value); ok && need[v] {
			out = append(out, in)
			continue
		}
		if s2, ok := in.(*ssa.Store); ok {
			if a, ok := s2.Addr.(ssa.Value); ok && need[a] {
				out = append(out, in)
			}
		}
	}
	for v := range need {
		if in, ok := v.(ssa.Instruction); ok && in.Block() != st.Block() {
			return nil
		}
	}
	x.initLits[g] = out
	return out
}

// materialise builds, in the state at hand, the table a package variable was given by its initialiser (initLiteral),
// so that a walk over it meets its rows one by one.
func (x *Exec) materialise(s *State, g *ssa.Global) {
	if _, ok := s.Heap["G:"+g.String()]; ok {
		return
	}
	ins := x.initLiteral(g)
	if len(ins) == 0 {
		return
	}
	hooks := x.Hooks
	x.Hooks = Hooks{}
	tmp := &Frame{Fn: ins[0].Parent(), Env: map[ssa.Value]Value{}, Ctx: "init", Visits: map[int]int{}, PhiOld: map[ssa.Value]string{}, Loops: map[int]*loopSnap{}}
	for _, in := range ins {
		x.step(s, tmp, in)
	}
	x.Hooks = hooks
}

// againstLiterals: the orderings of v against the integer literal k (bit 0 "<", bit 1 "=", bit 2 ">"; told from the
// literal's side when litFirst) that the comparisons of v with other integer literals recorded on this path leave
// possible. v is an integer; a length or position is also known not to be negative.
func (x *Exec) againstLiterals(s *State, v Value, k int64, litFirst bool) uint16 {
	const inf = int64(1) << 40
	lo, hi := -inf, inf
	if x.nonNeg(s, v) {
		lo = 0
	}
	holes := map[int64]bool{}
	vk := v.Key()
	for name, mask := range s.PC {
		if !strings.HasPrefix(name, "ord(") || !strings.HasSuffix(name, ")") {
			continue
		}
		inner := name[len("ord(") : len(name)-1]
		var lit string
		first := false // the literal is the first operand of that atom
		switch {
		case strings.HasPrefix(inner, vk+",c:"):
			lit = inner[len(vk)+len(",c:"):]
		case strings.HasSuffix(inner, ","+vk) && strings.HasPrefix(inner, "c:"):
			lit, first = inner[len("c:"):len(inner)-len(vk)-1], true
		default:
			continue
		}
		n, err := strconv.ParseInt(lit, 10, 64)
		if err != nil {
			continue
		}
		lt, eq, gt := mask&1 != 0, mask&2 != 0, mask&4 != 0 // of the atom's first operand against its second
		if first {
			lt, gt = gt, lt // now of v against n
		}
		if !lt && lo < n {
			lo = n
		}
		if !gt && hi > n {
			hi = n
		}
		if !eq {
			holes[n] = true
		}
	}
	for holes[lo] && lo <= hi {
		lo++
	}
	for holes[hi] && lo <= hi {
		hi--
	}
	var out uint16
	if lo <= hi {
		if lo < k {
			out |= 1
		}
		if hi > k {
			out |= 4
		}
		if lo <= k && k <= hi && !holes[k] {
			out |= 2
		}
	}
	if out == 0 {
		return 7 // contradictory facts: leave the question open rather than cut the path
	}
	if litFirst {
		sw := out & 2
		if out&1 != 0 {
			sw |= 4
		}
		if out&4 != 0 {
			sw |= 1
		}
		out = sw
	}
	return out
}

// CanBeZero: whether the integer value v may be 0 on the path of s, given the comparisons of v with integer literals
// recorded so far.
func (x *Exec) CanBeZero(s *State, v Value) bool {
	if c, ok := v.(Const); ok {
		if c.V == nil || c.V.Kind() != constant.Int {
			return true
		}
		return constant.Sign(c.V) == 0
	}
	return x.againstLiterals(s, v, 0, false)&2 != 0
}
