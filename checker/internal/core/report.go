package core

import (
	"encoding/json"
	"fmt"
	"os"
	"path/filepath"
	"sort"
	"strings"
	"time"
)

type Verdict string

const (
	Discharged Verdict = "discharged"
	Violated   Verdict = "violated"
	Undecided  Verdict = "undecided"
)

// Obligation is one decided construct: a rule applied to a named piece of code.
type Obligation struct {
	Rule    string      `json:"rule"`
	Key     string      `json:"key"` // rule|function|discriminator — never a line number
	Pos     string      `json:"pos"`
	Func    string      `json:"func,omitempty"`
	Verdict Verdict     `json:"verdict"`
	Msg     string      `json:"msg"`
	Detail  interface{} `json:"detail,omitempty"`
	Known   string      `json:"known_finding,omitempty"`
}

// Ctx collects what one property's rules decide on one program.
type Ctx struct {
	Prop        string
	Tier        string
	Deep        bool // thorough tier's second pass: deeper exploration parameters
	P           *Program
	Obs         []Obligation
	Universes   map[string][]string
	States      int
	Transitions int
	Valuations  []string
	Assumptions []string
	Explanation []string
	Notes       []string
	keys        map[string]int
}

func NewCtx(prop, tier string, p *Program) *Ctx {
	return &Ctx{Prop: prop, Tier: tier, P: p, Universes: map[string][]string{}, keys: map[string]int{}}
}

// Key builds the obligation key; duplicates get a stable ordinal suffix.
func (c *Ctx) add(rule, fn, disc, pos string, v Verdict, msg string, detail interface{}) {
	key := rule + "|" + fn
	if disc != "" {
		key += "|" + disc
	}
	c.keys[key]++
	if n := c.keys[key]; n > 1 {
		key = fmt.Sprintf("%s#%d", key, n)
	}
	c.Obs = append(c.Obs, Obligation{Rule: rule, Key: key, Pos: pos, Func: fn, Verdict: v, Msg: msg, Detail: detail})
}

func (c *Ctx) Discharge(rule, fn, disc, pos, msg string) {
	c.add(rule, fn, disc, pos, Discharged, msg, nil)
}
func (c *Ctx) Violate(rule, fn, disc, pos, msg string, detail interface{}) {
	c.add(rule, fn, disc, pos, Violated, msg, detail)
}
func (c *Ctx) Undecide(rule, fn, disc, pos, msg string, detail interface{}) {
	c.add(rule, fn, disc, pos, Undecided, msg, detail)
}
func (c *Ctx) Universe(name string, members ...string) {
	c.Universes[name] = append(c.Universes[name], members...)
}
func (c *Ctx) Assume(s string) {
	for _, a := range c.Assumptions {
		if a == s {
			return
		}
	}
	c.Assumptions = append(c.Assumptions, s)
}
func (c *Ctx) Explain(s string) { c.Explanation = append(c.Explanation, s) }
func (c *Ctx) Note(s string)    { c.Notes = append(c.Notes, s) }

// KnownFinding is an entry of /verif/known_findings.json.
type KnownFinding struct {
	Property string `json:"property"`
	Rule     string `json:"rule"`
	Key      string `json:"key"`
	What     string `json:"what"`
	Status   string `json:"status"` // "known" | "fixed"
	Commit   string `json:"commit,omitempty"`
}

func LoadKnown(path string) ([]KnownFinding, error) {
	b, err := os.ReadFile(path)
	if err != nil {
		if os.IsNotExist(err) {
			return nil, nil
		}
		return nil, err
	}
	var out []KnownFinding
	if err := json.Unmarshal(b, &out); err != nil {
		return nil, fmt.Errorf("%s: %v", path, err)
	}
	return out, nil
}

// Finish applies the known-findings file, writes evidence and replay records,
// prints the protocol lines and returns the process exit code.
func (c *Ctx) Finish(verifDir string, seed int64, start time.Time, checkerCmd string, extra map[string]interface{}) int {
	known, err := LoadKnown(filepath.Join(verifDir, "known_findings.json"))
	if err != nil {
		fmt.Fprintln(os.Stderr, "hrverif:", err)
		return 2
	}
	sort.SliceStable(c.Obs, func(i, j int) bool { return c.Obs[i].Key < c.Obs[j].Key })
	nDis, nViol, nUnd, nKnown := 0, 0, 0, 0
	outDir := filepath.Join(verifDir, "out", c.Prop)
	os.RemoveAll(outDir)
	os.MkdirAll(outDir, 0o755)
	var lines []string
	usedKnown := map[int]bool{}
	for i := range c.Obs {
		o := &c.Obs[i]
		switch o.Verdict {
		case Discharged:
			nDis++
			continue
		}
		matched := false
		for ki, k := range known {
			if k.Status == "known" && k.Property == c.Prop && k.Key == o.Key {
				o.Known = k.What
				usedKnown[ki] = true
				matched = true
				break
			}
		}
		if matched {
			nKnown++
			lines = append(lines, fmt.Sprintf("KNOWN-FINDING: property=%s rule=%s %s at %s: %s", c.Prop, o.Rule, o.Key, o.Pos, o.Known))
			continue
		}
		if o.Verdict == Violated {
			nViol++
		} else {
			nUnd++
		}
		path := filepath.Join(outDir, fmt.Sprintf("violation-%d.json", nViol+nUnd))
		rec := map[string]interface{}{"property": c.Prop, "obligation": o, "tree": c.P.Dir, "tier": c.Tier}
		b, _ := json.MarshalIndent(rec, "", " ")
		os.WriteFile(path, b, 0o644)
		fmt.Printf("%s %s [%s] %s: %s\n", strings.ToUpper(string(o.Verdict)), o.Rule, o.Key, o.Pos, o.Msg)
		lines = append(lines, fmt.Sprintf("VIOLATION property=%s replay=%s", c.Prop, path))
	}
	// a known entry that no longer matches anything is reported (informational), never fatal
	for ki, k := range known {
		if k.Status == "known" && k.Property == c.Prop && !usedKnown[ki] {
			fmt.Printf("note: known finding %q no longer reported by %s\n", k.Key, k.Rule)
		}
	}
	for _, l := range lines {
		fmt.Println(l)
	}

	// evidence
	distinct := map[string]bool{}
	for _, o := range c.Obs {
		distinct[o.Key] = true
	}
	var samples []interface{}
	perRule := map[string]int{}
	for _, o := range c.Obs {
		if perRule[o.Rule] < 4 || o.Verdict != Discharged {
			perRule[o.Rule]++
			samples = append(samples, map[string]interface{}{"rule": o.Rule, "key": o.Key, "pos": o.Pos, "verdict": o.Verdict, "msg": o.Msg, "known_finding": o.Known})
		}
	}
	ruleCounts := map[string]map[string]int{}
	for _, o := range c.Obs {
		if ruleCounts[o.Rule] == nil {
			ruleCounts[o.Rule] = map[string]int{}
		}
		ruleCounts[o.Rule][string(o.Verdict)]++
	}
	uni := map[string]interface{}{}
	for k, v := range c.Universes {
		sort.Strings(v)
		uni[k] = map[string]interface{}{"size": len(v), "members": v}
	}
	cov := map[string]interface{}{
		"explanation":         strings.Join(c.Explanation, " "),
		"obligations":         len(c.Obs),
		"discharged":          nDis,
		"violated":            nViol,
		"undecided":           nUnd,
		"known":               nKnown,
		"evaluations":         len(c.Obs) + c.States,
		"distinct_nontrivial": len(distinct),
		"rule":                "one obligation per (rule, function, construct) found in the tree's universes; distinct = distinct obligation keys attached to a construct of the analysed tree (canaries excluded)",
		"samples":             samples,
		"states":              c.States,
		"transitions":         c.Transitions,
		"exhaustive":          true,
		"per_rule":            ruleCounts,
		"universes":           uni,
		"checker_cmd":         checkerCmd,
		"trusted_base":        []string{"go/types type checker", "go/ssa construction (x/tools v0.29.0)", "VTA call graph over-approximation", "standard-library behaviours listed under assumptions"},
		"packages_analysed":   len(c.P.RootsInScope()),
		"functions_analysed":  len(c.P.Funcs),
		"notes":               c.Notes,
	}
	if len(c.Valuations) > 0 {
		v := c.Valuations
		if len(v) > 200 {
			v = v[:200]
		}
		cov["atom_valuations"] = v
	}
	// Comparison with the committed baseline of instance counts (universe_baseline.json, written only by
	// "hrverif baseline"): a rule that finds fewer constructs than when its instances were confirmed by reading
	// may be passing vacuously. Reported as a note, never as an alarm: code legitimately loses instances.
	perRuleTotal := map[string]int{}
	for r, m := range ruleCounts {
		for _, n := range m {
			perRuleTotal[r] += n
		}
	}
	if shr := c.compareBaseline(verifDir, perRuleTotal); len(shr) > 0 {
		cov["below_baseline"] = shr
		for _, m := range shr {
			fmt.Println("note: " + m)
		}
	} else {
		cov["below_baseline"] = []string{}
	}
	for k, v := range extra {
		cov[k] = v
	}
	if c.Assumptions == nil {
		c.Assumptions = []string{}
	}
	c.Assumptions = append(c.Assumptions, "go/packages loads the same sources the build compiles (build tags: default, GOOS/GOARCH of this machine)")
	ev := map[string]interface{}{
		"property_id": c.Prop,
		"tier":        c.Tier,
		"seed":        seed,
		"level":       "other",
		"coverage":    cov,
		"assumptions": c.Assumptions,
		"wall_s":      time.Since(start).Seconds(),
		"violations":  nViol + nUnd,
	}
	b, _ := json.MarshalIndent(ev, "", " ")
	os.MkdirAll(filepath.Join(verifDir, "evidence"), 0o755)
	if err := os.WriteFile(filepath.Join(verifDir, "evidence", c.Prop+".json"), b, 0o644); err != nil {
		fmt.Fprintln(os.Stderr, "hrverif: evidence:", err)
		return 2
	}
	fmt.Printf("%s %s: %d obligations, %d discharged, %d violated, %d undecided, %d known; %d abstract states; %.1fs\n",
		c.Prop, c.Tier, len(c.Obs), nDis, nViol, nUnd, nKnown, c.States, time.Since(start).Seconds())
	if nViol+nUnd > 0 {
		return 1
	}
	return 0
}

// Baseline is the committed record of how many constructs each rule and each
// universe covered on the tree the rule instances were confirmed on.
type Baseline struct {
	Obligations map[string]map[string]int `json:"obligations_per_rule"` // property -> rule -> count
	Universes   map[string]map[string]int `json:"universe_sizes"`       // property -> universe -> size
}

func (c *Ctx) compareBaseline(verifDir string, perRule map[string]int) []string {
	b, err := os.ReadFile(filepath.Join(verifDir, "universe_baseline.json"))
	if err != nil {
		return nil
	}
	var bl Baseline
	if json.Unmarshal(b, &bl) != nil {
		return nil
	}
	var out []string
	for r, n := range bl.Obligations[c.Prop] {
		if perRule[r] < n {
			out = append(out, fmt.Sprintf("%s: rule %s has %d obligations on this tree, %d on the baseline tree: it checks fewer constructs than when its instances were confirmed", c.Prop, r, perRule[r], n))
		}
	}
	for u, n := range bl.Universes[c.Prop] {
		if len(c.Universes[u]) < n {
			out = append(out, fmt.Sprintf("%s: universe %q has %d members on this tree, %d on the baseline tree", c.Prop, u, len(c.Universes[u]), n))
		}
	}
	sort.Strings(out)
	return out
}

// BaselineOf extracts the counts of a finished run.
func (c *Ctx) BaselineOf() (map[string]int, map[string]int) {
	ob := map[string]int{}
	for _, o := range c.Obs {
		ob[o.Rule]++
	}
	un := map[string]int{}
	for k, v := range c.Universes {
		un[k] = len(v)
	}
	return ob, un
}
