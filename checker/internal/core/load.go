// Package core holds the loader, the obligation/report model and the evidence
// writer shared by every rule of hrverif.
package core

import (
	"fmt"
	"go/ast"
	"go/constant"
	"go/token"
	"go/types"
	"os"
	"path/filepath"
	"sort"
	"strings"

	"golang.org/x/tools/go/callgraph"
	"golang.org/x/tools/go/callgraph/cha"
	"golang.org/x/tools/go/callgraph/vta"
	"golang.org/x/tools/go/packages"
	"golang.org/x/tools/go/ssa"
	"golang.org/x/tools/go/ssa/ssautil"
)

const (
	LibPath = "github.com/aquilax/hranoprovod-cli/v3"
	CmdPath = "github.com/aquilax/hranoprovod-cli/cmd/hranoprovod-cli/v3"
)

// Program is the type-checked, SSA-converted view of one source tree.
type Program struct {
	Dir      string
	Fset     *token.FileSet
	Roots    []*packages.Package          // packages of the tree itself (non-test)
	ByPath   map[string]*packages.Package // every loaded package
	SSA      *ssa.Program
	Funcs    []*ssa.Function // every function, method and closure of Roots (scope-filtered)
	funcSet  map[*ssa.Function]bool
	cg       *callgraph.Graph
	IsRepo   bool // /repo layout (two modules) vs. a canary tree
	fileSrc  map[string][]byte
	ScopeOut map[string]bool // root packages excluded from universes (test helpers)
}

// LoadRepo loads the hranoprovod tree at dir in workspace mode.
func LoadRepo(dir string, overlay map[string][]byte) (*Program, error) {
	gowork := filepath.Join(dir, "go.work")
	if _, err := os.Stat(gowork); err != nil {
		return nil, fmt.Errorf("no go.work in %s: %v", dir, err)
	}
	env := cleanEnv()
	env = append(env, "GOWORK="+gowork, "GOFLAGS=", "GOPROXY=off", "GOSUMDB=off", "GOTOOLCHAIN=local")
	p, err := load(dir, env, []string{"./...", "./cmd/hranoprovod-cli/..."}, overlay)
	if err != nil {
		return nil, err
	}
	p.IsRepo = true
	// both modules must be present
	var lib, cmd int
	for _, r := range p.Roots {
		if r.PkgPath == LibPath || strings.HasPrefix(r.PkgPath, LibPath+"/") {
			lib++
		}
		if r.PkgPath == CmdPath || strings.HasPrefix(r.PkgPath, CmdPath+"/") {
			cmd++
		}
	}
	if lib == 0 || cmd == 0 {
		return nil, fmt.Errorf("loaded %d library and %d command packages from %s: both modules are required", lib, cmd, dir)
	}
	return p, nil
}

// LoadTree loads a self-contained module (the canaries).
func LoadTree(dir string) (*Program, error) {
	env := cleanEnv()
	env = append(env, "GOWORK=off", "GOFLAGS=-mod=mod", "GOPROXY=off", "GOSUMDB=off", "GOTOOLCHAIN=local")
	return load(dir, env, []string{"./..."}, nil)
}

func cleanEnv() []string {
	var env []string
	for _, kv := range os.Environ() {
		k := kv
		if i := strings.IndexByte(kv, '='); i >= 0 {
			k = kv[:i]
		}
		switch k {
		case "GOWORK", "GOFLAGS", "GOPROXY", "GOSUMDB", "GOTOOLCHAIN":
			continue
		}
		env = append(env, kv)
	}
	return env
}

func load(dir string, env, patterns []string, overlay map[string][]byte) (*Program, error) {
	fset := token.NewFileSet()
	cfg := &packages.Config{
		Mode:    packages.LoadAllSyntax,
		Dir:     dir,
		Env:     env,
		Fset:    fset,
		Tests:   false,
		Overlay: overlay,
	}
	pkgs, err := packages.Load(cfg, patterns...)
	if err != nil {
		return nil, fmt.Errorf("packages.Load: %v", err)
	}
	seen := map[string]bool{}
	var roots []*packages.Package
	for _, p := range pkgs {
		if seen[p.ID] {
			continue
		}
		seen[p.ID] = true
		roots = append(roots, p)
	}
	if len(roots) == 0 {
		return nil, fmt.Errorf("no packages loaded from %s", dir)
	}
	var errs []string
	by := map[string]*packages.Package{}
	packages.Visit(roots, nil, func(p *packages.Package) {
		by[p.PkgPath] = p
		for _, e := range p.Errors {
			errs = append(errs, e.Error())
		}
	})
	if len(errs) > 0 {
		sort.Strings(errs)
		if len(errs) > 10 {
			errs = errs[:10]
		}
		return nil, fmt.Errorf("type-check/load errors:\n  %s", strings.Join(errs, "\n  "))
	}
	sort.Slice(roots, func(i, j int) bool { return roots[i].PkgPath < roots[j].PkgPath })
	prog, _ := ssautil.AllPackages(roots, ssa.InstantiateGenerics)
	prog.Build()
	p := &Program{Dir: dir, Fset: fset, Roots: roots, ByPath: by, SSA: prog, funcSet: map[*ssa.Function]bool{}, fileSrc: map[string][]byte{}, ScopeOut: map[string]bool{}}
	for k, v := range overlay {
		p.fileSrc[k] = v
	}
	// test helper packages are compiled but unreachable from main and the library API
	for _, r := range roots {
		if strings.HasSuffix(r.PkgPath, "/internal/testutils") {
			p.ScopeOut[r.PkgPath] = true
		}
	}
	rootSet := map[*types.Package]bool{}
	for _, r := range roots {
		if !p.ScopeOut[r.PkgPath] {
			rootSet[r.Types] = true
		}
	}
	for fn := range ssautil.AllFunctions(prog) {
		if fn.Pkg == nil && fn.Parent() == nil {
			// wrappers/thunks and instantiations: attribute to origin package if any
			if fn.Origin() == nil {
				continue
			}
		}
		pk := fnPkg(fn)
		if pk == nil || !rootSet[pk] {
			continue
		}
		if fn.Synthetic != "" && fn.Parent() == nil {
			continue // wrappers, bound methods, init
		}
		if len(fn.Blocks) == 0 {
			continue
		}
		p.Funcs = append(p.Funcs, fn)
		p.funcSet[fn] = true
	}
	sort.Slice(p.Funcs, func(i, j int) bool {
		a, b := p.Funcs[i], p.Funcs[j]
		if a.String() != b.String() {
			return a.String() < b.String()
		}
		return a.Pos() < b.Pos()
	})
	recordFuncVars(prog, rootSet)
	return p, nil
}

// FuncVars: package-level variables of the tree that hold a function from their initialiser on and are never
// written again nor have their address taken (var openFile = os.Open — a seam for tests). A call through such a
// variable is a call of that function.
var FuncVars = map[*ssa.Global]*ssa.Function{}

func recordFuncVars(prog *ssa.Program, rootSet map[*types.Package]bool) {
	type use struct {
		fn     *ssa.Function
		stores int
		other  bool
	}
	uses := map[*ssa.Global]*use{}
	for fn := range ssautil.AllFunctions(prog) {
		for _, b := range fn.Blocks {
			for _, in := range b.Instrs {
				for _, op := range in.Operands(nil) {
					g, ok := (*op).(*ssa.Global)
					if !ok || g.Pkg == nil || !rootSet[g.Pkg.Pkg] {
						continue
					}
					if _, isFn := g.Type().(*types.Pointer).Elem().Underlying().(*types.Signature); !isFn {
						continue
					}
					u := uses[g]
					if u == nil {
						u = &use{}
						uses[g] = u
					}
					switch t := in.(type) {
					case *ssa.Store:
						if t.Addr == ssa.Value(g) {
							u.stores++
							v := t.Val
							if ct, ok := v.(*ssa.ChangeType); ok {
								v = ct.X
							}
							if mc, ok := v.(*ssa.MakeClosure); ok && len(mc.Bindings) == 0 {
								v = mc.Fn
							}
							if f, ok := v.(*ssa.Function); ok && fn.Synthetic != "" && fn.Name() == "init" {
								u.fn = f
							} else {
								u.other = true
							}
						} else {
							u.other = true // the variable's address is stored somewhere
						}
					case *ssa.UnOp:
						if t.Op != token.MUL {
							u.other = true
						}
					case *ssa.DebugRef:
					default:
						u.other = true
					}
				}
			}
		}
	}
	for g, u := range uses {
		if u.fn != nil && u.stores == 1 && !u.other {
			FuncVars[g] = u.fn
		}
		if u.stores == 0 && !u.other {
			NilFuncVars[g] = true
		}
	}
	recordErrVars(prog, rootSet)
	recordSoleImpls(prog, rootSet)
	// fields: every store into the field, anywhere, stores the same function (set by the one constructor)
	type fuse struct {
		fn    *ssa.Function
		mixed bool
	}
	fields := map[string]*fuse{}
	for fn := range ssautil.AllFunctions(prog) {
		for _, b := range fn.Blocks {
			for _, in := range b.Instrs {
				st, ok := in.(*ssa.Store)
				if !ok {
					continue
				}
				fa, ok := st.Addr.(*ssa.FieldAddr)
				if !ok {
					continue
				}
				key, ok := FuncFieldKey(fa.X.Type(), fa.Field)
				if !ok {
					continue
				}
				u := fields[key]
				if u == nil {
					u = &fuse{}
					fields[key] = u
				}
				v := st.Val
				if ct, ok := v.(*ssa.ChangeType); ok {
					v = ct.X
				}
				if mc, ok := v.(*ssa.MakeClosure); ok && len(mc.Bindings) == 0 {
					v = mc.Fn
				}
				f, isFn := v.(*ssa.Function)
				switch {
				case !isFn:
					u.mixed = true
				case u.fn == nil:
					u.fn = f
				case u.fn != f:
					u.mixed = true
				}
			}
		}
	}
	for k, u := range fields {
		if u.fn != nil && !u.mixed {
			FuncFields[k] = u.fn
		}
	}
}

// FuncFields: unexported function-typed fields of structures of the tree into which only one function is ever
// stored (linter{println: fmt.Fprintln}); keyed by FuncFieldKey.
var FuncFields = map[string]*ssa.Function{}

// FuncFieldKey names field i of the structure ptrT points to, when that is an unexported field of function type of
// a named structure type.
func FuncFieldKey(ptrT types.Type, i int) (string, bool) {
	pt, ok := ptrT.Underlying().(*types.Pointer)
	if !ok {
		return "", false
	}
	nt, ok := pt.Elem().(*types.Named)
	if !ok {
		return "", false
	}
	st, ok := nt.Underlying().(*types.Struct)
	if !ok || i >= st.NumFields() || st.Field(i).Exported() {
		return "", false
	}
	if _, isFn := st.Field(i).Type().Underlying().(*types.Signature); !isFn {
		return "", false
	}
	return nt.String() + "." + st.Field(i).Name(), true
}

// NilFuncVars: package-level function variables of the tree that nothing ever assigns and whose address is never
// taken (a diagnostics hook that is nil by default): they are nil for good, and a call through one never happens.
var NilFuncVars = map[*ssa.Global]bool{}

// SoleImpl: for an interface type declared in the tree, the one concrete type that is ever converted to it anywhere
// in the program — when every value of the interface comes from such a conversion (no interface-to-interface
// conversion or type assertion produces one). Calls of its methods are then calls of that type's methods.
var SoleImpl = map[string]types.Type{}

var soleProg *ssa.Program

func recordSoleImpls(prog *ssa.Program, rootSet map[*types.Package]bool) {
	soleProg = prog
	type seen struct {
		t     types.Type
		mixed bool
	}
	m := map[string]*seen{}
	key := func(t types.Type) (string, bool) {
		nt, ok := t.(*types.Named)
		if !ok || nt.Obj().Pkg() == nil || !rootSet[nt.Obj().Pkg()] {
			return "", false
		}
		if _, isI := nt.Underlying().(*types.Interface); !isI {
			return "", false
		}
		return nt.String(), true
	}
	note := func(t types.Type, conc types.Type) {
		k, ok := key(t)
		if !ok {
			return
		}
		e := m[k]
		if e == nil {
			e = &seen{}
			m[k] = e
		}
		switch {
		case conc == nil:
			e.mixed = true
		case e.t == nil:
			e.t = conc
		case !types.Identical(e.t, conc):
			e.mixed = true
		}
	}
	for fn := range ssautil.AllFunctions(prog) {
		for _, b := range fn.Blocks {
			for _, in := range b.Instrs {
				switch t := in.(type) {
				case *ssa.MakeInterface:
					note(t.Type(), t.X.Type())
				case *ssa.ChangeInterface:
					note(t.Type(), nil)
				case *ssa.TypeAssert:
					note(t.AssertedType, nil)
				}
			}
		}
	}
	for k, e := range m {
		if e.t != nil && !e.mixed {
			SoleImpl[k] = e.t
			if os.Getenv("HRDEBUG") != "" {
				fmt.Fprintf(os.Stderr, "sole implementation of %s: %s\n", k, e.t)
			}
		}
	}
}

// soleImplMethod: the method an interface method call reaches when the interface has one implementation (SoleImpl).
func soleImplMethod(c *ssa.CallCommon) *ssa.Function {
	if soleProg == nil || !c.IsInvoke() {
		return nil
	}
	nt, ok := c.Value.Type().(*types.Named)
	if !ok {
		return nil
	}
	conc, ok := SoleImpl[nt.String()]
	if !ok {
		return nil
	}
	sel := soleProg.MethodSets.MethodSet(conc).Lookup(c.Method.Pkg(), c.Method.Name())
	if sel == nil {
		return nil
	}
	return soleProg.MethodValue(sel)
}

// Callee: the function a call instruction calls when that is known without a call graph — a static callee, or the
// function held by a write-once package variable the call goes through.
func Callee(c *ssa.CallCommon) *ssa.Function {
	if f := c.StaticCallee(); f != nil {
		return f
	}
	if c.IsInvoke() {
		return soleImplMethod(c)
	}
	if ld, ok := c.Value.(*ssa.UnOp); ok && ld.Op == token.MUL {
		if g, ok := ld.X.(*ssa.Global); ok {
			return FuncVars[g]
		}
		if fa, ok := ld.X.(*ssa.FieldAddr); ok {
			if k, ok := FuncFieldKey(fa.X.Type(), fa.Field); ok {
				return FuncFields[k]
			}
		}
	}
	return nil
}

func fnPkg(fn *ssa.Function) *types.Package {
	for f := fn; f != nil; f = f.Parent() {
		if f.Pkg != nil {
			return f.Pkg.Pkg
		}
		if o := f.Origin(); o != nil && o.Pkg != nil {
			return o.Pkg.Pkg
		}
	}
	return nil
}

// InScope reports whether fn belongs to the analysed tree.
func (p *Program) InScope(fn *ssa.Function) bool { return fn != nil && p.funcSet[fn] }

// FnPkgPath returns the package path of fn ("" if none).
func FnPkgPath(fn *ssa.Function) string {
	if pk := fnPkg(fn); pk != nil {
		return pk.Path()
	}
	return ""
}

// CallGraph returns the VTA call graph seeded by CHA (built on first use).
func (p *Program) CallGraph() *callgraph.Graph {
	if p.cg == nil {
		all := ssautil.AllFunctions(p.SSA)
		p.cg = vta.CallGraph(all, cha.CallGraph(p.SSA))
	}
	return p.cg
}

// Pos renders a position relative to the tree root.
func (p *Program) Pos(pos token.Pos) string {
	if !pos.IsValid() {
		return "-"
	}
	ps := p.Fset.Position(pos)
	rel, err := filepath.Rel(p.Dir, ps.Filename)
	if err != nil || strings.HasPrefix(rel, "..") {
		rel = ps.Filename
	}
	return fmt.Sprintf("%s:%d:%d", rel, ps.Line, ps.Column)
}

// FuncName is the stable, position-free name used in obligation keys.
func FuncName(fn *ssa.Function) string {
	if fn == nil {
		return "?"
	}
	s := fn.String()
	s = strings.ReplaceAll(s, LibPath, "lib")
	s = strings.ReplaceAll(s, "github.com/aquilax/hranoprovod-cli/cmd/hranoprovod-cli/v3/internal/", "")
	s = strings.ReplaceAll(s, "github.com/aquilax/hranoprovod-cli/cmd/hranoprovod-cli/v3", "main")
	return s
}

// Pkg returns the loaded package with the given path or nil.
func (p *Program) Pkg(path string) *packages.Package { return p.ByPath[path] }

// SSAPkg returns the SSA package for a path or nil.
func (p *Program) SSAPkg(path string) *ssa.Package {
	if pk := p.ByPath[path]; pk != nil {
		return p.SSA.Package(pk.Types)
	}
	return nil
}

// LookupFunc finds a package-level function by path and name.
func (p *Program) LookupFunc(pkgPath, name string) *ssa.Function {
	if sp := p.SSAPkg(pkgPath); sp != nil {
		return sp.Func(name)
	}
	return nil
}

// LookupMethod finds method name on named type tname (pointer or value receiver).
func (p *Program) LookupMethod(pkgPath, tname, name string) *ssa.Function {
	pk := p.ByPath[pkgPath]
	if pk == nil {
		return nil
	}
	obj := pk.Types.Scope().Lookup(tname)
	if obj == nil {
		return nil
	}
	for _, t := range []types.Type{obj.Type(), types.NewPointer(obj.Type())} {
		ms := p.SSA.MethodSets.MethodSet(t)
		if sel := ms.Lookup(pk.Types, name); sel != nil {
			if fn := p.SSA.MethodValue(sel); fn != nil {
				return fn
			}
		}
	}
	return nil
}

// LookupType returns the named type object or nil.
func (p *Program) LookupType(pkgPath, name string) *types.Named {
	pk := p.ByPath[pkgPath]
	if pk == nil {
		return nil
	}
	obj := pk.Types.Scope().Lookup(name)
	if obj == nil {
		return nil
	}
	n, _ := obj.Type().(*types.Named)
	return n
}

// FileOf returns the syntax file and package containing pos.
func (p *Program) FileOf(pos token.Pos) (*ast.File, *packages.Package) {
	for _, r := range p.Roots {
		for _, f := range r.Syntax {
			if f.Pos() <= pos && pos <= f.End() {
				return f, r
			}
		}
	}
	return nil, nil
}

// RootsInScope lists the root packages that take part in universes.
func (p *Program) RootsInScope() []*packages.Package {
	var out []*packages.Package
	for _, r := range p.Roots {
		if !p.ScopeOut[r.PkgPath] {
			out = append(out, r)
		}
	}
	return out
}

// InScopePkg reports whether the package path is one of the analysed root packages.
func (p *Program) InScopePkg(path string) bool {
	for _, r := range p.Roots {
		if r.PkgPath == path && !p.ScopeOut[path] {
			return true
		}
	}
	return false
}

// ErrVars: package-level error variables of the tree that are set once, in their initialiser, to errors.New or
// fmt.Errorf of a constant text and never written again (sentinel errors): variable -> text.
var ErrVars = map[*ssa.Global]string{}

func recordErrVars(prog *ssa.Program, rootSet map[*types.Package]bool) {
	type use struct {
		text   string
		ok     bool
		stores int
		other  bool
	}
	uses := map[*ssa.Global]*use{}
	for fn := range ssautil.AllFunctions(prog) {
		for _, b := range fn.Blocks {
			for _, in := range b.Instrs {
				for _, op := range in.Operands(nil) {
					g, isG := (*op).(*ssa.Global)
					if !isG || g.Pkg == nil || !rootSet[g.Pkg.Pkg] {
						continue
					}
					nt, isN := g.Type().(*types.Pointer).Elem().(*types.Named)
					if !isN || nt.Obj().Pkg() != nil || nt.Obj().Name() != "error" {
						continue
					}
					u := uses[g]
					if u == nil {
						u = &use{}
						uses[g] = u
					}
					switch t := in.(type) {
					case *ssa.Store:
						if t.Addr != ssa.Value(g) {
							u.other = true
							continue
						}
						u.stores++
						v := t.Val
						if mi, ok := v.(*ssa.MakeInterface); ok {
							v = mi.X
						}
						call, ok := v.(*ssa.Call)
						if !ok || call.Call.StaticCallee() == nil || len(call.Call.Args) < 1 || fn.Synthetic == "" || fn.Name() != "init" {
							u.other = true
							continue
						}
						name := call.Call.StaticCallee().String()
						k, isC := call.Call.Args[0].(*ssa.Const)
						if (name == "errors.New" || name == "fmt.Errorf") && isC && k.Value != nil && k.Value.Kind() == constant.String {
							u.text, u.ok = constant.StringVal(k.Value), true
						} else {
							u.other = true
						}
					case *ssa.UnOp:
						if t.Op != token.MUL {
							u.other = true
						}
					case *ssa.DebugRef:
					default:
						u.other = true
					}
				}
			}
		}
	}
	for g, u := range uses {
		if u.ok && u.stores == 1 && !u.other {
			ErrVars[g] = u.text
		}
	}
}

// EffectiveType: t itself, or — when t is an interface of the tree with a single implementation (SoleImpl) — that
// implementation's type: what every non-nil value of t actually is.
func EffectiveType(t types.Type) types.Type {
	if nt, ok := t.(*types.Named); ok {
		if conc, ok := SoleImpl[nt.String()]; ok {
			return conc
		}
	}
	return t
}

// DeadBlocks: the blocks of fn that cannot run because they lie behind a test of a diagnostics hook that nothing
// ever sets (NilFuncVars): the side of `hook != nil` (or the far side of `if hook == nil { return }`).
func DeadBlocks(fn *ssa.Function) map[*ssa.BasicBlock]bool {
	if len(NilFuncVars) == 0 || len(fn.Blocks) == 0 {
		return nil
	}
	deadEdge := map[[2]*ssa.BasicBlock]bool{}
	any := false
	for _, b := range fn.Blocks {
		iff, ok := b.Instrs[len(b.Instrs)-1].(*ssa.If)
		if !ok {
			continue
		}
		cmp, ok := iff.Cond.(*ssa.BinOp)
		if !ok || (cmp.Op != token.EQL && cmp.Op != token.NEQ) {
			continue
		}
		x, y := cmp.X, cmp.Y
		if cst, ok := x.(*ssa.Const); ok && cst.IsNil() {
			x, y = y, x
		}
		cst, ok := y.(*ssa.Const)
		if !ok || !cst.IsNil() {
			continue
		}
		ld, ok := x.(*ssa.UnOp)
		if !ok || ld.Op != token.MUL {
			continue
		}
		g, ok := ld.X.(*ssa.Global)
		if !ok || !NilFuncVars[g] {
			continue
		}
		// the hook is nil: `== nil` is true (Succs[0] taken), `!= nil` is false (Succs[1] taken)
		dead := b.Succs[1]
		if cmp.Op == token.NEQ {
			dead = b.Succs[0]
		}
		deadEdge[[2]*ssa.BasicBlock{b, dead}] = true
		any = true
	}
	if !any {
		return nil
	}
	reach := map[*ssa.BasicBlock]bool{fn.Blocks[0]: true}
	work := []*ssa.BasicBlock{fn.Blocks[0]}
	for len(work) > 0 {
		b := work[len(work)-1]
		work = work[:len(work)-1]
		for _, s := range b.Succs {
			if deadEdge[[2]*ssa.BasicBlock{b, s}] || reach[s] {
				continue
			}
			reach[s] = true
			work = append(work, s)
		}
	}
	out := map[*ssa.BasicBlock]bool{}
	for _, b := range fn.Blocks {
		if !reach[b] {
			out[b] = true
		}
	}
	return out
}
