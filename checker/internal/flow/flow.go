// Package flow is engine E3: a field-based, flow-insensitive, context-insensitive
// value-flow (provenance) graph over the SSA form of the analysed tree.
//
// Nodes are SSA values, abstract field locations keyed by (named struct type,
// field), memory cells (allocs, globals, captured variables) and sources
// (constants, command-line flag reads, external calls). Edges follow
// assignments, φ, conversions, stores to and loads from fields and cells,
// containers smashed to one node, closure bindings and parameter/result binding
// along resolved call edges. Calls to formatting and string functions propagate
// their operands to their result marked as transformed.
//
// The graph over-approximates the sources of a value, which is sound for
// "only these sources" obligations.
package flow

import (
	"fmt"
	"go/constant"
	"go/token"
	"go/types"
	"sort"
	"strings"

	"golang.org/x/tools/go/callgraph"
	"golang.org/x/tools/go/ssa"
)

type Node string

type edge struct {
	from        Node
	transformed bool
	why         string
}

type Graph struct {
	in      map[Node][]edge // predecessors
	InScope func(*ssa.Function) bool
	cg      *callgraph.Graph
	funcs   []*ssa.Function
	derefs  []deref // stores and loads through pointer values, resolved after all edges are known
	// FlagRead recognises c.String/Int/Bool/IsSet("name") calls: returns a source label.
	FlagRead func(call *ssa.Call) ([]string, bool)
	// ExternalWrites: an external call that fills a structure (gcfg.ReadInto): returns the named struct
	// types whose every field receives the source label.
	ExternalWrites func(call *ssa.Call) (label string, into []types.Type)
}

func valNode(v ssa.Value) Node {
	switch x := v.(type) {
	case *ssa.Const:
		if x.Value == nil {
			return "c:nil"
		}
		return Node("c:" + x.Value.ExactString())
	case *ssa.Global:
		return Node("g:" + x.String())
	case *ssa.Function:
		return Node("fn:" + x.String())
	}
	fn := "?"
	if p := v.Parent(); p != nil {
		fn = fmt.Sprintf("%s@%d", p.String(), p.Pos())
	}
	return Node("v:" + fn + ":" + v.Name())
}

func fieldNode(t types.Type, i int) Node {
	if p, ok := t.Underlying().(*types.Pointer); ok {
		t = p.Elem()
	}
	name := t.String()
	st, ok := t.Underlying().(*types.Struct)
	if !ok || i >= st.NumFields() {
		return Node("f:" + name + ".?")
	}
	return Node("f:" + name + "." + st.Field(i).Name())
}

// FieldNode names the abstract location of field fname of the named type t.
func FieldNode(t types.Type, fname string) Node {
	if p, ok := t.Underlying().(*types.Pointer); ok {
		t = p.Elem()
	}
	return Node("f:" + t.String() + "." + fname)
}

func (g *Graph) add(to, from Node, transformed bool, why string) {
	if to == from {
		return
	}
	g.in[to] = append(g.in[to], edge{from, transformed, why})
}

var stringFuncs = map[string]bool{
	"fmt.Sprintf": true, "fmt.Sprint": true, "fmt.Sprintln": true, "fmt.Errorf": true,
}

// Build constructs the graph for funcs.
func Build(funcs []*ssa.Function, inScope func(*ssa.Function) bool, cg *callgraph.Graph) *Graph {
	g := &Graph{in: map[Node][]edge{}, InScope: inScope, cg: cg}
	g.funcs = funcs
	return g
}

// Populate adds the edges (separate from Build so hooks can be set first).
func (g *Graph) Populate() {
	for _, fn := range g.funcs {
		g.addFunc(fn)
	}
	// Pointers to fields that travel as values (a table row holding &cfg.Field, a helper taking *string):
	// a store or load through such a pointer reaches every field whose address can flow into it.
	for _, d := range g.derefs {
		for _, fieldN := range g.addrSources(d.ptr) {
			if d.store {
				g.add(fieldN, d.val, false, "store-through-pointer")
			} else {
				g.add(d.val, fieldN, false, "load-through-pointer")
			}
		}
	}
}

type deref struct {
	ptr, val Node
	store    bool
}

// addrSources: the field nodes whose address can flow into the pointer value n.
func (g *Graph) addrSources(n Node) []Node {
	seen := map[Node]bool{}
	work := []Node{n}
	var out []Node
	for len(work) > 0 {
		cur := work[len(work)-1]
		work = work[:len(work)-1]
		if seen[cur] {
			continue
		}
		seen[cur] = true
		if strings.HasPrefix(string(cur), "addr:") {
			out = append(out, Node(strings.TrimPrefix(string(cur), "addr:")))
			continue
		}
		for _, e := range g.in[cur] {
			work = append(work, e.from)
		}
	}
	return out
}

func (g *Graph) callees(fn *ssa.Function, ci ssa.CallInstruction) []*ssa.Function {
	if s := ci.Common().StaticCallee(); s != nil {
		return []*ssa.Function{s}
	}
	var out []*ssa.Function
	if g.cg != nil {
		if n := g.cg.Nodes[fn]; n != nil {
			for _, e := range n.Out {
				if e.Site == ci {
					out = append(out, e.Callee.Func)
				}
			}
		}
	}
	return out
}

func (g *Graph) addrNode(a ssa.Value) (Node, bool) {
	switch x := a.(type) {
	case *ssa.FieldAddr:
		return fieldNode(x.X.Type(), x.Field), true
	case *ssa.IndexAddr:
		// containers are smashed: the element lives in the container's node
		if ia, ok := g.addrNode(x.X); ok {
			return ia, true
		}
		return valNode(x.X), true
	case *ssa.Alloc, *ssa.Global, *ssa.FreeVar, *ssa.Parameter:
		return valNode(x), true
	case *ssa.UnOp:
		// pointer loaded from somewhere: treat the pointer value's node as the cell
		return valNode(x), true
	case *ssa.Phi, *ssa.Call, *ssa.Extract, *ssa.Lookup, *ssa.MakeInterface, *ssa.ChangeType:
		return valNode(x), true
	}
	return "", false
}

// isPointerValue: the address operand is a pointer that was computed elsewhere
// (loaded, passed, returned), not an address formed on the spot.
func isPointerValue(a ssa.Value) bool {
	switch a.(type) {
	case *ssa.UnOp, *ssa.Phi, *ssa.Call, *ssa.Extract, *ssa.Parameter, *ssa.Field, *ssa.Lookup, *ssa.FreeVar:
		_, isPtr := a.Type().Underlying().(*types.Pointer)
		return isPtr
	}
	return false
}

func (g *Graph) addFunc(fn *ssa.Function) {
	for _, b := range fn.Blocks {
		for _, in := range b.Instrs {
			switch in := in.(type) {
			case *ssa.Store:
				if n, ok := g.addrNode(in.Addr); ok {
					g.add(n, valNode(in.Val), false, "store")
					if isPointerValue(in.Addr) {
						g.derefs = append(g.derefs, deref{valNode(in.Addr), valNode(in.Val), true})
					}
				}
			case *ssa.UnOp:
				switch in.Op {
				case token.MUL:
					if n, ok := g.addrNode(in.X); ok {
						g.add(valNode(in), n, false, "load")
						if isPointerValue(in.X) {
							g.derefs = append(g.derefs, deref{valNode(in.X), valNode(in), false})
						}
					}
					// a struct loaded as a whole carries its type's fields implicitly (field-based)
				default:
					g.add(valNode(in), valNode(in.X), true, "unop")
				}
			case *ssa.Field:
				if st, ok := in.X.Type().Underlying().(*types.Struct); ok && in.Field < st.NumFields() {
					g.add(valNode(in), Node("f:"+in.X.Type().String()+"."+st.Field(in.Field).Name()), false, "field")
				}
				g.add(valNode(in), valNode(in.X), false, "field-of-value")
			case *ssa.FieldAddr:
				// the address of a field, when it travels as a value, names that field
				g.add(valNode(in), Node("addr:"+string(fieldNode(in.X.Type(), in.Field))), false, "address-of")
			case *ssa.IndexAddr:
				// addresses carry no value flow themselves
			case *ssa.Index:
				g.add(valNode(in), valNode(in.X), false, "index")
			case *ssa.Lookup:
				g.add(valNode(in), valNode(in.X), false, "lookup")
			case *ssa.MapUpdate:
				g.add(valNode(in.Map), valNode(in.Value), false, "mapupdate")
			case *ssa.Phi:
				for _, e := range in.Edges {
					g.add(valNode(in), valNode(e), false, "phi")
				}
			case *ssa.ChangeType:
				g.add(valNode(in), valNode(in.X), false, "convert")
				g.structCopy(in.X.Type(), in.Type())
			case *ssa.Convert:
				g.add(valNode(in), valNode(in.X), false, "convert")
			case *ssa.ChangeInterface:
				g.add(valNode(in), valNode(in.X), false, "convert")
			case *ssa.MakeInterface:
				g.add(valNode(in), valNode(in.X), false, "iface")
			case *ssa.TypeAssert:
				g.add(valNode(in), valNode(in.X), false, "assert")
			case *ssa.Extract:
				g.add(valNode(in), Node(string(valNode(in.Tuple))+fmt.Sprintf("#%d", in.Index)), false, "extract")
				g.add(valNode(in), valNode(in.Tuple), false, "extract-any")
			case *ssa.Slice:
				g.add(valNode(in), valNode(in.X), false, "slice")
			case *ssa.BinOp:
				g.add(valNode(in), valNode(in.X), true, "binop")
				g.add(valNode(in), valNode(in.Y), true, "binop")
			case *ssa.MakeClosure:
				clo := in.Fn.(*ssa.Function)
				for i, bv := range in.Bindings {
					if i < len(clo.FreeVars) {
						g.add(valNode(clo.FreeVars[i]), valNode(bv), false, "bind")
						// the free variable is the same cell as the binding
						g.add(valNode(bv), valNode(clo.FreeVars[i]), false, "bind-back")
					}
				}
				g.add(valNode(in), Node("fn:"+clo.String()), false, "closure")
				// a method value (x.m handed over as a function): the wrapper is synthetic and not walked, so the bound
				// receiver is connected to the method's receiver parameter here
				if clo.Synthetic != "" && strings.HasSuffix(clo.Name(), "$bound") && len(in.Bindings) == 1 {
					for _, b := range clo.Blocks {
						for _, ci := range b.Instrs {
							if call, ok := ci.(ssa.CallInstruction); ok {
								if m := call.Common().StaticCallee(); m != nil && len(m.Params) > 0 {
									g.add(valNode(m.Params[0]), valNode(in.Bindings[0]), false, "bound-recv")
								}
							}
						}
					}
				}
			case *ssa.Return:
				for i, r := range in.Results {
					g.add(Node(fmt.Sprintf("ret:%s@%d#%d", fn.String(), fn.Pos(), i)), valNode(r), false, "return")
				}
			case ssa.CallInstruction:
				g.addCall(fn, in)
			}
		}
	}
}

// structCopy: converting between two struct types copies fields of equal names.
func (g *Graph) structCopy(from, to types.Type) {
	deref := func(t types.Type) types.Type {
		if p, ok := t.Underlying().(*types.Pointer); ok {
			return p.Elem()
		}
		return t
	}
	from, to = deref(from), deref(to)
	fs, ok1 := from.Underlying().(*types.Struct)
	ts, ok2 := to.Underlying().(*types.Struct)
	if !ok1 || !ok2 || from.String() == to.String() {
		return
	}
	for i := 0; i < fs.NumFields() && i < ts.NumFields(); i++ {
		g.add(Node("f:"+to.String()+"."+ts.Field(i).Name()), Node("f:"+from.String()+"."+fs.Field(i).Name()), false, "struct-convert")
	}
}

func (g *Graph) addCall(fn *ssa.Function, ci ssa.CallInstruction) {
	com := ci.Common()
	var res Node
	if v := ci.Value(); v != nil {
		res = valNode(v)
	}
	if call, ok := ci.(*ssa.Call); ok {
		if g.FlagRead != nil {
			if labels, ok := g.FlagRead(call); ok {
				for _, label := range labels {
					g.add(res, Node("flag:"+label), false, "flag")
				}
				return
			}
		}
		if g.ExternalWrites != nil {
			if label, into := g.ExternalWrites(call); label != "" {
				for _, t := range into {
					if st, ok := t.Underlying().(*types.Struct); ok {
						for i := 0; i < st.NumFields(); i++ {
							g.add(Node("f:"+t.String()+"."+st.Field(i).Name()), Node("ext:"+label), false, "external-write")
						}
					}
				}
			}
		}
	}
	if b, ok := com.Value.(*ssa.Builtin); ok {
		if res != "" {
			for _, a := range com.Args {
				g.add(res, valNode(a), b.Name() != "append", "builtin "+b.Name())
			}
		}
		return
	}
	callees := g.callees(fn, ci)
	inlined := false
	for _, cal := range callees {
		if cal == nil || len(cal.Blocks) == 0 || !g.InScope(cal) {
			continue
		}
		inlined = true
		args := com.Args
		params := cal.Params
		if com.IsInvoke() {
			// receiver is com.Value
			if len(params) > 0 {
				g.add(valNode(params[0]), valNode(com.Value), false, "recv")
			}
			params = params[min(1, len(params)):]
		}
		for i, a := range args {
			if i < len(params) {
				g.add(valNode(params[i]), valNode(a), false, "arg")
			}
		}
		if res != "" {
			n := cal.Signature.Results().Len()
			for i := 0; i < n; i++ {
				r := Node(fmt.Sprintf("ret:%s@%d#%d", cal.String(), cal.Pos(), i))
				if n == 1 {
					g.add(res, r, false, "result")
				} else {
					g.add(Node(fmt.Sprintf("%s#%d", res, i)), r, false, "result")
				}
			}
		}
	}
	if inlined || res == "" {
		return
	}
	// external or unresolved callee
	name := "?"
	if s := com.StaticCallee(); s != nil {
		name = s.String()
	} else if len(callees) == 1 && callees[0] != nil && !com.IsInvoke() {
		// a call through a function value that can only be one function (var timeNow = time.Now)
		name = callees[0].String()
	} else if com.IsInvoke() {
		name = "invoke " + com.Method.FullName()
	}
	pure := stringFuncs[name] || strings.HasPrefix(name, "strings.") || strings.HasPrefix(name, "strconv.") || strings.HasPrefix(name, "(time.Time).") || name == "time.Date" || name == "time.Parse"
	if pure {
		for _, a := range com.Args {
			g.add(res, valNode(a), true, "via "+name)
		}
		return
	}
	g.add(res, Node("ext:"+name), false, "external")
	// tuple results of external calls
	if com.Signature().Results().Len() > 1 {
		for i := 0; i < com.Signature().Results().Len(); i++ {
			g.add(Node(fmt.Sprintf("%s#%d", res, i)), Node("ext:"+name), false, "external")
		}
	}
}

func min(a, b int) int {
	if a < b {
		return a
	}
	return b
}

// Source is one origin of a value.
type Source struct {
	Node        Node
	Transformed bool // some edge on the way marks a transformation
}

// Sources returns the source nodes (constants, flags, externals, unbound
// parameters) that can reach start, with the transformed bit of the best
// (least transformed) path.
func (g *Graph) Sources(start Node) []Source {
	type st struct {
		n Node
		t bool
	}
	best := map[Node]bool{} // node -> reached untransformed?
	seen := map[st]bool{}
	work := []st{{start, false}}
	srcs := map[Node]bool{}
	srcT := map[Node]bool{}
	for len(work) > 0 {
		cur := work[len(work)-1]
		work = work[:len(work)-1]
		if seen[cur] {
			continue
		}
		seen[cur] = true
		_ = best
		preds := g.in[cur.n]
		isSrc := strings.HasPrefix(string(cur.n), "c:") || strings.HasPrefix(string(cur.n), "flag:") || strings.HasPrefix(string(cur.n), "ext:")
		if isSrc || (len(preds) == 0 && strings.HasPrefix(string(cur.n), "v:") && strings.Contains(string(cur.n), ":") && isParamNode(cur.n)) {
			if !srcs[cur.n] {
				srcs[cur.n] = true
				srcT[cur.n] = cur.t
			} else if !cur.t {
				srcT[cur.n] = false
			}
			continue
		}
		for _, e := range preds {
			work = append(work, st{e.from, cur.t || e.transformed})
		}
	}
	var out []Source
	for n := range srcs {
		out = append(out, Source{n, srcT[n]})
	}
	sort.Slice(out, func(i, j int) bool { return out[i].Node < out[j].Node })
	return out
}

func isParamNode(n Node) bool {
	// v:<fn>@pos:<name> with a name that is not tNN
	s := string(n)
	i := strings.LastIndex(s, ":")
	if i < 0 {
		return false
	}
	name := s[i+1:]
	if len(name) > 1 && name[0] == 't' {
		allDigits := true
		for _, c := range name[1:] {
			if c < '0' || c > '9' {
				allDigits = false
			}
		}
		if allDigits {
			return false
		}
	}
	return true
}

// ValueNode exposes the node of an SSA value.
func ValueNode(v ssa.Value) Node { return valNode(v) }

// ConstString renders a constant source node as a Go string if it is one.
func ConstString(n Node) (string, bool) {
	if !strings.HasPrefix(string(n), "c:") {
		return "", false
	}
	lit := strings.TrimPrefix(string(n), "c:")
	if len(lit) > 0 && lit[0] == '"' {
		v := constant.MakeFromLiteral(lit, token.STRING, 0)
		if v.Kind() == constant.String {
			return constant.StringVal(v), true
		}
	}
	return "", false
}

// Reaches reports whether some node satisfying pred lies on a backward path from start.
func (g *Graph) Reaches(start Node, pred func(Node) bool) bool {
	seen := map[Node]bool{}
	work := []Node{start}
	for len(work) > 0 {
		n := work[len(work)-1]
		work = work[:len(work)-1]
		if seen[n] {
			continue
		}
		seen[n] = true
		if pred(n) {
			return true
		}
		for _, e := range g.in[n] {
			work = append(work, e.from)
		}
	}
	return false
}
