package rules

import (
	"fmt"
	"go/token"
	"go/types"
	"regexp"
	"sort"
	"strings"

	"golang.org/x/tools/go/ssa"

	"hrverif/internal/absint"
	"hrverif/internal/core"
	"hrverif/internal/flow"
)

// An expansion site is a function that looks a logged food up in the recipe
// book (comma-ok lookup in a DBNodeMap) while walking LogNode.Elements. For
// each one the checker extracts every contribution the function makes
//   (sink, name-class, value-class, found ∈ {T,F}, filter)
// and compares it with the reference semantics ("quantity x resolved element,
// else the food itself"). Outer = an element of the day (LogNode.Elements),
// inner = an element of the looked-up recipe (DBNode.Elements); they are told
// apart by where the value was loaded from, not by variable names.

type contribution struct {
	sink   string
	name   string // outer.Name | inner.Name | recipe.Header | const | other:<key>
	value  string // inner.Value*outer.Value | outer.Value | inner.Value | const:<v> | other:<key>
	found  string // T | F | ""
	filter string // "" | inner.Name==<X> | outer.Name==<X>
	gate   string // decided presentation switches on the path (Totals, TotalsOnly)
	pos    string
}

func (c contribution) String() string {
	return fmt.Sprintf("%s(%s, %s) found=%s filter=%q gate=%q", c.sink, c.name, c.value, c.found, c.filter, c.gate)
}

func expansionSites(p *core.Program) []*ssa.Function {
	dbT := p.LookupType(core.LibPath, "DBNodeMap")
	if dbT == nil {
		return nil
	}
	seen := map[*ssa.Function]bool{}
	var out []*ssa.Function
	for _, fn := range p.Funcs {
		if strings.HasPrefix(core.FnPkgPath(fn), core.LibPath+"/resolver") {
			continue // the resolver is C01's subject
		}
		for _, b := range fn.Blocks {
			for _, in := range b.Instrs {
				lk, ok := in.(*ssa.Lookup)
				if !ok || !lk.CommaOk || !types.Identical(lk.X.Type(), dbT) {
					continue
				}
				// a helper that is handed the logged element by its caller is judged in the caller's context
				roots := []*ssa.Function{fn}
				if _, keyIsParam := lk.Index.(*ssa.Parameter); takesElement(p, fn) || (keyIsParam && fn.Parent() == nil) {
					// … and so is one that is handed just the name to look up (ingredients(name) Elements)
					roots = contextRoots(p, fn, 2)
					// an accessor of the book itself (func (m DBNodeMap) Lookup(name) (*DBNode, bool)) is the lookup
					// written as a method: the functions that call it are the sites
					if len(roots) == 1 && roots[0] == fn && fn.Signature.Recv() != nil && types.Identical(fn.Signature.Recv().Type(), dbT) {
						roots = nil
						for _, g := range p.Funcs {
							if strings.HasPrefix(core.FnPkgPath(g), core.LibPath+"/resolver") {
								continue
							}
							for _, gb := range g.Blocks {
								for _, gin := range gb.Instrs {
									if ci, ok := gin.(ssa.CallInstruction); ok && core.Callee(ci.Common()) == fn && g != fn {
										top := g
										if takesElement(p, g) && g.Parent() == nil {
											roots = append(roots, contextRoots(p, g, 2)...)
										} else {
											roots = append(roots, top)
										}
									}
								}
							}
						}
					}
				}
				for _, r := range roots {
					if !seen[r] {
						seen[r] = true
						out = append(out, r)
					}
				}
			}
		}
	}
	return out
}

// takesElement: one of fn's parameters (after the receiver) is a shared.Element, *Element or Elements.
func takesElement(p *core.Program, fn *ssa.Function) bool {
	elT := p.LookupType(core.LibPath, "Element")
	elsT := p.LookupType(core.LibPath, "Elements")
	for i, prm := range fn.Params {
		if i == 0 && fn.Signature.Recv() != nil {
			continue
		}
		t := prm.Type()
		if pt, ok := t.(*types.Pointer); ok {
			t = pt.Elem()
		}
		if (elT != nil && types.Identical(t, elT)) || (elsT != nil && types.Identical(t, elsT)) {
			return true
		}
	}
	return false
}

type expClassifier struct {
	x *absint.Exec
}

// origin follows a load symbol back to "outer"/"inner"/"recipe" and the field.
func (e expClassifier) origin(v absint.Value) (who, field string) {
	loc := locOf(e.x, v)
	if loc == "" {
		return "", ""
	}
	i := strings.LastIndex(loc, "·")
	if i < 0 {
		return "", ""
	}
	field = loc[i+len("·"):]
	base := loc[:i]
	// base is L:<slice>[idx] for an element, or L:lookup(...) for a recipe field
	for depth := 0; depth < 6; depth++ {
		switch {
		case strings.HasPrefix(base, "L:lookup(") && !strings.Contains(strings.TrimPrefix(base, "L:lookup("), "["):
			return "recipe", field
		case strings.Contains(base, "lookup(") && strings.Contains(base, "·Elements"):
			return "inner", field
		case strings.HasPrefix(base, "L:§ln·Elements") || strings.Contains(base, "·Elements[") && !strings.Contains(base, "lookup("):
			return "outer", field
		}
		// L:§@k[idx] → where was §@k loaded from?
		if strings.HasPrefix(base, "L:§") {
			name := strings.TrimPrefix(base, "L:§")
			if j := strings.IndexAny(name, "[·"); j >= 0 {
				name = name[:j]
			}
			next := locOf(e.x, absint.Sym{Name: name})
			if next == "" {
				return "", field
			}
			switch {
			case strings.Contains(next, "lookup(") && strings.HasSuffix(next, "·Elements"):
				return "inner", field
			case strings.HasSuffix(next, "·Elements"):
				return "outer", field
			}
			base = next
			continue
		}
		break
	}
	return "", field
}

func (e expClassifier) nameClass(v absint.Value) string {
	if _, ok := v.(absint.Const); ok {
		return "const"
	}
	who, f := e.origin(v)
	switch {
	case who == "outer" && f == "Name":
		return "outer.Name"
	case who == "inner" && f == "Name":
		return "inner.Name"
	case who == "recipe" && f == "Header":
		return "recipe.Header"
	}
	return "other:" + v.Key() + "{" + locOf(e.x, v) + "}"
}

func (e expClassifier) valueClass(v absint.Value) string {
	if c, ok := v.(absint.Const); ok {
		return "const:" + c.Key()
	}
	if t, ok := v.(*absint.Term); ok && t.Op == "*" && len(t.Args) == 2 {
		a, b := e.valueClass(t.Args[0]), e.valueClass(t.Args[1])
		if a > b {
			a, b = b, a
		}
		return a + "*" + b
	}
	who, f := e.origin(v)
	if f == "Value" && (who == "outer" || who == "inner") {
		return who + ".Value"
	}
	return "other:" + v.Key() + "{" + locOf(e.x, v) + "}"
}

// collectContributions explores fn and returns its contributions.
func collectContributions(c *core.Ctx, rule string, fn *ssa.Function) ([]contribution, bool) {
	x := newExec(c)
	cl := expClassifier{x}
	var out []contribution
	seen := map[string]bool{}
	skipped := 0
	add := func(s *absint.State, sink, name, value, pos string) {
		if strings.Contains(name+value, "§j") || strings.Contains(name+value, "§w") {
			// operands generalised by a loop join carry no provenance; the exactly explored
			// iterations run the same body and are the ones classified
			skipped++
			return
		}
		var gs []string
		for _, sw := range []string{"Totals", "TotalsOnly"} {
			if v := s.Data["gate:"+sw]; v != "" {
				gs = append(gs, sw+"="+v)
			}
		}
		// filed under the very value the path has settled the name to be equal to (acc.Add(wanted, …) where
		// e.Name == wanted): that is filing under the name
		if f := s.Data["filter"]; strings.HasPrefix(name, "other:") && strings.Contains(f, ".Name==") {
			parts := strings.SplitN(f, "==", 2)
			key := strings.TrimPrefix(name, "other:")
			if i := strings.IndexByte(key, '{'); i > 0 {
				key = key[:i]
			}
			if key == parts[1] {
				name = parts[0]
			}
		}
		ct := contribution{sink: sink, name: name, value: value, found: s.Data["found"], filter: s.Data["filter"], gate: strings.Join(gs, ","), pos: pos}
		k := ct.String()
		if !seen[k] {
			seen[k] = true
			out = append(out, ct)
		}
	}
	// variadic args of a print call
	argsOf := func(s *absint.State, v absint.Value) []absint.Value {
		t, ok := v.(*absint.Term)
		if !ok || t.Op != "slice" {
			return nil
		}
		p, ok := t.Args[0].(absint.Ptr)
		if !ok {
			return nil
		}
		var ks []string
		for k := range s.Heap {
			if strings.HasPrefix(k, p.Loc+"[") {
				ks = append(ks, k)
			}
		}
		sort.Strings(ks)
		var vs []absint.Value
		for _, k := range ks {
			hv := s.Heap[k]
			if iv, ok := hv.(*absint.Iface); ok {
				hv = iv.V
			}
			vs = append(vs, hv)
		}
		return vs
	}
	var lookupBlocks []*ssa.BasicBlock
	if dbT := c.P.LookupType(core.LibPath, "DBNodeMap"); dbT != nil {
		for _, b := range fn.Blocks {
			for _, in := range b.Instrs {
				if lk, ok := in.(*ssa.Lookup); ok && lk.CommaOk && types.Identical(lk.X.Type(), dbT) {
					lookupBlocks = append(lookupBlocks, b)
				}
			}
		}
	}
	x.Hooks.Decide = func(x *absint.Exec, s *absint.State, atom string, outs []string) {
		if len(outs) != 1 {
			return
		}
		for _, sw := range []string{"Totals", "TotalsOnly"} {
			if strings.HasPrefix(atom, "b(") && (strings.Contains(atom, `c:"`+sw+`")`) || switchLoc(x, atom, sw)) {
				s.SetData("gate:"+sw, outs[0])
			}
		}
		// a switch bound early into a private field of the reporter, possibly negated (details: !config.TotalsOnly)
		if strings.HasPrefix(atom, "b(§@") {
			loc := x.LocOf[strings.TrimSuffix(strings.TrimPrefix(atom, "b(§@"), ")")]
			if i := strings.LastIndex(loc, "·"); i >= 0 {
				if al, ok := switchAliases(c.P)[loc[i+len("·"):]]; ok {
					v := outs[0]
					if al.inverted {
						v = map[string]string{"T": "F", "F": "T"}[v]
					}
					s.SetData("gate:"+al.sw, v)
				}
			}
		}
		switch {
		case strings.HasPrefix(atom, "b(has("):
			s.SetData("found", outs[0])
		case strings.HasPrefix(atom, "ord("):
			parts := splitTop(strings.TrimSuffix(strings.TrimPrefix(atom, "ord("), ")"))
			if len(parts) != 2 {
				return
			}
			for i := 0; i < 2; i++ {
				nc := cl.nameClass(absint.Sym{Name: strings.TrimPrefix(parts[i], "§")})
				if (nc == "outer.Name" || nc == "inner.Name") && strings.HasPrefix(parts[i], "§") {
					if outs[0] == "=" {
						s.SetData("filter", nc+"=="+parts[1-i])
					} else {
						s.SetData("filter", nc+"!="+parts[1-i])
					}
					return
				}
			}
		}
	}
	x.Hooks.BackEdge = func(x *absint.Exec, s *absint.State, f *absint.Frame, h *ssa.BasicBlock) {
		if f.Fn != fn {
			return
		}
		s.SetData("filter", "")
		for _, lb := range lookupBlocks {
			if h.Dominates(lb) {
				s.SetData("found", "")
			}
		}
	}
	// a list filled through Elements.Add in this exploration, and sinks that are fed by replaying such a list
	// element by element (second pass: for _, e := range list { acc.Add(e.Name, e.Value) })
	sinkLists := map[string]bool{}
	type relay struct{ sink, gate, pos string }
	var relays []relay
	relayOf := func(s *absint.State, nameV, valV absint.Value) bool {
		if !sameElem(x, nameV, "Name", valV, "Value") {
			return false
		}
		loc := locOf(x, nameV) // L:§@k[idx]·Name
		if !strings.HasPrefix(loc, "L:§") {
			return false
		}
		name := strings.TrimPrefix(loc, "L:§")
		if j := strings.IndexAny(name, "[·"); j >= 0 {
			name = name[:j]
		}
		return sinkLists[locOf(x, absint.Sym{Name: name})]
	}
	gateOf := func(s *absint.State) string {
		var gs []string
		for _, sw := range []string{"Totals", "TotalsOnly"} {
			if v := s.Data["gate:"+sw]; v != "" {
				gs = append(gs, sw+"="+v)
			}
		}
		return strings.Join(gs, ",")
	}
	x.Hooks.Call = func(x *absint.Exec, s *absint.State, site ssa.CallInstruction, callee *ssa.Function, fnv absint.Value, args []absint.Value) (absint.Value, bool) {
		pos := c.P.Pos(site.Pos())
		switch {
		case callee == nil && !site.Common().IsInvoke() && len(args) >= 1 && len(args) <= 2 && site.Value() != nil && isStringType(site.Value().Type()):
			// a formatter held in a function value (a colouring closure kept in a field): what it renders is its operand
			return absint.NewTerm("rendered", args...), true
		case isMethod(callee, core.LibPath, "Accumulator", "Add") && len(args) == 3:
			if relayOf(s, args[1], args[2]) {
				relays = append(relays, relay{"Accumulator.Add", gateOf(s), pos})
				return absint.Const{}, true
			}
			add(s, "Accumulator.Add", cl.nameClass(args[1]), cl.valueClass(args[2]), pos)
			return absint.Const{}, true
		case isMethod(callee, core.LibPath, "TreeNode", "AddDeep") && len(args) >= 2:
			if st, ok := args[1].(*absint.Struct); ok && len(st.Fields) == 2 {
				add(s, "TreeNode.AddDeep", cl.nameClass(st.Fields[0]), cl.valueClass(st.Fields[1]), pos)
			} else {
				add(s, "TreeNode.AddDeep", cl.nameClass(absint.NewTerm("field", args[1], absint.Const{})), "other:"+args[1].Key(), pos)
			}
			return absint.Const{}, true
		case isMethod(callee, core.LibPath, "Elements", "Add") && len(args) == 3:
			add(s, "Elements.Add", cl.nameClass(args[1]), cl.valueClass(args[2]), pos)
			if p, ok := args[0].(absint.Ptr); ok {
				sinkLists[p.Loc] = true
			}
			return absint.Const{}, true
		case callee != nil && strings.HasPrefix(callee.String(), "fmt.Fprint") && len(args) >= 2:
			var nm, vl string
			for _, a := range argsOf(s, args[len(args)-1]) {
				if n := cl.nameClass(a); !strings.HasPrefix(n, "other") && n != "const" && nm == "" {
					nm = n
				}
				if v := cl.valueClass(a); !strings.HasPrefix(v, "other") && !strings.HasPrefix(v, "const") && vl == "" {
					vl = v
				}
				// values printed through a colouring helper: Sprintf(fmt, v)
				if t, ok := a.(*absint.Term); ok {
					var walk func(absint.Value)
					walk = func(tv absint.Value) {
						if tt, ok := tv.(*absint.Term); ok && tt.Op == "slice" {
							for _, inner := range argsOf(s, tt) {
								walk(inner)
							}
							return
						}
						if tt, ok := tv.(*absint.Term); ok {
							if v := cl.valueClass(tt); !strings.HasPrefix(v, "other") && !strings.HasPrefix(v, "const") && vl == "" {
								vl = v
								return
							}
							for _, ta := range tt.Args {
								walk(ta)
							}
						} else if v := cl.valueClass(tv); !strings.HasPrefix(v, "other") && !strings.HasPrefix(v, "const") && vl == "" {
							vl = v
						}
					}
					walk(t)
				}
			}
			if nm != "" || vl != "" {
				add(s, "print", nm, vl, pos)
			}
			return nil, false
		}
		return nil, false
	}
	x.Hooks.Store = func(x *absint.Exec, s *absint.State, in *ssa.Store, addr, val absint.Value) {
		p, ok := addr.(absint.Ptr)
		if ok && strings.HasPrefix(p.Loc, "A:r/") {
			// accumulation into a variable of the function itself (a sum kept in a local structure instead of an
			// accumulator map): the first value is assigned, later ones are added
			v := val
			if t, isT := val.(*absint.Term); isT && t.Op == "+" && len(t.Args) == 2 {
				if old, has := s.Heap[p.Loc]; has {
					for i := 0; i < 2; i++ {
						if t.Args[i].Key() == old.Key() {
							v = t.Args[1-i]
						}
					}
				}
			}
			if vc := cl.valueClass(v); vc == "outer.Value" || vc == "inner.Value*outer.Value" {
				cell := p.Loc
				if j := strings.IndexAny(cell, "[·"); j >= 0 {
					cell = cell[:j]
				}
				add(s, "local:"+cell, "", vc, c.P.Pos(in.Pos()))
			}
			return
		}
		if !ok || !strings.HasPrefix(p.Loc, "L:§") || strings.Contains(p.Loc, "[") {
			return
		}
		// scalar accumulation into a receiver field: r.total += v
		t, ok := val.(*absint.Term)
		if !ok || t.Op != "+" || len(t.Args) != 2 {
			return
		}
		for i := 0; i < 2; i++ {
			if locOf(x, t.Args[i]) == p.Loc {
				fld := p.Loc[strings.LastIndex(p.Loc, "·")+len("·"):]
				add(s, "field:"+fld, "", cl.valueClass(t.Args[1-i]), c.P.Pos(in.Pos()))
			}
		}
	}
	x.Hooks.MapUpdate = func(x *absint.Exec, s *absint.State, in *ssa.MapUpdate, m, k, v absint.Value) {
		if loc := locOf(x, m); strings.HasPrefix(loc, "L:§") && !strings.Contains(loc, "lookup(") {
			add(s, "set:"+loc[strings.LastIndex(loc, "·")+len("·"):], cl.nameClass(k), "const:"+v.Key(), c.P.Pos(in.Pos()))
		}
	}
	// inner loops: mark while a range over the recipe's elements is running
	dbT := c.P.LookupType(core.LibPath, "DBNodeMap")
	x.Hooks.Instr = func(x *absint.Exec, s *absint.State, in ssa.Instruction) {
		if lk, ok := in.(*ssa.Lookup); ok && lk.CommaOk && dbT != nil && types.Identical(lk.X.Type(), dbT) {
			s.SetData("found", "")
			s.SetData("filter", "")
		}
	}
	_ = skipped
	x.Run(x.NewState(fn, nil, nil))
	ok := account(c, x, rule, fn)
	// a sink fed by replaying the list receives what the list received, under both gates
	doneRelay := map[string]bool{}
	for _, r := range relays {
		if doneRelay[r.sink+"|"+r.gate] {
			continue
		}
		doneRelay[r.sink+"|"+r.gate] = true
		for _, ct := range append([]contribution(nil), out...) {
			if ct.sink != "Elements.Add" {
				continue
			}
			cp := ct
			cp.sink = r.sink
			cp.pos = r.pos
			switch {
			case cp.gate == "":
				cp.gate = r.gate
			case r.gate != "" && r.gate != cp.gate:
				cp.gate = cp.gate + "," + r.gate
			}
			if k := cp.String(); !seen[k] {
				seen[k] = true
				out = append(out, cp)
			}
		}
	}
	return out, ok
}

// ruleExpansionSites is C07-R1/R2 (and C02-R1, C03-R3/R4 through the filter).
func ruleExpansionSites(c *core.Ctx, rule string, only func(*ssa.Function) bool) {
	sites := expansionSites(c.P)
	n := 0
	for _, fn := range sites {
		if only != nil && !only(fn) {
			continue
		}
		n++
		fname := core.FuncName(fn)
		pos := c.P.Pos(fn.Pos())
		c.Universe(rule+" expansion sites", fname+" ("+pos+")")
		cons, ok := collectContributions(c, rule, fn)
		if !ok {
			continue
		}
		var lines []string
		for _, ct := range cons {
			lines = append(lines, ct.String())
		}
		sort.Strings(lines)
		for _, l := range lines {
			c.Valuations = append(c.Valuations, fname+": "+l)
		}
		var foundC, notC, anyC []contribution
		for _, ct := range cons {
			switch ct.found {
			case "T":
				foundC = append(foundC, ct)
			case "F":
				notC = append(notC, ct)
			default:
				anyC = append(anyC, ct)
			}
		}
		var bad []string
		// membership site: a set filled exactly when not found
		isMembership := false
		for _, ct := range cons {
			if strings.HasPrefix(ct.sink, "set:") {
				isMembership = true
			}
		}
		if isMembership {
			for _, ct := range cons {
				if !strings.HasPrefix(ct.sink, "set:") {
					continue
				}
				if ct.found != "F" {
					bad = append(bad, fmt.Sprintf("%s: a name is recorded as unresolved on a path where the book %s it (%s)", ct.pos, map[string]string{"T": "defines", "": "was not consulted about"}[ct.found], ct))
				}
				if ct.name != "outer.Name" {
					bad = append(bad, fmt.Sprintf("%s: the recorded name is %s, not the logged food's name", ct.pos, ct.name))
				}
			}
			if len(notC) == 0 {
				bad = append(bad, "no name is ever recorded on the not-found side")
			}
		} else {
			hasLocalSink := false
			for _, ct := range cons {
				if strings.HasPrefix(ct.sink, "local:") && ct.found != "" {
					hasLocalSink = true
				}
			}
			if len(anyC) > 0 {
				for _, ct := range anyC {
					if ct.sink == "print" && ct.name == "outer.Name" && (ct.value == "outer.Value" || ct.value == "") {
						continue // the food line itself, printed before the lookup
					}
					if ct.sink == "print" && ct.name == "" && hasLocalSink {
						continue // the row that shows what was summed up in a local variable
					}
					bad = append(bad, fmt.Sprintf("%s: contribution %s is made without consulting the recipe book", ct.pos, ct))
				}
			}
			// (b) shapes
			for _, ct := range foundC {
				if ct.sink == "print" && ct.name == "outer.Name" && ct.value == "outer.Value" {
					continue
				}
				if ct.value != "inner.Value*outer.Value" {
					bad = append(bad, fmt.Sprintf("%s: a food the book defines contributes %s, expected quantity x resolved amount (inner.Value*outer.Value)", ct.pos, ct.value))
				}
				if ct.name != "" && ct.name != "inner.Name" && ct.name != "recipe.Header" && ct.name != "outer.Name" {
					bad = append(bad, fmt.Sprintf("%s: found-side contribution is filed under %s", ct.pos, ct.name))
				}
			}
			for _, ct := range notC {
				if ct.value != "outer.Value" && ct.value != "" {
					bad = append(bad, fmt.Sprintf("%s: a food the book does not define must stand for itself, but contributes %s instead of its own quantity", ct.pos, ct.value))
				}
				if ct.name != "" && ct.name != "outer.Name" {
					bad = append(bad, fmt.Sprintf("%s: pass-through contribution is filed under %s, not the food's own name", ct.pos, ct.name))
				}
			}
			// (a) pass-through exists
			if len(foundC) > 0 && len(notC) == 0 {
				bad = append(bad, "contributions are made when the food is found but none when it is not: a food the book does not define (an element logged directly) is dropped")
			}
			// (c) filters correspond
			ff, nf := map[string]bool{}, map[string]bool{}
			for _, ct := range foundC {
				if strings.Contains(ct.filter, "==") {
					ff[strings.SplitN(ct.filter, "==", 2)[1]] = true
				}
			}
			for _, ct := range notC {
				if strings.Contains(ct.filter, "==") {
					if !strings.HasPrefix(ct.filter, "outer.Name==") {
						bad = append(bad, fmt.Sprintf("%s: the pass-through side is filtered by %s, expected the food's own name", ct.pos, ct.filter))
					}
					nf[strings.SplitN(ct.filter, "==", 2)[1]] = true
				}
			}
			for _, ct := range foundC {
				if strings.Contains(ct.filter, "==") && !strings.HasPrefix(ct.filter, "inner.Name==") {
					bad = append(bad, fmt.Sprintf("%s: the found side is filtered by %s, expected the resolved element's name", ct.pos, ct.filter))
				}
			}
			if len(ff) > 0 || len(nf) > 0 {
				for k := range ff {
					if !nf[k] {
						bad = append(bad, fmt.Sprintf("the found side selects the element %s but the pass-through side does not select the same one", k))
					}
				}
				for k := range nf {
					if !ff[k] {
						bad = append(bad, fmt.Sprintf("the pass-through side selects %s but the found side does not", k))
					}
				}
				for _, ct := range notC {
					if !strings.Contains(ct.filter, "==") {
						bad = append(bad, fmt.Sprintf("%s: pass-through contribution %s is not restricted to the selected element", ct.pos, ct))
					}
				}
				for _, ct := range foundC {
					if ct.sink == "print" && ct.name == "outer.Name" {
						continue
					}
					if !strings.Contains(ct.filter, "==") {
						bad = append(bad, fmt.Sprintf("%s: found-side contribution %s is not restricted to the selected element: a food that does not contain the element contributes the amount of some other element", ct.pos, ct))
					}
				}
			}
			// (d) same sinks on both sides
			fs, ns := map[string]bool{}, map[string]bool{}
			for _, ct := range foundC {
				fs[ct.sink] = true
			}
			for _, ct := range notC {
				ns[ct.sink] = true
			}
			for k := range fs {
				if !ns[k] && len(notC) > 0 {
					bad = append(bad, fmt.Sprintf("sink %s is fed when the food is found but not when it is passed through: figures derived from it disagree with the other reports", k))
				}
			}
			for k := range ns {
				if !fs[k] && len(foundC) > 0 {
					bad = append(bad, fmt.Sprintf("sink %s is fed on the pass-through side only", k))
				}
			}
		}
		bad = uniq(bad)
		if len(bad) == 0 {
			kind := "expansion"
			if isMembership {
				kind = "membership"
			}
			c.Discharge(rule, fname, kind, pos, fmt.Sprintf("%d contributions agree with 'quantity x resolved element, else the food itself' (found %d / not found %d)", len(cons), len(foundC), len(notC)))
		}
		for _, m := range bad {
			c.Violate(rule, fname, "summary", pos, m, nil)
		}
	}
	if n == 0 {
		c.Undecide(rule, "expansion", "universe", "-", "no function looks a logged food up in the recipe book: universe empty", nil)
	}
}

// switchLoc: the atom tests a boolean loaded from a location ending in ·<sw>.
func switchLoc(x *absint.Exec, atom, sw string) bool {
	if !strings.HasPrefix(atom, "b(§@") {
		return false
	}
	id := strings.TrimSuffix(strings.TrimPrefix(atom, "b(§@"), ")")
	return strings.HasSuffix(x.LocOf[id], "·"+sw)
}

var loadSymRe = regexp.MustCompile(`§(?:j|w)?@([0-9]+)`)

// atomOnField: the atom is about the named configuration field — read from a structure held by value
// (field(c,"Name")) or loaded through a pointer to it (a load symbol whose location ends in ·Name).
func atomOnField(x *absint.Exec, atom, field string) bool {
	if strings.Contains(atom, `c:"`+field+`"`) {
		return true
	}
	for _, m := range loadSymRe.FindAllStringSubmatch(atom, -1) {
		if strings.HasSuffix(x.LocOf[m[1]], "·"+field) {
			return true
		}
	}
	return false
}

// ruleReporterSelection: a function that chooses among reporter constructors
// returns an element-filtering reporter exactly when a single element was
// asked for — whatever the other switches say. "Element-filtering" is read off
// the reporters themselves: a type whose Process restricts its contributions
// to one selected element (contribution summaries with a name filter).
func ruleReporterSelection(c *core.Ctx, rule string, only func(*ssa.Function) bool) {
	rp := c.P.Pkg(reporterPkg)
	if rp == nil {
		return
	}
	obj := rp.Types.Scope().Lookup("Reporter")
	if obj == nil {
		return
	}
	// which reporter types filter by element
	filtering := map[string]bool{}
	for _, fn := range expansionSites(c.P) {
		if fn.Name() != "Process" || fn.Signature.Recv() == nil {
			continue
		}
		cons, ok := collectContributions(c, rule, fn)
		if !ok {
			continue
		}
		for _, ct := range cons {
			if strings.Contains(ct.filter, "==") {
				t := fn.Signature.Recv().Type()
				if pt, isP := t.(*types.Pointer); isP {
					t = pt.Elem()
				}
				filtering[t.String()] = true
			}
		}
	}
	n := 0
	for _, fn := range c.P.Funcs {
		if only != nil && !only(fn) {
			continue
		}
		if fn.Signature.Results().Len() != 1 || !types.Identical(fn.Signature.Results().At(0).Type(), obj.Type()) || fn.Parent() != nil || len(fn.Blocks) == 0 {
			continue
		}
		x := newExec(c)
		x.Hooks.Inline = func(callee *ssa.Function, depth int) bool { return depth <= 1 }
		terms := x.Run(x.NewState(fn, nil, nil))
		if len(x.Problems) > 0 || x.Exhausted {
			continue
		}
		type outcome struct{ single, typ, pos, val string }
		var outs []outcome
		typesSeen := map[string]bool{}
		for _, tm := range terms {
			if tm.Kind != "return" || len(tm.Ret) != 1 {
				continue
			}
			iv, ok := tm.Ret[0].(*absint.Iface)
			if !ok {
				continue
			}
			t := iv.T
			if pt, isP := t.(*types.Pointer); isP {
				t = pt.Elem()
			}
			single := ""
			for k := range tm.State.PC {
				if strings.HasPrefix(k, "ord(") && atomOnField(x, k, "SingleElement") && strings.Contains(k, "len(") {
					if o := x.Possible(tm.State, k); len(o) > 0 {
						single = strings.Join(o, "")
					}
				}
				// the same question asked as a comparison with the empty string
				if strings.HasPrefix(k, "ord(") && atomOnField(x, k, "SingleElement") && !strings.Contains(k, "len(") && (strings.HasPrefix(k, `ord(c:"",`) || strings.HasSuffix(k, `,c:"")`)) {
					if o := strings.Join(x.Possible(tm.State, k), ""); o == "=" {
						single = "="
					} else if o != "" && !strings.Contains(o, "=") {
						single = "<"
					}
				}
			}
			typesSeen[t.String()] = true
			outs = append(outs, outcome{single, t.String(), c.P.Pos(tm.Pos), x.Valuation(tm.State)})
		}
		if len(typesSeen) < 2 {
			continue // not a selector
		}
		anyFiltering := false
		for t := range typesSeen {
			if filtering[t] {
				anyFiltering = true
			}
		}
		if !anyFiltering {
			continue
		}
		n++
		fname := core.FuncName(fn)
		c.Universe(rule+" reporter selectors", fname+" ("+c.P.Pos(fn.Pos())+")")
		var bad []string
		for _, o := range outs {
			short := o.typ[strings.LastIndex(o.typ, ".")+1:]
			switch {
			case o.single == "<" && !filtering[o.typ]:
				bad = append(bad, fmt.Sprintf("%s: with a single element requested the selector returns %s, which does not restrict itself to that element (%s): the report shows raw quantities of every food instead of quantity x the food's amount of the element", o.pos, short, o.val))
			case o.single == "=" && filtering[o.typ]:
				bad = append(bad, fmt.Sprintf("%s: without a single element the selector returns the element-filtering reporter %s (%s)", o.pos, short, o.val))
			case o.single == "" && filtering[o.typ]:
				bad = append(bad, fmt.Sprintf("%s: the selector returns %s on a path that never asked whether a single element was requested (%s)", o.pos, short, o.val))
			case o.single == "" && !filtering[o.typ]:
				bad = append(bad, fmt.Sprintf("%s: the selector returns %s before asking whether a single element was requested (%s): another switch takes precedence over --single-element", o.pos, short, o.val))
			}
		}
		bad = uniq(bad)
		if len(bad) == 0 {
			c.Discharge(rule, fname, "selection", c.P.Pos(fn.Pos()), fmt.Sprintf("an element-filtering reporter is returned exactly when a single element is requested (%d paths, %d reporter types)", len(outs), len(typesSeen)))
		}
		for _, m := range bad {
			c.Violate(rule, fname, "selection", c.P.Pos(fn.Pos()), m, nil)
		}
	}
	if n == 0 {
		c.Note(rule + ": no function selects among reporters of which one filters by element")
	}
}

func isStringType(t types.Type) bool {
	b, ok := t.Underlying().(*types.Basic)
	return ok && b.Info()&types.IsString != 0
}

type switchAlias struct {
	sw       string
	inverted bool
}

var switchAliasMemo = map[*core.Program]map[string]switchAlias{}

// switchAliases: boolean fields of the tree's structures into which only the value of a totals switch of the
// configuration (or its negation) is ever stored: field name -> switch.
func switchAliases(p *core.Program) map[string]switchAlias {
	if m, ok := switchAliasMemo[p]; ok {
		return m
	}
	type cand struct {
		al  switchAlias
		bad bool
	}
	cs := map[string]*cand{}
	configField := func(v ssa.Value) (string, bool) {
		switch t := v.(type) {
		case *ssa.Field:
			return fieldNameV(t.X.Type(), t.Field), true
		case *ssa.UnOp:
			if fa, ok := t.X.(*ssa.FieldAddr); ok && t.Op == token.MUL {
				return fieldName(fa.X.Type(), fa.Field), true
			}
		}
		return "", false
	}
	for _, fn := range p.Funcs {
		for _, b := range fn.Blocks {
			for _, in := range b.Instrs {
				st, ok := in.(*ssa.Store)
				if !ok {
					continue
				}
				fa, ok := st.Addr.(*ssa.FieldAddr)
				if !ok {
					continue
				}
				bt, ok := st.Val.Type().Underlying().(*types.Basic)
				if !ok || bt.Kind() != types.Bool {
					continue
				}
				name := fieldName(fa.X.Type(), fa.Field)
				if name == "Totals" || name == "TotalsOnly" || name == "" {
					continue
				}
				v, inv := st.Val, false
				if u, ok := v.(*ssa.UnOp); ok && u.Op == token.NOT {
					v, inv = u.X, true
				}
				src, ok := configField(v)
				c := cs[name]
				if c == nil {
					c = &cand{}
					cs[name] = c
				}
				if !ok || (src != "Totals" && src != "TotalsOnly") {
					c.bad = true
					continue
				}
				if c.al.sw != "" && (c.al.sw != src || c.al.inverted != inv) {
					c.bad = true
				}
				c.al = switchAlias{src, inv}
			}
		}
	}
	out := map[string]switchAlias{}
	for k, c := range cs {
		if !c.bad && c.al.sw != "" {
			out[k] = c.al
		}
	}
	switchAliasMemo[p] = out
	return out
}

// looseTextTests: predicates and transformations that make a comparison of names something other than equality.
var looseTextTests = map[string]bool{
	"strings.HasPrefix": true, "strings.HasSuffix": true, "strings.Contains": true, "strings.EqualFold": true,
	"strings.ToLower": true, "strings.ToUpper": true, "strings.Title": true, "strings.TrimSpace": true, "strings.Trim": true,
	"strings.Index": true, "strings.ContainsAny": true, "strings.TrimSuffix": true, "strings.TrimPrefix": true,
	"regexp.MatchString": true, "(*regexp.Regexp).MatchString": true, "regexp.Compile": true, "regexp.MustCompile": true,
	"path.Match": true, "path/filepath.Match": true,
}

// ruleExactElementMatch (C07-R9, shared): the element asked for with --single-element is only ever compared for
// equality. Wherever a value that derives from Config.SingleElement (value flow: copies in private fields, parameters)
// is handed to a prefix/substring/case-folding/pattern test, some reports count names that the others keep apart —
// `fat` would also take `fat/saturated` — so the figures of the reports no longer agree.
func ruleExactElementMatch(c *core.Ctx, rule string) {
	cfgT := c.P.LookupType(reporterPkg, "Config")
	if !requireAnchor(c, rule, "reporter.Config", cfgT != nil) {
		return
	}
	g := buildFlow(c)
	field := string(flow.FieldNode(cfgT, "SingleElement"))
	n, bad := 0, 0
	for _, fn := range c.P.Funcs {
		for _, b := range fn.Blocks {
			for _, in := range b.Instrs {
				call, ok := in.(*ssa.Call)
				if !ok {
					continue
				}
				cal := core.Callee(&call.Call)
				if cal == nil || !looseTextTests[cal.String()] {
					continue
				}
				for _, a := range call.Call.Args {
					if !isStringType(a.Type()) {
						continue
					}
					if !g.Reaches(flow.ValueNode(a), func(nd flow.Node) bool { return string(nd) == field }) {
						continue
					}
					n++
					bad++
					c.Violate(rule, core.FuncName(fn), cal.Name(), c.P.Pos(call.Pos()), "the element asked for with --single-element reaches "+cal.String()+": names are matched by something other than equality here (a prefix, a part, another case, a pattern), while the other reports match exactly — a name that is a prefix or a case variant of another is counted together with it in this report only", nil)
				}
			}
		}
	}
	if bad == 0 {
		c.Discharge(rule, "reporters", "exact-match", "-", "the requested element never reaches a prefix, substring, case-folding or pattern test")
	}
	_ = n
}
