package rules

import (
	"go/types"
	"strings"

	"hrverif/internal/core"
)

func init() {
	register(&Property{
		ID:    "C04",
		Rules: []string{"C04-R1", "C04-R2", "C04-R3", "C04-R4", "C04-R5", "C16-R10", "C01-R7", "C06-R2", "C13-R2", "C13-R4"},
		Explain: "Decides the control structure of the tokenizer: C04-R1 the scan loop of ParseStreamCallback is evaluated as an observer over first(line) x blank x record-open x note x no-separator x conversion-error and must perform exactly the events of the documented line classification table (skip; flush once then open; note; bad syntax; conversion error; entry), keep the open record across every non-heading line and return from inside the loop only when a callback asks to stop; " +
			"C04-R2 at end of input an open record is delivered exactly once and its callback error returned; " +
			"C04-R3 the constant trim sets and the entry splitter agree with docs/syntax.ebnf (separator, quote, both indentation characters in every set, the dash in the name sets only, nothing that belongs to a name or number, splitter = exactly space and tab); " +
			"C04-R4 the parser configuration (comment character) set by the defaults is not wiped when a configuration file is read: the file is read into the live options or a complete copy of them; " +
			"C04-R5 every command hands the parser configuration of the loaded options on: each command configuration literal that has a parser.Config field sets it. C16-R10 (shared) what gcfg parses is the whole configuration file. Shared: C01-R7 the book loader stores every record, C06-R2 every selected record reaches the reporter, C13-R2/R4 the raw-book export formats the entry's own amount.",
		NotDecided:  "that names and values come out right for all inputs (splitting at the last blank, trimming, ParseFloat rounding, UTF-8), CRLF handling (bufio.ScanLines), quoted names",
		Assumptions: []string{"bufio.Scanner: Scan() false then Err() nil-or-not; Text() returns the raw line"},
		Run: func(c *core.Ctx) {
			ruleCSVRows(c, "C13-R2", "C13-R4") // the value of an entry as the raw-book export shows it
			ruleC06R2(c)
			ruleBookLoaderKeepsAll(c, "C01-R7")
			ruleConfigWholeFile(c, "C16-R10")
			analyseParserLoop(c, map[string]bool{"C04-R1": true, "C04-R2": true, "C04-R3": true})
			ruleConfigTarget(c, "C04-R4")
			ruleConfigLiterals(c, "C04-R5", func(t types.Type) bool { return strings.HasSuffix(t.String(), "parser.Config") })
		},
	})
}
