package rules

import (
	"go/types"
	"strings"

	"golang.org/x/tools/go/ssa"

	"hrverif/internal/core"
)

func init() {
	register(&Property{
		ID:    "C14",
		Rules: []string{"C14-R1", "C14-R2", "C14-R3", "C14-R4", "C14-R5", "C14-R6", "C06-R7", "C07-R6", "C14-R7", "C06-R2"},
		Explain: "C14-R1 one date layout governs parsing and printing of log days: every layout operand of time.Parse and Time.Format in the tree derives (field-based value flow) from the date-format flag, the configuration file and the default; the only constant-only layout is the ISO layout of CSV rows, and no flag other than date-format feeds a layout; what is parsed as a record's date is its heading as it stands; " +
			"C14-R2 what the printer writes the parser strips: the constant formats of PrintReporter.Process are split into literal runs and verbs and compared with the tokenizer's own trim sets and splitter (heading, entry, note and terminator lines); C14-R3 notes print the parsed pair untransformed; C14-R4 duplicates of a day are merged by name (existing name: += on its own slot, new name: appended); " +
			"C14-R5 every printf format of package print is built from constants (a note or a name is an argument, never part of the format); C14-R6 when Options.Load succeeds the reporters' date layout equals the layout the log is parsed with as it stands at the end of Load (the copy is not taken before --date-format is applied); C06-R7 (shared) nothing converts a heading's date to the process time zone between reading and printing. Shared: C07-R6 the loops over the day's entries and notes are left only at the head or with an error. A line written with Fprintln of concatenated pieces is judged as the format the pieces spell. C14-R7 the reporter section of print's configuration is the loaded one; C06-R2 (shared) every selected record reaches the printer.",
		NotDecided: "byte-for-byte idempotence, rounding to two decimals, names that end in characters of the trim sets",
		Run: func(c *core.Ctx) {
			ruleC06R2(c)
			ruleConfigLiterals(c, "C14-R7", func(t types.Type) bool { return strings.HasSuffix(t.String(), "reporter.Config") })
			ruleEveryEntrySeen(c, "C07-R6")
			ruleDateLayouts(c, "C14-R1")
			rulePrintForm(c, "C14-R2", "C14-R3")
			ruleZoneAPIs(c, "C06-R7")
			ruleReporterDateFormat(c, "C14-R6")
			ruleConstFormats(c, "C14-R5", func(fn *ssa.Function) bool { return inPkgs(fn, core.CmdPath+"/internal/print") })
			if fn := c.P.LookupFunc(core.LibPath, "NewLogNodeFromElements"); requireAnchor(c, "C14-R4", "NewLogNodeFromElements", fn != nil) {
				ruleMergeByName(c, "C14-R4", fn, false)
			}
		},
	})
}
