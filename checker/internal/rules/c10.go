package rules

import (
	"fmt"
	"strings"

	"golang.org/x/tools/go/ssa"

	"hrverif/internal/absint"
	"hrverif/internal/core"
)

var inputSeeds = map[string]string{
	"os.Open":                             "the file cannot be opened",
	"os.OpenFile":                         "the file cannot be opened",
	"os.ReadFile":                         "the file cannot be read",
	"io.ReadAll":                          "the underlying read fails",
	"io.ReadFull":                         "the underlying read fails",
	"io.Copy":                             "the underlying read (or the copy's write) fails",
	"io.CopyN":                            "the underlying read (or the copy's write) fails",
	"io.CopyBuffer":                       "the underlying read (or the copy's write) fails",
	"(*bytes.Buffer).ReadFrom":            "the underlying read fails",
	"io/ioutil.ReadAll":                   "the underlying read fails",
	"io/ioutil.ReadFile":                  "the file cannot be read",
	"(*bufio.Scanner).Err":                "the underlying read fails or a line exceeds the scanner's buffer",
	"(*os.File).Read":                     "the underlying read fails",
	"(*bufio.Reader).Read":                "the underlying read fails",
	"(*bufio.Reader).ReadString":          "the underlying read fails",
	"(*bufio.Reader).ReadBytes":           "the underlying read fails",
	"(*bufio.Reader).ReadLine":            "the underlying read fails",
	"(*github.com/urfave/cli/v2.App).Run": "a command action failed",
}

func runErrorFlow(c *core.Ctx, rule string, isSeed func(*ssa.Function, ssa.CallInstruction) (bool, string)) {
	P, sites := errorChain(c.P, isSeed)
	var names []string
	for f := range P {
		names = append(names, core.FuncName(f))
	}
	c.Universe(rule+" functions that may return the error (P)", names...)
	for _, s := range sites {
		c.Universe(rule+" call sites whose error must be used", fmt.Sprintf("%s → %s (%s)", core.FuncName(s.fn), s.callee, c.P.Pos(s.call.Pos())))
		checkErrSite(c, rule, s)
	}
	if len(sites) == 0 {
		c.Undecide(rule, "chain", "universe", "-", "no call site can return the seeded errors: the universe is empty although the commands must read input and write output somehow", nil)
	}
}

func init() {
	register(&Property{
		ID:    "C10",
		Rules: []string{"C10-R1", "C10-R2", "C10-R3", "C10-R4", "C08-R6"},
		Explain: "Decides that an input-side failure cannot end in success: C10-R1 scanner typestate — every return of the parser after Scan() reported false has consulted Scanner.Err(), a non-nil scanner error is returned and nothing is delivered after it (every failing byte offset, an over-long line and a directory opened as a file are this one abstract event); " +
			"C10-R2 must-flow of errors — for every call site that can return an open/read/scan error, directly or through the chain of repository functions up to main, on every path on which the call fails the enclosing function returns a non-nil error, sends it on a channel or ends in log.Fatal; " +
			"C10-R3 no ParseCallback of the tree, given a good record, asks the parser to stop without returning an error (an early stop is a success on a prefix of the file). C10-R4 the scanner of the parser reads the reader it was handed as it is (not capped or transformed on the way) and splits it with bufio.ScanLines. C08-R6 (shared) the file helper opens every name it is asked for and hands the opened file itself on (nothing is skipped or substituted in silence).",
		NotDecided:  "that all headings and entries were taken into account when a command succeeds (C04 decides what the parser delivers; C10-R3 that no consumer stops early)",
		Assumptions: []string{"bufio.Scanner reports read failures and over-long lines only through Err()", "urfave/cli App.Run returns the action's error"},
		Run: func(c *core.Ctx) {
			analyseParserLoop(c, map[string]bool{"C10-R1": true})
			ruleOtherScanners(c, "C10-R1")
			ruleScannerSetup(c, "C10-R4")
			ruleCallbackConsumers(c, map[string]bool{"C10-R3": true})
			ruleFileReaders(c, "C08-R6") // every name a command asks for is opened and handed on: nothing is skipped in silence
			runErrorFlow(c, "C10-R2", func(cal *ssa.Function, ci ssa.CallInstruction) (bool, string) {
				if cal == nil {
					return false, ""
				}
				if w, ok := inputSeeds[cal.String()]; ok {
					return true, w
				}
				return false, ""
			})
		},
		Canary: func(c *core.Ctx) {
			runErrorFlow(c, "C10-R2", func(cal *ssa.Function, ci ssa.CallInstruction) (bool, string) {
				if cal != nil {
					if w, ok := inputSeeds[cal.String()]; ok {
						return true, w
					}
				}
				return false, ""
			})
		},
	})
}

// ruleOtherScanners: any bufio.NewScanner outside the parser's loop is outside the typestate model.
func ruleOtherScanners(c *core.Ctx, rule string) {
	n := 0
	for _, fn := range c.P.Funcs {
		for _, b := range fn.Blocks {
			for _, in := range b.Instrs {
				call, ok := in.(*ssa.Call)
				if !ok || core.Callee(&call.Call) == nil || core.Callee(&call.Call).String() != "bufio.NewScanner" {
					continue
				}
				n++
				c.Universe(rule+" scanners", core.FuncName(fn)+" ("+c.P.Pos(call.Pos())+")")
				if !(core.FnPkgPath(fn) == parserPkg && fn.Name() == "ParseStreamCallback") {
					// generic typestate: some Err() call on the same scanner must exist and be a C10-R2 site
					hasErr := false
					returned := false
					for _, r := range *call.Referrers() {
						if rc, ok := r.(*ssa.Call); ok && isMethod(core.Callee(&rc.Call), "bufio", "Scanner", "Err") {
							hasErr = true
						}
						if _, ok := r.(*ssa.Return); ok {
							returned = true
						}
					}
					if !hasErr && returned {
						// a helper that makes the scanner and hands it back (with a buffer of another size, say): the
						// functions that call the helper are the ones that must consult Err()
						callers, all := 0, true
						for _, g := range c.P.Funcs {
							for _, gb := range g.Blocks {
								for _, gin := range gb.Instrs {
									gc, ok := gin.(*ssa.Call)
									if !ok || core.Callee(&gc.Call) != fn || gc.Referrers() == nil {
										continue
									}
									callers++
									found := false
									for _, r := range *gc.Referrers() {
										if rc, ok := r.(*ssa.Call); ok && isMethod(core.Callee(&rc.Call), "bufio", "Scanner", "Err") {
											found = true
										}
									}
									if !found {
										all = false
									}
								}
							}
						}
						hasErr = callers > 0 && all
					}
					if hasErr {
						c.Discharge(rule, core.FuncName(fn), "scanner", c.P.Pos(call.Pos()), "Scanner.Err() is consulted (its result is followed by C10-R2)")
					} else {
						c.Violate(rule, core.FuncName(fn), "scanner", c.P.Pos(call.Pos()), "a bufio.Scanner is used and its Err() is never consulted: a failed read or an over-long line looks like end of input", nil)
					}
				}
			}
		}
	}
	if n == 0 {
		c.Note(rule + ": no bufio.Scanner in the tree; input errors are covered by C10-R2 only")
	}
	_ = strings.HasPrefix
	_ = absint.Top{}
}
