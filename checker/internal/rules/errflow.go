package rules

import (
	"fmt"
	"go/constant"
	"go/token"
	"go/types"
	"os"
	"sort"
	"strings"

	"golang.org/x/tools/go/callgraph"
	"golang.org/x/tools/go/ssa"

	"hrverif/internal/absint"
	"hrverif/internal/core"
)

// errSite is a call whose error result must not be lost.
type errSite struct {
	fn     *ssa.Function       // enclosing function
	call   ssa.CallInstruction // *ssa.Call or *ssa.Defer
	callee string              // printable callee
	why    string              // why the error matters (seed or chain)
}

func hasErrorResult(sig *types.Signature) bool {
	for i := 0; i < sig.Results().Len(); i++ {
		if isErrorType(sig.Results().At(i).Type()) {
			return true
		}
	}
	return false
}

// errorFieldsOf: the indices of the error-typed fields of a structure type (a result such as
// ResolvedDatabase{Nodes, Err} carries the error inside it).
func errorFieldsOf(t types.Type) []int {
	st, ok := t.Underlying().(*types.Struct)
	if !ok {
		return nil
	}
	var out []int
	for i := 0; i < st.NumFields(); i++ {
		if isErrorType(st.Field(i).Type()) {
			out = append(out, i)
		}
	}
	return out
}

// carriesError: the signature has an error result, or a structure result with an error field.
func carriesError(sig *types.Signature) bool {
	for i := 0; i < sig.Results().Len(); i++ {
		t := sig.Results().At(i).Type()
		if isErrorType(t) || len(errorFieldsOf(t)) > 0 {
			return true
		}
	}
	return false
}

func isErrorType(t types.Type) bool {
	n, ok := t.(*types.Named)
	return ok && n.Obj().Pkg() == nil && n.Obj().Name() == "error"
}

// calleesOf resolves the possible callees of a call instruction (static, or through the VTA graph).
func calleesOf(p *core.Program, fn *ssa.Function, ci ssa.CallInstruction, cg *callgraph.Graph) []*ssa.Function {
	if s := core.Callee(ci.Common()); s != nil {
		return []*ssa.Function{s}
	}
	var out []*ssa.Function
	if n := cg.Nodes[fn]; n != nil {
		for _, e := range n.Out {
			if e.Site == ci {
				out = append(out, e.Callee.Func)
			}
		}
	}
	return out
}

// errorChain computes P: the in-scope functions with an error result from which
// a seed error can come, and the call sites whose error result must be used.
func errorChain(p *core.Program, isSeed func(*ssa.Function, ssa.CallInstruction) (bool, string)) (map[*ssa.Function]bool, []errSite) {
	cg := p.CallGraph()
	P := map[*ssa.Function]bool{}
	type siteInfo struct {
		fn      *ssa.Function
		ci      ssa.CallInstruction
		callees []*ssa.Function
		seed    bool
		seedWhy string
	}
	var all []siteInfo
	for _, fn := range p.Funcs {
		for _, b := range fn.Blocks {
			for _, in := range b.Instrs {
				ci, ok := in.(ssa.CallInstruction)
				if !ok {
					continue
				}
				if _, isGo := in.(*ssa.Go); isGo {
					continue
				}
				if _, isB := ci.Common().Value.(*ssa.Builtin); isB {
					continue
				}
				if !carriesError(ci.Common().Signature()) {
					continue
				}
				si := siteInfo{fn: fn, ci: ci, callees: calleesOf(p, fn, ci, cg)}
				for _, cal := range si.callees {
					if ok, why := isSeed(cal, ci); ok {
						si.seed, si.seedWhy = true, why
					}
				}
				all = append(all, si)
			}
		}
	}
	for changed := true; changed; {
		changed = false
		for _, si := range all {
			hit := si.seed
			for _, cal := range si.callees {
				if P[cal] {
					hit = true
				}
			}
			if !hit {
				continue
			}
			// a deferred closure's parent, or the callers of a helper with an *error out-parameter, carry the error
			for _, u := range unitsFor(p, si.fn, 0) {
				if carriesError(u.Signature) && !P[u] {
					P[u] = true
					changed = true
				}
			}
		}
	}
	var sites []errSite
	for _, si := range all {
		why := ""
		name := "?"
		if si.seed {
			why = si.seedWhy
		}
		for _, cal := range si.callees {
			if P[cal] && why == "" {
				why = "may return an error that originates in " + "the chain"
			}
		}
		if why == "" {
			continue
		}
		if s := core.Callee(si.ci.Common()); s != nil {
			name = s.String()
		} else if si.ci.Common().IsInvoke() {
			name = "interface method " + si.ci.Common().Method.Name()
		} else {
			name = "function value " + si.ci.Common().Value.Name()
		}
		sites = append(sites, errSite{fn: si.fn, call: si.ci, callee: name, why: why})
	}
	sort.Slice(sites, func(i, j int) bool {
		if sites[i].fn != sites[j].fn {
			return sites[i].fn.String() < sites[j].fn.String()
		}
		return sites[i].call.Pos() < sites[j].call.Pos()
	})
	return P, sites
}

// deferredIn reports whether closure fn is invoked by a defer of its parent.
func deferredIn(fn *ssa.Function) bool {
	par := fn.Parent()
	if par == nil {
		return false
	}
	for _, b := range par.Blocks {
		for _, in := range b.Instrs {
			if d, ok := in.(*ssa.Defer); ok {
				if mc, ok := d.Call.Value.(*ssa.MakeClosure); ok && mc.Fn == ssa.Value(fn) {
					return true
				}
			}
		}
	}
	return false
}

// checkErrSite decides one site: on every path of the enclosing unit on which
// the call returns a non-nil error, the unit returns a non-nil error, sends the
// error on a channel, or ends the process through log.Fatal.
func checkErrSite(c *core.Ctx, rule string, s errSite) {
	units := unitsFor(c.P, s.fn, 0)
	if len(units) == 0 {
		units = []*ssa.Function{s.fn}
	}
	for _, u := range units {
		checkErrSiteIn(c, rule, s, u)
	}
}

// consumesError: fn takes an error and returns none (a sink: it sends, logs or exits).
func consumesError(fn *ssa.Function) bool {
	if fn.Signature.Results().Len() != 0 {
		return false // a function with a result may wrap the error (NewErrorIO): that is handled as a derived value
	}
	for i, p := range fn.Params {
		if i == 0 && fn.Signature.Recv() != nil {
			continue
		}
		if isErrorType(p.Type()) {
			return true
		}
	}
	return false
}

func hasErrPtrParam(fn *ssa.Function) bool {
	for _, p := range fn.Params {
		if pt, ok := p.Type().(*types.Pointer); ok && isErrorType(pt.Elem()) {
			return true
		}
	}
	return false
}

// unitsFor: the functions whose result carries an error raised inside fn.
func unitsFor(p *core.Program, fn *ssa.Function, depth int) []*ssa.Function {
	if depth > 4 {
		return []*ssa.Function{fn}
	}
	if fn.Parent() != nil && deferredIn(fn) {
		return unitsFor(p, fn.Parent(), depth+1)
	}
	if hasErrPtrParam(fn) && !hasErrorResult(fn.Signature) {
		var out []*ssa.Function
		seen := map[*ssa.Function]bool{}
		for _, g := range p.Funcs {
			for _, b := range g.Blocks {
				for _, in := range b.Instrs {
					if ci, ok := in.(ssa.CallInstruction); ok && core.Callee(ci.Common()) == fn {
						for _, u := range unitsFor(p, g, depth+1) {
							if !seen[u] {
								seen[u] = true
								out = append(out, u)
							}
						}
					}
				}
			}
		}
		if len(out) > 0 {
			return out
		}
	}
	return []*ssa.Function{fn}
}

func checkErrSiteIn(c *core.Ctx, rule string, s errSite, unit *ssa.Function) {
	fname := core.FuncName(s.fn)
	pos := c.P.Pos(s.call.Pos())
	disc := s.callee
	if _, isDefer := s.call.(*ssa.Defer); isDefer {
		disc = "defer " + disc
	}
	if unit != s.fn && !(s.fn.Parent() != nil && deferredIn(s.fn)) {
		disc += " via " + core.FuncName(unit)
	}
	x := newExec(c)
	x.MaxDepth = 6
	x.Hooks.Inline = func(callee *ssa.Function, depth int) bool {
		for f := callee; f != nil; f = f.Parent() {
			if f == unit {
				return true
			}
		}
		// a helper that reports through an *error out-parameter is part of its caller's error handling, and so is a
		// helper that consumes an error it is handed (p.fail(err) sends it, fatal(err) ends the process)
		if c.P.InScope(callee) && (hasErrPtrParam(callee) || consumesError(callee)) {
			return true
		}
		// … and a small helper that turns an error into the several results of its caller (StopOnError(err) → stop, err)
		return c.P.InScope(callee) && callee.Signature.Results().Len() >= 2 && takesError(callee) && callsNothing(callee)
	}
	x.Hooks.Call = func(x *absint.Exec, st *absint.State, site ssa.CallInstruction, callee *ssa.Function, fnv absint.Value, args []absint.Value) (absint.Value, bool) {
		if site == s.call && st.Data["hit"] == "1" {
			// the call fails once: a later execution of the same call (the next round of a loop) is an ordinary call,
			// so a result that the next round overwrites is seen to be lost
			return nil, false
		}
		if site == s.call {
			st.SetData("hit", "1")
			sig := site.Common().Signature()
			e := absint.Sym{Name: "E!"}
			x.AssumeNil(st, e, false)
			withErr := func(t types.Type) absint.Value {
				stt := t.Underlying().(*types.Struct)
				fs := make([]absint.Value, stt.NumFields())
				for k := range fs {
					if isErrorType(stt.Field(k).Type()) {
						fs[k] = e
					} else {
						fs[k] = x.Fresh(st, fmt.Sprintf("f%d", k))
					}
				}
				return &absint.Struct{T: t, Fields: fs}
			}
			if sig.Results().Len() == 1 {
				if t0 := sig.Results().At(0).Type(); !isErrorType(t0) && len(errorFieldsOf(t0)) > 0 {
					return withErr(t0), true
				}
				return e, true
			}
			el := make([]absint.Value, sig.Results().Len())
			for i := range el {
				if isErrorType(sig.Results().At(i).Type()) {
					el[i] = e
				} else if len(errorFieldsOf(sig.Results().At(i).Type())) > 0 {
					el[i] = withErr(sig.Results().At(i).Type())
				} else if isParseCallbackValue(site) && i == 0 {
					// ParseCallback contract: an error counts only together with stop=true (C17-R3 checks the callbacks)
					el[i] = absint.Const{V: constant.MakeBool(true)}
				} else {
					el[i] = x.Fresh(st, fmt.Sprintf("r%d", i))
				}
			}
			return &absint.Tuple{Elems: el}, true
		}
		// a repository helper that wraps the error (NewErrorIO(err, …)) yields a value that derives from it
		if callee != nil && c.P.InScope(callee) && !x.Hooks.Inline(callee, 0) && site.Common().Signature().Results().Len() == 1 {
			for _, a := range args {
				if absint.Mentions(a, "E!") {
					return absint.NewTerm("wrap:"+absint.CleanName(callee.String()), args...), true
				}
			}
		}
		if callee != nil && (strings.HasPrefix(callee.String(), "log.Fatal") || callee.String() == "os.Exit" || strings.HasPrefix(callee.String(), "log.Panic")) {
			for _, a := range args {
				if absint.Mentions(a, "E!") || mentionsCell(x, st, a, "E!") {
					st.SetData("fatal", "1")
				}
			}
		}
		return nil, false
	}
	x.Hooks.Send = func(x *absint.Exec, st *absint.State, in *ssa.Send, ch, v absint.Value) {
		if absint.Mentions(v, "E!") {
			st.SetData("sent", "1")
		}
	}
	x.KeepSyms = map[string]bool{"E!": true}
	if os.Getenv("HRDEBUG") != "" {
		fmt.Fprintf(os.Stderr, "errflow: %s in %s (unit %s)\n", s.callee, fname, core.FuncName(unit))
	}
	terms := x.Run(x.NewState(unit, nil, nil))
	if os.Getenv("HRDEBUG") != "" {
		fmt.Fprintf(os.Stderr, "   -> %d states %d terminals problems=%v\n", x.States, len(terms), x.Problems)
		if os.Getenv("HRDEBUG") == "2" {
			for _, tm := range terms {
				fmt.Fprintf(os.Stderr, "      %s %v | %s | %v\n", tm.Kind, tm.State.Data, x.Valuation(tm.State), tm.State.Path)
			}
		}
	}
	if !account(c, x, rule, unit) {
		return
	}
	hit := 0
	var bad []absint.Terminal
	for _, tm := range terms {
		d := tm.State.Data
		if d["hit"] != "1" {
			continue
		}
		hit++
		if tm.Kind == "panic" || d["sent"] == "1" || d["fatal"] == "1" {
			continue
		}
		ok := false
		res := unit.Signature.Results()
		for i := 0; i < res.Len() && i < len(tm.Ret); i++ {
			if !isErrorType(res.At(i).Type()) {
				// the error handed back inside a structure
				if len(errorFieldsOf(res.At(i).Type())) > 0 && absint.Mentions(tm.Ret[i], "E!") {
					ok = true
				}
				continue
			}
			v := tm.Ret[i]
			if absint.Mentions(v, "E!") || nilnessOf(x, tm.State, v) == "nonnil" {
				ok = true
			}
		}
		if !ok {
			bad = append(bad, tm)
		}
	}
	switch {
	case hit == 0:
		c.Undecide(rule, fname, disc, pos, "the call was not reached when exploring "+core.FuncName(unit)+": the rule cannot tell where its error goes", nil)
	case len(bad) > 0:
		tm := bad[0]
		var rs []string
		for _, r := range tm.Ret {
			rs = append(rs, r.Key())
		}
		c.Violate(rule, fname, disc, pos, fmt.Sprintf("when %s fails (%s), %s can still return (%s) on %d of %d paths: the error is lost and the command reports success", s.callee, s.why, core.FuncName(unit), strings.Join(rs, ", "), len(bad), hit), describe(x, tm))
	default:
		c.Discharge(rule, fname, disc, pos, fmt.Sprintf("a non-nil error from %s reaches the result of %s, a channel or log.Fatal on all %d paths", s.callee, core.FuncName(unit), hit))
	}
}

// writerIsBuffered: the io.Writer argument v is statically a *bufio.Writer /
// *csv.Writer / *tabwriter.Writer (sticky error), possibly through an interface
// parameter all of whose callers pass one.
func writerIsBuffered(p *core.Program, fn *ssa.Function, v ssa.Value, depth int) bool {
	if depth > 5 {
		return false
	}
	if stickyType(v.Type()) {
		return true
	}
	// a writer kept in a field of interface type (errWriter{w}, rowPrinter{w}): every store into that field, anywhere
	// in the tree, must be a buffered writer
	fieldStores := func(st types.Type, idx int) bool {
		n := 0
		for _, g := range p.Funcs {
			for _, b := range g.Blocks {
				for _, in := range b.Instrs {
					sto, ok := in.(*ssa.Store)
					if !ok {
						continue
					}
					fa, ok := sto.Addr.(*ssa.FieldAddr)
					if !ok || fa.Field != idx {
						continue
					}
					pt, ok := fa.X.Type().Underlying().(*types.Pointer)
					if !ok || !types.Identical(pt.Elem(), st) {
						continue
					}
					n++
					if !writerIsBuffered(p, g, sto.Val, depth+1) {
						return false
					}
				}
			}
		}
		return n > 0
	}
	switch x := v.(type) {
	case *ssa.UnOp:
		if fa, ok := x.X.(*ssa.FieldAddr); ok && x.Op == token.MUL {
			if pt, ok := fa.X.Type().Underlying().(*types.Pointer); ok {
				return fieldStores(pt.Elem(), fa.Field)
			}
		}
		return false
	case *ssa.Field:
		return fieldStores(x.X.Type(), x.Field)
	case *ssa.MakeInterface:
		return stickyType(x.X.Type())
	case *ssa.ChangeInterface:
		return writerIsBuffered(p, fn, x.X, depth+1)
	case *ssa.Parameter:
		idx := -1
		for i, prm := range fn.Params {
			if prm == x {
				idx = i
			}
		}
		n := 0
		for _, g := range p.Funcs {
			for _, b := range g.Blocks {
				for _, in := range b.Instrs {
					ci, ok := in.(ssa.CallInstruction)
					if !ok || core.Callee(ci.Common()) != fn || idx >= len(ci.Common().Args) {
						continue
					}
					if g == fn && ci.Common().Args[idx] == v {
						continue // the recursive call hands the same writer down
					}
					n++
					if !writerIsBuffered(p, g, ci.Common().Args[idx], depth+1) {
						return false
					}
				}
			}
		}
		return n > 0
	}
	return stickyType(v.Type())
}

func stickyType(t types.Type) bool {
	s := core.EffectiveType(t).String() // an interface of the tree that only ever holds one type is that type
	return s == "*bufio.Writer" || s == "*encoding/csv.Writer" || s == "*text/tabwriter.Writer"
}

func isParseCallbackValue(site ssa.CallInstruction) bool {
	if site.Common().IsInvoke() {
		return false
	}
	if cal := core.Callee(site.Common()); cal != nil {
		// a method of the parser that forwards what the callback answered: (stop bool, err error)
		res := cal.Signature.Results()
		if core.FnPkgPath(cal) == parserPkg && res.Len() == 2 && isErrorType(res.At(1).Type()) {
			if b, ok := res.At(0).Type().Underlying().(*types.Basic); ok && b.Kind() == types.Bool {
				return true
			}
		}
		return false
	}
	n, ok := site.Common().Value.Type().(*types.Named)
	return ok && n.Obj().Name() == "ParseCallback" && n.Obj().Pkg() != nil && n.Obj().Pkg().Path() == parserPkg
}

func takesError(fn *ssa.Function) bool {
	for _, p := range fn.Params {
		if isErrorType(p.Type()) {
			return true
		}
	}
	return false
}

func callsNothing(fn *ssa.Function) bool {
	for _, b := range fn.Blocks {
		for _, in := range b.Instrs {
			if _, ok := in.(ssa.CallInstruction); ok {
				return false
			}
		}
	}
	return len(fn.Blocks) > 0
}
