package rules

import (
	"fmt"
	"go/constant"
	"go/token"
	"go/types"
	"os"
	"sort"
	"strings"

	"golang.org/x/tools/go/ssa"

	"hrverif/internal/absint"
	"hrverif/internal/core"
)

const resolverPkg = core.LibPath + "/resolver"

// recursiveResolvers: the functions of package resolver that call themselves.
func recursiveResolvers(p *core.Program) []*ssa.Function {
	var out []*ssa.Function
	for _, fn := range p.Funcs {
		if core.FnPkgPath(fn) != resolverPkg || fn.Parent() != nil {
			continue
		}
		self := false
		for _, b := range fn.Blocks {
			for _, in := range b.Instrs {
				if ci, ok := in.(ssa.CallInstruction); ok && core.Callee(ci.Common()) == fn {
					self = true
				}
			}
		}
		if self {
			out = append(out, fn)
		}
	}
	return out
}

// levelParam finds the integer parameter every recursive call passes as itself plus a constant.
func levelParam(fn *ssa.Function) (idx int, step int64, ok bool) {
	idx = -1
	for _, b := range fn.Blocks {
		for _, in := range b.Instrs {
			ci, isCall := in.(ssa.CallInstruction)
			if !isCall || core.Callee(ci.Common()) != fn {
				continue
			}
			args := ci.Common().Args
			found := false
			for i, a := range args {
				bo, isB := a.(*ssa.BinOp)
				if !isB || bo.Op != token.ADD || i >= len(fn.Params) || bo.X != ssa.Value(fn.Params[i]) {
					continue
				}
				cst, isC := bo.Y.(*ssa.Const)
				if !isC {
					continue
				}
				if idx >= 0 && idx != i {
					return -1, 0, false
				}
				idx, step, found = i, cst.Int64(), true
			}
			if !found {
				return -1, 0, false
			}
		}
	}
	return idx, step, idx >= 0
}

type resolverFinding struct {
	rule, disc, pos, msg string
}

// analyseResolver runs one abstract exploration of a recursive resolver and
// decides C01-R1 (sorted at the store), C01-R3 (expand before merge), C01-R5
// (the list grows only through merge-by-name with the ingredient's own
// quantity), C11-R1 (depth +1 per reference) and C11-R2 (guard table).
func analyseResolver(c *core.Ctx, fn *ssa.Function, rules map[string]bool) {
	fname := core.FuncName(fn)
	pos := c.P.Pos(fn.Pos())
	li, step, ok := levelParam(fn)
	if !ok {
		for r := range rules {
			if strings.HasPrefix(r, "C11") || r == "C08-R2" {
				c.Undecide(r, fname, "depth", pos, "no integer parameter is passed as itself plus a constant by every recursive call: no ranking argument found", nil)
			}
		}
		return
	}
	levelKey := absint.Sym{Name: fn.Params[li].Name()}.Key()
	if rules["C11-R1"] {
		if step == 1 {
			c.Discharge("C11-R1", fname, "depth+1", pos, fmt.Sprintf("every recursive call passes %s+1", fn.Params[li].Name()))
		} else {
			c.Violate("C11-R1", fname, "depth+1", pos, fmt.Sprintf("recursive calls pass %s+%d: the limit no longer counts single references", fn.Params[li].Name(), step), nil)
		}
	}

	x := newExec(c)
	seen := map[string]bool{}
	var finds []resolverFinding
	report := func(rule, disc string, p token.Pos, format string, a ...interface{}) {
		msg := fmt.Sprintf(format, a...)
		if seen[rule+disc+msg] {
			return
		}
		seen[rule+disc+msg] = true
		finds = append(finds, resolverFinding{rule, disc, c.P.Pos(p), msg})
	}
	elemsT := c.P.LookupType(core.LibPath, "Elements")
	var boundKey string
	// value of the same ingredient: K=§@a (…·Name)  ->  …·Value
	valueOfSame := func(x *absint.Exec, nameV, valV absint.Value) bool {
		ln, lv := locOf(x, nameV), locOf(x, valV)
		return ln != "" && lv != "" && strings.HasSuffix(ln, "·Name") && strings.HasSuffix(lv, "·Value") &&
			strings.TrimSuffix(ln, "·Name") == strings.TrimSuffix(lv, "·Value")
	}
	listCells := map[string]bool{} // cells holding the list under construction (receivers of SumMerge)
	x.Hooks.BackEdge = func(x *absint.Exec, s *absint.State, f *absint.Frame, h *ssa.BasicBlock) {
		if f.Fn == fn {
			// every ingredient is descended to, whatever it turns out to be: that step is what counts the reference
			// against the limit (an undefined name at depth N must still trip it)
			if s.Data["rec"] == "" && len(s.Frames) == 1 {
				report("C11-R2", "every-reference", lastPos(h), "an iteration over the ingredients ends without the walk having descended to that ingredient: its reference is not counted, so a chain of exactly N references, the last one to a plain element, is accepted under limit N")
			}
			s.SetData("rec", "")
			delete(s.Data, "early")
		}
	}
	// when was a recipe's list read: before or after that recipe was expanded (the expansion replaces the list, so a
	// list read before it is the unexpanded one)
	x.Hooks.Load = func(x *absint.Exec, s *absint.State, in *ssa.UnOp, addr, val absint.Value) {
		if p, ok := addr.(absint.Ptr); ok && strings.HasSuffix(p.Loc, "·Elements") && strings.HasPrefix(p.Loc, "L:lookup(") {
			own := false // the list of the recipe being resolved itself
			for _, prm := range fn.Params {
				if strings.Contains(p.Loc, ",§"+prm.Name()+")·Elements") {
					own = true
				}
			}
			switch {
			case own:
			case s.Data["rec"] == "" || !strings.Contains(p.Loc, ","+s.Data["rec"]+")·Elements"):
				s.SetData("early", p.Loc) // the list of an ingredient, read while that ingredient is not expanded yet
			case s.Data["early"] == p.Loc:
				delete(s.Data, "early")
			}
		}
	}
	x.Hooks.Call = func(x *absint.Exec, s *absint.State, site ssa.CallInstruction, callee *ssa.Function, fnv absint.Value, args []absint.Value) (absint.Value, bool) {
		switch {
		case callee == fn:
			// recursive call: remember which name was expanded
			named := false
			for i, p := range fn.Params {
				if bt, ok := p.Type().Underlying().(*types.Basic); ok && bt.Kind() == types.String && i < len(args) {
					s.SetData("rec", args[i].Key())
					named = true
				}
			}
			if !named {
				// the walk is handed the recipe itself instead of its name
				for i, p := range fn.Params {
					if _, ok := p.Type().Underlying().(*types.Pointer); ok && i < len(args) && s.Data["rec"] == "" {
						s.SetData("rec", "node:"+args[i].Key())
					}
				}
			}
			s.Event("expand %s", s.Data["rec"])
			return nil, false
		case isMethod(callee, core.LibPath, "Elements", "SumMerge") && len(args) == 3:
			recv, list, mult := args[0], args[1], args[2]
			rp, _ := recv.(absint.Ptr)
			old := x.Load(s, recv, elemsT)
			x.Store(s, recv, absint.NewTerm("merged", old, list, mult))
			s.SetData("sorted", "")
			s.Event("merge into %s: %s x %s", rp.Loc, list.Key(), mult.Key())
			if loc := locOf(x, list); strings.HasSuffix(loc, "·Elements") && strings.HasPrefix(loc, "L:lookup(") {
				listCells[rp.Loc] = true
				// found branch: merging a recipe's resolved list
				rec := s.Data["rec"]
				byNode := strings.HasPrefix(rec, "node:") && "L:"+strings.TrimPrefix(rec, "node:")+"·Elements" == loc
				if byNode {
					return absint.Const{}, true // the coefficient is judged where the name is at hand
				}
				if rec == "" || !strings.Contains(loc, ","+rec+")·Elements") {
					report("C01-R3", "expand-before-merge", site.Pos(), "the elements of %s are merged although no expansion of that recipe precedes the merge on this path (last expanded: %q): a recipe name can be left unexpanded", loc, rec)
				} else if s.Data["early"] == loc {
					report("C01-R3", "expand-before-merge", site.Pos(), "the element list of an ingredient's recipe is read before that recipe is expanded and merged afterwards: the expansion stores a new list, so what is merged is the list as written in the book and names in it stay unexpanded")
				} else if !valueOfSame(x, absint.Sym{Name: strings.TrimPrefix(rec, "§")}, mult) {
					report("C01-R5", "coefficient", site.Pos(), "the resolved list of ingredient %s is merged with coefficient %s, which is not that ingredient's own quantity", rec, mult.Key())
				}
				return absint.Const{}, true
			}
			if t, ok := list.(*absint.Term); ok && t.Op == "added" && len(t.Args) == 3 {
				listCells[rp.Loc] = true
				// not-found branch: a one-element list {name, value} merged with coefficient 1
				_, innerIsAdded := t.Args[0].(*absint.Term)
				one := intConst(mult) == 1 || mult.Key() == "c:1"
				if innerIsAdded || !one || !valueOfSame(x, t.Args[1], t.Args[2]) {
					report("C01-R5", "pass-through", site.Pos(), "an undefined name must stand for itself: expected a merge of the single element {e.Name, e.Value} with coefficient 1, found %s x %s", list.Key(), mult.Key())
				}
				// only a name the book does not define stands for itself
				for k := range s.PC {
					if strings.HasPrefix(k, "b(has(") && strings.HasSuffix(k, ","+t.Args[1].Key()+"))") {
						if o := x.Possible(s, k); len(o) == 1 && o[0] == "T" {
							report("C01-R3", "defined-kept", site.Pos(), "an ingredient that the book defines is merged under its own name instead of being expanded (the lookup found it on this path): a recipe name is left in the resolved list")
						}
					}
				}
				return absint.Const{}, true
			}
			// a one-element literal Elements{{Name: e.Name, Value: e.Value}}
			if t, ok := list.(*absint.Term); ok && t.Op == "slice" && len(t.Args) > 0 {
				if p, ok := t.Args[0].(absint.Ptr); ok {
					nm, hasN := s.Heap[p.Loc+"[c:0]·Name"]
					vl, hasV := s.Heap[p.Loc+"[c:0]·Value"]
					_, more := s.Heap[p.Loc+"[c:1]·Name"]
					// the element stored as a whole: scratch[0] = NewElement(name, value)
					if st, isSt := s.Heap[p.Loc+"[c:0]"].(*absint.Struct); isSt && len(st.Fields) == 2 && !hasN && !hasV {
						nm, vl, hasN, hasV = st.Fields[0], st.Fields[1], true, true
						_, more = s.Heap[p.Loc+"[c:1]"]
					}
					if os.Getenv("HRDEBUG") != "" {
						for k, v := range s.Heap {
							if strings.HasPrefix(k, p.Loc) {
								fmt.Fprintf(os.Stderr, "scratch heap %s = %s (%T)\n", k, v.Key(), v)
							}
						}
					}
					if n, known := x.ArrayLen(p.Loc); known && n != 1 {
						more = true
					}
					if hasN && hasV && !more {
						listCells[rp.Loc] = true
						one := intConst(mult) == 1 || mult.Key() == "c:1"
						if !one || !valueOfSame(x, nm, vl) {
							report("C01-R5", "pass-through", site.Pos(), "an undefined name must stand for itself: expected a merge of the single element {e.Name, e.Value} with coefficient 1, found {%s, %s} x %s", nm.Key(), vl.Key(), mult.Key())
						}
						return absint.Const{}, true
					}
				}
			}
			report("C01-R5", "merge-source", site.Pos(), "merge of %s: neither a looked-up recipe's element list nor a single pass-through element", list.Key())
			return absint.Const{}, true
		case isMethod(callee, core.LibPath, "Elements", "Add") && len(args) == 3:
			recv := args[0]
			rp, _ := recv.(absint.Ptr)
			old := x.Load(s, recv, elemsT)
			x.Store(s, recv, absint.NewTerm("added", old, args[1], args[2]))
			s.SetData("sorted", "")
			s.Event("add to %s: %s=%s", rp.Loc, args[1].Key(), args[2].Key())
			s.SetData("added:"+rp.Loc, "1")
			return absint.Const{}, true
		case isMethod(callee, core.LibPath, "Elements", "Sort") && len(args) == 1,
			callee != nil && (callee.String() == "sort.Sort" || callee.String() == "sort.Stable") && len(args) == 1:
			v := args[0]
			if iv, ok := v.(*absint.Iface); ok {
				v = iv.V
			}
			s.SetData("sorted", v.Key())
			s.Event("sort %s", v.Key())
			return absint.Const{}, true
		}
		return nil, false
	}
	x.Hooks.Store = func(x *absint.Exec, s *absint.State, in *ssa.Store, addr, val absint.Value) {
		p, ok := addr.(absint.Ptr)
		// an amount of the list under construction written in place (rounded, clamped, scaled after the merge)
		if ok && (strings.HasPrefix(p.Loc, "L:merged(") || strings.HasPrefix(p.Loc, "L:added(")) && strings.Contains(p.Loc, "]") {
			report("C01-R5", "amounts-rewritten", in.Pos(), "an element of the list under construction is written in place after merging (its %s): amounts that are rounded, clamped or otherwise adjusted at every level of nesting are no longer the sum of the products of the quantities", strings.TrimPrefix(p.Loc[strings.LastIndex(p.Loc, "]")+1:], "·"))
		}
		if ok && strings.HasPrefix(p.Loc, "A:r/") && len(s.Frames) == 1 {
			// the list under construction must not become an alias of a recipe's own list
			if loc := locOf(x, val); strings.HasSuffix(loc, "·Elements") && strings.Contains(loc, "lookup(") {
				report("C01-R5", "alias", in.Pos(), "the list under construction is assigned another recipe's element list itself (%s), not a copy: later merges and the sort then write into that recipe", loc)
			}
			// … or a slice of one (node.Elements[:0] to "reuse the storage"): the same backing array
			if t, isT := val.(*absint.Term); isT && t.Op == "slice" && len(t.Args) > 0 {
				if loc := locOf(x, t.Args[0]); strings.HasSuffix(loc, "·Elements") && strings.Contains(loc, "lookup(") {
					report("C01-R5", "alias", in.Pos(), "the list under construction is a slice of a recipe's own element list (%s): it shares the backing array, so merging into it overwrites the entries that are still to be read", loc)
				}
			}
		}
		if !ok || !strings.HasSuffix(p.Loc, "·Elements") || !strings.HasPrefix(p.Loc, "L:") {
			return
		}
		s.SetData("wrote", "1")
		s.Event("store %s = %s", p.Loc, val.Key())
		// what is stored as the recipe's list is a list of its own, not the very list of another recipe
		if loc := locOf(x, val); loc != p.Loc && strings.HasSuffix(loc, "·Elements") && strings.Contains(loc, "lookup(") {
			report("C01-R5", "alias", in.Pos(), "the list stored for the recipe is another recipe's element list itself (%s), not a copy: merging into it and sorting it have rewritten that recipe, and the two now share one list", loc)
		}
		if !rules["C01-R1"] {
			return
		}
		if s.Data["sorted"] == "" || s.Data["sorted"] != val.Key() {
			report("C01-R1", "sorted-at-store", in.Pos(), "the list stored into the recipe (%s) is not in state Sorted: the last operation on it before the store is not a sort (sorted value: %q)", val.Key(), s.Data["sorted"])
		}
		if t, ok := val.(*absint.Term); !ok || (t.Op != "merged" && t.Op != "added") {
			if _, isC := val.(absint.Const); !isC {
				_ = t
			}
		}
	}
	// a set of the recipes the walk is inside of (a cycle is then reported at once): the mark set on entry is cleared
	// on every way out that reports success
	isNameKey := func(k absint.Value) bool {
		for _, prm := range fn.Params {
			if bt, ok := prm.Type().Underlying().(*types.Basic); ok && bt.Kind() == types.String && k.Key() == (absint.Sym{Name: prm.Name()}).Key() {
				return true
			}
		}
		return false
	}
	x.Hooks.MapUpdate = func(x *absint.Exec, s *absint.State, in *ssa.MapUpdate, m, k, v absint.Value) {
		if len(s.Frames) != 1 || !isNameKey(k) {
			return
		}
		if bt, ok := in.Value.Type().Underlying().(*types.Basic); !ok || bt.Kind() != types.Bool {
			if _, isEmpty := in.Value.Type().Underlying().(*types.Struct); !isEmpty {
				return
			}
		}
		if b, isC := v.(absint.Const); isC && b.V != nil && b.V.Kind() == constant.Bool && !constant.BoolVal(b.V) {
			delete(s.Data, "mark")
			return
		}
		s.SetData("mark", c.P.Pos(in.Pos()))
	}
	x.Hooks.Builtin = func(x *absint.Exec, s *absint.State, in *ssa.Call, name string, args []absint.Value) {
		if name == "delete" && len(args) == 2 && isNameKey(args[1]) {
			delete(s.Data, "mark")
		}
	}
	st := x.NewState(fn, nil, nil)
	terms := x.Run(st)
	if !account(c, x, "C11-R2", fn) {
		return
	}
	// direct Add on the list under construction bypasses merge-by-name
	for _, tm := range terms {
		for k := range tm.State.Data {
			if strings.HasPrefix(k, "added:") && listCells[strings.TrimPrefix(k, "added:")] {
				report("C01-R5", "add-bypasses-merge", fn.Pos(), "the list under construction (%s) receives elements through Add as well as through SumMerge: a name that is already present is then listed twice", strings.TrimPrefix(k, "added:"))
			}
		}
	}
	// guard table
	guardBad := 0
	cases := map[string]bool{}
	if boundKey == "" {
		// the bound is what the level is compared with: a parameter or a configuration value if there is one,
		// a constant only if the level is compared with nothing else
		var consts, others []string
		for _, tm := range terms {
			for k := range tm.State.PC {
				if strings.HasPrefix(k, "ord(") && strings.Contains(k, levelKey) {
					parts := splitTop(strings.TrimSuffix(strings.TrimPrefix(k, "ord("), ")"))
					if len(parts) != 2 {
						continue
					}
					other := parts[0]
					if other == levelKey {
						other = parts[1]
					}
					if strings.HasPrefix(other, "c:") {
						consts = append(consts, other)
					} else {
						others = append(others, other)
					}
				}
			}
		}
		sort.Strings(consts)
		sort.Strings(others)
		switch {
		case len(others) > 0:
			boundKey = others[0]
		case len(consts) > 0:
			boundKey = consts[len(consts)-1]
		}
	}
	for _, tm := range terms {
		if tm.Kind != "return" || len(tm.Ret) != 1 {
			report("C11-R2", "guard", tm.Pos, "resolver ends in %s", tm.Kind)
			continue
		}
		// find the bound: the other operand of the ord atom that mentions the level
		var lvlOut []string
		for k := range tm.State.PC {
			if strings.HasPrefix(k, "ord(") && strings.Contains(k, levelKey) {
				inner := strings.TrimSuffix(strings.TrimPrefix(k, "ord("), ")")
				parts := splitTop(inner)
				if len(parts) == 2 {
					other := parts[0]
					if other == levelKey {
						other = parts[1]
					}
					if boundKey == "" {
						boundKey = other
					}
					if other == boundKey {
						lvlOut = x.OrdOutcomes(tm.State, levelKey, boundKey)
					}
				}
			}
		}
		has := ""
		for k := range tm.State.PC {
			if strings.HasPrefix(k, "b(has(") {
				o := x.Possible(tm.State, k)
				if len(o) == 1 && nameParamIn(fn, k) {
					has = o[0]
				}
			}
		}
		retNil := isNilConst(tm.Ret[0])
		retNonNil := false
		if t, ok := tm.Ret[0].(*absint.Term); ok && (t.Op == "call:fmt.Errorf" || t.Op == "call:errors.New") {
			retNonNil = true
		}
		if o := x.Possible(tm.State, "nil("+tm.Ret[0].Key()+")"); len(o) == 1 && o[0] == "nonnil" {
			retNonNil = true
		}
		wrote := tm.State.Data["wrote"] == "1"
		if lvlOut == nil {
			report("C11-R2", "guard", tm.Pos, "a path returns without comparing the depth with the bound: %s", x.Valuation(tm.State))
			guardBad++
			continue
		}
		for _, o := range lvlOut {
			cases[fmt.Sprintf("ord(level,max)=%s exists=%s", o, has)] = true
			c.Valuations = append(c.Valuations, fmt.Sprintf("%s: ord(level,max)=%s exists=%s -> nil=%v wrote=%v", fname, o, has, retNil, wrote))
			switch o {
			case "=", ">":
				if !retNonNil || wrote {
					report("C11-R2", "guard", tm.Pos, "with depth %s bound (exists=%q) the walk must fail without touching the book, but it returns %s (wrote=%v): the limit is not '>=', or is tested after the lookup", o, has, tm.Ret[0].Key(), wrote)
					guardBad++
				}
			case "<":
				if retNil && tm.State.Data["mark"] != "" {
					report("C11-R2", "mark-cleared", tm.Pos, "the walk marks the recipe as one it is inside of (%s) and reports success without clearing the mark: a second reference to the same recipe from another branch is then taken for a cycle, and a book that shares a sub-recipe fails with the depth error far below the limit", tm.State.Data["mark"])
					guardBad++
				}
				if t, isT := tm.Ret[0].(*absint.Term); isT && (t.Op == "call:fmt.Errorf" || t.Op == "call:errors.New") {
					// an error made here, below the limit: only for a recipe the walk is inside of (a cycle, which ends at the limit anyway)
					onCycle := false
					for k := range tm.State.PC {
						if strings.HasPrefix(k, "b(lookup(") && nameParamIn(fn, strings.TrimSuffix(k, ")")) {
							if o := x.Possible(tm.State, k); len(o) == 1 && o[0] == "T" {
								onCycle = true
							}
						}
					}
					if !onCycle {
						report("C11-R2", "guard", tm.Pos, "below the limit (exists=%q) the walk fails with an error of its own (%s) that no deeper level reported: a book whose chains are all shorter than the limit is rejected", has, tm.Ret[0].Key())
						guardBad++
					}
				}
				if has == "F" && (!retNil || wrote) {
					report("C11-R2", "guard", tm.Pos, "an undefined name below the limit must be accepted untouched, but the walk returns %s (wrote=%v)", tm.Ret[0].Key(), wrote)
					guardBad++
				}
				if has == "T" && retNil && !wrote {
					report("C11-R2", "guard", tm.Pos, "a defined recipe below the limit is reported resolved (nil) without its flattened list having been stored: %s", x.Valuation(tm.State))
					guardBad++
					report("C01-R1", "stored", tm.Pos, "a defined recipe is reported resolved although no merged and sorted list was stored for it (%s): its elements stay as written in the book — duplicates not merged, recipes among them not expanded, order not by name", x.Valuation(tm.State))
					report("C01-R5", "stored", tm.Pos, "a defined recipe is reported resolved without its list having gone through merge-by-name (%s): duplicate names written in the book survive", x.Valuation(tm.State))
				}
				if has == "" && retNil && !wrote {
					report("C11-R2", "guard", tm.Pos, "a path below the limit returns nil without consulting the book")
					guardBad++
				}
			}
		}
	}
	if strings.HasPrefix(boundKey, "c:") {
		report("C11-R2", "guard", fn.Pos(), "the depth is compared with the constant %s, not with the limit the caller supplies: a configured limit other than that constant is ignored", strings.TrimPrefix(boundKey, "c:"))
		guardBad++
	}
	byRule := map[string]int{}
	for _, f := range finds {
		if !rules[f.rule] {
			continue
		}
		byRule[f.rule]++
		c.Violate(f.rule, fname, f.disc, f.pos, f.msg, nil)
	}
	for _, r := range []string{"C01-R1", "C01-R3", "C01-R5", "C11-R2"} {
		if rules[r] && byRule[r] == 0 {
			msg := map[string]string{
				"C01-R1": "on every path the stored list is the value last sorted",
				"C01-R3": "every merge of a recipe's elements is preceded by the expansion of that recipe in the same iteration",
				"C01-R5": "the list grows only by merge-by-name: found → recipe's list x the ingredient's quantity; not found → {name, quantity} x 1",
				"C11-R2": fmt.Sprintf("guard table holds on %d abstract paths (%d cases): depth>=bound fails first; undefined name accepted; defined recipe stored", len(terms), len(cases)),
			}[r]
			c.Discharge(r, fname, "table", pos, msg)
		}
	}
}

func nameParamIn(fn *ssa.Function, atom string) bool {
	for _, p := range fn.Params {
		if bt, ok := p.Type().Underlying().(*types.Basic); ok && bt.Kind() == types.String {
			if strings.Contains(atom, ",§"+p.Name()+")") {
				return true
			}
		}
	}
	return false
}

// splitTop splits "a,b" at the comma that is not nested in brackets.
func splitTop(s string) []string {
	depth := 0
	for i, r := range s {
		switch r {
		case '(', '[', '{':
			depth++
		case ')', ']', '}':
			depth--
		case ',':
			if depth == 0 {
				return []string{s[:i], s[i+1:]}
			}
		}
	}
	return []string{s}
}

// ruleResolverEntries: public entry points start every walk at level 0 and, for
// C01, every stored list is reachable from them.
func ruleResolverEntries(c *core.Ctx, rule string, wantLevel, wantBound bool) {
	type walker struct {
		fn *ssa.Function
		li int
	}
	var work []walker
	for _, r := range recursiveResolvers(c.P) {
		if li, _, ok := levelParam(r); ok {
			work = append(work, walker{r, li})
		}
	}
	seenW := map[*ssa.Function]bool{}
	for len(work) > 0 {
		r, li := work[0].fn, work[0].li
		work = work[1:]
		if seenW[r] {
			continue
		}
		seenW[r] = true
		n := 0
		for _, fn := range c.P.Funcs {
			if fn == r {
				continue
			}
			for _, b := range fn.Blocks {
				for _, in := range b.Instrs {
					ci, isCall := in.(ssa.CallInstruction)
					if !isCall || core.Callee(ci.Common()) != r {
						continue
					}
					n++
					a := ci.Common().Args[li]
					if bi := boundParam(r, li); wantBound && bi >= 0 && bi < len(ci.Common().Args) {
						how, ok := directSetting(ci.Common().Args[bi])
						if ok {
							c.Discharge(rule, core.FuncName(fn), "bound→"+r.Name(), c.P.Pos(in.Pos()), "the depth limit handed to the walk is "+how+", untransformed")
						} else {
							c.Violate(rule, core.FuncName(fn), "bound→"+r.Name(), c.P.Pos(in.Pos()), "the depth limit handed to the walk is "+how+": the configured limit N is clamped, shifted or replaced before use, so the walk fails (or succeeds) at a different chain length than the N the caller asked for", nil)
						}
					}
					if !wantLevel {
						continue
					}
					if cst, isC := a.(*ssa.Const); isC && cst.Int64() == 0 {
						c.Discharge(rule, core.FuncName(fn), "level0→"+r.Name(), c.P.Pos(in.Pos()), "walk starts at depth 0")
					} else if prm, isP := a.(*ssa.Parameter); isP && fn.Parent() == nil {
						// a forwarder that hands its own depth parameter on: where the walk starts is decided by its callers
						for pi, fp := range fn.Params {
							if fp == prm {
								work = append(work, walker{fn, pi})
							}
						}
						c.Discharge(rule, core.FuncName(fn), "level0→"+r.Name(), c.P.Pos(in.Pos()), "forwards its own depth parameter "+prm.Name()+"; its callers are held to the rule")
					} else {
						c.Violate(rule, core.FuncName(fn), "level0→"+r.Name(), c.P.Pos(in.Pos()), "a walk starts at depth "+a.String()+" instead of the constant 0: the limit then counts from the wrong origin", nil)
					}
				}
			}
		}
		if n == 0 {
			isRec := false
			for _, rr := range recursiveResolvers(c.P) {
				isRec = isRec || rr == r
			}
			if isRec {
				c.Undecide(rule, core.FuncName(r), "entry", c.P.Pos(r.Pos()), "the recursive resolver has no caller: no entry point found", nil)
			} else {
				c.Note(rule + ": " + core.FuncName(r) + " forwards its depth parameter to the resolver and has no caller in the tree")
			}
		}
	}
}

// boundParam: the integer parameter of a recursive resolver that every
// recursive call passes on unchanged (the depth limit), or -1.
func boundParam(fn *ssa.Function, level int) int {
	cand := -1
	for i, p := range fn.Params {
		if i == level {
			continue
		}
		if b, ok := p.Type().Underlying().(*types.Basic); !ok || b.Info()&types.IsInteger == 0 {
			continue
		}
		same := true
		for _, b := range fn.Blocks {
			for _, in := range b.Instrs {
				if ci, ok := in.(ssa.CallInstruction); ok && core.Callee(ci.Common()) == fn {
					if i >= len(ci.Common().Args) || ci.Common().Args[i] != ssa.Value(p) {
						same = false
					}
				}
			}
		}
		if same {
			if cand >= 0 {
				return -1
			}
			cand = i
		}
	}
	return cand
}

// directSetting: v is a parameter or a field read, possibly converted — not the result of arithmetic, a φ or a call.
func directSetting(v ssa.Value) (string, bool) {
	for depth := 0; depth < 6; depth++ {
		switch x := v.(type) {
		case *ssa.Convert:
			v = x.X
		case *ssa.ChangeType:
			v = x.X
		case *ssa.Parameter:
			return "the caller's parameter " + x.Name(), true
		case *ssa.Field:
			return "the field " + fieldNameV(x.X.Type(), x.Field), true
		case *ssa.UnOp:
			if x.Op == token.MUL {
				if fa, ok := x.X.(*ssa.FieldAddr); ok {
					return "the field " + fieldName(fa.X.Type(), fa.Field), true
				}
				if _, ok := x.X.(*ssa.Alloc); ok {
					return "a local variable assigned on several paths (" + x.Name() + ")", false
				}
			}
			return "computed by " + x.String(), false
		case *ssa.Phi:
			return "chosen among several values (" + x.Comment + ")", false
		case *ssa.BinOp:
			return "computed by " + x.String(), false
		case *ssa.Const:
			return "the constant " + x.String(), false
		default:
			return "computed by " + v.String(), false
		}
	}
	return "too deeply nested", false
}

// ruleResolverShapes: every function of package resolver that stores a recipe's element list is one of the directly
// recursive walks the other rules analyse. A walk whose recursion goes through another function, or that keeps its
// own stack, stores lists the rules have not looked at: reported as undecided, never passed in silence.
func ruleResolverShapes(c *core.Ctx, rule string) {
	analysed := map[*ssa.Function]bool{}
	for _, r := range recursiveResolvers(c.P) {
		analysed[r] = true
	}
	for _, fn := range c.P.Funcs {
		if core.FnPkgPath(fn) != resolverPkg || len(fn.Blocks) == 0 {
			continue
		}
		top := fn
		for top.Parent() != nil {
			top = top.Parent()
		}
		for _, b := range fn.Blocks {
			for _, in := range b.Instrs {
				st, ok := in.(*ssa.Store)
				if !ok {
					continue
				}
				fa, ok := st.Addr.(*ssa.FieldAddr)
				if !ok || fieldName(fa.X.Type(), fa.Field) != "Elements" || !strings.HasSuffix(fa.X.Type().String(), ".DBNode") {
					continue
				}
				fname := core.FuncName(fn)
				c.Universe(rule+" functions that store a recipe's list", fname+" ("+c.P.Pos(st.Pos())+")")
				if analysed[top] {
					c.Discharge(rule, fname, "shape", c.P.Pos(st.Pos()), "the list is stored by a directly recursive walk, which the guard and construction rules analyse")
				} else if verdict, msg, known := stackResolverGuard(c.P, top); known {
					// a walk that keeps its own stack: the depth of an ingredient is the length of the stack when it is pushed
					if verdict {
						c.Discharge(rule, fname, "shape", c.P.Pos(st.Pos()), msg)
					} else {
						c.Violate(rule, fname, "shape", c.P.Pos(st.Pos()), msg, nil)
					}
				} else {
					c.Undecide(rule, fname, "shape", c.P.Pos(st.Pos()), "a recipe's element list is stored by a function that is not a directly recursive walk (its recursion goes through another function, or it keeps a stack of its own): the depth guard and the construction of the list are not modelled for this shape, so nothing is claimed about it", nil)
				}
			}
		}
	}
}

// stackResolverGuard recognises a resolver that keeps an explicit stack of frames (one frame per recipe being
// expanded, pushed with append, popped by reslicing) and decides its depth guard: the comparison with the limit that
// leads to the error must say "length of the stack (plus the level the walk was entered at) >= limit" — the depth of
// the ingredient about to be pushed — in one of its spellings. known=false when the function is not of that shape.
func stackResolverGuard(p *core.Program, fn *ssa.Function) (ok bool, msg string, known bool) {
	// the stack: a value that is the first argument of append and also resliced
	var stack ssa.Value
	for _, b := range fn.Blocks {
		for _, in := range b.Instrs {
			call, isCall := in.(*ssa.Call)
			if !isCall {
				continue
			}
			if bi, isB := call.Call.Value.(*ssa.Builtin); isB && bi.Name() == "append" && len(call.Call.Args) == 2 {
				if sl, isSl := call.Call.Args[0].Type().Underlying().(*types.Slice); isSl {
					switch sl.Elem().Underlying().(type) {
					case *types.Pointer, *types.Struct:
						if _, isPhi := call.Call.Args[0].(*ssa.Phi); isPhi {
							stack = call.Call.Args[0]
						}
					}
				}
			}
		}
	}
	if stack == nil {
		return false, "", false
	}
	popped := false
	for _, r := range *stack.Referrers() {
		if sl, isSl := r.(*ssa.Slice); isSl && sl.X == stack && sl.High != nil {
			popped = true
		}
	}
	if !popped {
		return false, "", false
	}
	isLimit := func(v ssa.Value) bool {
		switch t := v.(type) {
		case *ssa.Parameter:
			return strings.Contains(strings.ToLower(t.Name()), "depth") || strings.Contains(strings.ToLower(t.Name()), "max")
		case *ssa.UnOp:
			if fa, isFA := t.X.(*ssa.FieldAddr); isFA && t.Op == token.MUL {
				return fieldName(fa.X.Type(), fa.Field) == "MaxDepth"
			}
		case *ssa.Field:
			return fieldNameV(t.X.Type(), t.Field) == "MaxDepth"
		}
		return false
	}
	// E = len(stack) + k (+ level parameters): returns k and whether the stack length occurs exactly once
	var terms func(v ssa.Value, sign int64, depth int) (k int64, lens int, good bool)
	terms = func(v ssa.Value, sign int64, depth int) (int64, int, bool) {
		if depth > 5 {
			return 0, 0, false
		}
		switch t := v.(type) {
		case *ssa.Const:
			if t.Value == nil {
				return 0, 0, false
			}
			return sign * t.Int64(), 0, true
		case *ssa.Parameter:
			if bt, isB := t.Type().Underlying().(*types.Basic); isB && bt.Info()&types.IsInteger != 0 {
				return 0, 0, true // the level the walk was entered at (C11-R5 holds the entry points to 0)
			}
		case *ssa.Call:
			if bi, isB := t.Call.Value.(*ssa.Builtin); isB && bi.Name() == "len" && len(t.Call.Args) == 1 && t.Call.Args[0] == stack {
				if sign != 1 {
					return 0, 0, false
				}
				return 0, 1, true
			}
		case *ssa.BinOp:
			if t.Op == token.ADD || t.Op == token.SUB {
				k1, l1, g1 := terms(t.X, sign, depth+1)
				s2 := sign
				if t.Op == token.SUB {
					s2 = -sign
				}
				k2, l2, g2 := terms(t.Y, s2, depth+1)
				return k1 + k2, l1 + l2, g1 && g2
			}
		}
		return 0, 0, false
	}
	found := false
	for _, b := range fn.Blocks {
		iff, isIf := b.Instrs[len(b.Instrs)-1].(*ssa.If)
		if !isIf {
			continue
		}
		cmp, isCmp := iff.Cond.(*ssa.BinOp)
		if !isCmp {
			continue
		}
		e, op := cmp.X, cmp.Op
		switch {
		case isLimit(cmp.Y):
		case isLimit(cmp.X):
			e = cmp.Y
			switch op {
			case token.LSS:
				op = token.GTR
			case token.LEQ:
				op = token.GEQ
			case token.GTR:
				op = token.LSS
			case token.GEQ:
				op = token.LEQ
			}
		default:
			continue
		}
		k, lens, good := terms(e, 1, 0)
		if !good || lens != 1 {
			continue // a test of the entry level, or something else
		}
		found = true
		// which side errors: the true side must lead to a return of a non-nil error
		want := int64(0)
		switch op {
		case token.GEQ, token.EQL:
			want = 0
		case token.GTR:
			want = 1
		default:
			return false, fmt.Sprintf("the walk keeps its own stack, and its depth guard at %s compares the stack with the limit by %s: not a test that fails when the depth reaches the limit", p.Pos(cmp.Pos()), op), true
		}
		if k != want {
			return false, fmt.Sprintf("the walk keeps its own stack; an ingredient about to be pushed is at depth len(stack), but the guard at %s compares len(stack)%+d %s limit: the limit trips %d level(s) %s (a chain of exactly limit-1 references is refused, or one of limit references accepted)", p.Pos(cmp.Pos()), k, op, abs64(k-want), map[bool]string{true: "too early", false: "too late"}[k > want]), true
		}
	}
	if !found {
		return false, "", false
	}
	return true, "a walk that keeps its own stack: the guard fails exactly when the length of the stack — the depth of the ingredient about to be pushed — reaches the limit (the construction of the list is not modelled for this shape)", true
}

func abs64(v int64) int64 {
	if v < 0 {
		return -v
	}
	return v
}

// ruleEveryRecipeWalked is C11-R9 (shared with C01): every recipe of the book is the start of a walk. Where package
// resolver ranges over the book to collect the names the walks start from (or to walk them on the spot), every
// iteration puts its key on the list (or walks it): the append or call is reached on every way through the loop
// body. A list of "top-level" or otherwise selected recipes leaves recipes unvisited — a cycle that nothing outside
// it uses is then never walked, never hits the limit, and is reported as resolved.
func ruleEveryRecipeWalked(c *core.Ctx, rule string) {
	dbT := c.P.LookupType(core.LibPath, "DBNodeMap")
	if !requireAnchor(c, rule, "lib.DBNodeMap", dbT != nil) {
		return
	}
	n := 0
	for _, fn := range c.P.Funcs {
		if core.FnPkgPath(fn) != resolverPkg {
			continue
		}
		for _, b := range fn.Blocks {
			for _, in := range b.Instrs {
				rg, ok := in.(*ssa.Range)
				if !ok || !types.Identical(rg.X.Type(), dbT) {
					continue
				}
				// the loop head: the block that calls next on this iterator
				var head *ssa.BasicBlock
				var key ssa.Value
				for _, r := range *rg.Referrers() {
					if nx, ok := r.(*ssa.Next); ok {
						head = nx.Block()
						for _, rr := range *nx.Referrers() {
							if ex, ok := rr.(*ssa.Extract); ok && ex.Index == 1 {
								key = ex
							}
						}
					}
				}
				if head == nil || key == nil || key.Referrers() == nil {
					continue
				}
				var latches []*ssa.BasicBlock
				for _, p := range head.Preds {
					if head.Dominates(p) {
						latches = append(latches, p)
					}
				}
				if len(latches) == 0 {
					continue
				}
				// what is done with the key: appended to a list, or handed to a call
				var uses []ssa.Instruction
				for _, r := range *key.Referrers() {
					uses = append(uses, r)
					// append(names, key): the key goes through the one-element array of the variadic argument
					if st, ok := r.(*ssa.Store); ok && st.Val == key {
						if ia, ok := st.Addr.(*ssa.IndexAddr); ok && ia.X.Referrers() != nil {
							for _, ar := range *ia.X.Referrers() {
								if sl, ok := ar.(*ssa.Slice); ok && sl.Referrers() != nil {
									uses = append(uses, *sl.Referrers()...)
								}
							}
						}
					}
				}
				for _, r := range uses {
					call, ok := r.(*ssa.Call)
					if !ok {
						continue
					}
					isAppend := false
					if bi, isB := call.Call.Value.(*ssa.Builtin); isB {
						if bi.Name() != "append" {
							continue
						}
						isAppend = true
					} else if cal := core.Callee(&call.Call); cal == nil || !c.P.InScope(cal) {
						continue
					}
					n++
					fname := core.FuncName(fn)
					pos := c.P.Pos(call.Pos())
					c.Universe(rule+" loops over the book that start the walks", fname+" ("+pos+")")
					all := true
					for _, l := range latches {
						if !call.Block().Dominates(l) {
							all = false
						}
					}
					what := map[bool]string{true: "put on the list of names the walks start from", false: "walked"}[isAppend]
					if all {
						c.Discharge(rule, fname, "every-recipe", pos, "every key of the book is "+what)
					} else {
						c.Violate(rule, fname, "every-recipe", pos, "not every recipe of the book is "+what+": a way through the loop body passes the "+map[bool]string{true: "append", false: "call"}[isAppend]+" by. A recipe that is left out is resolved only if another walk happens to reach it; a cycle that no recipe outside it uses is never walked, never hits the depth limit, and the book is reported as resolved", nil)
					}
				}
			}
		}
	}
	// the loops that start the walks: a call of a walk from inside a loop of an entry point is reached on every way
	// through the loop body (`if used[name] { continue }` in front of it skips recipes)
	walks := map[*ssa.Function]bool{}
	for _, r := range recursiveResolvers(c.P) {
		walks[r] = true
	}
	for _, fn := range c.P.Funcs {
		if core.FnPkgPath(fn) != resolverPkg || walks[fn] {
			continue
		}
		for _, b := range fn.Blocks {
			for _, in := range b.Instrs {
				call, ok := in.(*ssa.Call)
				if !ok {
					continue
				}
				cal := core.Callee(&call.Call)
				if cal == nil || core.FnPkgPath(cal) != resolverPkg {
					continue
				}
				if !walks[cal] {
					// a method that makes a walk object and runs it counts as the walk when it calls one directly
					direct := false
					for _, cb := range cal.Blocks {
						for _, ci := range cb.Instrs {
							if c2, ok := ci.(*ssa.Call); ok && walks[core.Callee(&c2.Call)] {
								direct = true
							}
						}
					}
					if !direct || cal == fn {
						continue
					}
				}
				// the innermost loop around the call
				var head *ssa.BasicBlock
				for _, h := range fn.Blocks {
					isHead := false
					for _, p := range h.Preds {
						if h.Dominates(p) {
							isHead = true
						}
					}
					if isHead && h.Dominates(b) && (head == nil || head.Dominates(h)) {
						// b must lie inside h's loop: some latch of h is reachable from b without leaving through h
						head = h
					}
				}
				if head == nil {
					continue
				}
				n++
				fname := core.FuncName(fn)
				pos := c.P.Pos(call.Pos())
				c.Universe(rule+" loops over the book that start the walks", fname+" → "+core.FuncName(cal)+" ("+pos+")")
				all := true
				for _, p := range head.Preds {
					if head.Dominates(p) && !b.Dominates(p) && !callDominatesVia(b, p) {
						all = false
					}
				}
				if all {
					c.Discharge(rule, fname, "every-name walked", pos, "every name the loop is given is walked")
				} else {
					c.Violate(rule, fname, "every-name walked", pos, "a way through the body of the loop that starts the walks passes the call of the walk by (a name is skipped before it): a recipe that is left out is resolved only if another walk happens to reach it, and a cycle that no recipe outside it uses is never walked and never hits the depth limit", nil)
				}
			}
		}
	}
	if n == 0 {
		c.Note(rule + ": package resolver does not range over the book to start its walks (it may iterate another way)")
	}
}

// callDominatesVia: the latch p is only reached from the block b of the call through the test of the call's error
// (if err := walk(...); err != nil { return err }): b dominates p's only predecessor chain.
func callDominatesVia(b, p *ssa.BasicBlock) bool {
	for i := 0; i < 4 && p != nil; i++ {
		if b.Dominates(p) {
			return true
		}
		if len(p.Preds) != 1 {
			return false
		}
		p = p.Preds[0]
	}
	return false
}
