package rules

import (
	"fmt"
	"go/constant"
	"go/token"
	"go/types"
	"os"
	"sort"
	"strings"

	"golang.org/x/tools/go/ssa"

	"hrverif/internal/absint"
	"hrverif/internal/core"
)

const resolverPkg = core.LibPath + "/resolver"

// recursiveResolvers: the functions of package resolver that call themselves.
func recursiveResolvers(p *core.Program) []*ssa.Function {
	var out []*ssa.Function
	for _, fn := range p.Funcs {
		if core.FnPkgPath(fn) != resolverPkg || fn.Parent() != nil {
			continue
		}
		self := false
		for _, b := range fn.Blocks {
			for _, in := range b.Instrs {
				if ci, ok := in.(ssa.CallInstruction); ok && core.Callee(ci.Common()) == fn {
					self = true
				}
			}
		}
		if self {
			out = append(out, fn)
		}
	}
	return out
}

// levelParam finds the integer parameter every recursive call passes as itself plus a constant.
func levelParam(fn *ssa.Function) (idx int, step int64, ok bool) {
	idx = -1
	for _, b := range fn.Blocks {
		for _, in := range b.Instrs {
			ci, isCall := in.(ssa.CallInstruction)
			if !isCall || core.Callee(ci.Common()) != fn {
				continue
			}
			args := ci.Common().Args
			found := false
			for i, a := range args {
				bo, isB := a.(*ssa.BinOp)
				if !isB || bo.Op != token.ADD || i >= len(fn.Params) || bo.X != ssa.Value(fn.Params[i]) {
					continue
				}
				cst, isC := bo.Y.(*ssa.Const)
				if !isC {
					continue
				}
				if idx >= 0 && idx != i {
					return -1, 0, false
				}
				idx, step, found = i, cst.Int64(), true
			}
			if !found {
				return -1, 0, false
			}
		}
	}
	return idx, step, idx >= 0
}

type resolverFinding struct {
	rule, disc, pos, msg string
}

// analyseResolver runs one abstract exploration of a recursive resolver and
// decides C01-R1 (sorted at the store), C01-R3 (expand before merge), C01-R5
// (the list grows only through merge-by-name with the ingredient's own
// quantity), C11-R1 (depth +1 per reference) and C11-R2 (guard table).
func analyseResolver(c *core.Ctx, fn *ssa.Function, rules map[string]bool) {
	fname := core.FuncName(fn)
	pos := c.P.Pos(fn.Pos())
	li, step, ok := levelParam(fn)
	if !ok {
		for r := range rules {
			if strings.HasPrefix(r, "C11") || r == "C08-R2" {
				c.Undecide(r, fname, "depth", pos, "no integer parameter is passed as itself plus a constant by every recursive call: no ranking argument found", nil)
			}
		}
		return
	}
	levelKey := absint.Sym{Name: fn.Params[li].Name()}.Key()
	if rules["C11-R1"] {
		if step == 1 {
			c.Discharge("C11-R1", fname, "depth+1", pos, fmt.Sprintf("every recursive call passes %s+1", fn.Params[li].Name()))
		} else {
			c.Violate("C11-R1", fname, "depth+1", pos, fmt.Sprintf("recursive calls pass %s+%d: the limit no longer counts single references", fn.Params[li].Name(), step), nil)
		}
	}

	x := newExec(c)
	seen := map[string]bool{}
	var finds []resolverFinding
	report := func(rule, disc string, p token.Pos, format string, a ...interface{}) {
		msg := fmt.Sprintf(format, a...)
		if seen[rule+disc+msg] {
			return
		}
		seen[rule+disc+msg] = true
		finds = append(finds, resolverFinding{rule, disc, c.P.Pos(p), msg})
	}
	elemsT := c.P.LookupType(core.LibPath, "Elements")
	var boundKey string
	// value of the same ingredient: K=§@a (…·Name)  ->  …·Value
	valueOfSame := func(x *absint.Exec, nameV, valV absint.Value) bool {
		ln, lv := locOf(x, nameV), locOf(x, valV)
		return ln != "" && lv != "" && strings.HasSuffix(ln, "·Name") && strings.HasSuffix(lv, "·Value") &&
			strings.TrimSuffix(ln, "·Name") == strings.TrimSuffix(lv, "·Value")
	}
	listCells := map[string]bool{} // cells holding the list under construction (receivers of SumMerge)
	x.Hooks.BackEdge = func(x *absint.Exec, s *absint.State, f *absint.Frame, h *ssa.BasicBlock) {
		if f.Fn == fn {
			// every ingredient is descended to, whatever it turns out to be: that step is what counts the reference
			// against the limit (an undefined name at depth N must still trip it)
			if s.Data["rec"] == "" && len(s.Frames) == 1 {
				report("C11-R2", "every-reference", lastPos(h), "an iteration over the ingredients ends without the walk having descended to that ingredient: its reference is not counted, so a chain of exactly N references, the last one to a plain element, is accepted under limit N")
			}
			s.SetData("rec", "")
			delete(s.Data, "early")
		}
	}
	// when was a recipe's list read: before or after that recipe was expanded (the expansion replaces the list, so a
	// list read before it is the unexpanded one)
	x.Hooks.Load = func(x *absint.Exec, s *absint.State, in *ssa.UnOp, addr, val absint.Value) {
		if p, ok := addr.(absint.Ptr); ok && strings.HasSuffix(p.Loc, "·Elements") && strings.HasPrefix(p.Loc, "L:lookup(") {
			own := false // the list of the recipe being resolved itself
			for _, prm := range fn.Params {
				if strings.Contains(p.Loc, ",§"+prm.Name()+")·Elements") {
					own = true
				}
			}
			switch {
			case own:
			case s.Data["rec"] == "" || !strings.Contains(p.Loc, ","+s.Data["rec"]+")·Elements"):
				s.SetData("early", p.Loc) // the list of an ingredient, read while that ingredient is not expanded yet
			case s.Data["early"] == p.Loc:
				delete(s.Data, "early")
			}
		}
	}
	x.Hooks.Call = func(x *absint.Exec, s *absint.State, site ssa.CallInstruction, callee *ssa.Function, fnv absint.Value, args []absint.Value) (absint.Value, bool) {
		switch {
		case callee == fn:
			// recursive call: remember which name was expanded
			named := false
			for i, p := range fn.Params {
				if bt, ok := p.Type().Underlying().(*types.Basic); ok && bt.Kind() == types.String && i < len(args) {
					s.SetData("rec", args[i].Key())
					named = true
				}
			}
			if !named {
				// the walk is handed the recipe itself instead of its name
				for i, p := range fn.Params {
					if _, ok := p.Type().Underlying().(*types.Pointer); ok && i < len(args) && s.Data["rec"] == "" {
						s.SetData("rec", "node:"+args[i].Key())
					}
				}
			}
			s.Event("expand %s", s.Data["rec"])
			return nil, false
		case isMethod(callee, core.LibPath, "Elements", "SumMerge") && len(args) == 3:
			recv, list, mult := args[0], args[1], args[2]
			rp, _ := recv.(absint.Ptr)
			old := x.Load(s, recv, elemsT)
			x.Store(s, recv, absint.NewTerm("merged", old, list, mult))
			s.SetData("sorted", "")
			s.Event("merge into %s: %s x %s", rp.Loc, list.Key(), mult.Key())
			if loc := locOf(x, list); strings.HasSuffix(loc, "·Elements") && strings.HasPrefix(loc, "L:lookup(") {
				listCells[rp.Loc] = true
				// found branch: merging a recipe's resolved list
				rec := s.Data["rec"]
				byNode := strings.HasPrefix(rec, "node:") && "L:"+strings.TrimPrefix(rec, "node:")+"·Elements" == loc
				if byNode {
					return absint.Const{}, true // the coefficient is judged where the name is at hand
				}
				if rec == "" || !strings.Contains(loc, ","+rec+")·Elements") {
					report("C01-R3", "expand-before-merge", site.Pos(), "the elements of %s are merged although no expansion of that recipe precedes the merge on this path (last expanded: %q): a recipe name can be left unexpanded", loc, rec)
				} else if s.Data["early"] == loc {
					report("C01-R3", "expand-before-merge", site.Pos(), "the element list of an ingredient's recipe is read before that recipe is expanded and merged afterwards: the expansion stores a new list, so what is merged is the list as written in the book and names in it stay unexpanded")
				} else if !valueOfSame(x, absint.Sym{Name: strings.TrimPrefix(rec, "§")}, mult) {
					report("C01-R5", "coefficient", site.Pos(), "the resolved list of ingredient %s is merged with coefficient %s, which is not that ingredient's own quantity", rec, mult.Key())
				}
				return absint.Const{}, true
			}
			if t, ok := list.(*absint.Term); ok && t.Op == "added" && len(t.Args) == 3 {
				listCells[rp.Loc] = true
				// not-found branch: a one-element list {name, value} merged with coefficient 1
				_, innerIsAdded := t.Args[0].(*absint.Term)
				one := intConst(mult) == 1 || mult.Key() == "c:1"
				if innerIsAdded || !one || !valueOfSame(x, t.Args[1], t.Args[2]) {
					report("C01-R5", "pass-through", site.Pos(), "an undefined name must stand for itself: expected a merge of the single element {e.Name, e.Value} with coefficient 1, found %s x %s", list.Key(), mult.Key())
				}
				return absint.Const{}, true
			}
			// a one-element literal Elements{{Name: e.Name, Value: e.Value}}
			if t, ok := list.(*absint.Term); ok && t.Op == "slice" && len(t.Args) > 0 {
				if p, ok := t.Args[0].(absint.Ptr); ok {
					nm, hasN := s.Heap[p.Loc+"[c:0]·Name"]
					vl, hasV := s.Heap[p.Loc+"[c:0]·Value"]
					_, more := s.Heap[p.Loc+"[c:1]·Name"]
					// the element stored as a whole: scratch[0] = NewElement(name, value)
					if st, isSt := s.Heap[p.Loc+"[c:0]"].(*absint.Struct); isSt && len(st.Fields) == 2 && !hasN && !hasV {
						nm, vl, hasN, hasV = st.Fields[0], st.Fields[1], true, true
						_, more = s.Heap[p.Loc+"[c:1]"]
					}
					if os.Getenv("HRDEBUG") != "" {
						for k, v := range s.Heap {
							if strings.HasPrefix(k, p.Loc) {
								fmt.Fprintf(os.Stderr, "scratch heap %s = %s (%T)\n", k, v.Key(), v)
							}
						}
					}
					if n, known := x.ArrayLen(p.Loc); known && n != 1 {
						more = true
					}
					if hasN && hasV && !more {
						listCells[rp.Loc] = true
						one := intConst(mult) == 1 || mult.Key() == "c:1"
						if !one || !valueOfSame(x, nm, vl) {
							report("C01-R5", "pass-through", site.Pos(), "an undefined name must stand for itself: expected a merge of the single element {e.Name, e.Value} with coefficient 1, found {%s, %s} x %s", nm.Key(), vl.Key(), mult.Key())
						}
						return absint.Const{}, true
					}
				}
			}
			report("C01-R5", "merge-source", site.Pos(), "merge of %s: neither a looked-up recipe's element list nor a single pass-through element", list.Key())
			return absint.Const{}, true
		case isMethod(callee, core.LibPath, "Elements", "Add") && len(args) == 3:
			recv := args[0]
			rp, _ := recv.(absint.Ptr)
			old := x.Load(s, recv, elemsT)
			x.Store(s, recv, absint.NewTerm("added", old, args[1], args[2]))
			s.SetData("sorted", "")
			s.Event("add to %s: %s=%s", rp.Loc, args[1].Key(), args[2].Key())
			s.SetData("added:"+rp.Loc, "1")
			return absint.Const{}, true
		case isMethod(callee, core.LibPath, "Elements", "Sort") && len(args) == 1,
			callee != nil && (callee.String() == "sort.Sort" || callee.String() == "sort.Stable") && len(args) == 1:
			v := args[0]
			if iv, ok := v.(*absint.Iface); ok {
				v = iv.V
			}
			s.SetData("sorted", v.Key())
			s.Event("sort %s", v.Key())
			return absint.Const{}, true
		}
		return nil, false
	}
	x.Hooks.Store = func(x *absint.Exec, s *absint.State, in *ssa.Store, addr, val absint.Value) {
		p, ok := addr.(absint.Ptr)
		// an amount of the list under construction written in place (rounded, clamped, scaled after the merge)
		if ok && (strings.HasPrefix(p.Loc, "L:merged(") || strings.HasPrefix(p.Loc, "L:added(")) && strings.Contains(p.Loc, "]") {
			report("C01-R5", "amounts-rewritten", in.Pos(), "an element of the list under construction is written in place after merging (its %s): amounts that are rounded, clamped or otherwise adjusted at every level of nesting are no longer the sum of the products of the quantities", strings.TrimPrefix(p.Loc[strings.LastIndex(p.Loc, "]")+1:], "·"))
		}
		if ok && strings.HasPrefix(p.Loc, "A:r/") && len(s.Frames) == 1 {
			// the list under construction must not become an alias of a recipe's own list
			if loc := locOf(x, val); strings.HasSuffix(loc, "·Elements") && strings.Contains(loc, "lookup(") {
				report("C01-R5", "alias", in.Pos(), "the list under construction is assigned another recipe's element list itself (%s), not a copy: later merges and the sort then write into that recipe", loc)
			}
			// … or a slice of one (node.Elements[:0] to "reuse the storage"): the same backing array
			if t, isT := val.(*absint.Term); isT && t.Op == "slice" && len(t.Args) > 0 {
				if loc := locOf(x, t.Args[0]); strings.HasSuffix(loc, "·Elements") && strings.Contains(loc, "lookup(") {
					report("C01-R5", "alias", in.Pos(), "the list under construction is a slice of a recipe's own element list (%s): it shares the backing array, so merging into it overwrites the entries that are still to be read", loc)
				}
			}
		}
		if !ok || !strings.HasSuffix(p.Loc, "·Elements") || !strings.HasPrefix(p.Loc, "L:") {
			return
		}
		s.SetData("wrote", "1")
		s.Event("store %s = %s", p.Loc, val.Key())
		// what is stored as the recipe's list is a list of its own, not the very list of another recipe
		if loc := locOf(x, val); loc != p.Loc && strings.HasSuffix(loc, "·Elements") && strings.Contains(loc, "lookup(") {
			report("C01-R5", "alias", in.Pos(), "the list stored for the recipe is another recipe's element list itself (%s), not a copy: merging into it and sorting it have rewritten that recipe, and the two now share one list", loc)
		}
		if !rules["C01-R1"] {
			return
		}
		if s.Data["sorted"] == "" || s.Data["sorted"] != val.Key() {
			report("C01-R1", "sorted-at-store", in.Pos(), "the list stored into the recipe (%s) is not in state Sorted: the last operation on it before the store is not a sort (sorted value: %q)", val.Key(), s.Data["sorted"])
		}
		if t, ok := val.(*absint.Term); !ok || (t.Op != "merged" && t.Op != "added") {
			if _, isC := val.(absint.Const); !isC {
				_ = t
			}
		}
	}
	// a set of the recipes the walk is inside of (a cycle is then reported at once): the mark set on entry is cleared
	// on every way out that reports success
	isNameKey := func(k absint.Value) bool {
		for _, prm := range fn.Params {
			if bt, ok := prm.Type().Underlying().(*types.Basic); ok && bt.Kind() == types.String && k.Key() == (absint.Sym{Name: prm.Name()}).Key() {
				return true
			}
		}
		return false
	}
	x.Hooks.MapUpdate = func(x *absint.Exec, s *absint.State, in *ssa.MapUpdate, m, k, v absint.Value) {
		if len(s.Frames) != 1 || !isNameKey(k) {
			return
		}
		if bt, ok := in.Value.Type().Underlying().(*types.Basic); !ok || bt.Kind() != types.Bool {
			if _, isEmpty := in.Value.Type().Underlying().(*types.Struct); !isEmpty {
				return
			}
		}
		if b, isC := v.(absint.Const); isC && b.V != nil && b.V.Kind() == constant.Bool && !constant.BoolVal(b.V) {
			delete(s.Data, "mark")
			return
		}
		s.SetData("mark", c.P.Pos(in.Pos()))
	}
	x.Hooks.Builtin = func(x *absint.Exec, s *absint.State, in *ssa.Call, name string, args []absint.Value) {
		if name == "delete" && len(args) == 2 && isNameKey(args[1]) {
			delete(s.Data, "mark")
		}
	}
	st := x.NewState(fn, nil, nil)
	terms := x.Run(st)
	if !account(c, x, "C11-R2", fn) {
		return
	}
	// direct Add on the list under construction bypasses merge-by-name
	for _, tm := range terms {
		for k := range tm.State.Data {
			if strings.HasPrefix(k, "added:") && listCells[strings.TrimPrefix(k, "added:")] {
				report("C01-R5", "add-bypasses-merge", fn.Pos(), "the list under construction (%s) receives elements through Add as well as through SumMerge: a name that is already present is then listed twice", strings.TrimPrefix(k, "added:"))
			}
		}
	}
	// guard table
	guardBad := 0
	cases := map[string]bool{}
	if boundKey == "" {
		// the bound is what the level is compared with: a parameter or a configuration value if there is one,
		// a constant only if the level is compared with nothing else
		var consts, others []string
		for _, tm := range terms {
			for k := range tm.State.PC {
				if strings.HasPrefix(k, "ord(") && strings.Contains(k, levelKey) {
					parts := splitTop(strings.TrimSuffix(strings.TrimPrefix(k, "ord("), ")"))
					if len(parts) != 2 {
						continue
					}
					other := parts[0]
					if other == levelKey {
						other = parts[1]
					}
					if strings.HasPrefix(other, "c:") {
						consts = append(consts, other)
					} else {
						others = append(others, other)
					}
				}
			}
		}
		sort.Strings(consts)
		sort.Strings(others)
		switch {
		case len(others) > 0:
			boundKey = others[0]
		case len(consts) > 0:
			boundKey = consts[len(consts)-1]
		}
	}
	for _, tm := range terms {
		if tm.Kind != "return" || len(tm.Ret) != 1 {
			report("C11-R2", "guard", tm.Pos, "resolver ends in %s", tm.Kind)
			continue
		}
		// find the bound: the other operand of the ord atom that mentions the level
		var lvlOut []string
		for k := range tm.State.PC {
			if strings.HasPrefix(k, "ord(") && strings.Contains(k, levelKey) {
				inner := strings.TrimSuffix(strings.TrimPrefix(k, "ord("), ")")
				parts := splitTop(inner)
				if len(parts) == 2 {
					other := parts[0]
					if other == levelKey {
						other = parts[1]
					}
					if boundKey == "" {
						boundKey = other
					}
					if other == boundKey {
						lvlOut = x.OrdOutcomes(tm.State, levelKey, boundKey)
					}
				}
			}
		}
		has := ""
		for k := range tm.State.PC {
			if strings.HasPrefix(k, "b(has(") {
				o := x.Possible(tm.State, k)
				if len(o) == 1 && nameParamIn(fn, k) {
					has = o[0]
				}
			}
		}
		retNil := isNilConst(tm.Ret[0])
		retNonNil := false
		if t, ok := tm.Ret[0].(*absint.Term); ok && (t.Op == "call:fmt.Errorf" || t.Op == "call:errors.New") {
			retNonNil = true
		}
		if o := x.Possible(tm.State, "nil("+tm.Ret[0].Key()+")"); len(o) == 1 && o[0] == "nonnil" {
			retNonNil = true
		}
		wrote := tm.State.Data["wrote"] == "1"
		if lvlOut == nil {
			report("C11-R2", "guard", tm.Pos, "a path returns without comparing the depth with the bound: %s", x.Valuation(tm.State))
			guardBad++
			continue
		}
		for _, o := range lvlOut {
			cases[fmt.Sprintf("ord(level,max)=%s exists=%s", o, has)] = true
			c.Valuations = append(c.Valuations, fmt.Sprintf("%s: ord(level,max)=%s exists=%s -> nil=%v wrote=%v", fname, o, has, retNil, wrote))
			switch o {
			case "=", ">":
				if !retNonNil || wrote {
					report("C11-R2", "guard", tm.Pos, "with depth %s bound (exists=%q) the walk must fail without touching the book, but it returns %s (wrote=%v): the limit is not '>=', or is tested after the lookup", o, has, tm.Ret[0].Key(), wrote)
					guardBad++
				}
			case "<":
				if retNil && tm.State.Data["mark"] != "" {
					report("C11-R2", "mark-cleared", tm.Pos, "the walk marks the recipe as one it is inside of (%s) and reports success without clearing the mark: a second reference to the same recipe from another branch is then taken for a cycle, and a book that shares a sub-recipe fails with the depth error far below the limit", tm.State.Data["mark"])
					guardBad++
				}
				if t, isT := tm.Ret[0].(*absint.Term); isT && (t.Op == "call:fmt.Errorf" || t.Op == "call:errors.New") {
					// an error made here, below the limit: only for a recipe the walk is inside of (a cycle, which ends at the limit anyway)
					onCycle := false
					for k := range tm.State.PC {
						if strings.HasPrefix(k, "b(lookup(") && nameParamIn(fn, strings.TrimSuffix(k, ")")) {
							if o := x.Possible(tm.State, k); len(o) == 1 && o[0] == "T" {
								onCycle = true
							}
						}
					}
					if !onCycle {
						report("C11-R2", "guard", tm.Pos, "below the limit (exists=%q) the walk fails with an error of its own (%s) that no deeper level reported: a book whose chains are all shorter than the limit is rejected", has, tm.Ret[0].Key())
						guardBad++
					}
				}
				if has == "F" && (!retNil || wrote) {
					report("C11-R2", "guard", tm.Pos, "an undefined name below the limit must be accepted untouched, but the walk returns %s (wrote=%v)", tm.Ret[0].Key(), wrote)
					guardBad++
				}
				if has == "T" && retNil && !wrote {
					report("C11-R2", "guard", tm.Pos, "a defined recipe below the limit is reported resolved (nil) without its flattened list having been stored: %s", x.Valuation(tm.State))
					guardBad++
					report("C01-R1", "stored", tm.Pos, "a defined recipe is reported resolved although no merged and sorted list was stored for it (%s): its elements stay as written in the book — duplicates not merged, recipes among them not expanded, order not by name", x.Valuation(tm.State))
					report("C01-R5", "stored", tm.Pos, "a defined recipe is reported resolved without its list having gone through merge-by-name (%s): duplicate names written in the book survive", x.Valuation(tm.State))
				}
				if has == "" && retNil && !wrote {
					report("C11-R2", "guard", tm.Pos, "a path below the limit returns nil without consulting the book")
					guardBad++
				}
			}
		}
	}
	if strings.HasPrefix(boundKey, "c:") {
		report("C11-R2", "guard", fn.Pos(), "the depth is compared with the constant %s, not with the limit the caller supplies: a configured limit other than that constant is ignored", strings.TrimPrefix(boundKey, "c:"))
		guardBad++
	}
	byRule := map[string]int{}
	for _, f := range finds {
		if !rules[f.rule] {
			continue
		}
		byRule[f.rule]++
		c.Violate(f.rule, fname, f.disc, f.pos, f.msg, nil)
	}
	for _, r := range []string{"C01-R1", "C01-R3", "C01-R5", "C11-R2"} {
		if rules[r] && byRule[r] == 0 {
			msg := map[string]string{
				"C01-R1": "on every path the stored list is the value last sorted",
				"C01-R3": "every merge of a recipe's elements is preceded by the expansion of that recipe in the same iteration",
				"C01-R5": "the list grows only by merge-by-name: found → recipe's list x the ingredient's quantity; not found → {name, quantity} x 1",
				"C11-R2": fmt.Sprintf("guard table holds on %d abstract paths (%d cases): depth>=bound fails first; undefined name accepted; defined recipe stored", len(terms), len(cases)),
			}[r]
			c.Discharge(r, fname, "table", pos, msg)
		}
	}
}

func nameParamIn(fn *ssa.Function, atom string) bool {
	for _, p := range fn.Params {
		if bt, ok := p.Type().Underlying().(*types.Basic); ok && bt.Kind() == types.String {
			if strings.Contains(atom, ",§"+p.Name()+")") {
				return true
			}
		}
	}
	return false
}

// splitTop splits "a,b" at the comma that is not nested in brackets.
func splitTop(s string) []string {
	depth := 0
	for i, r := range s {
		switch r {
		case '(', '[', '{':
			depth++
		case ')', ']', '}':
			depth--
		case ',':
			if depth == 0 {
				return []string{s[:i], s[i+1:]}
			}
		}
	}
	return []string{s}
}

// ruleResolverEntries: public entry points start every walk at level 0 and, for
// C01, every stored list is reachable from them.
func ruleResolverEntries(c *core.Ctx, rule string, wantLevel, wantBound bool) {
	type walker struct {
		fn *ssa.Function
		li int
	}
	var work []walker
	for _, r := range recursiveResolvers(c.P) {
		if li, _, ok := levelParam(r); ok {
			work = append(work, walker{r, li})
		}
	}
	seenW := map[*ssa.Function]bool{}
	for len(work) > 0 {
		r, li := work[0].fn, work[0].li
		work = work[1:]
		if seenW[r] {
			continue
		}
		seenW[r] = true
		n := 0
		for _, fn := range c.P.Funcs {
			if fn == r {
				continue
			}
			for _, b := range fn.Blocks {
				for _, in := range b.Instrs {
					ci, isCall := in.(ssa.CallInstruction)
					if !isCall || core.Callee(ci.Common()) != r {
						continue
					}
					n++
					a := ci.Common().Args[li]
					if bi := boundParam(r, li); wantBound && bi >= 0 && bi < len(ci.Common().Args) {
						how, ok := directSetting(ci.Common().Args[bi])
						if ok {
							c.Discharge(rule, core.FuncName(fn), "bound→"+r.Name(), c.P.Pos(in.Pos()), "the depth limit handed to the walk is "+how+", untransformed")
						} else {
							c.Violate(rule, core.FuncName(fn), "bound→"+r.Name(), c.P.Pos(in.Pos()), "the depth limit handed to the walk is "+how+": the configured limit N is clamped, shifted or replaced before use, so the walk fails (or succeeds) at a different chain length than the N the caller asked for", nil)
						}
					}
					if !wantLevel {
						continue
					}
					if cst, isC := a.(*ssa.Const); isC && cst.Int64() == 0 {
						c.Discharge(rule, core.FuncName(fn), "level0→"+r.Name(), c.P.Pos(in.Pos()), "walk starts at depth 0")
					} else if prm, isP := a.(*ssa.Parameter); isP && fn.Parent() == nil {
						// a forwarder that hands its own depth parameter on: where the walk starts is decided by its callers
						for pi, fp := range fn.Params {
							if fp == prm {
								work = append(work, walker{fn, pi})
							}
						}
						c.Discharge(rule, core.FuncName(fn), "level0→"+r.Name(), c.P.Pos(in.Pos()), "forwards its own depth parameter "+prm.Name()+"; its callers are held to the rule")
					} else {
						c.Violate(rule, core.FuncName(fn), "level0→"+r.Name(), c.P.Pos(in.Pos()), "a walk starts at depth "+a.String()+" instead of the constant 0: the limit then counts from the wrong origin", nil)
					}
				}
			}
		}
		if n == 0 {
			isRec := false
			for _, rr := range recursiveResolvers(c.P) {
				isRec = isRec || rr == r
			}
			if isRec {
				c.Undecide(rule, core.FuncName(r), "entry", c.P.Pos(r.Pos()), "the recursive resolver has no caller: no entry point found", nil)
			} else {
				c.Note(rule + ": " + core.FuncName(r) + " forwards its depth parameter to the resolver and has no caller in the tree")
			}
		}
	}
}

// boundParam: the integer parameter of a recursive resolver that every
// recursive call passes on unchanged (the depth limit), or -1.
func boundParam(fn *ssa.Function, level int) int {
	cand := -1
	for i, p := range fn.Params {
		if i == level {
			continue
		}
		if b, ok := p.Type().Underlying().(*types.Basic); !ok || b.Info()&types.IsInteger == 0 {
			continue
		}
		same := true
		for _, b := range fn.Blocks {
			for _, in := range b.Instrs {
				if ci, ok := in.(ssa.CallInstruction); ok && core.Callee(ci.Common()) == fn {
					if i >= len(ci.Common().Args) || ci.Common().Args[i] != ssa.Value(p) {
						same = false
					}
				}
			}
		}
		if same {
			if cand >= 0 {
				return -1
			}
			cand = i
		}
	}
	return cand
}

// directSetting: v is a parameter or a field read, possibly converted — not the result of arithmetic, a φ or a call.
func directSetting(v ssa.Value) (string, bool) {
	for depth := 0; depth < 6; depth++ {
		switch x := v.(type) {
		case *ssa.Convert:
			v = x.X
		case *ssa.ChangeType:
			v = x.X
		case *ssa.Parameter:
			return "the caller's parameter " + x.Name(), true
		case *ssa.Field:
			return "the field " + fieldNameV(x.X.Type(), x.Field), true
		case *ssa.UnOp:
			if x.Op == token.MUL {
				if fa, ok := x.X.(*ssa.FieldAddr); ok {
					return "the field " + fieldName(fa.X.Type(), fa.Field), true
				}
				if _, ok := x.X.(*ssa.Alloc); ok {
					return "a local variable assigned on several paths (" + x.Name() + ")", false
				}
			}
			return "computed by " + x.String(), false
		case *ssa.Phi:
			return "chosen among several values (" + x.Comment + ")", false
		case *ssa.BinOp:
			return "computed by " + x.String(), false
		case *ssa.Const:
			return "the constant " + x.String(), false
		default:
			return "computed by " + v.String(), false
		}
	}
	return "too deeply nested", false
}

// ruleResolverShapes: every function of package resolver that stores a recipe's element list is one of the directly
// recursive walks the other rules analyse. A walk whose recursion goes through another function, or that keeps its
// own stack, stores lists the rules have not looked at: reported as undecided, never passed in silence.
func ruleResolverShapes(c *core.Ctx, rule string) {
	analysed := map[*ssa.Function]bool{}
	for _, r := range recursiveResolvers(c.P) {
		analysed[r] = true
	}
	for _, fn := range c.P.Funcs {
		if core.FnPkgPath(fn) != resolverPkg || len(fn.Blocks) == 0 {
			continue
		}
		top := fn
		for top.Parent() != nil {
			top = top.Parent()
		}
		for _, b := range fn.Blocks {
			for _, in := range b.Instrs {
				st, ok := in.(*ssa.Store)
				if !ok {
					continue
				}
				fa, ok := st.Addr.(*ssa.FieldAddr)
				if !ok || fieldName(fa.X.Type(), fa.Field) != "Elements" || !strings.HasSuffix(fa.X.Type().String(), ".DBNode") {
					continue
				}
				fname := core.FuncName(fn)
				c.Universe(rule+" functions that store a recipe's list", fname+" ("+c.P.Pos(st.Pos())+")")
				if analysed[top] {
					c.Discharge(rule, fname, "shape", c.P.Pos(st.Pos()), "the list is stored by a directly recursive walk, which the guard and construction rules analyse")
				} else {
					c.Undecide(rule, fname, "shape", c.P.Pos(st.Pos()), "a recipe's element list is stored by a function that is not a directly recursive walk (its recursion goes through another function, or it keeps a stack of its own): the depth guard and the construction of the list are not modelled for this shape, so nothing is claimed about it", nil)
				}
			}
		}
	}
}
