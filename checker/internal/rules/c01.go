package rules

import (
	"go/types"
	"strings"

	"golang.org/x/tools/go/ssa"

	"hrverif/internal/core"
)

func init() {
	register(&Property{
		ID:    "C01",
		Rules: []string{"C01-R1", "C01-R2", "C01-R3", "C01-R4", "C01-R5", "C01-R6", "C11-R2", "C11-R3", "C11-R5", "C04-R1", "C04-R2", "C01-R7", "C11-R8", "C11-R9"},
		Explain: "Decides the construction discipline of a resolved ingredient list for every recursive resolver of package resolver: " +
			"C01-R1 the list stored into a recipe is the value last sorted; C01-R2 the sort order is element name ascending; " +
			"C01-R3 a recipe's elements are merged only after that recipe was expanded in the same iteration; " +
			"C01-R4 Elements.SumMerge accumulates by name (existing name: one += of value x multiplier on the slot Index returned; new name: one Add; nothing else written, in particular no aliasing store of the argument list); " +
			"C01-R5 the list under construction grows only through that merge, with the ingredient's own quantity as coefficient and {name, quantity} x 1 for undefined names, and no amount in it is rewritten in place afterwards (rounded, clamped, scaled); " +
			"C01-R6 Elements.Add appends exactly {name,val} and Elements.Index reports found only for an equal name; " +
			"C11-R3/R5 (shared with C11) the depth limit in force is the one configured: stored from --maxdepth only when set or nothing configured, handed to the walk untransformed; C04-R1/R2 (shared with C04) every heading of the book is delivered exactly once, including an empty recipe at the end of the file. Every function of package resolver that stores a recipe's list is a directly recursive walk or a walk with an explicit stack whose guard is len(stack) >= limit (mutual recursion is undecided); the pass-through merge is not reached where the lookup found the name. Also: C01-R3 requires the merged list of an ingredient's recipe to be read after that recipe was expanded. C01-R7 every record the book-loading callback is handed without an error is stored in the book; C11-R8 a command's configuration takes its resolver section from the loaded options.",
		NotDecided: "that the numbers equal the sum over paths of the products (floating point), idempotence of resolving twice, DAG shape, order-independence of the values",
		Run: func(c *core.Ctx) {
			ruleConfigLiterals(c, "C11-R8", func(t types.Type) bool { return strings.HasSuffix(t.String(), "resolver.Config") })
			ruleBookLoaderKeepsAll(c, "C01-R7")
			rs := recursiveResolvers(c.P)
			for _, r := range rs {
				c.Universe("recursive resolvers", core.FuncName(r)+" ("+c.P.Pos(r.Pos())+")")
				analyseResolver(c, r, map[string]bool{"C01-R1": true, "C01-R3": true, "C01-R5": true, "C11-R2": true})
			}
			if len(rs) == 0 {
				c.Undecide("C01-R1", "resolver", "universe", "-", "package resolver has no recursive resolver: the universe of the rule is empty although Resolve must expand nested recipes somehow", nil)
			}
			ruleResolverShapes(c, "C01-R1")
			ruleEveryRecipeWalked(c, "C11-R9")
			ruleLessByName(c, "C01-R2")
			if fn := c.P.LookupMethod(core.LibPath, "Elements", "SumMerge"); requireAnchor(c, "C01-R4", "Elements.SumMerge", fn != nil) {
				ruleMergeByName(c, "C01-R4", fn, true)
			}
			ruleElementsAdd(c, "C01-R6")
			ruleElementsIndex(c, "C01-R6")
			// "nested less deeply than the depth limit": the limit in force is the one the user configured
			ruleGuardedOverridesOnly(c, "C11-R3", "MaxDepth")
			ruleResolverEntries(c, "C11-R5", true, true)
			// the book that is resolved is the book that was written: the tokenizer delivers every heading, also an empty last one
			analyseParserLoop(c, map[string]bool{"C04-R1": true, "C04-R2": true})
		},
	})
	register(&Property{
		ID:    "C11",
		Rules: []string{"C11-R1", "C11-R2", "C11-R3", "C11-R4", "C11-R5", "C11-R6", "C11-R7", "C01-R4", "C11-R8", "C11-R9", "C16-R3"},
		Explain: "Decides termination and the guard of the depth limit for every recursive resolver: C11-R1 the depth parameter grows by exactly 1 per reference; " +
			"C11-R2 the guard table over ord(level,max) x exists: level>=max fails first whatever exists, an undefined name below the limit is accepted untouched, a defined recipe below the limit returns nil only after storing its flattened list; " +
			"C11-R4 the loops that drive resolution do not depend on map order; C11-R5 entry points start every walk at depth 0 and hand the configured limit to the walk untransformed (a field or parameter read, no clamp, offset or substitute); " +
			"C11-R3 the limit N the user gives (--maxdepth, HR_MAXDEPTH, configuration file) is the one stored for the resolver: it is overwritten from the flag only when the flag is set or nothing was configured, and a set flag always wins; C11-R6 if --maxdepth is ever declared on a command as well as on the application it is read through the context lineage, so the global flag and HR_MAXDEPTH still reach the resolver; " +
			"C11-R7 the maximum-depth error made inside package resolver reaches the result of every function it passes through, up to the command (must-flow: on every path on which a call that can return it fails, the caller returns a non-nil error), so a book that is too deep or cyclic is never reported as success; " +
			"C01-R4 (shared) merging keeps every ingredient of an expanded recipe whatever its amount, so how deep a later walk goes does not depend on values being zero. C11-R8 a command's configuration takes its resolver section from the loaded options (or an adjusted copy), never from a fresh default; C16-R3 (shared) the environment variable documented for the limit is the one the flag declares. C11-R2 also requires every iteration over the ingredients to descend to that ingredient, a cycle mark set under the walk's name to be cleared on every successful way out, and a walk with an explicit stack to guard with len(stack) >= limit. C11-R9 every recipe of the book is the start of a walk: the loops of package resolver that collect the names or start the walks reach the append or the call on every way through their body.",
		NotDecided: "that the limit trips exactly when some chain has N or more references independently of the order of visits (recipes are flattened in place, so a later walk is shallower: defect D10 in DESIGN.md, out of reach for a necessary-condition rule); provenance of the default bound (C16-R5)",
		Run: func(c *core.Ctx) {
			ruleSettingTables(c, "C16-R3") // the limit documented for the environment is the one declared
			ruleConfigLiterals(c, "C11-R8", func(t types.Type) bool { return strings.HasSuffix(t.String(), "resolver.Config") })
			rs := recursiveResolvers(c.P)
			for _, r := range rs {
				c.Universe("recursive resolvers", core.FuncName(r)+" ("+c.P.Pos(r.Pos())+")")
				analyseResolver(c, r, map[string]bool{"C11-R1": true, "C11-R2": true})
			}
			if len(rs) == 0 {
				c.Undecide("C11-R2", "resolver", "universe", "-", "package resolver has no recursive resolver", nil)
			}
			ruleResolverShapes(c, "C11-R2")
			ruleEveryRecipeWalked(c, "C11-R9")
			RuleMapRanges(c, "C11-R4", func(s mapRangeSite) bool { return s.pkg.PkgPath == resolverPkg })
			ruleResolverEntries(c, "C11-R5", true, true)
			ruleGuardedOverridesOnly(c, "C11-R3", "MaxDepth")
			ruleLineage(c, "C11-R6", func(n string) bool { return n == "maxdepth" })
			// the error of the limit: created inside package resolver, it must reach the command's result
			runErrorFlow(c, "C11-R7", func(cal *ssa.Function, ci ssa.CallInstruction) (bool, string) {
				in, ok := ci.(ssa.Instruction)
				// the error kept as a sentinel (var errMaxDepth = errors.New(…)): a function of the package that returns it
				if cal != nil && core.FnPkgPath(cal) == resolverPkg && returnsSentinel(cal) {
					return true, "the depth limit was reached"
				}
				if cal == nil || !ok || in.Parent() == nil || core.FnPkgPath(in.Parent()) != resolverPkg {
					return false, ""
				}
				if cal.String() == "fmt.Errorf" || cal.String() == "errors.New" {
					return true, "the depth limit was reached"
				}
				return false, ""
			})
			if fn := c.P.LookupMethod(core.LibPath, "Elements", "SumMerge"); requireAnchor(c, "C01-R4", "Elements.SumMerge", fn != nil) {
				ruleMergeByName(c, "C01-R4", fn, true)
			}
		},
	})
}

// returnsSentinel: some return of fn hands back the value of a sentinel error variable.
func returnsSentinel(fn *ssa.Function) bool {
	for _, b := range fn.Blocks {
		ret, ok := b.Instrs[len(b.Instrs)-1].(*ssa.Return)
		if !ok {
			continue
		}
		for _, r := range ret.Results {
			if ld, ok := r.(*ssa.UnOp); ok {
				if g, ok := ld.X.(*ssa.Global); ok {
					if _, isErr := core.ErrVars[g]; isErr {
						return true
					}
				}
			}
		}
	}
	return false
}
