package rules

import (
	"fmt"
	"go/token"
	"go/types"

	"golang.org/x/tools/go/ssa"

	"hrverif/internal/core"
)

// ruleEveryEntrySeen (C07-R6, shared): a reporter's Process walks the entries of the day it is handed. Every loop
// whose bound is len(ln.Elements) is left only (a) at its head, when there is no further entry, (b) on the side of a
// test on which an error value is known to be set, or (c) by returning an error value that is not the constant nil.
// Any other way out — return nil, break — reports success for the day while the entries after the current one have
// not been looked at, so this report misses quantities the other reports count.
func ruleEveryEntrySeen(c *core.Ctx, rule string) {
	lnT := c.P.LookupType(core.LibPath, "LogNode")
	if !requireAnchor(c, rule, "lib.LogNode", lnT != nil) {
		return
	}
	n, loops := 0, 0
	for _, fn := range c.P.Funcs {
		if fn.Parent() != nil || len(fn.Blocks) == 0 || !hasErrorResult(fn.Signature) {
			continue
		}
		// Process itself, and every helper with an error result that is handed the day's record (selectFood(ln))
		lns := map[*ssa.Parameter]bool{}
		isProcess := fn.Name() == "Process" && fn.Signature.Recv() != nil && len(fn.Params) == 2
		for i, prm := range fn.Params {
			if isProcess && i != 1 {
				continue
			}
			t := prm.Type()
			if pt, ok := t.(*types.Pointer); ok {
				t = pt.Elem()
			}
			if types.Identical(t, lnT) {
				lns[prm] = true
			}
			// a helper may be handed one of the day's lists instead of the record (writeNotes(ln.Metadata))
			if nt, ok := t.(*types.Named); ok && !isProcess && nt.Obj().Pkg() != nil && nt.Obj().Pkg().Path() == core.LibPath && (nt.Obj().Name() == "Elements" || nt.Obj().Name() == "Metadata") {
				lns[prm] = true
			}
		}
		if len(lns) == 0 || (!isProcess && !calledFromProcess(c.P, fn, lnT)) {
			continue
		}
		if isProcess {
			n++
		}
		fname := core.FuncName(fn)
		pos := c.P.Pos(fn.Pos())
		c.Universe(rule+" Process methods", fname+" ("+pos+")")
		// the day's lists: ln.Elements, *ln.Metadata — anything read out of the record itself
		var isEntries func(v ssa.Value) bool
		isEntries = func(v ssa.Value) bool {
			switch t := v.(type) {
			case *ssa.Parameter:
				return lns[t]
			case *ssa.UnOp:
				return t.Op == token.MUL && isEntries(t.X)
			case *ssa.FieldAddr:
				return isEntries(t.X)
			}
			return false
		}
		var bad []string
		found := 0
		for _, h := range fn.Blocks {
			// a loop head: some predecessor is dominated by it
			var latches []*ssa.BasicBlock
			for _, p := range h.Preds {
				if h.Dominates(p) {
					latches = append(latches, p)
				}
			}
			if len(latches) == 0 {
				continue
			}
			// bounded by len(ln.Elements)?
			iff, ok := h.Instrs[len(h.Instrs)-1].(*ssa.If)
			if !ok {
				continue
			}
			cmp, ok := iff.Cond.(*ssa.BinOp)
			if !ok {
				continue
			}
			overEntries := false
			for _, op := range []ssa.Value{cmp.X, cmp.Y} {
				if call, ok := op.(*ssa.Call); ok {
					if b, ok := call.Call.Value.(*ssa.Builtin); ok && b.Name() == "len" && len(call.Call.Args) == 1 && isEntries(call.Call.Args[0]) {
						overEntries = true
					}
				}
			}
			if !overEntries {
				continue
			}
			found++
			loops++
			// the natural loop of h
			body := map[*ssa.BasicBlock]bool{h: true}
			work := append([]*ssa.BasicBlock(nil), latches...)
			for len(work) > 0 {
				b := work[len(work)-1]
				work = work[:len(work)-1]
				if body[b] {
					continue
				}
				body[b] = true
				work = append(work, b.Preds...)
			}
			for b := range body {
				if b == h {
					continue
				}
				for si, s := range b.Succs {
					if body[s] {
						continue
					}
					if errorKnownSet(b, si) {
						continue
					}
					where := c.P.Pos(lastPos(b))
					if ret, ok := soleReturn(s); ok {
						res := ret.Results[len(ret.Results)-1]
						if cst, isC := res.(*ssa.Const); !isC || !cst.IsNil() {
							if madeError(res) || len(s.Preds) != 1 || !writesBeforeReturn(s) {
								continue // hands back an error value
							}
							bad = append(bad, where+": the loop over the day's entries is left by returning whatever the last write reported, also when that is no error: the entries after the current one are never looked at")
							continue
						}
						bad = append(bad, where+": return nil from inside the loop over the day's entries: the entries after the current one are never looked at, so they are missing from this report while the other reports count them")
						continue
					}
					bad = append(bad, where+": the loop over the day's entries is left before its end (break or goto) without an error: the remaining entries of the day are missing from this report")
				}
			}
		}
		bad = uniq(bad)
		switch {
		case len(bad) > 0:
			for _, m := range bad {
				c.Violate(rule, fname, "every-entry", pos, m, nil)
			}
		case found > 0:
			c.Discharge(rule, fname, "every-entry", pos, fmt.Sprintf("%d loop(s) over the day's entries, left only at the head, on a set error, or by returning an error value", found))
		}
	}
	if n == 0 || loops == 0 {
		c.Undecide(rule, "reporters", "universe", "-", fmt.Sprintf("%d Process(*LogNode) methods with %d loops over the day's entries: nothing to check", n, loops), nil)
	}
}

// errorKnownSet: block b ends in a test of an error value against nil and successor si is the side on which it is set.
func errorKnownSet(b *ssa.BasicBlock, si int) bool {
	iff, ok := b.Instrs[len(b.Instrs)-1].(*ssa.If)
	if !ok {
		return false
	}
	cmp, ok := iff.Cond.(*ssa.BinOp)
	if !ok || (cmp.Op != token.NEQ && cmp.Op != token.EQL) {
		return false
	}
	x, y := cmp.X, cmp.Y
	if cst, ok := x.(*ssa.Const); ok && cst.IsNil() {
		x, y = y, x
	}
	cst, ok := y.(*ssa.Const)
	if !ok || !cst.IsNil() || !isErrorType(x.Type()) {
		return false
	}
	// Succs[0] is the true side
	return (cmp.Op == token.NEQ) == (si == 0)
}

// soleReturn: following unconditional jumps from b, the Return that is reached.
func soleReturn(b *ssa.BasicBlock) (*ssa.Return, bool) {
	for i := 0; i < 4; i++ {
		if len(b.Instrs) == 0 {
			return nil, false
		}
		switch t := b.Instrs[len(b.Instrs)-1].(type) {
		case *ssa.Return:
			if len(t.Results) == 0 {
				return nil, false
			}
			return t, true
		case *ssa.Jump:
			if len(b.Instrs) != 1 {
				return nil, false
			}
			b = b.Succs[0]
		default:
			return nil, false
		}
	}
	return nil, false
}

// calledFromProcess: fn is called by a Process(*LogNode) method of the tree (directly, or through one more helper).
func calledFromProcess(p *core.Program, fn *ssa.Function, lnT types.Type) bool {
	var up func(f *ssa.Function, depth int) bool
	up = func(f *ssa.Function, depth int) bool {
		n := p.CallGraph().Nodes[f]
		if n == nil || depth > 2 {
			return false
		}
		for _, e := range n.In {
			cal := e.Caller.Func
			if cal.Name() == "Process" && cal.Signature.Recv() != nil && len(cal.Params) == 2 {
				if pt, ok := cal.Params[1].Type().(*types.Pointer); ok && types.Identical(pt.Elem(), lnT) {
					return true
				}
			}
			if cal != f && up(cal, depth+1) {
				return true
			}
		}
		return false
	}
	return up(fn, 0)
}

// madeError: v is an error made on the spot (fmt.Errorf, errors.New, a constructor of the tree), never nil.
func madeError(v ssa.Value) bool {
	switch t := v.(type) {
	case *ssa.MakeInterface:
		return true
	case *ssa.Call:
		if cal := core.Callee(&t.Call); cal != nil {
			switch cal.String() {
			case "fmt.Errorf", "errors.New":
				return true
			}
		}
	}
	return false
}

// writesBeforeReturn: block b, which ends in the return, itself makes the call whose error result it returns — the
// error is handed back untested (the block is entered on a condition that says nothing about that error).
func writesBeforeReturn(b *ssa.BasicBlock) bool {
	ret, ok := b.Instrs[len(b.Instrs)-1].(*ssa.Return)
	if !ok || len(ret.Results) == 0 {
		return false
	}
	res := ret.Results[len(ret.Results)-1]
	if ext, isE := res.(*ssa.Extract); isE {
		res = ext.Tuple
	}
	call, ok := res.(*ssa.Call)
	return ok && call.Block() == b && isErrorType(ret.Results[len(ret.Results)-1].Type())
}

// ruleNoAmountSkips (C02-R10, shared): in the reporting code no iteration of a loop is cut short because of an
// amount. Where a test on a floating-point value (a comparison, or a predicate of the tree that is handed one) has one
// side that goes straight on to the next iteration and another side that does the iteration's work, rows and
// contributions are dropped for some amounts — zero, tiny or negative ones — in this report only, while the other
// renderings and reports still show them.
func ruleNoAmountSkips(c *core.Ctx, rule string, inPkg func(string) bool) {
	n, bad := 0, 0
	isFloat := func(t types.Type) bool {
		b, ok := t.Underlying().(*types.Basic)
		return ok && b.Info()&types.IsFloat != 0
	}
	var amountTest func(v ssa.Value, depth int) bool
	amountTest = func(v ssa.Value, depth int) bool {
		if depth > 3 {
			return false
		}
		switch t := v.(type) {
		case *ssa.BinOp:
			switch t.Op {
			case token.LSS, token.LEQ, token.GTR, token.GEQ, token.EQL, token.NEQ:
				return isFloat(t.X.Type()) || isFloat(t.Y.Type())
			}
		case *ssa.UnOp:
			if t.Op == token.NOT {
				return amountTest(t.X, depth+1)
			}
		case *ssa.Call:
			cal := core.Callee(&t.Call)
			if cal == nil || !c.P.InScope(cal) {
				return false
			}
			if b, ok := t.Type().Underlying().(*types.Basic); !ok || b.Kind() != types.Bool {
				return false
			}
			for _, a := range t.Call.Args {
				if isFloat(a.Type()) {
					return true
				}
			}
		case *ssa.Phi:
			// a && b, a || b
			for _, e := range t.Edges {
				if amountTest(e, depth+1) {
					return true
				}
			}
		}
		return false
	}
	for _, fn := range c.P.Funcs {
		if !inPkg(core.FnPkgPath(fn)) {
			continue
		}
		for _, h := range fn.Blocks {
			var latches []*ssa.BasicBlock
			for _, p := range h.Preds {
				if h.Dominates(p) {
					latches = append(latches, p)
				}
			}
			if len(latches) == 0 {
				continue
			}
			body := map[*ssa.BasicBlock]bool{h: true}
			work := append([]*ssa.BasicBlock(nil), latches...)
			for len(work) > 0 {
				b := work[len(work)-1]
				work = work[:len(work)-1]
				if body[b] {
					continue
				}
				body[b] = true
				work = append(work, b.Preds...)
			}
			// idle: the block only moves on to the next iteration (a jump, or the increment of the loop counter)
			idle := func(b *ssa.BasicBlock) bool {
				for i := 0; i < 3; i++ {
					if b == h {
						return true
					}
					if !body[b] || len(b.Succs) != 1 {
						return false
					}
					for _, in := range b.Instrs {
						switch t := in.(type) {
						case *ssa.Jump, *ssa.DebugRef:
						case *ssa.BinOp:
							if _, isC := t.Y.(*ssa.Const); !isC || (t.Op != token.ADD && t.Op != token.SUB) || isFloat(t.Type()) {
								return false
							}
						default:
							return false
						}
					}
					b = b.Succs[0]
				}
				return false
			}
			for b := range body {
				iff, ok := b.Instrs[len(b.Instrs)-1].(*ssa.If)
				if !ok || b == h || !amountTest(iff.Cond, 0) {
					continue
				}
				n++
				i0, i1 := idle(b.Succs[0]), idle(b.Succs[1])
				if i0 == i1 {
					continue
				}
				// the other side must do something that is seen outside the iteration: a call or a store
				other := b.Succs[0]
				if i0 {
					other = b.Succs[1]
				}
				does := false
				seen := map[*ssa.BasicBlock]bool{}
				var walk func(x *ssa.BasicBlock, depth int)
				walk = func(x *ssa.BasicBlock, depth int) {
					if depth > 6 || seen[x] || !body[x] || x == h {
						return
					}
					seen[x] = true
					for _, in := range x.Instrs {
						switch t := in.(type) {
						case *ssa.Call:
							if _, isB := t.Call.Value.(*ssa.Builtin); !isB || t.Call.Value.Name() == "append" {
								does = true
							}
						case *ssa.Store, *ssa.MapUpdate:
							does = true
						}
					}
					for _, s := range x.Succs {
						walk(s, depth+1)
					}
				}
				walk(other, 0)
				if !does {
					continue
				}
				bad++
				c.Violate(rule, core.FuncName(fn), "amount-skip", c.P.Pos(lastPos(b)), "an iteration over the rows is cut short depending on an amount: on one side of this test the loop goes straight on to the next item, on the other it does the item's work — rows or contributions are missing for some amounts (zero, tiny, negative) in this rendering only", nil)
			}
		}
	}
	if bad == 0 {
		c.Discharge(rule, "reporting code", "amount-skip", "-", fmt.Sprintf("no loop iteration is cut short by a test on an amount (%d tests on amounts inside loops looked at)", n))
	}
}
