package rules

import (
	"fmt"
	"go/token"
	"go/types"

	"golang.org/x/tools/go/ssa"

	"hrverif/internal/core"
)

// ruleEveryEntrySeen (C07-R6, shared): a reporter's Process walks the entries of the day it is handed. Every loop
// whose bound is len(ln.Elements) is left only (a) at its head, when there is no further entry, (b) on the side of a
// test on which an error value is known to be set, or (c) by returning an error value that is not the constant nil.
// Any other way out — return nil, break — reports success for the day while the entries after the current one have
// not been looked at, so this report misses quantities the other reports count.
func ruleEveryEntrySeen(c *core.Ctx, rule string) {
	lnT := c.P.LookupType(core.LibPath, "LogNode")
	if !requireAnchor(c, rule, "lib.LogNode", lnT != nil) {
		return
	}
	n, loops := 0, 0
	for _, fn := range c.P.Funcs {
		if fn.Name() != "Process" || fn.Signature.Recv() == nil || fn.Parent() != nil || len(fn.Blocks) == 0 || !hasErrorResult(fn.Signature) || len(fn.Params) != 2 {
			continue
		}
		pt, ok := fn.Params[1].Type().(*types.Pointer)
		if !ok || !types.Identical(pt.Elem(), lnT) {
			continue
		}
		n++
		fname := core.FuncName(fn)
		pos := c.P.Pos(fn.Pos())
		c.Universe(rule+" Process methods", fname+" ("+pos+")")
		ln := fn.Params[1]
		// the day's lists: ln.Elements, *ln.Metadata — anything read out of the record itself
		var isEntries func(v ssa.Value) bool
		isEntries = func(v ssa.Value) bool {
			switch t := v.(type) {
			case *ssa.Parameter:
				return t == ln
			case *ssa.UnOp:
				return t.Op == token.MUL && isEntries(t.X)
			case *ssa.FieldAddr:
				return isEntries(t.X)
			}
			return false
		}
		var bad []string
		found := 0
		for _, h := range fn.Blocks {
			// a loop head: some predecessor is dominated by it
			var latches []*ssa.BasicBlock
			for _, p := range h.Preds {
				if h.Dominates(p) {
					latches = append(latches, p)
				}
			}
			if len(latches) == 0 {
				continue
			}
			// bounded by len(ln.Elements)?
			iff, ok := h.Instrs[len(h.Instrs)-1].(*ssa.If)
			if !ok {
				continue
			}
			cmp, ok := iff.Cond.(*ssa.BinOp)
			if !ok {
				continue
			}
			overEntries := false
			for _, op := range []ssa.Value{cmp.X, cmp.Y} {
				if call, ok := op.(*ssa.Call); ok {
					if b, ok := call.Call.Value.(*ssa.Builtin); ok && b.Name() == "len" && len(call.Call.Args) == 1 && isEntries(call.Call.Args[0]) {
						overEntries = true
					}
				}
			}
			if !overEntries {
				continue
			}
			found++
			loops++
			// the natural loop of h
			body := map[*ssa.BasicBlock]bool{h: true}
			work := append([]*ssa.BasicBlock(nil), latches...)
			for len(work) > 0 {
				b := work[len(work)-1]
				work = work[:len(work)-1]
				if body[b] {
					continue
				}
				body[b] = true
				work = append(work, b.Preds...)
			}
			for b := range body {
				if b == h {
					continue
				}
				for si, s := range b.Succs {
					if body[s] {
						continue
					}
					if errorKnownSet(b, si) {
						continue
					}
					where := c.P.Pos(lastPos(b))
					if ret, ok := soleReturn(s); ok {
						res := ret.Results[len(ret.Results)-1]
						if cst, isC := res.(*ssa.Const); !isC || !cst.IsNil() {
							continue // hands back an error value
						}
						bad = append(bad, where+": return nil from inside the loop over the day's entries: the entries after the current one are never looked at, so they are missing from this report while the other reports count them")
						continue
					}
					bad = append(bad, where+": the loop over the day's entries is left before its end (break or goto) without an error: the remaining entries of the day are missing from this report")
				}
			}
		}
		bad = uniq(bad)
		switch {
		case len(bad) > 0:
			for _, m := range bad {
				c.Violate(rule, fname, "every-entry", pos, m, nil)
			}
		case found > 0:
			c.Discharge(rule, fname, "every-entry", pos, fmt.Sprintf("%d loop(s) over the day's entries, left only at the head, on a set error, or by returning an error value", found))
		}
	}
	if n == 0 || loops == 0 {
		c.Undecide(rule, "reporters", "universe", "-", fmt.Sprintf("%d Process(*LogNode) methods with %d loops over the day's entries: nothing to check", n, loops), nil)
	}
}

// errorKnownSet: block b ends in a test of an error value against nil and successor si is the side on which it is set.
func errorKnownSet(b *ssa.BasicBlock, si int) bool {
	iff, ok := b.Instrs[len(b.Instrs)-1].(*ssa.If)
	if !ok {
		return false
	}
	cmp, ok := iff.Cond.(*ssa.BinOp)
	if !ok || (cmp.Op != token.NEQ && cmp.Op != token.EQL) {
		return false
	}
	x, y := cmp.X, cmp.Y
	if cst, ok := x.(*ssa.Const); ok && cst.IsNil() {
		x, y = y, x
	}
	cst, ok := y.(*ssa.Const)
	if !ok || !cst.IsNil() || !isErrorType(x.Type()) {
		return false
	}
	// Succs[0] is the true side
	return (cmp.Op == token.NEQ) == (si == 0)
}

// soleReturn: following unconditional jumps from b, the Return that is reached.
func soleReturn(b *ssa.BasicBlock) (*ssa.Return, bool) {
	for i := 0; i < 4; i++ {
		if len(b.Instrs) == 0 {
			return nil, false
		}
		switch t := b.Instrs[len(b.Instrs)-1].(type) {
		case *ssa.Return:
			if len(t.Results) == 0 {
				return nil, false
			}
			return t, true
		case *ssa.Jump:
			if len(b.Instrs) != 1 {
				return nil, false
			}
			b = b.Succs[0]
		default:
			return nil, false
		}
	}
	return nil, false
}
