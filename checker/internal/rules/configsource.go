package rules

import (
	"fmt"
	"go/token"
	"strings"

	"golang.org/x/tools/go/ssa"

	"hrverif/internal/core"
)

// ruleConfigWholeFile is C16-R10: what gcfg parses as the configuration file is the whole file. The reader handed
// to gcfg.ReadInto is the opened file itself, a bufio reader over it, or a reader over the complete contents
// (io.ReadAll / os.ReadFile). A reader over the bytes one Read call happened to return, a limited reader or a
// fixed-size buffer silently drops the settings beyond that point: they fall back to the defaults although the file
// gives them.
func ruleConfigWholeFile(c *core.Ctx, rule string) {
	n := 0
	for _, fn := range c.P.Funcs {
		for _, b := range fn.Blocks {
			for _, in := range b.Instrs {
				ci, ok := in.(ssa.CallInstruction)
				if !ok || core.Callee(ci.Common()) == nil || !strings.HasSuffix(core.Callee(ci.Common()).String(), "gcfg.v1.ReadInto") || len(ci.Common().Args) < 2 {
					continue
				}
				n++
				fname := core.FuncName(fn)
				pos := c.P.Pos(in.Pos())
				c.Universe(rule+" configuration readers", fname+" ("+pos+")")
				if why := wholeFileReader(c.P, fn, ci.Common().Args[1], 0); why != "" {
					c.Violate(rule, fname, "whole-file", pos, "the configuration is parsed from "+why+": settings the file gives beyond that are silently replaced by defaults", nil)
				} else {
					c.Discharge(rule, fname, "whole-file", pos, "the reader is the opened file, a buffered reader over it or a reader over its complete contents")
				}
			}
		}
	}
	if n == 0 {
		c.Note(rule + ": no call of gcfg.ReadInto (the file is read by name or not at all; C16-R1 decides which)")
	}
}

// wholeFileReader: "" when v reads a whole file; otherwise what it reads instead.
func wholeFileReader(p *core.Program, fn *ssa.Function, v ssa.Value, depth int) string {
	if depth > 8 {
		return "a value the rule cannot trace (" + v.String() + ")"
	}
	switch t := v.(type) {
	case *ssa.MakeInterface:
		return wholeFileReader(p, fn, t.X, depth+1)
	case *ssa.ChangeInterface:
		return wholeFileReader(p, fn, t.X, depth+1)
	case *ssa.ChangeType:
		return wholeFileReader(p, fn, t.X, depth+1)
	case *ssa.Convert:
		return wholeFileReader(p, fn, t.X, depth+1)
	case *ssa.Phi:
		for _, e := range t.Edges {
			if why := wholeFileReader(p, fn, e, depth+1); why != "" {
				return why
			}
		}
		return ""
	case *ssa.UnOp:
		if a, ok := t.X.(*ssa.Alloc); ok && t.Op == token.MUL {
			if sv := soleStored(a); sv != nil {
				return wholeFileReader(p, fn, sv, depth+1)
			}
		}
	case *ssa.Extract:
		if call, ok := t.Tuple.(*ssa.Call); ok && core.Callee(&call.Call) != nil {
			switch core.Callee(&call.Call).String() {
			case "os.Open", "os.OpenFile", "os.ReadFile", "io/ioutil.ReadFile":
				if t.Index == 0 {
					return ""
				}
			case "io.ReadAll", "io/ioutil.ReadAll":
				if t.Index == 0 {
					return wholeFileReader(p, fn, call.Call.Args[0], depth+1)
				}
			}
			return fmt.Sprintf("result %d of %s", t.Index, core.Callee(&call.Call).String())
		}
	case *ssa.Call:
		if cal := core.Callee(&t.Call); cal != nil {
			switch cal.String() {
			case "bufio.NewReader", "bufio.NewReaderSize", "bytes.NewReader", "bytes.NewBuffer", "bytes.NewBufferString", "strings.NewReader":
				return wholeFileReader(p, fn, t.Call.Args[0], depth+1)
			}
			return "the result of " + cal.String()
		}
	case *ssa.Slice:
		return wholeFileReader(p, fn, t.X, depth+1)
	case *ssa.MakeSlice:
		return "a buffer made with a fixed size (" + t.String() + "), that is what one read of that size returned"
	case *ssa.Alloc:
		return "a local array used as a buffer (" + t.String() + "), that is what one read of that size returned"
	case *ssa.Parameter:
		idx := -1
		for i, prm := range fn.Params {
			if prm == t {
				idx = i
			}
		}
		for _, g := range p.Funcs {
			for _, b := range g.Blocks {
				for _, in := range b.Instrs {
					ci, ok := in.(ssa.CallInstruction)
					if !ok || core.Callee(ci.Common()) != fn || idx < 0 || idx >= len(ci.Common().Args) {
						continue
					}
					if why := wholeFileReader(p, g, ci.Common().Args[idx], depth+1); why != "" {
						return why
					}
				}
			}
		}
		return "" // no caller in the tree hands anything else
	}
	return "a value the rule cannot trace (" + v.String() + ")"
}
