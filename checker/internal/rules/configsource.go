package rules

import (
	"fmt"
	"go/token"
	"sort"
	"strings"

	"golang.org/x/tools/go/ssa"

	"hrverif/internal/core"
	"hrverif/internal/flow"
)

// ruleConfigWholeFile is C16-R10: what gcfg parses as the configuration file is the whole file. The reader handed
// to gcfg.ReadInto is the opened file itself, a bufio reader over it, or a reader over the complete contents
// (io.ReadAll / os.ReadFile). A reader over the bytes one Read call happened to return, a limited reader or a
// fixed-size buffer silently drops the settings beyond that point: they fall back to the defaults although the file
// gives them.
func ruleConfigWholeFile(c *core.Ctx, rule string) {
	n := 0
	for _, fn := range c.P.Funcs {
		for _, b := range fn.Blocks {
			for _, in := range b.Instrs {
				ci, ok := in.(ssa.CallInstruction)
				if !ok || core.Callee(ci.Common()) == nil || !strings.HasSuffix(core.Callee(ci.Common()).String(), "gcfg.v1.ReadInto") || len(ci.Common().Args) < 2 {
					continue
				}
				n++
				fname := core.FuncName(fn)
				pos := c.P.Pos(in.Pos())
				c.Universe(rule+" configuration readers", fname+" ("+pos+")")
				if why := wholeFileReader(c.P, fn, ci.Common().Args[1], 0); why != "" {
					c.Violate(rule, fname, "whole-file", pos, "the configuration is parsed from "+why+": settings the file gives beyond that are silently replaced by defaults", nil)
				} else {
					c.Discharge(rule, fname, "whole-file", pos, "the reader is the opened file, a buffered reader over it or a reader over its complete contents")
				}
			}
		}
	}
	if n == 0 {
		c.Note(rule + ": no call of gcfg.ReadInto (the file is read by name or not at all; C16-R1 decides which)")
	}
}

// wholeFileReader: "" when v reads a whole file; otherwise what it reads instead.
func wholeFileReader(p *core.Program, fn *ssa.Function, v ssa.Value, depth int) string {
	if depth > 8 {
		return "a value the rule cannot trace (" + v.String() + ")"
	}
	switch t := v.(type) {
	case *ssa.MakeInterface:
		return wholeFileReader(p, fn, t.X, depth+1)
	case *ssa.ChangeInterface:
		return wholeFileReader(p, fn, t.X, depth+1)
	case *ssa.ChangeType:
		return wholeFileReader(p, fn, t.X, depth+1)
	case *ssa.Convert:
		return wholeFileReader(p, fn, t.X, depth+1)
	case *ssa.Phi:
		for _, e := range t.Edges {
			if why := wholeFileReader(p, fn, e, depth+1); why != "" {
				return why
			}
		}
		return ""
	case *ssa.UnOp:
		if a, ok := t.X.(*ssa.Alloc); ok && t.Op == token.MUL {
			if sv := soleStored(a); sv != nil {
				return wholeFileReader(p, fn, sv, depth+1)
			}
		}
	case *ssa.Extract:
		if call, ok := t.Tuple.(*ssa.Call); ok && core.Callee(&call.Call) != nil {
			switch core.Callee(&call.Call).String() {
			case "os.Open", "os.OpenFile", "os.ReadFile", "io/ioutil.ReadFile":
				if t.Index == 0 {
					return ""
				}
			case "io.ReadAll", "io/ioutil.ReadAll":
				if t.Index == 0 {
					return wholeFileReader(p, fn, call.Call.Args[0], depth+1)
				}
			}
			return fmt.Sprintf("result %d of %s", t.Index, core.Callee(&call.Call).String())
		}
	case *ssa.Call:
		if cal := core.Callee(&t.Call); cal != nil {
			switch cal.String() {
			case "bufio.NewReader", "bufio.NewReaderSize", "bytes.NewReader", "bytes.NewBuffer", "bytes.NewBufferString", "strings.NewReader":
				return wholeFileReader(p, fn, t.Call.Args[0], depth+1)
			}
			return "the result of " + cal.String()
		}
	case *ssa.Slice:
		return wholeFileReader(p, fn, t.X, depth+1)
	case *ssa.MakeSlice:
		return "a buffer made with a fixed size (" + t.String() + "), that is what one read of that size returned"
	case *ssa.Alloc:
		return "a local array used as a buffer (" + t.String() + "), that is what one read of that size returned"
	case *ssa.Parameter:
		idx := -1
		for i, prm := range fn.Params {
			if prm == t {
				idx = i
			}
		}
		for _, g := range p.Funcs {
			for _, b := range g.Blocks {
				for _, in := range b.Instrs {
					ci, ok := in.(ssa.CallInstruction)
					if !ok || core.Callee(ci.Common()) != fn || idx < 0 || idx >= len(ci.Common().Args) {
						continue
					}
					if why := wholeFileReader(p, g, ci.Common().Args[idx], depth+1); why != "" {
						return why
					}
				}
			}
		}
		return "" // no caller in the tree hands anything else
	}
	return "a value the rule cannot trace (" + v.String() + ")"
}

// ruleConfigFileName is C16-R12: the configuration file that Options.Load looks for and reads is the one the
// config setting names (--config / HR_CONFIG / the flag's default): the name handed to the functions that stat, open
// or read it derives from that flag and from nothing else. A name taken from another place (a second location tried
// when the first is missing) replaces a file the user named with one they did not, and turns "the named file does
// not exist" from an error into a silent substitution.
func ruleConfigFileName(c *core.Ctx, rule string) {
	load := c.P.LookupMethod(optionsPkg, "Options", "Load")
	if !requireAnchor(c, rule, "options.Options.Load", load != nil) {
		return
	}
	g := buildFlow(c)
	n := 0
	seen := map[*ssa.Function]bool{}
	var visit func(fn *ssa.Function, depth int)
	visit = func(fn *ssa.Function, depth int) {
		if fn == nil || seen[fn] || depth > 3 || core.FnPkgPath(fn) != optionsPkg {
			return
		}
		seen[fn] = true
		for _, b := range fn.Blocks {
			for _, in := range b.Instrs {
				call, ok := in.(*ssa.Call)
				if !ok {
					continue
				}
				cal := core.Callee(&call.Call)
				if cal == nil {
					continue
				}
				switch cal.String() {
				case "os.Stat", "os.Lstat", "os.Open", "os.ReadFile", "io/ioutil.ReadFile", "gopkg.in/gcfg.v1.ReadFileInto":
					idx := 0
					if strings.HasSuffix(cal.String(), "ReadFileInto") {
						idx = 1
					}
					if idx >= len(call.Call.Args) {
						continue
					}
					n++
					fname := core.FuncName(fn)
					pos := c.P.Pos(call.Pos())
					c.Universe(rule+" file-system calls of the configuration loader", fname+": "+cal.String()+" ("+pos+")")
					var foreign []string
					fromFlag := false
					for _, sc := range g.Sources(flow.ValueNode(call.Call.Args[idx])) {
						nd := string(sc.Node)
						switch {
						case nd == "flag:String(config)":
							fromFlag = true
						case strings.HasPrefix(nd, "flag:"):
							foreign = append(foreign, nd)
						case strings.HasPrefix(nd, "ext:") || strings.HasPrefix(nd, "call:"):
							foreign = append(foreign, nd)
						}
					}
					if len(foreign) > 0 || !fromFlag {
						sort.Strings(foreign)
						c.Violate(rule, fname, cal.Name()+" name", pos, "the name of the configuration file handed to "+cal.String()+" derives from {"+strings.Join(uniq(foreign), ", ")+"} as well as, or instead of, the config setting: another location is tried or substituted, so a file the user named and that does not exist is replaced in silence, and settings come from a file nobody asked for", nil)
					} else {
						c.Discharge(rule, fname, cal.Name()+" name", pos, "the name derives from the config flag only")
					}
				default:
					if c.P.InScope(cal) {
						visit(cal, depth+1)
					}
				}
			}
		}
	}
	visit(load, 0)
	if n == 0 {
		c.Note(rule + ": Options.Load reaches no file-system call in package options")
	}
}
