package rules

import (
	"fmt"
	"go/ast"
	"go/token"
	"go/types"
	"regexp"
	"sort"
	"strconv"
	"strings"
	"text/template/parse"

	"golang.org/x/tools/go/ssa"

	"hrverif/internal/core"
)

// The register and summary templates are constants in a second language. They
// are parsed with text/template/parse (a parser, not an execution) and checked
// against the Go types of the data they are executed with.

type tmplInfo struct {
	pkg   string
	fn    *ssa.Function // where template.Must(…Parse(text)) sits
	pos   string
	texts []string
}

type tmplUse struct {
	path string // normalised field path, e.g. .Elements[].Ingredients[].Value
	typ  types.Type
	via  string // function the value is passed to ("" if printed directly)
}

type tmplChecker struct {
	funcs   map[string]*types.Signature
	errs    []string
	uses    []tmplUse
	shorten []string // "width=N verb=%…s"
}

func (tc *tmplChecker) errf(format string, a ...interface{}) {
	tc.errs = append(tc.errs, fmt.Sprintf(format, a...))
}

type tscope struct {
	dot     types.Type
	dotPath string
	vars    map[string]types.Type
	varPath map[string]string
}

func (s tscope) clone() tscope {
	n := tscope{dot: s.dot, dotPath: s.dotPath, vars: map[string]types.Type{}, varPath: map[string]string{}}
	for k, v := range s.vars {
		n.vars[k] = v
	}
	for k, v := range s.varPath {
		n.varPath[k] = v
	}
	return n
}

func derefT(t types.Type) types.Type {
	for {
		p, ok := t.Underlying().(*types.Pointer)
		if !ok {
			return t
		}
		t = p.Elem()
	}
}

func lookupField(t types.Type, name string) (types.Type, bool) {
	t = derefT(t)
	st, ok := t.Underlying().(*types.Struct)
	if !ok {
		return nil, false
	}
	for i := 0; i < st.NumFields(); i++ {
		f := st.Field(i)
		if f.Name() == name {
			return f.Type(), true
		}
	}
	for i := 0; i < st.NumFields(); i++ {
		f := st.Field(i)
		if f.Embedded() {
			if ft, ok := lookupField(f.Type(), name); ok {
				return ft, true
			}
		}
	}
	return nil, false
}

func (tc *tmplChecker) fieldChain(base types.Type, basePath string, idents []string) (types.Type, string) {
	t, p := base, basePath
	for _, id := range idents {
		ft, ok := lookupField(t, id)
		if !ok {
			tc.errf("field %s.%s does not exist on %s: executing the template fails on the first day", p, id, derefT(t))
			return nil, p + "." + id
		}
		t, p = ft, p+"."+id
	}
	return t, p
}

func isFloat(t types.Type) bool {
	if t == nil {
		return false
	}
	b, ok := derefT(t).Underlying().(*types.Basic)
	return ok && b.Info()&types.IsFloat != 0
}

// evalArg returns the type of a template argument node.
func (tc *tmplChecker) evalArg(n parse.Node, sc tscope, via string) types.Type {
	switch x := n.(type) {
	case *parse.FieldNode:
		t, p := tc.fieldChain(sc.dot, sc.dotPath, x.Ident)
		tc.uses = append(tc.uses, tmplUse{p, t, via})
		return t
	case *parse.VariableNode:
		vt, ok := sc.vars[x.Ident[0]]
		if !ok {
			tc.errf("variable %s is not defined", x.Ident[0])
			return nil
		}
		t, p := tc.fieldChain(vt, sc.varPath[x.Ident[0]], x.Ident[1:])
		tc.uses = append(tc.uses, tmplUse{p, t, via})
		return t
	case *parse.DotNode:
		return sc.dot
	case *parse.StringNode:
		return types.Typ[types.String]
	case *parse.NumberNode:
		if x.IsInt {
			return types.Typ[types.Int]
		}
		return types.Typ[types.Float64]
	case *parse.BoolNode:
		return types.Typ[types.Bool]
	case *parse.PipeNode:
		return tc.evalPipe(x, sc, via)
	case *parse.ChainNode:
		bt := tc.evalArg(x.Node, sc, via)
		if bt == nil {
			return nil
		}
		t, _ := tc.fieldChain(bt, "(…)", x.Field)
		return t
	}
	return nil
}

var printfVerb = regexp.MustCompile(`%[-+# 0]*([0-9]*)(\.[0-9]+)?[a-zA-Z]`)

func (tc *tmplChecker) evalCommand(cmd *parse.CommandNode, sc tscope, via string) types.Type {
	if len(cmd.Args) == 0 {
		return nil
	}
	id, isFn := cmd.Args[0].(*parse.IdentifierNode)
	if !isFn {
		if len(cmd.Args) > 1 {
			tc.errf("a non-function value is given arguments")
		}
		return tc.evalArg(cmd.Args[0], sc, via)
	}
	args := cmd.Args[1:]
	switch id.Ident {
	case "printf":
		if len(args) == 0 {
			tc.errf("printf without a format")
			return types.Typ[types.String]
		}
		format := ""
		if sn, ok := args[0].(*parse.StringNode); ok {
			format = sn.Text
		} else {
			tc.errf("printf format is not a string literal")
		}
		verbs := printfVerb.FindAllStringSubmatch(format, -1)
		if len(verbs) != len(args)-1 {
			tc.errf("printf %q has %d verbs and %d arguments", format, len(verbs), len(args)-1)
		}
		for i, a := range args[1:] {
			at := tc.evalArg(a, sc, "printf")
			if isFloat(at) {
				tc.errf("a number is printed directly by printf (argument %d of %q) instead of through formatValue: it bypasses the fixed precision and the sign colouring", i+1, format)
			}
			// shorten width must equal the verb's width
			if p, ok := a.(*parse.PipeNode); ok && len(p.Cmds) == 1 && len(p.Cmds[0].Args) == 3 {
				if fid, ok := p.Cmds[0].Args[0].(*parse.IdentifierNode); ok && fid.Ident == "shorten" {
					if nn, ok := p.Cmds[0].Args[2].(*parse.NumberNode); ok && i < len(verbs) {
						w := verbs[i][1]
						tc.shorten = append(tc.shorten, fmt.Sprintf("shorten %s in %q", nn.Text, verbs[i][0]))
						if w != nn.Text {
							tc.errf("a name is shortened to %s characters but printed in a column of width %q (%q): shortened names no longer fit the column", nn.Text, w, verbs[i][0])
						}
					}
				}
			}
		}
		return types.Typ[types.String]
	}
	sig, ok := tc.funcs[id.Ident]
	if !ok {
		switch id.Ident {
		case "len", "index", "print", "println", "not", "and", "or", "eq", "ne", "lt", "le", "gt", "ge", "html", "js", "urlquery", "call", "slice":
			for _, a := range args {
				tc.evalArg(a, sc, id.Ident)
			}
			return nil
		}
		tc.errf("function %q is not in the template's FuncMap: parsing panics in template.Must", id.Ident)
		return nil
	}
	if sig.Params().Len() != len(args) {
		tc.errf("%s takes %d arguments, the template passes %d", id.Ident, sig.Params().Len(), len(args))
	}
	for i, a := range args {
		at := tc.evalArg(a, sc, id.Ident)
		if at == nil || i >= sig.Params().Len() {
			continue
		}
		want := sig.Params().At(i).Type()
		if !types.AssignableTo(derefT(at), want) && !(isFloat(at) && isFloat(want)) {
			if b, ok := at.Underlying().(*types.Basic); ok && b.Info()&types.IsInteger != 0 {
				if wb, ok := want.Underlying().(*types.Basic); ok && wb.Info()&types.IsInteger != 0 {
					continue
				}
			}
			tc.errf("%s: argument %d has type %s, the function takes %s", id.Ident, i+1, at, want)
		}
	}
	if sig.Results().Len() > 0 {
		return sig.Results().At(0).Type()
	}
	return nil
}

func (tc *tmplChecker) evalPipe(p *parse.PipeNode, sc tscope, via string) types.Type {
	var t types.Type
	for i, cmd := range p.Cmds {
		if i > 0 {
			tc.errf("chained pipelines are not modelled")
		}
		t = tc.evalCommand(cmd, sc, via)
	}
	return t
}

func (tc *tmplChecker) walk(n parse.Node, sc tscope) {
	switch x := n.(type) {
	case *parse.ListNode:
		if x == nil {
			return
		}
		for _, c := range x.Nodes {
			tc.walk(c, sc)
		}
	case *parse.TextNode, *parse.CommentNode:
	case *parse.ActionNode:
		t := tc.evalPipe(x.Pipe, sc, "")
		if isFloat(t) && len(x.Pipe.Decl) == 0 {
			tc.errf("a number is written directly into the output instead of through formatValue")
		}
	case *parse.IfNode:
		tc.evalPipe(x.Pipe, sc, "if")
		tc.walk(x.List, sc)
		tc.walk(x.ElseList, sc)
	case *parse.WithNode:
		t := tc.evalPipe(x.Pipe, sc, "with")
		in := sc.clone()
		if t != nil {
			in.dot = t
		}
		tc.walk(x.List, in)
		tc.walk(x.ElseList, sc)
	case *parse.RangeNode:
		// the ranged value's path
		before := len(tc.uses)
		t := tc.evalPipe(x.Pipe, sc, "range")
		path := sc.dotPath
		if len(tc.uses) > before {
			path = tc.uses[len(tc.uses)-1].path
		}
		in := sc.clone()
		var elem types.Type
		if t != nil {
			switch u := derefT(t).Underlying().(type) {
			case *types.Slice:
				elem = u.Elem()
			case *types.Array:
				elem = u.Elem()
			case *types.Map:
				elem = u.Elem()
			default:
				tc.errf("range over %s, which is not a list", t)
			}
		}
		if elem != nil {
			in.dot, in.dotPath = elem, path+"[]"
			switch len(x.Pipe.Decl) {
			case 1:
				in.vars[x.Pipe.Decl[0].Ident[0]] = elem
				in.varPath[x.Pipe.Decl[0].Ident[0]] = path + "[]"
			case 2:
				in.vars[x.Pipe.Decl[0].Ident[0]] = types.Typ[types.Int]
				in.vars[x.Pipe.Decl[1].Ident[0]] = elem
				in.varPath[x.Pipe.Decl[1].Ident[0]] = path + "[]"
			}
		}
		tc.walk(x.List, in)
		tc.walk(x.ElseList, sc)
	default:
		tc.errf("template construct %T is not modelled", n)
	}
}

// templateFuncs reads the FuncMap literal(s) of package reporter.
func templateFuncs(c *core.Ctx) map[string]*types.Signature {
	out := map[string]*types.Signature{}
	for _, pkg := range c.P.RootsInScope() {
		for _, f := range pkg.Syntax {
			ast.Inspect(f, func(n ast.Node) bool {
				cl, ok := n.(*ast.CompositeLit)
				if !ok {
					return true
				}
				tv, ok := pkg.TypesInfo.Types[cl]
				if !ok || !strings.HasSuffix(tv.Type.String(), "text/template.FuncMap") {
					return true
				}
				for _, el := range cl.Elts {
					kv, ok := el.(*ast.KeyValueExpr)
					if !ok {
						continue
					}
					name, ok := constString(pkg.TypesInfo, kv.Key)
					if !ok {
						continue
					}
					if vt, ok := pkg.TypesInfo.Types[kv.Value]; ok {
						if sig, ok := vt.Type.Underlying().(*types.Signature); ok {
							out[name] = sig
						}
					}
				}
				return true
			})
		}
	}
	return out
}

// collectTemplates finds template.Must(…Parse(text)) sites and the data types handed to Execute per package.
func collectTemplates(c *core.Ctx) ([]tmplInfo, map[string][]types.Type) {
	var infos []tmplInfo
	data := map[string][]types.Type{}
	for _, fn := range c.P.Funcs {
		for _, b := range fn.Blocks {
			for _, in := range b.Instrs {
				call, ok := in.(*ssa.Call)
				if !ok || core.Callee(&call.Call) == nil {
					continue
				}
				switch core.Callee(&call.Call).String() {
				case "(*text/template.Template).Parse":
					// a template parsed without template.Must (the error is returned or panicked on by hand)
					if usedByMust(call) || len(call.Call.Args) != 2 {
						continue
					}
					if sites := templateTextsPerCaller(c.P, call); len(sites) > 0 {
						for _, st := range sites {
							infos = append(infos, tmplInfo{pkg: core.FnPkgPath(fn), fn: st.fn, pos: c.P.Pos(st.pos), texts: st.texts})
						}
					} else if texts, ok := constStrings(call.Call.Args[1], 0); ok {
						infos = append(infos, tmplInfo{pkg: core.FnPkgPath(fn), fn: fn, pos: c.P.Pos(call.Pos()), texts: texts})
					}
				case "text/template.Must":
					if sites := templateTextsPerCaller(c.P, call.Call.Args[0]); len(sites) > 0 {
						// the text is a parameter of a shared constructor: the templates one caller can choose between are
						// siblings, those of different callers are different reports
						for _, st := range sites {
							infos = append(infos, tmplInfo{pkg: core.FnPkgPath(fn), fn: st.fn, pos: c.P.Pos(st.pos), texts: st.texts})
						}
					} else if texts, ok := templateTexts(call.Call.Args[0]); ok {
						infos = append(infos, tmplInfo{pkg: core.FnPkgPath(fn), fn: fn, pos: c.P.Pos(call.Pos()), texts: texts})
					}
				case "(*text/template.Template).Execute":
					if mi, ok := call.Call.Args[2].(*ssa.MakeInterface); ok {
						data[core.FnPkgPath(fn)] = append(data[core.FnPkgPath(fn)], mi.X.Type())
					}
				}
			}
		}
	}
	return infos, data
}

// ruleTemplates is C02-R4 / C15-R1 / C15-R3.
func ruleTemplates(c *core.Ctx, ruleTyped, ruleSiblings, ruleShorten string) {
	infos, data := collectTemplates(c)
	funcs := templateFuncs(c)
	if len(infos) == 0 {
		for _, r := range []string{ruleTyped, ruleSiblings, ruleShorten} {
			if r != "" {
				c.Note(r + ": no constant template behind template.Must (vacuous)")
			}
		}
		return
	}
	fm := map[string]interface{}{}
	for k := range funcs {
		fm[k] = true
	}
	builtins := map[string]interface{}{"printf": true, "len": true, "index": true, "print": true, "println": true, "not": true, "and": true, "or": true, "eq": true, "ne": true, "lt": true, "le": true, "gt": true, "ge": true}
	for _, info := range infos {
		fname := core.FuncName(info.fn)
		dts := data[info.pkg]
		if len(dts) == 0 {
			c.Undecide(ruleTyped, fname, "template", info.pos, "no Execute call in the package tells which data the template is executed with", nil)
			continue
		}
		var pathSets []map[string]bool
		for ti, text := range info.texts {
			disc := fmt.Sprintf("template %d/%d", ti+1, len(info.texts))
			trees, err := parse.Parse("t", text, "{{", "}}", fm, builtins)
			if err != nil {
				if ruleTyped != "" {
					c.Violate(ruleTyped, fname, disc, info.pos, "the constant template does not parse: "+err.Error(), nil)
				}
				continue
			}
			tc := &tmplChecker{funcs: funcs}
			tc.walk(trees["t"].Root, tscope{dot: dts[0], dotPath: "", vars: map[string]types.Type{"$": dts[0]}, varPath: map[string]string{"$": ""}})
			paths := map[string]bool{}
			for _, u := range tc.uses {
				paths[u.path] = true
			}
			pathSets = append(pathSets, paths)
			var ps []string
			for p := range paths {
				ps = append(ps, p)
			}
			sort.Strings(ps)
			c.Valuations = append(c.Valuations, fmt.Sprintf("%s %s: fields %s; %s", fname, disc, strings.Join(ps, " "), strings.Join(tc.shorten, ", ")))
			var typeErrs, shortErrs []string
			for _, e := range uniq(tc.errs) {
				if strings.Contains(e, "shortened to") {
					shortErrs = append(shortErrs, e)
				} else {
					typeErrs = append(typeErrs, e)
				}
			}
			if ruleTyped != "" {
				if len(typeErrs) == 0 {
					c.Discharge(ruleTyped, fname, disc, info.pos, fmt.Sprintf("well-typed against %s: %d field paths exist, functions are in the FuncMap with matching arity and argument types, every number goes through formatValue", dts[0], len(paths)))
				}
				for _, e := range typeErrs {
					c.Violate(ruleTyped, fname, disc, info.pos, e, nil)
				}
			}
			if ruleShorten != "" && len(tc.shorten) > 0 {
				if len(shortErrs) == 0 {
					c.Discharge(ruleShorten, fname, disc, info.pos, "every shorten width equals the width of the column it is printed in: "+strings.Join(tc.shorten, ", "))
				}
				for _, e := range shortErrs {
					c.Violate(ruleShorten, fname, disc, info.pos, e, nil)
				}
			}
		}
		if ruleSiblings != "" && len(pathSets) > 1 {
			ok := true
			var diff []string
			for i := 1; i < len(pathSets); i++ {
				for p := range pathSets[0] {
					if !pathSets[i][p] {
						ok = false
						diff = append(diff, fmt.Sprintf("template %d omits %s", i+1, p))
					}
				}
				for p := range pathSets[i] {
					if !pathSets[0][p] {
						ok = false
						diff = append(diff, fmt.Sprintf("template 1 omits %s", p))
					}
				}
			}
			if ok {
				c.Discharge(ruleSiblings, fname, "siblings", info.pos, fmt.Sprintf("the %d selectable templates show the same %d fields", len(pathSets), len(pathSets[0])))
			} else {
				sort.Strings(diff)
				c.Violate(ruleSiblings, fname, "siblings", info.pos, "templates selectable through the same option do not show the same data: "+strings.Join(diff, "; "), nil)
			}
		}
	}
	_ = strconv.Itoa
}

type tmplSite struct {
	fn    *ssa.Function
	pos   token.Pos
	texts []string
}

// templateTextsPerCaller: when the text handed to Parse is a parameter of a named function, the constant texts each
// call of that function may hand over, call by call; nil when the text is not a parameter or some call is not constant.
func templateTextsPerCaller(p *core.Program, v ssa.Value) []tmplSite {
	if ext, ok := v.(*ssa.Extract); ok {
		v = ext.Tuple
	}
	call, ok := v.(*ssa.Call)
	if !ok {
		return nil
	}
	cal := core.Callee(&call.Call)
	if cal == nil || cal.String() != "(*text/template.Template).Parse" || len(call.Call.Args) != 2 {
		return nil
	}
	prm, ok := call.Call.Args[1].(*ssa.Parameter)
	if !ok || prm.Parent() == nil || prm.Parent().Parent() != nil {
		return nil
	}
	fn := prm.Parent()
	idx := -1
	for i, q := range fn.Params {
		if q == prm {
			idx = i
		}
	}
	var out []tmplSite
	for _, g := range p.Funcs {
		for _, b := range g.Blocks {
			for _, in := range b.Instrs {
				ci, ok := in.(ssa.CallInstruction)
				if !ok || core.Callee(ci.Common()) != fn || idx < 0 || idx >= len(ci.Common().Args) {
					continue
				}
				texts, ok := constStrings(ci.Common().Args[idx], 0)
				if !ok {
					return nil
				}
				out = append(out, tmplSite{g, ci.Pos(), texts})
			}
		}
	}
	return out
}

// usedByMust: the (template, error) pair this Parse call answers is handed to template.Must.
func usedByMust(call *ssa.Call) bool {
	if call.Referrers() == nil {
		return false
	}
	for _, r := range *call.Referrers() {
		if c2, ok := r.(*ssa.Call); ok {
			if cal := core.Callee(&c2.Call); cal != nil && cal.String() == "text/template.Must" {
				return true
			}
		}
	}
	return false
}
