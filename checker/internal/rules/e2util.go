package rules

import (
	"fmt"
	"go/constant"
	"go/types"
	"strings"
	"time"

	"golang.org/x/tools/go/ssa"

	"hrverif/internal/absint"
	"hrverif/internal/core"
)

// newExec creates an abstract interpreter bound to the analysed tree.
func newExec(c *core.Ctx) *absint.Exec {
	x := absint.New(c.P.SSA, c.P.InScope)
	x.FuncVars = core.FuncVars
	x.ErrVars = core.ErrVars
	x.NilVars = core.NilFuncVars
	x.SoleMethod = func(cc *ssa.CallCommon) *ssa.Function {
		if cc.IsInvoke() {
			return core.Callee(cc)
		}
		return nil
	}
	x.FuncField = func(ptrT types.Type, i int) *ssa.Function {
		if k, ok := core.FuncFieldKey(ptrT, i); ok {
			return core.FuncFields[k]
		}
		return nil
	}
	if c.Deep {
		// thorough tier, second pass: two exactly explored iterations per loop, deeper inlining
		x.MaxDepth = 7
		x.Unroll = 2
		x.MaxStates = 400000
		x.MaxWall = 300 * time.Second
	} else {
		x.MaxDepth = 5
	}
	return x
}

// account adds an exploration's size to the evidence and reports budget or
// modelling problems as undecided obligations.
func account(c *core.Ctx, x *absint.Exec, rule string, root *ssa.Function) bool {
	c.States += x.States
	c.Transitions += x.Transitions
	ok := true
	for _, p := range x.Problems {
		c.Undecide(rule, core.FuncName(root), "engine", c.P.Pos(root.Pos()), "abstract interpretation incomplete: "+p, nil)
		ok = false
	}
	return ok
}

func calleeFull(callee *ssa.Function) string {
	if callee == nil {
		return ""
	}
	return callee.String()
}

// isMethod reports whether callee is method name of the named type pkgPath.tname (value or pointer receiver).
func isMethod(callee *ssa.Function, pkgPath, tname, name string) bool {
	if callee == nil || callee.Signature.Recv() == nil || callee.Name() != name {
		return false
	}
	t := callee.Signature.Recv().Type()
	if p, ok := t.(*types.Pointer); ok {
		t = p.Elem()
	}
	n, ok := t.(*types.Named)
	return ok && n.Obj().Name() == tname && n.Obj().Pkg() != nil && n.Obj().Pkg().Path() == pkgPath
}

func isFunc(callee *ssa.Function, pkgPath, name string) bool {
	return callee != nil && callee.Signature.Recv() == nil && callee.Name() == name && callee.Pkg != nil && callee.Pkg.Pkg.Path() == pkgPath && callee.Parent() == nil
}

// termCall matches a pure-call term "call:<name>" (optionally "#i" for tuple results).
func termCall(v absint.Value, name string) (*absint.Term, bool) {
	t, ok := v.(*absint.Term)
	if !ok {
		return nil, false
	}
	if t.Op == "call:"+name || strings.HasPrefix(t.Op, "call:"+name+"#") {
		return t, true
	}
	return nil, false
}

func keyOf(v absint.Value) string {
	if v == nil {
		return "<none>"
	}
	return v.Key()
}

func isNilConst(v absint.Value) bool {
	c, ok := v.(absint.Const)
	return ok && c.Nil
}

func boolOf(v absint.Value) (bool, bool) {
	c, ok := v.(absint.Const)
	if !ok || c.V == nil {
		return false, false
	}
	s := c.V.ExactString()
	if s == "true" {
		return true, true
	}
	if s == "false" {
		return false, true
	}
	return false, false
}

// describe renders a terminal for messages and replay records.
func describe(x *absint.Exec, t absint.Terminal) map[string]interface{} {
	var rs []string
	for _, r := range t.Ret {
		rs = append(rs, r.Key())
	}
	return map[string]interface{}{
		"kind":      t.Kind,
		"returns":   rs,
		"valuation": x.Valuation(t.State),
		"events":    t.State.Trace,
		"decisions": t.State.Path,
	}
}

// locOf resolves a load symbol "§@n" to the location it was loaded from ("" if v is not one).
func locOf(x *absint.Exec, v absint.Value) string {
	s, ok := v.(absint.Sym)
	if !ok {
		return ""
	}
	// "@n" is the initial content of location n; "j@n"/"w@n" its content after a join or a loop
	for _, pre := range []string{"@", "j@", "w@"} {
		if strings.HasPrefix(s.Name, pre) {
			return x.LocOf[s.Name[len(pre):]]
		}
	}
	return ""
}

// requireAnchor reports a missing exported anchor as an undecided obligation.
func requireAnchor(c *core.Ctx, rule, what string, ok bool) bool {
	if !ok {
		c.Undecide(rule, "anchors", what, "-", fmt.Sprintf("anchor %s no longer resolves (see DESIGN.md Appendix C); the rule cannot locate its subject", what), nil)
	}
	return ok
}

// closuresPassedTo finds function values passed as argument argIdx to calls of target inside fn.
func closuresPassedTo(fn *ssa.Function, target *ssa.Function, argIdx int) []*ssa.Function {
	var out []*ssa.Function
	for _, b := range fn.Blocks {
		for _, in := range b.Instrs {
			ci, ok := in.(ssa.CallInstruction)
			if !ok || core.Callee(ci.Common()) != target || argIdx >= len(ci.Common().Args) {
				continue
			}
			if f := funcOfValue(ci.Common().Args[argIdx]); f != nil {
				out = append(out, f)
			}
		}
	}
	return out
}

func funcOfValue(v ssa.Value) *ssa.Function {
	switch v := v.(type) {
	case *ssa.MakeClosure:
		return v.Fn.(*ssa.Function)
	case *ssa.Function:
		return v
	case *ssa.ChangeType:
		return funcOfValue(v.X)
	case *ssa.MakeInterface:
		return funcOfValue(v.X)
	}
	return nil
}

// fieldName: name of field i of the struct that ptrT points to.
func fieldName(ptrT types.Type, i int) string {
	if p, ok := ptrT.Underlying().(*types.Pointer); ok {
		if st, ok := p.Elem().Underlying().(*types.Struct); ok && i < st.NumFields() {
			return st.Field(i).Name()
		}
	}
	return ""
}

func constantBool(b bool) constant.Value { return constant.MakeBool(b) }

// uniqueImpl: a Devirt hook that follows an interface method call on a value of unknown dynamic type into its
// implementation when the call graph knows exactly one, and that one is in the tree.
func uniqueImpl(c *core.Ctx) func(in *ssa.Function, site ssa.CallInstruction) *ssa.Function {
	return func(in *ssa.Function, site ssa.CallInstruction) *ssa.Function {
		var only *ssa.Function
		for _, cal := range calleesOf(c.P, in, site, c.P.CallGraph()) {
			if only != nil || !c.P.InScope(cal) {
				return nil
			}
			only = cal
		}
		return only
	}
}
