package rules

import (
	"fmt"
	"go/constant"
	"go/token"
	"go/types"
	"os"
	"path/filepath"
	"reflect"
	"regexp"
	"sort"
	"strconv"
	"strings"

	"golang.org/x/tools/go/ssa"

	"hrverif/internal/absint"
	"hrverif/internal/core"
	"hrverif/internal/flow"
)

// the five documented settings: options field -> flag (README.md, docs/configuration-file.md)
var settingFlag = map[string]string{
	"DbFileName":  "database",
	"LogFileName": "logfile",
	"DateFormat":  "date-format",
	"MaxDepth":    "maxdepth",
	"Now":         "today",
}

func flagStub(x *absint.Exec, s *absint.State, site ssa.CallInstruction, callee *ssa.Function, args []absint.Value) (absint.Value, bool) {
	if m, _, ok := flagAccess(site); ok && len(args) == 2 {
		switch m {
		case "IsSet", "String", "Int", "Bool":
			return absint.NewTerm("flag:"+m, args[1]), true
		}
	}
	return nil, false
}

func callsAny(fn *ssa.Function, names ...string) bool {
	for _, b := range fn.Blocks {
		for _, in := range b.Instrs {
			if ci, ok := in.(ssa.CallInstruction); ok {
				if cal := core.Callee(ci.Common()); cal != nil {
					for _, n := range names {
						if cal.String() == n || strings.HasSuffix(cal.String(), n) {
							return true
						}
					}
				}
			}
		}
	}
	return false
}

// reachesAny: fn, or a repository function it calls statically within depth steps, calls one of the names.
func reachesAny(fn *ssa.Function, depth int, names ...string) bool {
	if callsAny(fn, names...) {
		return true
	}
	if depth == 0 {
		return false
	}
	for _, b := range fn.Blocks {
		for _, in := range b.Instrs {
			if ci, ok := in.(ssa.CallInstruction); ok {
				if cal := core.Callee(ci.Common()); cal != nil && cal != fn && len(cal.Blocks) > 0 && core.FnPkgPath(cal) == core.FnPkgPath(fn) {
					if reachesAny(cal, depth-1, names...) {
						return true
					}
				}
			}
		}
	}
	return false
}

// ruleConfigFileTable is C16-R1.
func ruleConfigFileTable(c *core.Ctx, rule string) {
	load := c.P.LookupMethod(optionsPkg, "Options", "Load")
	if !requireAnchor(c, rule, "options.Options.Load", load != nil) {
		return
	}
	fname := core.FuncName(load)
	x := newExec(c)
	x.Hooks.Inline = func(callee *ssa.Function, depth int) bool {
		// the small helpers that look at the file system or read the file
		return reachesAny(callee, 3, "os.Stat", "os.Lstat", "gcfg.v1.ReadInto", "os.Open")
	}
	x.Hooks.Call = func(x *absint.Exec, s *absint.State, site ssa.CallInstruction, callee *ssa.Function, fnv absint.Value, args []absint.Value) (absint.Value, bool) {
		if v, ok := flagStub(x, s, site, callee, args); ok {
			return v, true
		}
		if callee == nil {
			return nil, false
		}
		switch {
		case callee.String() == "os.Stat" || callee.String() == "os.Lstat":
			return &absint.Tuple{Elems: []absint.Value{absint.Sym{Name: "info"}, absint.Sym{Name: "staterr"}}}, true
		case strings.HasSuffix(callee.String(), "gcfg.v1.ReadInto"):
			s.SetData("read", "1")
			return x.Fresh(s, "readerr"), true
		case callee.String() == "os.Open":
			s.SetData("opened", "1")
			return &absint.Tuple{Elems: []absint.Value{x.Fresh(s, "file"), x.Fresh(s, "openerr")}}, true
		}
		return nil, false
	}
	x.Hooks.Decide = func(x *absint.Exec, s *absint.State, atom string, outs []string) {
		if len(outs) != 1 {
			return
		}
		switch {
		case atom == "nil(§staterr)":
			s.SetData("staterr", outs[0])
		case strings.HasPrefix(atom, "b(call:os.IsNotExist(§staterr"):
			s.SetData("notexist", outs[0])
		case strings.HasPrefix(atom, "b(call:errors.Is(§staterr,§@"):
			// errors.Is(err, fs.ErrNotExist): the same question asked the newer way
			id := strings.TrimSuffix(strings.TrimPrefix(atom, "b(call:errors.Is(§staterr,§@"), "))")
			if strings.Contains(x.LocOf[id], "ErrNotExist") {
				s.SetData("notexist", outs[0])
			}
		case atom == `b(flag:IsSet(c:"config"))`:
			s.SetData("set", outs[0])
		case strings.HasPrefix(atom, "b(§") && strings.Contains(atom, load.Params[len(load.Params)-1].Name()):
			s.SetData("use", outs[0])
		case strings.HasPrefix(atom, "nil(§openerr"), strings.HasPrefix(atom, "nil(§readerr"):
			if outs[0] == "nonnil" {
				s.SetData("ioerr", "1")
			}
		default:
			if strings.HasPrefix(atom, "b(") && strings.Contains(atom, "§info") {
				s.SetData("extra", s.Data["extra"]+atom+"="+outs[0]+";")
			}
		}
	}
	x.KeepSyms = map[string]bool{"staterr": true, "info": true}
	terms := x.Run(x.NewState(load, nil, nil))
	if !account(c, x, rule, load) {
		return
	}
	var bad []string
	cases := map[string]bool{}
	for _, tm := range terms {
		if tm.Kind != "return" || len(tm.Ret) != 1 {
			continue
		}
		d := tm.State.Data
		read := d["read"] == "1"
		retNonNil := nilnessOf(x, tm.State, tm.Ret[0]) == "nonnil" || absint.Mentions(tm.Ret[0], "staterr") && d["staterr"] == "nonnil"
		stat := ""
		switch {
		case d["notexist"] == "T":
			stat = "not-exist"
		case d["staterr"] == "nil":
			stat = "ok"
		case d["staterr"] == "nonnil":
			stat = "other-error"
		}
		key := fmt.Sprintf("use=%s stat=%s set=%s extra=%s → read=%v err=%v", d["use"], stat, d["set"], d["extra"], read, retNonNil)
		cases[key] = true
		if d["use"] == "F" {
			if read {
				bad = append(bad, "the configuration file is read although its use was switched off ("+key+")")
			}
			continue
		}
		switch stat {
		case "ok":
			if !read && d["ioerr"] != "1" && !retNonNil {
				bad = append(bad, "the configuration file exists but is not read ("+key+"): its settings are silently ignored")
			}
			if !read && d["ioerr"] != "1" && retNonNil && d["extra"] != "" {
				bad = append(bad, "an existing configuration file is rejected depending on "+d["extra"]+" ("+key+")")
			}
		case "not-exist":
			if read {
				bad = append(bad, "a file that does not exist is read ("+key+")")
			}
			if d["set"] == "T" && !retNonNil {
				bad = append(bad, "an explicitly named configuration file that does not exist is not an error ("+key+")")
			}
			if d["set"] == "F" && retNonNil && d["ioerr"] != "1" {
				// an error from later stages is possible; only flag errors that stem from the missing default file
				if absint.Mentions(tm.Ret[0], "staterr") {
					bad = append(bad, "a missing default configuration file is reported as an error ("+key+")")
				}
			}
		case "other-error":
			if read || !retNonNil {
				bad = append(bad, "the file cannot be inspected (stat fails with another error) but Load does not fail ("+key+")")
			}
		default:
			if read {
				bad = append(bad, "the configuration file is read without asking whether it exists ("+key+")")
			}
			if d["use"] == "T" && !read && !retNonNil {
				bad = append(bad, "with the configuration file switched on Load succeeds without even looking for the file ("+x.Valuation(tm.State)+"): whether the file is consulted depends on something other than its existence, so settings only the file holds are silently dropped")
			}
		}
	}
	sawRead := false
	for k := range cases {
		c.Valuations = append(c.Valuations, "Load: "+k)
		if strings.Contains(k, "stat=ok") && strings.Contains(k, "read=true") {
			sawRead = true
		}
	}
	if !sawRead {
		bad = append(bad, "under no valuation is an existing configuration file read: the read is unreachable")
	}
	bad = uniq(bad)
	if len(bad) == 0 {
		c.Discharge(rule, fname, "config-file-table", c.P.Pos(load.Pos()), fmt.Sprintf("exists ⇒ read; named but missing ⇒ error; default missing ⇒ skipped; stat error ⇒ error; switched off ⇒ not read (%d cases)", len(cases)))
	}
	for _, m := range bad {
		c.Violate(rule, fname, "config-file-table", c.P.Pos(load.Pos()), m, nil)
	}
}

// settingStruct: the struct is one of the documented configuration sections (GlobalConfig, resolver.Config).
func settingStruct(ptrT types.Type) bool {
	s := ptrT.String()
	return strings.HasSuffix(s, "options.GlobalConfig") || strings.HasSuffix(s, "resolver.Config")
}

// settingWriters: methods of Options that take the command-line context (candidates for storing into a documented setting).
func settingWriters(p *core.Program) []*ssa.Function {
	var out []*ssa.Function
	for _, fn := range p.Funcs {
		if core.FnPkgPath(fn) != optionsPkg || fn.Signature.Recv() == nil || fn.Parent() != nil || len(fn.Blocks) == 0 {
			continue
		}
		if !strings.HasSuffix(fn.Signature.Recv().Type().String(), "options.Options") {
			continue
		}
		takesCtx := false
		for _, prm := range fn.Params[1:] {
			if strings.HasSuffix(prm.Type().String(), "cli/v2.Context") {
				takesCtx = true
			}
			if it, ok := prm.Type().Underlying().(*types.Interface); ok {
				for i := 0; i < it.NumMethods(); i++ {
					if it.Method(i).Name() == "IsSet" {
						takesCtx = true // an interface that abstracts the context
					}
				}
			}
		}
		if takesCtx {
			out = append(out, fn)
		}
	}
	sort.Slice(out, func(i, j int) bool { return out[i].Name() < out[j].Name() })
	return out
}

// ruleGuardedOverridesOnly applies the guard rule to the named settings only.
func ruleGuardedOverridesOnly(c *core.Ctx, rule string, fields ...string) {
	saved := settingFlag
	only := map[string]string{}
	for _, f := range fields {
		if v, ok := saved[f]; ok {
			only[f] = v
		}
	}
	settingFlag = only
	defer func() { settingFlag = saved }()
	ruleGuardedOverrides(c, rule, "")
}

// ruleGuardedOverrides is C16-R2 and C16-R4.
func ruleGuardedOverrides(c *core.Ctx, rule, ruleNoDB string) {
	ws := settingWriters(c.P)
	if len(ws) == 0 {
		c.Undecide(rule, "options", "universe", "-", "no method of Options taking the command-line context ends with a documented setting changed", nil)
		return
	}
	seenField := map[string]bool{}
	isWriter := map[*ssa.Function]bool{}
	for _, w := range ws {
		isWriter[w] = true
	}
	flagTerm := func(m, name string) string {
		return absint.NewTerm("flag:"+m, absint.Const{V: constant.MakeString(name)}).Key()
	}
	for _, fn := range ws {
		fname := core.FuncName(fn)
		recv := fn.Params[0].Name()
		x := newExec(c)
		var bad, badNoDB []string
		x.Hooks.Call = func(x *absint.Exec, s *absint.State, site ssa.CallInstruction, callee *ssa.Function, fnv absint.Value, args []absint.Value) (absint.Value, bool) {
			if v, ok := flagStub(x, s, site, callee, args); ok {
				return v, true
			}
			// each writer is judged on its own: a step that is itself a writer (Load calling populateGlobals) is passed
			// over here, and so is the reading of the configuration file, which gives the settings the values the
			// flags are then weighed against
			if callee != nil && callee != fn && isWriter[callee] || callee != nil && strings.Contains(callee.String(), "gcfg.v1.Read") {
				if site.Common().Signature().Results().Len() == 1 {
					return x.Fresh(s, "step"), true
				}
				if site.Common().Signature().Results().Len() == 0 {
					return nil, true
				}
			}
			return nil, false
		}
		terms := x.Run(x.NewState(fn, nil, nil))
		if !account(c, x, rule, fn) {
			continue
		}
		// the settings are judged on the state each path ends with, wherever the stores happen (directly, in a
		// helper, or on a local copy that is stored back)
		locOfField := func(fld string) string {
			sec := "GlobalConfig"
			if fld == "MaxDepth" {
				sec = "ResolverConfig"
			}
			return "L:§" + recv + "·" + sec + "·" + fld
		}
		final := func(s *absint.State, fld string) (v absint.Value, changed bool) {
			loc := locOfField(fld)
			hv, ok := s.Heap[loc]
			if !ok {
				// a structure (time.Time) may have been written field by field, or not at all
				for k := range s.Heap {
					if strings.HasPrefix(k, loc+"·") {
						if locOf(x, s.Heap[k]) != k {
							return s.Heap[k], true
						}
					}
				}
				return nil, false
			}
			if locOf(x, hv) == loc {
				return hv, false
			}
			return hv, true
		}
		wasZero := func(s *absint.State, fld string) bool {
			loc := locOfField(fld)
			for k := range s.PC {
				if !strings.HasPrefix(k, "ord(") || !strings.Contains(k, "§@") {
					continue
				}
				parts := splitTop(strings.TrimSuffix(strings.TrimPrefix(k, "ord("), ")"))
				if len(parts) != 2 {
					continue
				}
				for i := 0; i < 2; i++ {
					if (parts[i] == `c:""` || parts[i] == "c:0") && locOf(x, absint.Sym{Name: strings.TrimPrefix(parts[1-i], "§")}) == loc {
						if o := x.Possible(s, k); len(o) == 1 && o[0] == "=" {
							return true
						}
					}
				}
			}
			return false
		}
		changesSomething := false
		for _, tm := range terms {
			if tm.Kind != "return" {
				continue
			}
			st := tm.State
			errReturn := len(tm.Ret) == 1 && nilnessOf(x, st, tm.Ret[0]) == "nonnil"
			noDB := false
			if nd := x.Possible(st, "b("+flagTerm("IsSet", "no-database")+")"); len(nd) == 1 && nd[0] == "T" {
				noDB = true
			}
			if nd := x.Possible(st, "b("+flagTerm("Bool", "no-database")+")"); len(nd) == 1 && nd[0] == "T" {
				noDB = true
			}
			for fld, flagName := range settingFlag {
				v, changed := final(st, fld)
				fromFlag := false
				if changed {
					changesSomething = true
					for _, m := range []string{"String", "Int", "Bool"} {
						if strings.Contains(v.Key(), flagTerm(m, flagName)) {
							fromFlag = true
						}
					}
				}
				setOuts := x.Possible(st, "b("+flagTerm("IsSet", flagName)+")")
				set := len(setOuts) == 1 && setOuts[0] == "T"
				switch {
				case changed && !fromFlag:
					if fld == "DbFileName" && noDB {
						break // judged by the no-database rule below
					}
					bad = append(bad, fmt.Sprintf("setting %s ends as %s, not the value of --%s (%s)", fld, v.Key(), flagName, x.Valuation(st)))
				case changed && fromFlag:
					seenField[fld] = true
					if !set && !wasZero(st, fld) {
						bad = append(bad, fmt.Sprintf("setting %s is overwritten from --%s on a path where neither the flag/environment variable is set nor the value is still empty (%s): a value from the configuration file is lost, or a flag spelled like the default is ignored", fld, flagName, x.Valuation(st)))
					}
					if fld == "Now" {
						// the layout --today is parsed with must be the date format this path ends with
						if t, ok := findCall(v, "time.Parse"); ok && len(t.Args) >= 1 {
							df, dfChanged := final(st, "DateFormat")
							want := ""
							if df != nil {
								want = df.Key()
							}
							if !dfChanged && df == nil {
								want = x.Load(st, absint.Ptr{Loc: locOfField("DateFormat")}, nil).Key()
							}
							if t.Args[0].Key() != want {
								bad = append(bad, fmt.Sprintf("a date given on the command line is parsed with layout %s, but the effective date format is %s (it may come from the configuration file)", t.Args[0].Key(), want))
							}
						}
					}
					if fld == "DbFileName" && noDB {
						badNoDB = append(badNoDB, "the book path is set from --database although --no-database is given")
					}
				case !changed && set && !errReturn:
					if fld == "DbFileName" && noDB {
						break
					}
					bad = append(bad, fmt.Sprintf("--%s is set but %s does not end up with its value (%s)", flagName, fld, x.Valuation(st)))
				}
			}
			// C16-R4: --no-database behaves as an empty book
			if noDB {
				v, changed := final(st, "DbFileName")
				if !changed {
					badNoDB = append(badNoDB, "with --no-database the book path keeps whatever the configuration file or the default gave it: the book is still opened and resolved")
				} else if cst, ok := v.(absint.Const); !ok || cst.V == nil || cst.V.ExactString() != `""` {
					badNoDB = append(badNoDB, "with --no-database the book path becomes "+v.Key())
				}
			}
		}
		if !changesSomething {
			continue // not a writer of documented settings (filter, reporter switches)
		}
		bad, badNoDB = uniq(bad), uniq(badNoDB)
		if len(bad) == 0 {
			c.Discharge(rule, fname, "guards", c.P.Pos(fn.Pos()), fmt.Sprintf("every setting it changes ends as the value of its own flag, only when the flag/environment is set or the value was still empty; a set flag always wins (%d paths)", len(terms)))
		}
		for _, m := range bad {
			c.Violate(rule, fname, "guards", c.P.Pos(fn.Pos()), m, nil)
		}
		touchesDB := false
		for _, tm := range terms {
			if _, ch := final(tm.State, "DbFileName"); ch {
				touchesDB = true
			}
		}
		if _, isDB := settingFlag["DbFileName"]; isDB && touchesDB && ruleNoDB != "" {
			if len(badNoDB) == 0 {
				c.Discharge(ruleNoDB, fname, "no-database", c.P.Pos(fn.Pos()), "--no-database leaves no book path to open")
			} else {
				c.Violate(ruleNoDB, fname, "no-database", c.P.Pos(fn.Pos()), strings.Join(badNoDB, "; "), nil)
			}
		}
	}
	for fld, fl := range settingFlag {
		if !seenField[fld] {
			c.Violate(rule, "options", "setting "+fld, "-", fmt.Sprintf("no method of Options ever stores --%s into %s: the command-line value cannot take effect", fl, fld), nil)
		}
	}
}

// findCall: the first sub-term of v that is a call of the named function.
func findCall(v absint.Value, name string) (*absint.Term, bool) {
	t, ok := v.(*absint.Term)
	if !ok {
		if iv, isI := v.(*absint.Iface); isI {
			return findCall(iv.V, name)
		}
		return nil, false
	}
	if strings.HasPrefix(t.Op, "call:"+name) {
		return t, true
	}
	for _, a := range t.Args {
		if r, ok := findCall(a, name); ok {
			return r, true
		}
	}
	return nil, false
}

// ruleSettingTables is C16-R3: flag table, README option listing, defaults and documented config keys agree.
func ruleSettingTables(c *core.Ctx, rule string) {
	decls := collectFlags(c.P)
	byName := map[string]flagDecl{}
	for _, d := range decls {
		if d.Command == "" {
			for _, n := range d.Names {
				byName[n] = d
			}
		}
	}
	readme, _ := os.ReadFile(filepath.Join(c.P.Dir, "README.md"))
	re := regexp.MustCompile(`(?m)^\s+--([a-z-]+)[^\n]*`)
	doc := map[string]string{}
	for _, m := range re.FindAllStringSubmatch(string(readme), -1) {
		if _, ok := doc[m[1]]; !ok {
			doc[m[1]] = m[0]
		}
	}
	envRe := regexp.MustCompile(`\[\$([A-Z_]+)\]`)
	defRe := regexp.MustCompile(`\(default: ("?)([^")]*)"?\)`)
	for _, name := range []string{"database", "logfile", "config", "date-format", "maxdepth"} {
		d, ok := byName[name]
		if !ok {
			c.Violate(rule, "main.GetApp", "flag "+name, "-", "the documented global option --"+name+" is not declared", nil)
			continue
		}
		pos := c.P.Pos(d.Pos)
		line, documented := doc[name]
		if !documented {
			c.Undecide(rule, "main.GetApp", "flag "+name, pos, "README.md does not list --"+name+"; the documented side of the table is missing", nil)
			continue
		}
		var bad []string
		if m := envRe.FindStringSubmatch(line); m != nil {
			if len(d.EnvVars) != 1 || d.EnvVars[0] != m[1] {
				bad = append(bad, fmt.Sprintf("README documents environment variable $%s, the flag declares %v", m[1], d.EnvVars))
			}
		} else if len(d.EnvVars) > 0 {
			bad = append(bad, fmt.Sprintf("the flag reads %v but README documents no environment variable", d.EnvVars))
		}
		if m := defRe.FindStringSubmatch(line); m != nil && name != "config" {
			got := ""
			if d.Default != nil {
				if d.Default.Kind() == constant.String {
					got = constant.StringVal(d.Default)
				} else {
					got = d.Default.ExactString()
				}
			}
			if got != m[2] {
				bad = append(bad, fmt.Sprintf("README documents default %q, the flag's default is %q", m[2], got))
			}
		}
		if len(bad) == 0 {
			c.Discharge(rule, "main.GetApp", "flag "+name, pos, "environment variable and default agree with README.md")
		}
		for _, m := range bad {
			c.Violate(rule, "main.GetApp", "flag "+name, pos, m, nil)
		}
	}
	// flag default == initial value installed by options.New()
	initVals := map[string]string{}
	for _, fn := range c.P.Funcs {
		if !inPkgs(fn, optionsPkg, resolverPkg) || fn.Parent() != nil {
			continue
		}
		for _, b := range fn.Blocks {
			for _, in := range b.Instrs {
				if st, ok := in.(*ssa.Store); ok {
					if fa, ok := st.Addr.(*ssa.FieldAddr); ok {
						if cst, ok := st.Val.(*ssa.Const); ok && cst.Value != nil && strings.HasPrefix(fn.Name(), "NewDefault") {
							initVals[fieldName(fa.X.Type(), fa.Field)] = cst.Value.ExactString()
						}
					}
				}
				// composite literal returned by value: Config{DefaultMaxDepth}
				if r, ok := in.(*ssa.Return); ok && strings.HasPrefix(fn.Name(), "NewDefault") && len(r.Results) == 1 {
					if cst, ok := r.Results[0].(*ssa.Const); ok {
						_ = cst
					}
				}
			}
		}
	}
	for fld, fl := range map[string]string{"DbFileName": "database", "LogFileName": "logfile", "DateFormat": "date-format"} {
		d, ok := byName[fl]
		iv, ok2 := initVals[fld]
		if !ok || !ok2 || d.Default == nil {
			continue
		}
		if d.Default.ExactString() == iv {
			c.Discharge(rule, "options", "default "+fld, c.P.Pos(d.Pos), "the flag's default and the initial value of the setting are the same constant "+iv)
		} else {
			c.Violate(rule, "options", "default "+fld, c.P.Pos(d.Pos), fmt.Sprintf("'default' means two things: the flag --%s defaults to %s, the setting starts as %s", fl, d.Default.ExactString(), iv), nil)
		}
	}
	// documented configuration keys are fields of the gcfg-tagged sections
	if optT := c.P.LookupType(optionsPkg, "Options"); optT != nil {
		sections := map[string]*types.Struct{}
		if st, ok := optT.Underlying().(*types.Struct); ok {
			for i := 0; i < st.NumFields(); i++ {
				if tag, ok := reflect.StructTag(st.Tag(i)).Lookup("gcfg"); ok {
					if fs, ok := st.Field(i).Type().Underlying().(*types.Struct); ok {
						sections[tag] = fs
					}
				}
			}
		}
		md, _ := os.ReadFile(filepath.Join(c.P.Dir, "docs", "configuration-file.md"))
		cur := ""
		for _, line := range strings.Split(string(md), "\n") {
			if strings.HasPrefix(line, "### ") {
				cur = strings.TrimSpace(strings.TrimPrefix(line, "### "))
			}
			if strings.HasPrefix(line, "#### ") && cur != "" {
				key := strings.Fields(strings.TrimPrefix(line, "#### "))[0]
				sec, ok := sections[cur]
				found := false
				if ok {
					for i := 0; i < sec.NumFields(); i++ {
						if strings.EqualFold(sec.Field(i).Name(), key) {
							found = true
						}
					}
				}
				if found {
					c.Discharge(rule, "options", "config key "+cur+"."+key, "docs/configuration-file.md", "documented key is a field of the section's structure")
				} else {
					c.Violate(rule, "options", "config key "+cur+"."+key, "docs/configuration-file.md", "the documented configuration key "+cur+"."+key+" is not a field the configuration reader can fill", nil)
				}
			}
		}
	}
	// every flag name the code reads is declared somewhere
	declared := map[string]bool{}
	for _, d := range decls {
		for _, n := range d.Names {
			declared[n] = true
		}
		for _, a := range d.Aliases {
			declared[a] = true
		}
	}
	// a spelling (name or alias) that stands for different flags on different levels: which flag a read through
	// that spelling reaches depends on the command that runs
	owners := map[string]map[string]bool{}
	for _, d := range decls {
		if len(d.Names) == 0 {
			continue
		}
		for _, sp := range append(append([]string(nil), d.Names...), d.Aliases...) {
			if owners[sp] == nil {
				owners[sp] = map[string]bool{}
			}
			owners[sp][d.Names[0]] = true
		}
	}
	for _, fr := range collectFlagReads(c.P) {
		if fr.Name == "" {
			continue
		}
		if !declared[fr.Name] {
			c.Violate(rule, core.FuncName(fr.Fn), "read "+fr.Name, c.P.Pos(fr.Call.Pos()), "the code reads flag \""+fr.Name+"\", which no command declares: it can never be set from the command line", nil)
			continue
		}
		if len(owners[fr.Name]) > 1 {
			c.Violate(rule, core.FuncName(fr.Fn), "read "+fr.Name, c.P.Pos(fr.Call.Pos()), fmt.Sprintf("the code reads a flag through the spelling %q, which different levels declare for different flags (%s): under a command that declares its own %q the read reaches that flag instead of the intended one", fr.Name, strings.Join(keysOf(owners[fr.Name]), ", "), fr.Name), nil)
		}
	}
	c.Universe(rule+" flag declarations", fmt.Sprintf("%d flag literals", len(decls)))
	_ = strconv.Itoa
}

// ruleSettingSources is C16-R5 / C11-R3: documented sources reach the sinks.
func ruleSettingSources(c *core.Ctx, rule string) {
	g := buildFlow(c)
	check := func(fname, disc, pos string, v ssa.Value, want []string) {
		srcs := g.Sources(flow.ValueNode(v))
		var missing []string
		for _, w := range want {
			if !hasSource(srcs, w) {
				missing = append(missing, w)
			}
		}
		if len(missing) == 0 {
			c.Discharge(rule, fname, disc, pos, "sources include "+strings.Join(want, ", "))
		} else {
			c.Violate(rule, fname, disc, pos, fmt.Sprintf("the documented source(s) %v cannot reach this use; its sources are {%s}", missing, describeSources(srcs)), nil)
		}
	}
	// 1. the files that are opened by the command utilities
	for _, fn := range c.P.Funcs {
		if core.FnPkgPath(fn) != utilsPkg {
			continue
		}
		for _, b := range fn.Blocks {
			for _, in := range b.Instrs {
				if call, ok := in.(*ssa.Call); ok && core.Callee(&call.Call) != nil && core.Callee(&call.Call).String() == "os.Open" {
					check(core.FuncName(fn), "os.Open", c.P.Pos(call.Pos()), call.Call.Args[0], []string{"flag:String(database)", "flag:String(logfile)", "ext:config-file"})
				}
			}
		}
	}
	// 2. the resolver's bound
	for _, r := range recursiveResolvers(c.P) {
		li, _, ok := levelParam(r)
		if !ok {
			continue
		}
		for _, b := range r.Blocks {
			for _, in := range b.Instrs {
				bo, ok := in.(*ssa.BinOp)
				if !ok {
					continue
				}
				var other ssa.Value
				if bo.X == ssa.Value(r.Params[li]) {
					other = bo.Y
				} else if bo.Y == ssa.Value(r.Params[li]) {
					other = bo.X
				}
				if other == nil {
					continue
				}
				if _, isC := other.(*ssa.Const); isC {
					continue
				}
				check(core.FuncName(r), "depth bound", c.P.Pos(bo.Pos()), other, []string{"flag:Int(maxdepth)", "ext:config-file"})
			}
		}
	}
	// 3. the "now" the keywords resolve against
	if fn := c.P.LookupFunc(optionsPkg, "GetTimeFromString"); fn != nil && len(fn.Params) > 0 {
		check(core.FuncName(fn), "now", c.P.Pos(fn.Pos()), fn.Params[0], []string{"ext:time.Now", "flag:String(today)", "ext:config-file"})
	}
}

func init() {
	register(&Property{
		ID:    "C16",
		Rules: []string{"C16-R1", "C16-R2", "C16-R3", "C16-R4", "C16-R5", "C16-R6", "C16-R7", "C16-R8", "C16-R9", "C16-R10", "C16-R11", "C16-R12", "C05-R3"},
		Explain: "Decides the precedence machinery of settings: C16-R12 the name of the configuration file that is looked for, opened and read derives from the config setting only; C16-R11 a boolean flag that declares an environment variable is read by its value, not by IsSet alone (the library counts it as set whenever the variable exists); C16-R1 the configuration-file decision table of Options.Load over stat ∈ {ok, not-exist, other error} x IsSet(config) x useConfigFile (exists ⇒ read; named but missing ⇒ error; default missing ⇒ skipped; stat error ⇒ error); " +
			"C16-R2 each of the five settings is written from its own flag only when the flag/environment is set or the value is still empty, a set flag always wins, and --today is parsed with the effective date format; " +
			"C16-R3 flag declarations, README option listing, defaults and documented configuration keys agree, and every flag the code reads is declared; C16-R4 --no-database leaves no book to open; " +
			"C16-R5 the opener, the resolver's bound and the keyword resolver's now are reached by their documented sources (flag, configuration file, default); " +
			"C16-R6 the configuration file is read into the live options structure (or a complete copy that is completely copied back), so defaults survive for every key the file does not set; " +
			"C16-R7 the resolver's entry points hand the configured depth limit to the walk untransformed; " +
			"C16-R8 every command configuration literal sets each options section it has a field for (none runs on a zero-valued section); " +
			"C16-R9 a setting's flag that is declared on a command as well as on the application is read through the context lineage, so the global flag and its environment variable are not shadowed. C16-R10 the reader gcfg parses is the opened file, a buffered reader over it or its complete contents; Load itself is judged as a writer for the stores it makes directly. C05-R3 (shared) nothing reads the wall clock outside the default of --today.",
		NotDecided:  "urfave/cli's own flag-over-environment precedence and gcfg's parsing (trusted)",
		Assumptions: []string{"urfave/cli: IsSet is true for a flag given on the command line or through its environment variable; String/Int return the flag's default otherwise", "gcfg.ReadInto fills only the gcfg-tagged sections"},
		Run: func(c *core.Ctx) {
			ruleC05R3(c, "C05-R3", allowedClock) // the current date is read from the clock nowhere but at its default
			ruleConfigWholeFile(c, "C16-R10")
			ruleConfigFileName(c, "C16-R12")
			ruleConfigFileTable(c, "C16-R1")
			ruleGuardedOverrides(c, "C16-R2", "C16-R4")
			ruleSettingTables(c, "C16-R3")
			ruleEnvBoolFlags(c, "C16-R11")
			ruleSettingSources(c, "C16-R5")
			ruleConfigTarget(c, "C16-R6")
			ruleResolverEntries(c, "C16-R7", false, true)
			ruleConfigLiterals(c, "C16-R8", nil)
			ruleLineage(c, "C16-R9", func(n string) bool {
				for _, f := range settingFlag {
					if f == n {
						return true
					}
				}
				return n == "config" || n == "no-database"
			})
		},
	})
}

// soleStored: the single value stored into the cell a, which is otherwise only read (also by the closures that
// capture it); nil when the cell is written more than once or its address goes elsewhere.
func soleStored(a *ssa.Alloc) ssa.Value {
	var val ssa.Value
	var readOnly func(refs []ssa.Instruction, self ssa.Value) bool
	readOnly = func(refs []ssa.Instruction, self ssa.Value) bool {
		for _, r := range refs {
			switch t := r.(type) {
			case *ssa.UnOp:
				if t.Op != token.MUL {
					return false
				}
			case *ssa.DebugRef:
			case *ssa.Store:
				if t.Addr != self || val != nil {
					return false
				}
				val = t.Val
			case *ssa.MakeClosure:
				fn := t.Fn.(*ssa.Function)
				for i, b := range t.Bindings {
					if b == self && i < len(fn.FreeVars) {
						fv := fn.FreeVars[i]
						if fv.Referrers() == nil || !readOnly(*fv.Referrers(), fv) {
							return false
						}
					}
				}
			default:
				return false
			}
		}
		return true
	}
	if a.Referrers() == nil || !readOnly(*a.Referrers(), a) {
		return nil
	}
	return val
}

// ruleConfigTarget is C16-R6 (and C04-R4): the configuration file is read into
// the live options — the structure that already holds the defaults and that
// the flags are applied to afterwards. Reading into a fresh or partially
// copied structure and copying sections back loses whatever the file cannot
// set (the parser configuration, "now") or replaces defaults by zero values.
func ruleConfigTarget(c *core.Ctx, rule string) {
	isRead := func(cal *ssa.Function) bool {
		if cal == nil {
			return false
		}
		s := cal.String()
		return strings.HasSuffix(s, "gcfg.v1.ReadInto") || strings.HasSuffix(s, "gcfg.v1.ReadFileInto") || strings.HasSuffix(s, "gcfg.v1.ReadStringInto")
	}
	strip := func(v ssa.Value) ssa.Value {
		for {
			switch x := v.(type) {
			case *ssa.MakeInterface:
				v = x.X
			case *ssa.ChangeInterface:
				v = x.X
			case *ssa.ChangeType:
				v = x.X
			case *ssa.UnOp:
				// a variable captured by closures lives in a cell: the one value ever stored there
				if a, ok := x.X.(*ssa.Alloc); ok && x.Op == token.MUL {
					if sv := soleStored(a); sv != nil {
						v = sv
						continue
					}
				}
				return v
			default:
				return v
			}
		}
	}
	n := 0
	var check func(fn *ssa.Function, v ssa.Value, pos string, depth int)
	check = func(fn *ssa.Function, v ssa.Value, pos string, depth int) {
		fname := core.FuncName(fn)
		v = strip(v)
		switch x := v.(type) {
		case *ssa.Parameter:
			if fn.Signature.Recv() != nil && len(fn.Params) > 0 && fn.Params[0] == x {
				c.Discharge(rule, fname, "target", pos, "the configuration file is read into the receiver "+x.Name()+" itself: defaults set before survive unless the file sets the key, and flags are applied to the same structure afterwards")
				return
			}
			idx := -1
			for i, p := range fn.Params {
				if p == x {
					idx = i
				}
			}
			callers := 0
			if depth < 4 && idx >= 0 {
				for _, g := range c.P.Funcs {
					for _, b := range g.Blocks {
						for _, in := range b.Instrs {
							if ci, ok := in.(ssa.CallInstruction); ok && core.Callee(ci.Common()) == fn && idx < len(ci.Common().Args) {
								callers++
								check(g, ci.Common().Args[idx], c.P.Pos(in.Pos()), depth+1)
							}
						}
					}
				}
			}
			if callers == 0 {
				c.Discharge(rule, fname, "target", pos, "the configuration file is read into the caller's structure "+x.Name()+" (no caller in the tree)")
			}
		case *ssa.Alloc:
			st, ok := x.Type().Underlying().(*types.Pointer).Elem().Underlying().(*types.Struct)
			if !ok {
				c.Violate(rule, fname, "target", pos, "the configuration file is read into a local value that is not the options structure", nil)
				return
			}
			in, out := map[int]bool{}, map[int]bool{}
			wholeIn, wholeOut := false, false
			var params []*ssa.Parameter
			for _, p := range fn.Params {
				if types.Identical(p.Type(), x.Type()) {
					params = append(params, p)
				}
			}
			isParam := func(v ssa.Value) bool {
				for _, p := range params {
					if v == ssa.Value(p) {
						return true
					}
				}
				return false
			}
			allocs := map[ssa.Value]bool{x: true}
			for round := 0; round < 2; round++ {
				for _, b := range fn.Blocks {
					for _, ins := range b.Instrs {
						s, ok := ins.(*ssa.Store)
						if !ok {
							continue
						}
						// whole-structure copies
						if ld, ok := s.Val.(*ssa.UnOp); ok && ld.Op == token.MUL {
							switch {
							case allocs[s.Addr] && isParam(ld.X):
								wholeIn = true
							case allocs[s.Addr]:
								if a2, ok := ld.X.(*ssa.Alloc); ok && types.Identical(a2.Type(), x.Type()) {
									allocs[a2] = true // a composite literal built in a temporary
								}
							case isParam(s.Addr) && allocs[ld.X]:
								wholeOut = true
							}
						}
						// field-wise copies
						fa, ok := s.Addr.(*ssa.FieldAddr)
						if !ok {
							continue
						}
						ld, ok := s.Val.(*ssa.UnOp)
						if !ok || ld.Op != token.MUL {
							continue
						}
						fb, ok := ld.X.(*ssa.FieldAddr)
						if !ok || fb.Field != fa.Field {
							continue
						}
						switch {
						case allocs[fa.X] && isParam(fb.X):
							in[fa.Field] = true
						case isParam(fa.X) && allocs[fb.X]:
							out[fa.Field] = true
						}
					}
				}
			}
			var missIn, missOut []string
			for i := 0; i < st.NumFields(); i++ {
				if !wholeIn && !in[i] {
					missIn = append(missIn, st.Field(i).Name())
				}
				if !wholeOut && !out[i] {
					missOut = append(missOut, st.Field(i).Name())
				}
			}
			switch {
			case len(params) == 0:
				c.Violate(rule, fname, "target", pos, "the configuration file is read into a fresh local structure "+x.Comment+" that is not connected to the options the commands use", nil)
			case len(missIn) > 0:
				c.Violate(rule, fname, "target", pos, fmt.Sprintf("the configuration file is read into a local copy %s that does not start from the live options: %s not copied in, so after copying back these hold zero values instead of the defaults whenever a configuration file exists", x.Comment, strings.Join(missIn, ", ")), nil)
			case len(missOut) > 0 && len(missOut) < st.NumFields() || len(missOut) == st.NumFields():
				if len(missOut) == 0 {
					break
				}
				c.Violate(rule, fname, "target", pos, fmt.Sprintf("the configuration file is read into a local copy %s and only part of it is copied back (%s missing)", x.Comment, strings.Join(missOut, ", ")), nil)
			default:
				c.Discharge(rule, fname, "target", pos, "the configuration file is read into a complete copy of the live options which is copied back completely")
			}
		default:
			c.Violate(rule, fname, "target", pos, "the configuration file is read into "+v.String()+", which is not the options structure the defaults were set on", nil)
		}
	}
	for _, fn := range c.P.Funcs {
		for _, b := range fn.Blocks {
			for _, in := range b.Instrs {
				ci, ok := in.(ssa.CallInstruction)
				if !ok || !isRead(core.Callee(ci.Common())) || len(ci.Common().Args) == 0 {
					continue
				}
				n++
				c.Universe(rule+" configuration reads", core.FuncName(fn)+" ("+c.P.Pos(in.Pos())+")")
				check(fn, ci.Common().Args[0], c.P.Pos(in.Pos()), 0)
			}
		}
	}
	if n == 0 {
		c.Undecide(rule, "options", "universe", "-", "no call of gcfg.Read*Into found although a configuration file is documented", nil)
	}
}

// ruleConfigLiterals: every command-level configuration structure that is
// built from the loaded options carries each options section it has a field
// for. A section left out of the literal is the zero value — for the parser
// configuration that means no comment character, so comment and note lines are
// read as headings and entries.
func ruleConfigLiterals(c *core.Ctx, rule string, want func(t types.Type) bool) {
	optT := c.P.LookupType(optionsPkg, "Options")
	if !requireAnchor(c, rule, "options.Options", optT != nil) {
		return
	}
	sections := map[string]bool{}
	if st, ok := optT.Underlying().(*types.Struct); ok {
		for i := 0; i < st.NumFields(); i++ {
			if _, isStruct := st.Field(i).Type().Underlying().(*types.Struct); isStruct {
				sections[st.Field(i).Type().String()] = true
			}
		}
	}
	n := 0
	for _, fn := range c.P.Funcs {
		if !strings.HasPrefix(core.FnPkgPath(fn), core.CmdPath) {
			continue
		}
		for _, b := range fn.Blocks {
			for _, in := range b.Instrs {
				al, ok := in.(*ssa.Alloc)
				if !ok {
					continue
				}
				named, ok := al.Type().(*types.Pointer).Elem().(*types.Named)
				if !ok || named.Obj().Pkg() == nil || !strings.HasPrefix(named.Obj().Pkg().Path(), core.CmdPath) || named.String() == optT.String() {
					continue
				}
				st, ok := named.Underlying().(*types.Struct)
				if !ok {
					continue
				}
				var need []int
				for i := 0; i < st.NumFields(); i++ {
					ft := st.Field(i).Type()
					if sections[ft.String()] && (want == nil || want(ft)) {
						need = append(need, i)
					}
				}
				if len(need) == 0 {
					continue
				}
				// is this a literal being filled (some field stored) rather than a zero value that is overwritten as a whole?
				stored := map[int]bool{}
				storedVal := map[int]ssa.Value{}
				whole := false
				for _, r := range *al.Referrers() {
					switch r := r.(type) {
					case *ssa.FieldAddr:
						for _, rr := range *r.Referrers() {
							if s, ok := rr.(*ssa.Store); ok && s.Addr == ssa.Value(r) {
								stored[r.Field] = true
								storedVal[r.Field] = s.Val
							}
						}
					case *ssa.Store:
						if r.Addr == ssa.Value(al) {
							whole = true
						}
					}
				}
				if whole || len(stored) == 0 {
					continue
				}
				if onlyOwnMethods(al, named) {
					continue // a value made just to ask one of its own methods something (Config{Name: x}.Validate())
				}
				n++
				fname := core.FuncName(fn)
				pos := c.P.Pos(al.Pos())
				var missing []string
				for _, i := range need {
					if !stored[i] {
						missing = append(missing, st.Field(i).Name())
					}
				}
				disc := named.Obj().Name() + " literal"
				// a section that is set must be the loaded one (or a copy of it that is adjusted), not a fresh default
				for _, i := range need {
					ft := st.Field(i).Type().String()
					if !stored[i] || !(strings.HasSuffix(ft, "parser.Config") || strings.HasSuffix(ft, "resolver.Config") || strings.HasSuffix(ft, "reporter.Config")) {
						continue
					}
					if v := storedVal[i]; v != nil && seesOptions(fn, optT) && !fromOptionsSection(v, optT, 0) {
						c.Violate(rule, fname, disc+" "+st.Field(i).Name(), pos, fmt.Sprintf("the %s of the %s is %s, not the section the options were loaded into: flags, environment and configuration file have no effect on it for this command", st.Field(i).Name(), named.Obj().Name(), v.String()), nil)
					}
				}
				if len(missing) == 0 {
					c.Discharge(rule, fname, disc, pos, fmt.Sprintf("all %d options sections the structure has a field for are set", len(need)))
				} else {
					c.Violate(rule, fname, disc, pos, fmt.Sprintf("the %s handed to the command leaves %s unset: the command runs with the zero value of that section instead of the loaded options (for the parser configuration: no comment character, so comment and note lines are parsed as headings and entries)", named.Obj().Name(), strings.Join(missing, ", ")), nil)
				}
			}
		}
	}
	if n == 0 {
		c.Undecide(rule, "commands", "universe", "-", "no command builds a configuration structure from the options: the rule found nothing to check", nil)
	}
}

// seesOptions: fn or a function it is nested in has the loaded options as a parameter (the command actions).
func seesOptions(fn *ssa.Function, optT types.Type) bool {
	for f := fn; f != nil; f = f.Parent() {
		for _, p := range f.Params {
			if pt, ok := p.Type().Underlying().(*types.Pointer); ok && types.Identical(pt.Elem(), optT) {
				return true
			}
		}
	}
	return false
}

// fromOptionsSection: v is read from a field of the loaded options, directly or through a local copy that started
// from it.
func fromOptionsSection(v ssa.Value, optT types.Type, depth int) bool {
	if depth > 5 {
		return false
	}
	switch t := v.(type) {
	case *ssa.Phi:
		for _, e := range t.Edges {
			if !fromOptionsSection(e, optT, depth+1) {
				return false
			}
		}
		return len(t.Edges) > 0
	case *ssa.UnOp:
		if t.Op != token.MUL {
			return false
		}
		switch a := t.X.(type) {
		case *ssa.FieldAddr:
			if pt, ok := a.X.Type().Underlying().(*types.Pointer); ok && types.Identical(pt.Elem(), optT) {
				return true
			}
		case *ssa.Alloc:
			if a.Referrers() == nil {
				return false
			}
			for _, r := range *a.Referrers() {
				if st, ok := r.(*ssa.Store); ok && st.Addr == ssa.Value(a) && fromOptionsSection(st.Val, optT, depth+1) {
					return true
				}
			}
		case *ssa.FreeVar:
			// a variable of the enclosing function (rpc := o.ReporterConfig; rpc.X = …) that the closure captured
			fn := a.Parent()
			if fn == nil || fn.Parent() == nil {
				return false
			}
			idx := -1
			for i, fv := range fn.FreeVars {
				if fv == a {
					idx = i
				}
			}
			for _, b := range fn.Parent().Blocks {
				for _, in := range b.Instrs {
					mc, ok := in.(*ssa.MakeClosure)
					if !ok || mc.Fn != ssa.Value(fn) || idx < 0 || idx >= len(mc.Bindings) {
						continue
					}
					if cell, ok := mc.Bindings[idx].(*ssa.Alloc); ok && cell.Referrers() != nil {
						for _, r := range *cell.Referrers() {
							if st, ok := r.(*ssa.Store); ok && st.Addr == ssa.Value(cell) && fromOptionsSection(st.Val, optT, depth+1) {
								return true
							}
						}
					}
					if fv2, ok := mc.Bindings[idx].(*ssa.FreeVar); ok {
						// captured further out: one more level
						if fromOptionsSection(&ssa.UnOp{Op: token.MUL, X: fv2}, optT, depth+1) {
							return true
						}
					}
				}
			}
		}
	case *ssa.Field:
		return types.Identical(t.X.Type(), optT) || fromOptionsSection(t.X, optT, depth+1)
	case *ssa.Parameter:
		// the parameter of a closure that is handed to a helper of the tree, which calls it with (an adjusted copy
		// of) what the helper itself was given: withOutputFile(name, o.ReporterConfig, func(rc reporter.Config) …)
		fn := t.Parent()
		if fn == nil || fn.Parent() == nil {
			return false
		}
		pi := -1
		for i, q := range fn.Params {
			if q == t {
				pi = i
			}
		}
		found := false
		for _, b := range fn.Parent().Blocks {
			for _, in := range b.Instrs {
				mc, ok := in.(*ssa.MakeClosure)
				if !ok || mc.Fn != ssa.Value(fn) || mc.Referrers() == nil {
					continue
				}
				for _, r := range *mc.Referrers() {
					ci, ok := r.(ssa.CallInstruction)
					if !ok {
						continue
					}
					g := core.Callee(ci.Common())
					if g == nil || len(g.Blocks) == 0 {
						return false
					}
					for j, a := range ci.Common().Args {
						if a != ssa.Value(mc) || j >= len(g.Params) {
							continue
						}
						// inside g: every call of parameter j hands over, at position pi, a copy of one of g's own parameters
						for _, gb := range g.Blocks {
							for _, gin := range gb.Instrs {
								gc, ok := gin.(ssa.CallInstruction)
								if !ok || gc.Common().IsInvoke() {
									continue
								}
								cv := gc.Common().Value
								if ld, isLd := cv.(*ssa.UnOp); isLd && ld.Op == token.MUL {
									if al, isAl := ld.X.(*ssa.Alloc); isAl {
										cv = soleStoredValue(al)
									}
								}
								if cv != ssa.Value(g.Params[j]) || pi >= len(gc.Common().Args) {
									continue
								}
								k := paramCopiedFrom(g, gc.Common().Args[pi])
								if k < 0 || k >= len(ci.Common().Args) || !fromOptionsSection(ci.Common().Args[k], optT, depth+1) {
									return false
								}
								found = true
							}
						}
					}
				}
			}
		}
		return found
	}
	return false
}

// soleStoredValue: the one value ever stored into the cell al (a captured or spilled parameter), or nil.
func soleStoredValue(al *ssa.Alloc) ssa.Value {
	var only ssa.Value
	n := 0
	if al.Referrers() == nil {
		return nil
	}
	for _, r := range *al.Referrers() {
		if st, ok := r.(*ssa.Store); ok && st.Addr == ssa.Value(al) {
			n++
			only = st.Val
		}
	}
	if n == 1 {
		return only
	}
	return nil
}

// paramCopiedFrom: v is parameter k of g, or the content of the cell g keeps parameter k in (possibly with some of
// its fields assigned afterwards: an adjusted copy); -1 otherwise.
func paramCopiedFrom(g *ssa.Function, v ssa.Value) int {
	if ld, ok := v.(*ssa.UnOp); ok && ld.Op == token.MUL {
		if al, ok := ld.X.(*ssa.Alloc); ok && al.Referrers() != nil {
			for _, r := range *al.Referrers() {
				if st, ok := r.(*ssa.Store); ok && st.Addr == ssa.Value(al) {
					v = st.Val // the whole-value store (field stores go through FieldAddr)
				}
			}
		}
	}
	for k, prm := range g.Params {
		if v == ssa.Value(prm) {
			return k
		}
	}
	return -1
}

// ruleReporterDateFormat is C14-R6: when Options.Load succeeds, the date layout
// the reporters print with (ReporterConfig.DateFormat) is the layout the log is
// parsed with (GlobalConfig.DateFormat) as it stands at the end of Load — so
// the copy is taken after the flag, the environment and the configuration file
// have been applied, whatever the order of the populate steps.
func ruleReporterDateFormat(c *core.Ctx, rule string) {
	load := c.P.LookupMethod(optionsPkg, "Options", "Load")
	if !requireAnchor(c, rule, "options.Options.Load", load != nil) {
		return
	}
	fname := core.FuncName(load)
	recv := load.Params[0].Name()
	x := newExec(c)
	x.MaxDepth = 6
	x.Hooks.Call = func(x *absint.Exec, s *absint.State, site ssa.CallInstruction, callee *ssa.Function, fnv absint.Value, args []absint.Value) (absint.Value, bool) {
		if v, ok := flagStub(x, s, site, callee, args); ok {
			return v, true
		}
		if callee == nil {
			return nil, false
		}
		switch {
		case callee.String() == "os.Stat" || callee.String() == "os.Lstat":
			return &absint.Tuple{Elems: []absint.Value{absint.Sym{Name: "info"}, absint.Sym{Name: "staterr"}}}, true
		case strings.HasSuffix(callee.String(), "gcfg.v1.ReadInto"):
			return x.Fresh(s, "readerr"), true
		case callee.String() == "os.Open":
			return &absint.Tuple{Elems: []absint.Value{x.Fresh(s, "file"), x.Fresh(s, "openerr")}}, true
		}
		return nil, false
	}
	// only the switches that matter here stay path-sensitive
	x.Track = func(atom string) bool {
		return strings.Contains(atom, `"date-format"`) || strings.HasPrefix(atom, "nil(")
	}
	gLoc := "L:§" + recv + "·GlobalConfig·DateFormat"
	rLoc := "L:§" + recv + "·ReporterConfig·DateFormat"
	var bad []string
	x.Hooks.Store = func(x *absint.Exec, s *absint.State, in *ssa.Store, addr, val absint.Value) {
		p, ok := addr.(absint.Ptr)
		if !ok {
			return
		}
		switch p.Loc {
		case rLoc:
			cur := x.Load(s, absint.Ptr{Loc: gLoc}, nil)
			if val.Key() == cur.Key() {
				s.SetData("rcopy", "1")
			} else {
				s.SetData("rcopy", "other")
				bad = append(bad, fmt.Sprintf("%s: the reporters' date layout is set to %s, not to the layout the log is parsed with (%s)", c.P.Pos(in.Pos()), val.Key(), cur.Key()))
			}
		case gLoc:
			if s.Data["rcopy"] == "1" {
				cur := x.Load(s, absint.Ptr{Loc: gLoc}, nil)
				if val.Key() != cur.Key() {
					bad = append(bad, fmt.Sprintf("%s: the layout the log is parsed with changes to %s after the reporters took their copy of it: print then writes headings in the old layout, which the same command cannot read back under --date-format", c.P.Pos(in.Pos()), val.Key()))
				}
			}
		}
	}
	terms := x.Run(x.NewState(load, nil, nil))
	if !account(c, x, rule, load) {
		return
	}
	checked := 0
	for _, tm := range terms {
		if tm.Kind != "return" || len(tm.Ret) != 1 || nilnessOf(x, tm.State, tm.Ret[0]) == "nonnil" {
			continue
		}
		checked++
		if tm.State.Data["rcopy"] == "" {
			bad = append(bad, "Load can succeed without giving the reporters the date layout ("+x.Valuation(tm.State)+")")
		}
	}
	bad = uniq(bad)
	if checked == 0 {
		c.Undecide(rule, fname, "date-layout", c.P.Pos(load.Pos()), "no successful path through Options.Load was explored", nil)
		return
	}
	if len(bad) == 0 {
		c.Discharge(rule, fname, "date-layout", c.P.Pos(load.Pos()), fmt.Sprintf("on all %d successful paths the reporters copy GlobalConfig.DateFormat and it is not written afterwards", checked))
	}
	for i, m := range bad {
		if i >= 3 {
			break
		}
		c.Violate(rule, fname, "date-layout", c.P.Pos(load.Pos()), m, nil)
	}
}

// onlyOwnMethods: apart from the stores that fill it, the structure in the cell al is only ever the receiver of
// methods of its own type — it is handed to no command, stored nowhere and returned to nobody.
func onlyOwnMethods(al *ssa.Alloc, named *types.Named) bool {
	isOwn := func(call *ssa.Call, recv ssa.Value) bool {
		cal := core.Callee(&call.Call)
		if cal == nil || cal.Signature.Recv() == nil || len(call.Call.Args) == 0 || call.Call.Args[0] != recv {
			return false
		}
		rt := cal.Signature.Recv().Type()
		if pt, ok := rt.(*types.Pointer); ok {
			rt = pt.Elem()
		}
		if !types.Identical(rt, named) {
			return false
		}
		for _, a := range call.Call.Args[1:] {
			if a == recv {
				return false
			}
		}
		return true
	}
	calls := 0
	for _, r := range *al.Referrers() {
		switch t := r.(type) {
		case *ssa.FieldAddr, *ssa.DebugRef:
		case *ssa.UnOp:
			if t.Referrers() == nil {
				return false
			}
			for _, rr := range *t.Referrers() {
				call, ok := rr.(*ssa.Call)
				if !ok || !isOwn(call, t) {
					if _, isDbg := rr.(*ssa.DebugRef); isDbg {
						continue
					}
					return false
				}
				calls++
			}
		case *ssa.Call:
			if !isOwn(t, al) {
				return false
			}
			calls++
		default:
			return false
		}
	}
	return calls > 0
}
