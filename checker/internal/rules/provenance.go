package rules

import (
	"fmt"
	"go/token"
	"go/types"
	"reflect"
	"strings"

	"golang.org/x/tools/go/ssa"

	"hrverif/internal/core"
	"hrverif/internal/flow"
)

// buildFlow constructs the provenance graph of the tree with the repository's sources:
// flag reads c.String/Int/Bool/IsSet("name") and the configuration file reader.
func buildFlow(c *core.Ctx) *flow.Graph {
	g := flow.Build(c.P.Funcs, c.P.InScope, c.P.CallGraph())
	g.FlagRead = func(call *ssa.Call) ([]string, bool) {
		if m, nameArg, ok := flagAccess(call); ok && (m == "String" || m == "Int" || m == "Bool" || m == "IsSet") {
			if names, ok := flagNames(c.P, nameArg, 3); ok {
				var out []string
				for _, n := range names {
					out = append(out, m+"("+n+")")
				}
				return out, true
			}
		}
		return nil, false
	}
	optT := c.P.LookupType(optionsPkg, "Options")
	g.ExternalWrites = func(call *ssa.Call) (string, []types.Type) {
		cal := core.Callee(&call.Call)
		if cal == nil || !strings.HasSuffix(cal.String(), "gcfg.v1.ReadInto") || optT == nil {
			return "", nil
		}
		// gcfg fills the sections of the options structure that carry a gcfg tag
		var into []types.Type
		if st, ok := optT.Underlying().(*types.Struct); ok {
			for i := 0; i < st.NumFields(); i++ {
				if _, ok := reflect.StructTag(st.Tag(i)).Lookup("gcfg"); ok {
					into = append(into, st.Field(i).Type())
				}
			}
		}
		return "config-file", into
	}
	g.Populate()
	return g
}

func describeSources(srcs []flow.Source) string {
	var parts []string
	for _, s := range srcs {
		t := string(s.Node)
		if len(t) > 70 {
			t = t[:67] + "..."
		}
		if s.Transformed {
			t += " (transformed)"
		}
		parts = append(parts, t)
	}
	return strings.Join(parts, ", ")
}

func hasSource(srcs []flow.Source, node string) bool {
	for _, s := range srcs {
		if string(s.Node) == node {
			return true
		}
	}
	return false
}

func onlyConstSources(srcs []flow.Source) ([]string, bool) {
	var vals []string
	for _, s := range srcs {
		v, ok := flow.ConstString(s.Node)
		if !ok {
			return nil, false
		}
		vals = append(vals, v)
	}
	return vals, len(srcs) > 0
}

// ruleDateLayouts is C14-R1 (and C07-R3, C13-R3 for the row layout): one date
// layout governs parsing and printing of log days.
func ruleDateLayouts(c *core.Ctx, rule string) {
	g := buildFlow(c)
	n := 0
	for _, fn := range c.P.Funcs {
		dead := core.DeadBlocks(fn) // behind a diagnostics hook that nothing ever sets
		for _, b := range fn.Blocks {
			if dead[b] {
				continue
			}
			for _, in := range b.Instrs {
				call, ok := in.(*ssa.Call)
				if !ok || core.Callee(&call.Call) == nil {
					continue
				}
				var layout ssa.Value
				kind := ""
				switch core.Callee(&call.Call).String() {
				case "time.Parse":
					layout, kind = call.Call.Args[0], "time.Parse"
				case "(time.Time).Format":
					layout, kind = call.Call.Args[1], "Time.Format"
				default:
					continue
				}
				n++
				fname := core.FuncName(fn)
				pos := c.P.Pos(call.Pos())
				c.Universe(rule+" date layout sinks", fmt.Sprintf("%s %s (%s)", fname, kind, pos))
				// a record's heading is parsed as it stands: what is handed to time.Parse is the Header itself, not a
				// piece of it or something made from it (cut to the layout's length, trimmed of a remark)
				if kind == "time.Parse" && len(call.Call.Args) == 2 {
					if why := alteredHeader(call.Call.Args[1]); why != "" {
						c.Violate(rule, fname, "heading as it stands", pos, "the heading of a record is altered before it is parsed as a date ("+why+"): for layouts whose text is not as long as the dates they describe (2006/1/2 against 2021/1/24) a piece of the date is cut off and another day is read without any error, and what print writes is no longer what was read", nil)
					}
				}
				srcs := g.Sources(flow.ValueNode(layout))
				disc := kind
				if vals, only := onlyConstSources(srcs); only {
					// the only legitimate constant-only layout is the ISO layout of the CSV rows
					iso := true
					for _, v := range vals {
						if v != "2006-01-02" {
							iso = false
						}
					}
					if iso && core.FnPkgPath(fn) == core.CmdPath+"/internal/csv" {
						c.Discharge(rule, fname, disc, pos, "CSV row dates use the constant ISO layout 2006-01-02 (C13-R3)")
					} else {
						c.Violate(rule, fname, disc, pos, fmt.Sprintf("the layout used here can only be the constant(s) %q: --date-format, HR_DATE_FORMAT and the configuration file change how days are parsed but not this use, so a log printed with a non-default format cannot be read back with the same options", vals), nil)
					}
					continue
				}
				other := ""
				for _, sc := range srcs {
					// (the flow is by field, so flags read through a shared helper mix in: only a flag that is about a
					// format or a date by its name is taken for a second layout setting)
					if n := string(sc.Node); strings.HasPrefix(n, "flag:") && !strings.Contains(n, "(date-format)") && (strings.Contains(n, "format") || strings.Contains(n, "layout")) {
						other = n
					}
				}
				if other != "" {
					c.Violate(rule, fname, disc, pos, "the layout used here is also fed by "+other+": a second setting decides how days are written (or read) here, so with only --date-format given the two sides no longer use the same layout and a printed log cannot be read back with the same options", nil)
				} else if hasSource(srcs, "flag:String(date-format)") && hasSource(srcs, "ext:config-file") {
					c.Discharge(rule, fname, disc, pos, "layout derives from --date-format / HR_DATE_FORMAT, the configuration file and the documented default")
				} else {
					c.Violate(rule, fname, disc, pos, "the layout's sources are {"+describeSources(srcs)+"}; expected the date-format flag and the configuration file among them", nil)
				}
			}
		}
	}
	if n == 0 {
		c.Undecide(rule, "layouts", "universe", "-", "no time.Parse / Time.Format call in the tree although days must be parsed and printed", nil)
	}
}

// alteredHeader: v is computed from a record's Header field by something other than taking the field (a slice of it,
// the result of a function it is handed to); "" when v is the field itself or has nothing to do with a heading.
func alteredHeader(v ssa.Value) string {
	isHeader := func(x ssa.Value) bool {
		ld, ok := x.(*ssa.UnOp)
		if !ok || ld.Op != token.MUL {
			return false
		}
		fa, ok := ld.X.(*ssa.FieldAddr)
		return ok && fieldName(fa.X.Type(), fa.Field) == "Header"
	}
	switch t := v.(type) {
	case *ssa.Slice:
		if isHeader(t.X) {
			return "a slice of it"
		}
	case *ssa.Call:
		for _, a := range t.Call.Args {
			if isHeader(a) {
				name := t.Call.Value.Name()
				if cal := core.Callee(&t.Call); cal != nil {
					name = cal.Name()
				}
				return "it goes through " + name + " first"
			}
		}
	case *ssa.BinOp:
		if isHeader(t.X) || isHeader(t.Y) {
			return "text is added to it"
		}
	}
	return ""
}
