package rules

import (
	"fmt"
	"go/constant"
	"go/token"
	"go/types"
	"strings"

	"golang.org/x/tools/go/ssa"

	"hrverif/internal/absint"
	"hrverif/internal/core"
)

// ruleStatsCounters is C07-R4: each record count that stats prints is a counter
// that a ParseCallback increments exactly once per record delivered with a nil
// error and never on an error, so it equals the number of headings the other
// commands see.
func ruleStatsCounters(c *core.Ctx, rule string) {
	statsPkg := core.CmdPath + "/internal/stats"
	n := 0
	cbs := map[*ssa.Function]bool{}
	for _, f := range parseCallbacks(c.P) {
		cbs[f] = true
	}
	for _, fn := range c.P.Funcs {
		if core.FnPkgPath(fn) != statsPkg {
			continue
		}
		for _, b := range fn.Blocks {
			for _, in := range b.Instrs {
				st, ok := in.(*ssa.Store)
				if !ok {
					continue
				}
				fa, ok := st.Addr.(*ssa.FieldAddr)
				if !ok {
					continue
				}
				fld := fieldName(fa.X.Type(), fa.Field)
				if !strings.HasSuffix(fld, "RecordsCount") {
					continue
				}
				n++
				fname := core.FuncName(fn)
				pos := c.P.Pos(st.Pos())
				c.Universe(rule+" record counts", fname+" "+fld+" ("+pos+")")
				cell := counterCell(st.Val, 3)
				if cell == nil {
					if handled := fieldCounter(c, rule, fname, fld, pos, st.Val, cbs); handled {
						continue
					}
				}
				if cell == nil {
					c.Violate(rule, fname, fld, pos, fmt.Sprintf("%s is %s, not a counter incremented once per record the parser delivers: records with a repeated heading, or the number of callbacks, may differ from it", fld, st.Val.String()), nil)
					continue
				}
				// every write to the cell: 0, or +1 inside a ParseCallback
				okAll := true
				var incFns []*ssa.Function
				check := func(s2 *ssa.Store, owner *ssa.Function) {
					switch v := s2.Val.(type) {
					case *ssa.Const:
						if v.Int64() != 0 {
							okAll = false
						}
					case *ssa.BinOp:
						one, isC := v.Y.(*ssa.Const)
						if v.Op != token.ADD || !isC || one.Int64() != 1 {
							okAll = false
						} else {
							incFns = append(incFns, owner)
						}
					default:
						okAll = false
					}
				}
				for _, r := range *cell.Referrers() {
					switch r := r.(type) {
					case *ssa.Store:
						if r.Addr == ssa.Value(cell) {
							check(r, cell.Parent())
						}
					case *ssa.MakeClosure:
						clo := r.Fn.(*ssa.Function)
						for bi, bv := range r.Bindings {
							if bv != ssa.Value(cell) {
								continue
							}
							fv := clo.FreeVars[bi]
							for _, fr := range *fv.Referrers() {
								if s2, ok := fr.(*ssa.Store); ok && s2.Addr == ssa.Value(fv) {
									check(s2, clo)
								}
							}
						}
					}
				}
				if !okAll || len(incFns) == 0 {
					c.Violate(rule, fname, fld, pos, fld+" is fed by something other than a counter that starts at 0 and is incremented by 1", nil)
					continue
				}
				bad := ""
				for _, clo := range incFns {
					if !cbs[clo] {
						bad = "the counter is incremented outside a parser callback (" + core.FuncName(clo) + ")"
						continue
					}
					if m := countStoresPerCallback(c, rule, clo, cell); m != "" {
						bad = m
					}
				}
				if bad != "" {
					c.Violate(rule, fname, fld, pos, bad, nil)
				} else {
					c.Discharge(rule, fname, fld, pos, "a counter incremented exactly once per record delivered with a nil error, never on an error")
				}
			}
		}
	}
	if n == 0 {
		c.Undecide(rule, "stats", "universe", "-", "package stats stores no *RecordsCount field: the rule cannot locate the counts it prints", nil)
	}
}

// countStoresPerCallback explores the callback in both argument shapes and counts writes to the captured counter.
func countStoresPerCallback(c *core.Ctx, rule string, clo *ssa.Function, cell *ssa.Alloc) string {
	fvName := ""
	for _, fv := range clo.FreeVars {
		if fv.Name() == cell.Comment || fv.Type() == cell.Type() && fvName == "" {
			fvName = fv.Name()
		}
	}
	for _, fv := range clo.FreeVars {
		if fv.Name() == cell.Comment {
			fvName = fv.Name()
		}
	}
	for _, errCase := range []bool{false, true} {
		x := newExec(c)
		x.Hooks.Store = func(x *absint.Exec, s *absint.State, in *ssa.Store, addr, val absint.Value) {
			if p, ok := addr.(absint.Ptr); ok && p.Loc == "fv:"+fvName {
				switch s.Data["inc"] {
				case "":
					s.SetData("inc", "1")
				default:
					s.SetData("inc", "many")
				}
			}
		}
		var st *absint.State
		if errCase {
			e := absint.Sym{Name: "perr"}
			st = x.NewState(clo, []absint.Value{absint.Const{Nil: true}, e}, nil)
			x.AssumeNil(st, e, false)
		} else {
			nd := absint.Sym{Name: "node"}
			st = x.NewState(clo, []absint.Value{nd, absint.Const{Nil: true}}, nil)
			x.AssumeNil(st, nd, false)
		}
		terms := x.Run(st)
		account(c, x, rule, clo)
		for _, tm := range terms {
			inc := tm.State.Data["inc"]
			if errCase && inc != "" {
				return "the counter is incremented when the parser reports an error (" + core.FuncName(clo) + ")"
			}
			if !errCase && tm.Kind == "return" && len(tm.Ret) == 2 {
				if stop, known := boolOf(tm.Ret[0]); known && !stop && inc != "1" {
					return fmt.Sprintf("a delivered record increments the counter %q times on some path (%s)", inc, core.FuncName(clo))
				}
			}
		}
	}
	return ""
}

// counterCell: the local variable whose value v is — directly, or as the result
// a repository helper returns on every path (count, err := countRecords(...)).
func counterCell(v ssa.Value, depth int) *ssa.Alloc {
	switch x := v.(type) {
	case *ssa.UnOp:
		if x.Op == token.MUL {
			if a, ok := x.X.(*ssa.Alloc); ok {
				return a
			}
		}
	case *ssa.Extract:
		if call, ok := x.Tuple.(*ssa.Call); ok {
			return returnedCell(call, x.Index, depth)
		}
	case *ssa.Call:
		return returnedCell(x, 0, depth)
	}
	return nil
}

func returnedCell(call *ssa.Call, idx, depth int) *ssa.Alloc {
	cal := core.Callee(&call.Call)
	if cal == nil || len(cal.Blocks) == 0 || depth == 0 {
		return nil
	}
	var cell *ssa.Alloc
	for _, b := range cal.Blocks {
		for _, in := range b.Instrs {
			ret, ok := in.(*ssa.Return)
			if !ok || idx >= len(ret.Results) {
				continue
			}
			c := counterCell(ret.Results[idx], depth-1)
			if c == nil || (cell != nil && c != cell) {
				return nil
			}
			cell = c
		}
	}
	return cell
}

// fieldCounter handles a record count kept in a field of a state object whose
// method is the parser callback (span.count with span.visit as callback): every
// store into that field is the initial 0 or a +1 inside a ParseCallback, and the
// callback increments it exactly once per delivered record and never on an error.
func fieldCounter(c *core.Ctx, rule, fname, fld, pos string, v ssa.Value, cbs map[*ssa.Function]bool) bool {
	ld, ok := v.(*ssa.UnOp)
	if !ok || ld.Op != token.MUL {
		return false
	}
	fa, ok := ld.X.(*ssa.FieldAddr)
	if !ok {
		return false
	}
	pt, ok := fa.X.Type().Underlying().(*types.Pointer)
	if !ok {
		return false
	}
	cname := fieldName(fa.X.Type(), fa.Field)
	var incFns []*ssa.Function
	okAll := true
	for _, fn := range c.P.Funcs {
		for _, b := range fn.Blocks {
			for _, in := range b.Instrs {
				st, ok := in.(*ssa.Store)
				if !ok {
					continue
				}
				fa2, ok := st.Addr.(*ssa.FieldAddr)
				if !ok || fa2.Field != fa.Field {
					continue
				}
				if pt2, ok := fa2.X.Type().Underlying().(*types.Pointer); !ok || !types.Identical(pt2.Elem(), pt.Elem()) {
					continue
				}
				switch val := st.Val.(type) {
				case *ssa.Const:
					if val.Int64() != 0 {
						okAll = false
					}
				case *ssa.BinOp:
					one, isC := val.Y.(*ssa.Const)
					if val.Op != token.ADD || !isC || one.Int64() != 1 {
						okAll = false
					} else {
						incFns = append(incFns, fn)
					}
				default:
					okAll = false
				}
			}
		}
	}
	if !okAll || len(incFns) == 0 {
		c.Violate(rule, fname, fld, pos, fld+" is read from the field "+cname+", which is fed by something other than a counter that starts at 0 and is incremented by 1", nil)
		return true
	}
	bad := ""
	for _, inc := range incFns {
		// the callback is the method itself or the method value wrapping it
		var cb *ssa.Function
		for f := range cbs {
			if f == inc {
				cb = f
			}
			if strings.HasSuffix(f.Name(), "$bound") && f.Object() != nil && inc.Object() != nil && f.Object() == inc.Object() {
				cb = f
			}
		}
		if cb == nil {
			bad = "the counter field " + cname + " is incremented outside a parser callback (" + core.FuncName(inc) + ")"
			continue
		}
		for _, errCase := range []bool{false, true} {
			x := newExec(c)
			x.Hooks.Store = func(x *absint.Exec, s *absint.State, in *ssa.Store, addr, val absint.Value) {
				if p, ok := addr.(absint.Ptr); ok && strings.HasSuffix(p.Loc, "·"+cname) {
					switch s.Data["inc"] {
					case "":
						s.SetData("inc", "1")
					default:
						s.SetData("inc", "many")
					}
				}
			}
			var st *absint.State
			if errCase {
				e := absint.Sym{Name: "perr"}
				st = x.NewState(cb, []absint.Value{absint.Const{Nil: true}, e}, nil)
				x.AssumeNil(st, e, false)
			} else {
				nd := absint.Sym{Name: "node"}
				st = x.NewState(cb, []absint.Value{nd, absint.Const{Nil: true}}, nil)
				x.AssumeNil(st, nd, false)
			}
			terms := x.Run(st)
			account(c, x, rule, cb)
			for _, tm := range terms {
				inc := tm.State.Data["inc"]
				if errCase && inc != "" {
					bad = "the counter is incremented when the parser reports an error (" + core.FuncName(cb) + ")"
				}
				if !errCase && tm.Kind == "return" && len(tm.Ret) == 2 {
					if stop, known := boolOf(tm.Ret[0]); known && !stop && inc != "1" {
						bad = fmt.Sprintf("a delivered record increments the counter %q times on some path (%s)", inc, core.FuncName(cb))
					}
				}
			}
		}
	}
	if bad != "" {
		c.Violate(rule, fname, fld, pos, bad, nil)
	} else {
		c.Discharge(rule, fname, fld, pos, "a counter field of the callback's state object, incremented exactly once per record delivered with a nil error, never on an error")
	}
	return true
}

// ruleDayDistances is C07-R7: every day distance that stats prints is the whole number of 24-hour days between the
// supplied current date and a date of the log, truncated: int(now.Sub(d).Hours()/24) or an equivalent spelling.
// Rounding (adding half a day), ceiling or a distance taken the other way round gives a figure that differs from the
// one computed from --today and the headings.
func ruleDayDistances(c *core.Ctx, rule string) {
	statsPkg := core.CmdPath + "/internal/stats"
	n := 0
	for _, fn := range c.P.Funcs {
		if core.FnPkgPath(fn) != statsPkg || fn.Parent() != nil || !callsPrefix(fn, "fmt.Fprint") || !reachesAny(fn, 2, "(time.Time).Sub") {
			continue
		}
		fname := core.FuncName(fn)
		x := newExec(c)
		var bad []string
		seen := map[string]bool{}
		x.Hooks.Call = func(x *absint.Exec, s *absint.State, site ssa.CallInstruction, callee *ssa.Function, fnv absint.Value, args []absint.Value) (absint.Value, bool) {
			if callee == nil || !strings.HasPrefix(callee.String(), "fmt.Fprint") || len(args) == 0 {
				return nil, false
			}
			t, ok := args[len(args)-1].(*absint.Term)
			if !ok || t.Op != "slice" {
				return nil, false
			}
			p, ok := t.Args[0].(absint.Ptr)
			if !ok {
				return nil, false
			}
			_ = p
			for _, hv := range printedLeaves(s, args[len(args)-1], 0) {
				if !absint.Mentions(hv, "(time.Time).Sub") && !strings.Contains(hv.Key(), "(time.Time).Sub") {
					continue
				}
				pos := c.P.Pos(site.Pos())
				if seen[pos+hv.Key()] {
					continue
				}
				seen[pos+hv.Key()] = true
				n++
				c.Universe(rule+" day distances", fname+" ("+pos+"): "+hv.Key())
				if why := wholeDays(x, hv); why != "" {
					bad = append(bad, pos+": "+why)
				}
			}
			return nil, false
		}
		x.Run(x.NewState(fn, nil, nil))
		if !account(c, x, rule, fn) {
			continue
		}
		bad = uniq(bad)
		if len(bad) == 0 && len(seen) > 0 {
			c.Discharge(rule, fname, "day-distances", c.P.Pos(fn.Pos()), fmt.Sprintf("%d printed distances are truncated whole days from the supplied current date to a date of the log", len(seen)))
		}
		for _, m := range bad {
			c.Violate(rule, fname, "day-distances", c.P.Pos(fn.Pos()), m, nil)
		}
	}
	if n == 0 {
		c.Undecide(rule, "stats", "universe", "-", "stats prints no value computed from a difference of dates", nil)
	}
}

func callsPrefix(fn *ssa.Function, prefix string) bool {
	for _, b := range fn.Blocks {
		for _, in := range b.Instrs {
			if ci, ok := in.(ssa.CallInstruction); ok {
				if cal := core.Callee(ci.Common()); cal != nil && strings.HasPrefix(cal.String(), prefix) {
					return true
				}
			}
		}
	}
	return false
}

// wholeDays: "" when v is int(A.Sub(B).Hours()/24) (or int(A.Sub(B)/(24h))) with A the current date of the options
// and B a date of the log; otherwise what is wrong with it.
func wholeDays(x *absint.Exec, v absint.Value) string {
	for _, f := range []string{"math.Floor", "math.Trunc"} {
		if ft, ok := termCall(v, f); ok && len(ft.Args) == 1 {
			v = ft.Args[0]
		}
	}
	t, ok := v.(*absint.Term)
	if !ok || t.Op != "/" || len(t.Args) < 2 {
		return "the distance printed is " + v.Key() + ", not the truncated quotient of a difference of dates by one day: rounding or shifting it changes the figure for some pairs of dates"
	}
	var sub *absint.Term
	div := intConst(t.Args[1])
	if fc, ok := t.Args[1].(absint.Const); ok && fc.V != nil && div == 1<<40 {
		if f, exact := constant.Float64Val(constant.ToFloat(fc.V)); exact && f == float64(int64(f)) {
			div = int64(f)
		}
	}
	if h, ok := termCall(t.Args[0], "(time.Duration).Hours"); ok && len(h.Args) == 1 && div == 24 {
		sub, _ = termCall(h.Args[0], "(time.Time).Sub")
	} else if sb, ok := termCall(t.Args[0], "(time.Time).Sub"); ok && div == 24*3600*1000000000 {
		sub = sb
	}
	if sub == nil || len(sub.Args) != 2 {
		return "the distance printed is " + v.Key() + ", not hours/24 (or duration/24h) of a difference of dates"
	}
	where := func(a absint.Value) string {
		if st, ok := a.(*absint.Struct); ok && len(st.Fields) > 0 {
			l := locOf(x, st.Fields[0])
			if i := strings.LastIndex(l, "·"); i >= 0 {
				return l[:i]
			}
			return l
		}
		// a field of a structure held by value: field(field(sr,"stats"),"Now")
		if ft, ok := a.(*absint.Term); ok && ft.Op == "field" && len(ft.Args) == 2 {
			if cst, ok := ft.Args[1].(absint.Const); ok && cst.V != nil && cst.V.Kind() == constant.String {
				return ft.Args[0].Key() + "·" + constant.StringVal(cst.V)
			}
		}
		return locOf(x, a)
	}
	from, to := where(sub.Args[0]), where(sub.Args[1])
	switch {
	case strings.HasSuffix(to, "·Now") && !strings.HasSuffix(from, "·Now"):
		return "the distance is taken from the current date back to itself the wrong way round (" + from + " minus the current date): days ago come out negative"
	case !strings.HasSuffix(from, "·Now"):
		return "the distance is not counted from the supplied current date but from " + from
	case strings.HasSuffix(to, "·Now"):
		return "the distance is the current date minus itself"
	}
	return ""
}

// printedLeaves: the values a print call writes — the cells of its variadic list, and for a cell that is itself
// the result of fmt.Sprintf (a line or a column built by a helper) the values that call formatted.
func printedLeaves(s *absint.State, v absint.Value, depth int) []absint.Value {
	if iv, ok := v.(*absint.Iface); ok {
		v = iv.V
	}
	t, ok := v.(*absint.Term)
	if !ok || depth > 3 {
		return []absint.Value{v}
	}
	switch {
	case t.Op == "slice" && len(t.Args) > 0:
		p, ok := t.Args[0].(absint.Ptr)
		if !ok {
			return []absint.Value{v}
		}
		var out []absint.Value
		for i := 0; i < 12; i++ {
			hv, ok := s.Heap[fmt.Sprintf("%s[c:%d]", p.Loc, i)]
			if !ok {
				break
			}
			out = append(out, printedLeaves(s, hv, depth+1)...)
		}
		return out
	case (t.Op == "call:fmt.Sprintf" || t.Op == "call:fmt.Sprint" || t.Op == "call:fmt.Sprintln") && len(t.Args) >= 1:
		return printedLeaves(s, t.Args[len(t.Args)-1], depth+1)
	}
	return []absint.Value{v}
}
