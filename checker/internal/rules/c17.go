package rules

import (
	"fmt"
	"strings"

	"golang.org/x/tools/go/ssa"

	"hrverif/internal/absint"
	"hrverif/internal/core"
)

// outputSeed: calls whose error is the only trace of a failed write.
func outputSeed(p *core.Program) func(*ssa.Function, ssa.CallInstruction) (bool, string) {
	return func(cal *ssa.Function, ci ssa.CallInstruction) (bool, string) {
		if cal == nil {
			return false, ""
		}
		switch cal.String() {
		case "(*bufio.Writer).Flush":
			return true, "the buffered report cannot be written out"
		case "(*encoding/csv.Writer).Error":
			return true, "the csv writer failed while writing or flushing"
		case "(*text/template.Template).Execute":
			return true, "the template cannot be executed or written"
		case "(*github.com/urfave/cli/v2.App).Run":
			return true, "a command action failed"
		}
		full := cal.String()
		if (strings.HasPrefix(full, "fmt.Fprint") || full == "io.WriteString") && len(ci.Common().Args) > 0 {
			var encl *ssa.Function
			if in, ok := ci.(ssa.Instruction); ok {
				encl = in.Parent()
			}
			if encl != nil && !writerIsBuffered(p, encl, ci.Common().Args[0], 0) {
				return true, "the write goes straight to the output sink, no buffer remembers the failure"
			}
		}
		return false, ""
	}
}

// ruleFlushImpls is C17-R2: every Flush method of the tree reaches its writer's
// Flush (or csv Flush+Error) on every path that returns nil, and a csv Flush is
// followed by a used Error().
func ruleFlushImpls(c *core.Ctx, rule string) {
	for _, fn := range c.P.Funcs {
		if fn.Name() != "Flush" || fn.Signature.Recv() == nil || fn.Parent() != nil || !hasErrorResult(fn.Signature) {
			continue
		}
		fname := core.FuncName(fn)
		c.Universe(rule+" Flush implementations", fname+" ("+c.P.Pos(fn.Pos())+")")
		x := newExec(c)
		// nil tests stay path-sensitive (err := a(); if err == nil { err = w.Flush() }; return err), everything else is merged
		x.Track = func(atom string) bool { return strings.HasPrefix(atom, "nil(") }
		// only helpers that flush the writer themselves are looked into (flushWriter(w), flushKeepingFirst(...))
		x.Hooks.Inline = func(callee *ssa.Function, depth int) bool {
			return c.P.InScope(callee) && reachesAny(callee, 2, "(*bufio.Writer).Flush", "(*encoding/csv.Writer).Flush", "(*encoding/csv.Writer).Error")
		}
		x.Hooks.Call = func(x *absint.Exec, s *absint.State, site ssa.CallInstruction, callee *ssa.Function, fnv absint.Value, args []absint.Value) (absint.Value, bool) {
			if callee == nil {
				return nil, false
			}
			switch callee.String() {
			case "(*bufio.Writer).Flush":
				if _, isDefer := site.(*ssa.Defer); !isDefer {
					s.SetData("flushed", "1")
				}
			case "(*encoding/csv.Writer).Flush":
				s.SetData("csvflush", "1")
			case "(*encoding/csv.Writer).Error":
				if s.Data["csvflush"] == "1" {
					s.SetData("flushed", "1")
				}
			}
			return nil, false
		}
		terms := x.Run(x.NewState(fn, nil, nil))
		if !account(c, x, rule, fn) {
			continue
		}
		bad := 0
		for _, tm := range terms {
			if tm.Kind != "return" || len(tm.Ret) != 1 {
				continue
			}
			if tm.State.Data["flushed"] == "1" {
				continue
			}
			if nilnessOf(x, tm.State, tm.Ret[0]) == "nonnil" {
				continue // failed earlier with an error
			}
			bad++
			c.Violate(rule, fname, "flush-reached", c.P.Pos(tm.Pos), fmt.Sprintf("a path returns %s without having flushed the writer and looked at the result (%s): buffered output and its write error are lost", tm.Ret[0].Key(), x.Valuation(tm.State)), describe(x, tm))
			break
		}
		if bad == 0 {
			c.Discharge(rule, fname, "flush-reached", c.P.Pos(fn.Pos()), fmt.Sprintf("every path that can return nil flushes the writer first (%d paths)", len(terms)))
		}
	}
}

func init() {
	register(&Property{
		ID:    "C17",
		Rules: []string{"C17-R1", "C17-R2", "C17-R3"},
		Explain: "Decides that a failed write cannot end in success: C17-R1 must-flow — for every call of bufio.Writer.Flush, csv.Writer.Error, template Execute, every write that bypasses a sticky buffer, and every repository function that can return such an error (Reporter.Flush implementations, command functions, up to main), on every path on which the call fails the enclosing function returns a non-nil error (a deferred call whose result is dropped violates this); " +
			"C17-R2 every Flush implementation reaches its writer's Flush/Error on every path that can return nil; " +
			"C17-R3 no ParseCallback returns an error with stop=false (the parser would drop it). Every failing byte offset k is the single abstract event 'Flush returned non-nil' because buffered writers keep the first error.",
		NotDecided:  "behaviour of the kernel on a closed pipe (SIGPIPE ends the process first), whether each command creates its reporter over the configured output at all",
		Assumptions: []string{"bufio.Writer and csv.Writer remember the first write error and return it from Flush()/Error()", "urfave/cli App.Run returns the action's error"},
		Run: func(c *core.Ctx) {
			runErrorFlow(c, "C17-R1", outputSeed(c.P))
			ruleFlushImpls(c, "C17-R2")
			ruleCallbackConsumers(c, map[string]bool{"C17-R3": true})
		},
		Canary: func(c *core.Ctx) {
			runErrorFlow(c, "C17-R1", outputSeed(c.P))
		},
	})
}
