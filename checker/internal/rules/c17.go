package rules

import (
	"fmt"
	"go/types"
	"strings"

	"golang.org/x/tools/go/ssa"

	"hrverif/internal/absint"
	"hrverif/internal/core"
)

// outputSeed: calls whose error is the only trace of a failed write.
func outputSeed(p *core.Program) func(*ssa.Function, ssa.CallInstruction) (bool, string) {
	return func(cal *ssa.Function, ci ssa.CallInstruction) (bool, string) {
		if cal == nil {
			return false, ""
		}
		switch cal.String() {
		case "(*bufio.Writer).Flush":
			return true, "the buffered report cannot be written out"
		case "(*encoding/csv.Writer).Error":
			return true, "the csv writer failed while writing or flushing"
		case "(*text/template.Template).Execute":
			return true, "the template cannot be executed or written"
		case "(*github.com/urfave/cli/v2.App).Run":
			return true, "a command action failed"
		}
		full := cal.String()
		if (strings.HasPrefix(full, "fmt.Fprint") || full == "io.WriteString") && len(ci.Common().Args) > 0 {
			var encl *ssa.Function
			if in, ok := ci.(ssa.Instruction); ok {
				encl = in.Parent()
			}
			if encl != nil && !writerIsBuffered(p, encl, ci.Common().Args[0], 0) {
				return true, "the write goes straight to the output sink, no buffer remembers the failure"
			}
		}
		return false, ""
	}
}

// ruleFlushImpls is C17-R2: every Flush method of the tree reaches its writer's
// Flush (or csv Flush+Error) on every path that returns nil, and a csv Flush is
// followed by a used Error().
func ruleFlushImpls(c *core.Ctx, rule string) {
	for _, fn := range c.P.Funcs {
		if fn.Name() != "Flush" || fn.Signature.Recv() == nil || fn.Parent() != nil || !hasErrorResult(fn.Signature) {
			continue
		}
		fname := core.FuncName(fn)
		c.Universe(rule+" Flush implementations", fname+" ("+c.P.Pos(fn.Pos())+")")
		x := newExec(c)
		// nil tests stay path-sensitive (err := a(); if err == nil { err = w.Flush() }; return err), everything else is merged
		x.Track = func(atom string) bool { return strings.HasPrefix(atom, "nil(") }
		// only helpers that flush the writer themselves are looked into (flushWriter(w), flushKeepingFirst(...))
		x.Hooks.Inline = func(callee *ssa.Function, depth int) bool {
			if !c.P.InScope(callee) {
				return false
			}
			// ... and the methods of a writer that remembers its first error in a field (errWriter.Printf): the field is what
			// the Flush method tests and returns
			// ... and helpers that run steps handed to them as function values (firstError(step…)) together with the steps
			// written inside the Flush method
			own := false
			for f := callee.Parent(); f != nil; f = f.Parent() {
				own = own || f == fn
			}
			return own || takesFuncs(callee) || reachesAny(callee, 2, "(*bufio.Writer).Flush", "(*encoding/csv.Writer).Flush", "(*encoding/csv.Writer).Error") || keepsErrorField(callee)
		}
		x.Hooks.Call = func(x *absint.Exec, s *absint.State, site ssa.CallInstruction, callee *ssa.Function, fnv absint.Value, args []absint.Value) (absint.Value, bool) {
			if callee == nil {
				return nil, false
			}
			// r.output.Flush handed over as a method value
			switch strings.TrimSuffix(callee.String(), "$bound") {
			case "(*bufio.Writer).Flush":
				if _, isDefer := site.(*ssa.Defer); !isDefer {
					s.SetData("flushed", "1")
				}
			case "(*encoding/csv.Writer).Flush":
				s.SetData("csvflush", "1")
			case "(*encoding/csv.Writer).Error":
				if s.Data["csvflush"] == "1" {
					s.SetData("flushed", "1")
				}
			}
			return nil, false
		}
		terms := x.Run(x.NewState(fn, nil, nil))
		if !account(c, x, rule, fn) {
			continue
		}
		bad := 0
		for _, tm := range terms {
			if tm.Kind != "return" || len(tm.Ret) != 1 {
				continue
			}
			if tm.State.Data["flushed"] == "1" {
				continue
			}
			if nilnessOf(x, tm.State, tm.Ret[0]) == "nonnil" {
				continue // failed earlier with an error
			}
			bad++
			c.Violate(rule, fname, "flush-reached", c.P.Pos(tm.Pos), fmt.Sprintf("a path returns %s without having flushed the writer and looked at the result (%s): buffered output and its write error are lost", tm.Ret[0].Key(), x.Valuation(tm.State)), describe(x, tm))
			break
		}
		if bad == 0 {
			c.Discharge(rule, fname, "flush-reached", c.P.Pos(fn.Pos()), fmt.Sprintf("every path that can return nil flushes the writer first (%d paths)", len(terms)))
		}
	}
}

// takesFuncs: a parameter of fn is a function or a list of functions.
func takesFuncs(fn *ssa.Function) bool {
	for _, p := range fn.Params {
		t := p.Type().Underlying()
		if sl, ok := t.(*types.Slice); ok {
			t = sl.Elem().Underlying()
		}
		if _, ok := t.(*types.Signature); ok {
			return true
		}
	}
	return false
}

// keepsErrorField: a method on a pointer to a struct that has a field of type error.
func keepsErrorField(fn *ssa.Function) bool {
	recv := fn.Signature.Recv()
	if recv == nil {
		return false
	}
	pt, ok := recv.Type().Underlying().(*types.Pointer)
	if !ok {
		return false
	}
	st, ok := pt.Elem().Underlying().(*types.Struct)
	if !ok {
		return false
	}
	for i := 0; i < st.NumFields(); i++ {
		if isErrorType(st.Field(i).Type()) {
			return true
		}
	}
	return false
}

func init() {
	register(&Property{
		ID:    "C17",
		Rules: []string{"C17-R1", "C17-R2", "C17-R3", "C17-R4"},
		Explain: "Decides that a failed write cannot end in success: C17-R1 must-flow — for every call of bufio.Writer.Flush, csv.Writer.Error, template Execute, every write that bypasses a sticky buffer, and every repository function that can return such an error (Reporter.Flush implementations, command functions, up to main), on every path on which the call fails the enclosing function returns a non-nil error (a deferred call whose result is dropped violates this); " +
			"C17-R2 every Flush implementation reaches its writer's Flush/Error on every path that can return nil; " +
			"C17-R3 no ParseCallback returns an error with stop=false (the parser would drop it); C17-R4 a buffered writer that lives inside one function is flushed after its last use (or by a deferred Flush) on every path on which the function can report success. Every failing byte offset k is the single abstract event 'Flush returned non-nil' because buffered writers keep the first error.",
		NotDecided:  "behaviour of the kernel on a closed pipe (SIGPIPE ends the process first), whether each command creates its reporter over the configured output at all",
		Assumptions: []string{"bufio.Writer and csv.Writer remember the first write error and return it from Flush()/Error()", "urfave/cli App.Run returns the action's error"},
		Run: func(c *core.Ctx) {
			runErrorFlow(c, "C17-R1", outputSeed(c.P))
			ruleFlushImpls(c, "C17-R2")
			ruleCallbackConsumers(c, map[string]bool{"C17-R3": true})
			ruleLocalWriters(c, "C17-R4")
		},
		Canary: func(c *core.Ctx) {
			runErrorFlow(c, "C17-R1", outputSeed(c.P))
			ruleLocalWriters(c, "C17-R4")
		},
	})
}

// localWriterSites: calls of bufio.NewWriter / csv.NewWriter whose result stays local to the function — it is not
// stored into a field, an element or a global and not returned (a reporter's constructor keeps its writer in the
// reporter, whose Flush method C17-R2 judges).
func localWriterSites(fn *ssa.Function) []*ssa.Call {
	var out []*ssa.Call
	for _, b := range fn.Blocks {
		for _, in := range b.Instrs {
			call, ok := in.(*ssa.Call)
			if !ok || core.Callee(&call.Call) == nil {
				continue
			}
			switch core.Callee(&call.Call).String() {
			case "bufio.NewWriter", "bufio.NewWriterSize", "encoding/csv.NewWriter":
			default:
				continue
			}
			if !escapesToStorage(call, 0, map[ssa.Value]bool{}) {
				out = append(out, call)
			}
		}
	}
	return out
}

func escapesToStorage(v ssa.Value, depth int, seen map[ssa.Value]bool) bool {
	if depth > 4 || seen[v] || v.Referrers() == nil {
		return false
	}
	seen[v] = true
	for _, r := range *v.Referrers() {
		switch t := r.(type) {
		case *ssa.Return:
			return true
		case *ssa.Store:
			if t.Val != v {
				continue
			}
			switch a := t.Addr.(type) {
			case *ssa.FieldAddr, *ssa.IndexAddr, *ssa.Global:
				return true
			case *ssa.Alloc:
				// a local variable (possibly captured by closures): follow its loads
				if a.Referrers() != nil {
					for _, ar := range *a.Referrers() {
						if ld, ok := ar.(*ssa.UnOp); ok && escapesToStorage(ld, depth+1, seen) {
							return true
						}
					}
				}
			}
		case *ssa.MakeInterface:
			if escapesToStorage(t, depth+1, seen) {
				return true
			}
		case *ssa.ChangeInterface:
			if escapesToStorage(t, depth+1, seen) {
				return true
			}
		case *ssa.Phi:
			if escapesToStorage(t, depth+1, seen) {
				return true
			}
		}
	}
	return false
}

// ruleLocalWriters is C17-R4: a buffered writer that lives only inside one function is flushed on every path on
// which that function can report success — after the last use of the writer, or by a deferred Flush. Returning
// nil while the buffer still holds output loses that output (lint's error lines under a buffered writer).
func ruleLocalWriters(c *core.Ctx, rule string) {
	n := 0
	for _, fn := range c.P.Funcs {
		if fn.Parent() != nil || len(fn.Blocks) == 0 {
			continue
		}
		sites := localWriterSites(fn)
		if len(sites) == 0 {
			continue
		}
		isSite := map[ssa.CallInstruction]bool{}
		for _, s := range sites {
			isSite[s] = true
		}
		n++
		fname := core.FuncName(fn)
		pos := c.P.Pos(sites[0].Pos())
		c.Universe(rule+" local buffered writers", fname+" ("+pos+")")
		x := newExec(c)
		x.Track = func(atom string) bool { return strings.HasPrefix(atom, "nil(") }
		mentionsW := func(s *absint.State, args []absint.Value) bool {
			w := s.Data["lwkey"]
			if w == "" {
				return false
			}
			for _, a := range args {
				if iv, ok := a.(*absint.Iface); ok {
					a = iv.V
				}
				if a.Key() == w {
					return true
				}
			}
			return false
		}
		x.Hooks.Call = func(x *absint.Exec, s *absint.State, site ssa.CallInstruction, callee *ssa.Function, fnv absint.Value, args []absint.Value) (absint.Value, bool) {
			if isSite[site] {
				v := x.Fresh(s, "lw")
				s.SetData("lwkey", v.Key())
				s.SetData("lw", "open")
				x.AssumeNil(s, v, false)
				return v, true
			}
			if callee == nil || s.Data["lwkey"] == "" {
				return nil, false
			}
			name := strings.TrimSuffix(callee.String(), "$bound")
			switch name {
			case "(*bufio.Writer).Flush", "(*encoding/csv.Writer).Flush":
				if mentionsW(s, args) || strings.HasSuffix(callee.String(), "$bound") {
					if _, isDefer := site.(*ssa.Defer); isDefer {
						s.SetData("lwdefer", "1")
					} else {
						s.SetData("lw", "flushed")
					}
				}
				return nil, false
			case "(*encoding/csv.Writer).Error":
				return nil, false
			}
			if mentionsW(s, args) {
				s.SetData("lw", "open")
			}
			return nil, false
		}
		terms := x.Run(x.NewState(fn, nil, nil))
		if !account(c, x, rule, fn) {
			continue
		}
		bad := ""
		paths := 0
		for _, tm := range terms {
			if tm.Kind != "return" || tm.State.Data["lw"] == "" {
				continue
			}
			if len(tm.Ret) > 0 && nilnessOf(x, tm.State, tm.Ret[len(tm.Ret)-1]) == "nonnil" {
				continue
			}
			paths++
			if tm.State.Data["lw"] == "open" && tm.State.Data["lwdefer"] != "1" && bad == "" {
				bad = fmt.Sprintf("%s: the function can report success while its local buffered writer has not been flushed since it was last used (%s): whatever was written to it on this path never reaches the output", c.P.Pos(tm.Pos), x.Valuation(tm.State))
			}
		}
		if bad != "" {
			c.Violate(rule, fname, "local-writer", pos, bad, nil)
		} else {
			c.Discharge(rule, fname, "local-writer", pos, fmt.Sprintf("the local buffered writer is flushed after its last use on all %d paths that can report success", paths))
		}
	}
	if n == 0 {
		c.Note(rule + ": no function keeps a buffered writer to itself (every writer lives in a reporter; vacuous)")
	}
}
