package rules

import (
	"fmt"
	"go/constant"
	"go/token"
	"go/types"
	"regexp"
	"strconv"
	"strings"

	"golang.org/x/tools/go/ssa"

	"hrverif/internal/absint"
	"hrverif/internal/core"
)

var verbRe = regexp.MustCompile(`%[-+# 0]*[0-9]*(\.[0-9]+)?[a-zA-Z]`)

// rulePrintForm is C14-R2/R3: what the printer writes, the parser strips.
func rulePrintForm(c *core.Ctx, rule, ruleNotes string) {
	printPkg := core.CmdPath + "/internal/print"
	fn := c.P.LookupMethod(printPkg, "PrintReporter", "Process")
	if !requireAnchor(c, rule, "print.PrintReporter.Process", fn != nil) {
		return
	}
	// the tokenizer's tables
	analyseParserLoop(c, map[string]bool{})
	sets := map[string]string{}
	for k := range lastTrims {
		parts := strings.SplitN(k, "|", 2)
		if s, err := strconv.Unquote(strings.TrimPrefix(parts[1], "c:")); err == nil {
			sets[parts[0]] = s
		}
	}
	split := ""
	for k := range lastSplitters {
		parts := strings.SplitN(k, "|", 2)
		if s, err := strconv.Unquote(strings.TrimPrefix(parts[1], "c:")); err == nil {
			split = s
		}
	}
	nameSet, qtySet := sets["name"], sets["qty"]
	if nameSet == "" || qtySet == "" || split == "" {
		c.Undecide(rule, core.FuncName(fn), "tables", c.P.Pos(fn.Pos()), "the tokenizer's trim sets or splitter could not be determined (see C04-R3); the printer cannot be compared with them", nil)
		return
	}
	fname := core.FuncName(fn)
	x := newExec(c)
	type wr struct {
		format string
		consts bool
		args   []absint.Value
		pos    string
		ln     bool
	}
	var writes []wr
	seen := map[string]bool{}
	x.Hooks.Call = func(x *absint.Exec, s *absint.State, site ssa.CallInstruction, callee *ssa.Function, fnv absint.Value, args []absint.Value) (absint.Value, bool) {
		if callee == nil || !strings.HasPrefix(callee.String(), "fmt.Fprint") {
			return nil, false
		}
		w := wr{pos: c.P.Pos(site.Pos()), ln: callee.String() == "fmt.Fprintln"}
		rest := args[1:]
		if callee.String() == "fmt.Fprintf" {
			if cst, ok := args[1].(absint.Const); ok && cst.V != nil {
				if str, err := strconv.Unquote(cst.V.ExactString()); err == nil {
					w.format, w.consts = str, true
				}
			} else {
				w.format = args[1].Key()
			}
			rest = args[2:]
		}
		var argIsStr []bool
		for _, a := range rest {
			if t, ok := a.(*absint.Term); ok && t.Op == "slice" {
				if p, ok := t.Args[0].(absint.Ptr); ok {
					for i := 0; i < 6; i++ {
						hv, ok := s.Heap[fmt.Sprintf("%s[c:%d]", p.Loc, i)]
						if !ok {
							break
						}
						isStr := false
						if iv, ok := hv.(*absint.Iface); ok {
							hv = iv.V
							if bt, ok := iv.T.Underlying().(*types.Basic); ok && bt.Info()&types.IsString != 0 {
								isStr = true
							}
						}
						w.args = append(w.args, hv)
						argIsStr = append(argIsStr, isStr)
					}
				}
			}
		}
		// Fprintf(w, "  %s\n", "# "+name+": "+value): a %s that is given strings put together with "+" spells the
		// format those pieces spell ("  # %s: %s\n" with name and value)
		if callee.String() == "fmt.Fprintf" && w.consts {
			var outF strings.Builder
			var outArgs []absint.Value
			ai := 0
			changed := false
			for i := 0; i < len(w.format); i++ {
				if w.format[i] != '%' || i+1 >= len(w.format) {
					outF.WriteByte(w.format[i])
					continue
				}
				if w.format[i+1] == '%' {
					outF.WriteString("%%")
					i++
					continue
				}
				j := i + 1
				for j < len(w.format) && strings.IndexByte("+-# 0123456789.", w.format[j]) >= 0 {
					j++
				}
				if j >= len(w.format) {
					outF.WriteString(w.format[i:])
					break
				}
				verb := w.format[i : j+1]
				var arg absint.Value
				if ai < len(w.args) {
					arg = w.args[ai]
				}
				ai++
				if t, isT := arg.(*absint.Term); isT && verb == "%s" && t.Op == "+" {
					for _, piece := range t.Args {
						if l, ok := absConstString(piece); ok {
							outF.WriteString(strings.ReplaceAll(l, "%", "%%"))
						} else {
							outF.WriteString("%s")
							outArgs = append(outArgs, piece)
						}
					}
					changed = true
				} else {
					outF.WriteString(verb)
					if arg != nil {
						outArgs = append(outArgs, arg)
					}
				}
				i = j
			}
			if changed {
				w.format, w.args = outF.String(), outArgs
			}
		}
		// a line written with Fprintln of strings put together with "+" is the format those pieces spell:
		// Fprintln(w, "  # "+name+": "+value) writes what Fprintf(w, "  # %s: %s\n", name, value) writes
		isPrint := callee.String() == "fmt.Fprint"
		if (w.ln && !(len(w.args) == 1 && w.args[0].Key() == `c:""`)) || isPrint {
			var format strings.Builder
			var fargs []absint.Value
			lit := func(v absint.Value) (string, bool) {
				if cst, ok := v.(absint.Const); ok && cst.V != nil && cst.V.Kind() == constant.String {
					return strings.ReplaceAll(constant.StringVal(cst.V), "%", "%%"), true
				}
				return "", false
			}
			for i, a := range w.args {
				if i > 0 && (!isPrint || (i < len(argIsStr) && !argIsStr[i] && !argIsStr[i-1])) {
					format.WriteString(" ") // Fprintln always, Fprint only between two operands that are not strings
				}
				parts := []absint.Value{a}
				if t, ok := a.(*absint.Term); ok && t.Op == "+" && i < len(argIsStr) && argIsStr[i] {
					parts = t.Args
				}
				for _, p := range parts {
					// a piece that a helper formatted: its constant format and its operands take its place
					if st, ok := p.(*absint.Term); ok && st.Op == "call:fmt.Sprintf" && len(st.Args) == 2 {
						if cst, ok := st.Args[0].(absint.Const); ok && cst.V != nil && cst.V.Kind() == constant.String {
							format.WriteString(constant.StringVal(cst.V))
							for _, leaf := range printedLeaves(s, st.Args[1], 3) {
								fargs = append(fargs, leaf)
							}
							continue
						}
					}
					if l, ok := lit(p); ok {
						format.WriteString(l)
					} else if i < len(argIsStr) && argIsStr[i] {
						format.WriteString("%s")
						fargs = append(fargs, p)
					} else {
						format.WriteString("%v")
						fargs = append(fargs, p)
					}
				}
			}
			if !isPrint {
				format.WriteString("\n")
			}
			w.ln, w.consts, w.format, w.args = false, true, format.String(), fargs
		}
		key := w.format + "|" + w.pos
		for _, a := range w.args {
			// the same line written with another kind of argument on another path (a name that is quoted only
			// when it contains certain characters) is another write
			if _, isT := a.(*absint.Term); isT {
				key += "|" + a.Key()
			}
		}
		if !seen[key] {
			seen[key] = true
			writes = append(writes, w)
		}
		// what this path has written so far: the heading (the line that carries the formatted date) and the
		// terminator (the empty line)
		if len(w.args) >= 1 && isCallOnAny(w.args[0], "(time.Time).Format") {
			s.SetData("heading", "1")
		}
		if (w.ln && len(w.args) == 1 && w.args[0].Key() == `c:""`) || (!w.ln && w.consts && w.format == "\n" && len(w.args) == 0) {
			s.SetData("terminator", "1")
		}
		return nil, false
	}
	pterms := x.Run(x.NewState(fn, nil, nil))
	var pathBad []string
	for _, tm := range pterms {
		// paths that may report success: nil, or an error value not known to be set (return ew.err)
		if tm.Kind != "return" || len(tm.Ret) != 1 || nilnessOf(x, tm.State, tm.Ret[0]) == "nonnil" {
			continue
		}
		if tm.State.Data["heading"] != "1" || tm.State.Data["terminator"] != "1" {
			pathBad = append(pathBad, fmt.Sprintf("%s: a day is reported as printed (nil) on a path that wrote heading=%q terminator=%q (%s): a day without entries, or with notes only, vanishes from the printed log", c.P.Pos(tm.Pos), tm.State.Data["heading"], tm.State.Data["terminator"], x.Valuation(tm.State)))
		}
	}
	if !account(c, x, rule, fn) {
		return
	}
	var bad, badNotes []string
	in := func(s, set string) bool {
		for _, r := range s {
			if r == '\n' {
				continue
			}
			if !strings.ContainsRune(set, r) {
				return false
			}
		}
		return true
	}
	indentFirst := func(s string) bool { return len(s) > 0 && (s[0] == ' ' || s[0] == '\t' || s[0] == '-') }
	kinds := map[string]bool{}
	for _, w := range writes {
		if w.ln {
			if len(w.args) == 1 && w.args[0].Key() == `c:""` {
				kinds["terminator"] = true
			} else {
				bad = append(bad, w.pos+": a line is written with Fprintln of "+fmt.Sprint(len(w.args))+" values; the rule models the empty terminator line only")
			}
			continue
		}
		if !w.consts {
			bad = append(bad, w.pos+": the format string is not a compile-time constant ("+w.format+"): text of the log (a name containing %) is interpreted as formatting directives and cannot be read back")
			continue
		}
		verbs := verbRe.FindAllStringIndex(w.format, -1)
		lits := []string{}
		prev := 0
		for _, v := range verbs {
			lits = append(lits, w.format[prev:v[0]])
			prev = v[1]
		}
		lits = append(lits, w.format[prev:])
		verbStr := func(i int) string { return w.format[verbs[i][0]:verbs[i][1]] }
		argLoc := func(i int) string {
			if i < len(w.args) {
				l := locOf(x, w.args[i])
				// L:§@k[idx]·F → append where §@k was loaded from
				if strings.HasPrefix(l, "L:§") {
					name := strings.TrimPrefix(l, "L:§")
					if j := strings.IndexAny(name, "[·"); j >= 0 {
						name = name[:j]
					}
					if up := locOf(x, absint.Sym{Name: name}); up != "" {
						return up + "→" + l
					}
				}
				return l
			}
			return ""
		}
		switch {
		case len(w.args) == 0 && len(verbs) == 0 && w.format == "\n":
			kinds["terminator"] = true // the empty line written as a constant format
		case len(w.args) >= 1 && isCallOnAny(w.args[0], "(time.Time).Format"):
			kinds["heading"] = true
			if len(verbs) != 1 || verbStr(0) != "%s" || lits[0] != "" || !in(lits[1], nameSet) || !strings.HasSuffix(lits[1], "\n") {
				bad = append(bad, fmt.Sprintf("%s: heading format %q: the date must start the line and be followed only by characters the parser strips from a heading (%q)", w.pos, w.format, nameSet))
			}
		case len(w.args) == 2 && strings.HasSuffix(argLoc(0), "·Name") && strings.HasSuffix(argLoc(1), "·Value") && strings.Contains(argLoc(0), "·Elements→"):
			kinds["entry"] = true
			if len(verbs) != 2 {
				bad = append(bad, w.pos+": entry format has "+fmt.Sprint(len(verbs))+" verbs")
				break
			}
			if !indentFirst(lits[0]) || !in(lits[0], nameSet) {
				bad = append(bad, fmt.Sprintf("%s: entry lines must start with an indentation character and everything before the name must be stripped by the parser's name set %q; format %q", w.pos, nameSet, w.format))
			}
			if verbStr(0) != "%s" {
				bad = append(bad, w.pos+": the name is printed with "+verbStr(0)+", not %s")
			}
			if !in(lits[1], nameSet) || !in(lits[1], qtySet) || !strings.ContainsAny(lits[1], split) {
				bad = append(bad, fmt.Sprintf("%s: the text between name and quantity (%q) must be stripped from both sides (name set %q, quantity set %q) and contain a character the entry splitter searches for (%q)", w.pos, lits[1], nameSet, qtySet, split))
			}
			if !regexp.MustCompile(`^%0?\.[0-9]+f$`).MatchString(verbStr(1)) {
				bad = append(bad, w.pos+": the quantity is printed with "+verbStr(1)+", not a fixed-precision %.Nf")
			}
			if lits[2] != "\n" {
				bad = append(bad, fmt.Sprintf("%s: text %q follows the quantity", w.pos, lits[2]))
			}
		case len(w.args) >= 1 && strings.Contains(argLoc(len(w.args)-1), "Metadata") || len(w.args) >= 1 && strings.HasSuffix(argLoc(0), "·Name") || len(w.args) == 1 && strings.HasSuffix(argLoc(0), "·Value"):
			kinds["note"] = true
			trimmed := strings.TrimLeft(lits[0], nameSet)
			if !indentFirst(lits[0]) || !strings.HasPrefix(trimmed, "#") {
				bad = append(bad, fmt.Sprintf("%s: note format %q: after the indentation the first character must be the comment character", w.pos, w.format))
			}
			if len(w.args) == 2 && !strings.Contains(lits[1], ":") {
				bad = append(bad, fmt.Sprintf("%s: a name/value note must separate the two with ':' (format %q)", w.pos, w.format))
			}
			for i := range w.args {
				l := argLoc(i)
				if !(strings.HasSuffix(l, "·Name") || strings.HasSuffix(l, "·Value")) {
					badNotes = append(badNotes, fmt.Sprintf("%s: note argument %s is not the parsed pair's Name or Value itself", w.pos, w.args[i].Key()))
				}
			}
			switch len(w.args) {
			case 1:
				// the "# text" form: the text is the pair's Value (its Name is empty)
				if !strings.HasSuffix(argLoc(0), "·Value") {
					badNotes = append(badNotes, fmt.Sprintf("%s: a note without a name prints %s, not the pair's Value: the text of a '# text' note is lost on the first print", w.pos, w.args[0].Key()))
				}
			case 2:
				if !strings.HasSuffix(argLoc(0), "·Name") || !strings.HasSuffix(argLoc(1), "·Value") {
					badNotes = append(badNotes, fmt.Sprintf("%s: a '# name: value' note prints (%s, %s), not (Name, Value) in that order", w.pos, w.args[0].Key(), w.args[1].Key()))
				}
			}
		default:
			var ks []string
			for _, a := range w.args {
				ks = append(ks, a.Key())
			}
			bad = append(bad, fmt.Sprintf("%s: unrecognised line %q with arguments %v", w.pos, w.format, ks))
		}
	}
	for _, k := range []string{"heading", "entry", "note", "terminator"} {
		if !kinds[k] {
			bad = append(bad, "the printer writes no "+k+" line")
		}
	}
	bad = append(bad, pathBad...)
	bad, badNotes = uniq(bad), uniq(badNotes)
	if len(bad) == 0 {
		c.Discharge(rule, fname, "formats", c.P.Pos(fn.Pos()), fmt.Sprintf("%d constant formats agree with the tokenizer's tables (name set %q, quantity set %q, splitter %q)", len(writes), nameSet, qtySet, split))
	}
	for _, m := range bad {
		c.Violate(rule, fname, "formats", c.P.Pos(fn.Pos()), m, nil)
	}
	if len(badNotes) == 0 {
		c.Discharge(ruleNotes, fname, "notes", c.P.Pos(fn.Pos()), "note lines print the parsed pair's Name and Value untransformed")
	}
	for _, m := range badNotes {
		c.Violate(ruleNotes, fname, "notes", c.P.Pos(fn.Pos()), m, nil)
	}
}

func isCallOnAny(v absint.Value, method string) bool {
	_, ok := termCall(v, method)
	return ok
}

// ruleConstFormats: the format argument of every printf-family call in the
// tree is built from constants (and padding made of constants) only. A format
// that contains run-time text — a food name, a note, a path — misprints or
// swallows the rest of the row as soon as that text contains a '%'.
func ruleConstFormats(c *core.Ctx, rule string, only func(*ssa.Function) bool) {
	fmtArg := map[string]int{
		"fmt.Fprintf": 1, "fmt.Printf": 0, "fmt.Sprintf": 0, "fmt.Errorf": 0, "fmt.Fscanf": 1, "fmt.Sscanf": 1,
		"log.Printf": 0, "log.Fatalf": 0, "log.Panicf": 0, "(*log.Logger).Printf": 1, "(*log.Logger).Fatalf": 1,
	}
	var safe func(v ssa.Value, depth int) (bool, string)
	safe = func(v ssa.Value, depth int) (bool, string) {
		if depth > 6 {
			return false, "too deeply nested to follow"
		}
		switch x := v.(type) {
		case *ssa.Const:
			return true, ""
		case *ssa.BinOp:
			if x.Op != token.ADD {
				return false, x.String()
			}
			if ok, why := safe(x.X, depth+1); !ok {
				return false, why
			}
			return safe(x.Y, depth+1)
		case *ssa.Phi:
			for _, e := range x.Edges {
				if ok, why := safe(e, depth+1); !ok {
					return false, why
				}
			}
			return true, ""
		case *ssa.Call:
			cal := core.Callee(&x.Call)
			if cal != nil && cal.String() == "strings.Repeat" && len(x.Call.Args) == 2 {
				if k, ok := x.Call.Args[0].(*ssa.Const); ok && k.Value != nil && k.Value.Kind() == constant.String && !strings.Contains(constant.StringVal(k.Value), "%") {
					return true, ""
				}
			}
			if cal != nil && len(cal.Blocks) > 0 && c.P.InScope(cal) {
				// a helper that returns a format: every return must be safe
				for _, b := range cal.Blocks {
					for _, in := range b.Instrs {
						if r, ok := in.(*ssa.Return); ok && len(r.Results) == 1 {
							if ok, why := safe(r.Results[0], depth+1); !ok {
								return false, why
							}
						}
					}
				}
				return true, ""
			}
			return false, "the result of " + x.Call.Value.Name()
		case *ssa.UnOp:
			if g, ok := x.X.(*ssa.Global); ok && x.Op == token.MUL {
				// a package-level format: assigned from safe values only (C05-R4 guards later writes)
				n := 0
				for _, fn := range c.P.Funcs {
					for _, b := range fn.Blocks {
						for _, in := range b.Instrs {
							if st, ok := in.(*ssa.Store); ok && st.Addr == ssa.Value(g) {
								n++
								if ok, why := safe(st.Val, depth+1); !ok {
									return false, why
								}
							}
						}
					}
				}
				if g.Pkg != nil {
					if init := g.Pkg.Func("init"); init != nil {
						for _, b := range init.Blocks {
							for _, in := range b.Instrs {
								if st, ok := in.(*ssa.Store); ok && st.Addr == ssa.Value(g) {
									n++
									if ok, why := safe(st.Val, depth+1); !ok {
										return false, why
									}
								}
							}
						}
					}
				}
				return n > 0, "the package-level variable " + g.Name()
			}
			if fa, ok := x.X.(*ssa.FieldAddr); ok && x.Op == token.MUL {
				// a format kept in a struct field: every store into that field of that struct type must be safe
				st := fa.X.Type().Underlying().(*types.Pointer).Elem()
				n := 0
				for _, fn := range c.P.Funcs {
					for _, b := range fn.Blocks {
						for _, in := range b.Instrs {
							s2, ok := in.(*ssa.Store)
							if !ok {
								continue
							}
							fa2, ok := s2.Addr.(*ssa.FieldAddr)
							if !ok || fa2.Field != fa.Field {
								continue
							}
							if pt, ok := fa2.X.Type().Underlying().(*types.Pointer); !ok || !types.Identical(pt.Elem(), st) {
								continue
							}
							n++
							if ok, why := safe(s2.Val, depth+1); !ok {
								return false, why
							}
						}
					}
				}
				if n > 0 {
					return true, ""
				}
				return false, "the field " + fieldName(fa.X.Type(), fa.Field) + ", which is never assigned in the tree"
			}
			return false, "a value loaded from memory (" + x.X.Name() + ")"
		case *ssa.Parameter:
			fn := x.Parent()
			idx := -1
			for i, prm := range fn.Params {
				if prm == x {
					idx = i
				}
			}
			n := 0
			for _, g := range c.P.Funcs {
				for _, b := range g.Blocks {
					for _, in := range b.Instrs {
						if ci, ok := in.(ssa.CallInstruction); ok && core.Callee(ci.Common()) == fn && idx >= 0 && idx < len(ci.Common().Args) {
							n++
							if ok, why := safe(ci.Common().Args[idx], depth+1); !ok {
								return false, why
							}
						}
					}
				}
			}
			if n == 0 {
				return false, "the parameter " + x.Name() + " (no caller in the tree)"
			}
			return true, ""
		}
		return false, v.Name() + " = " + v.String()
	}
	n := 0
	for _, fn := range c.P.Funcs {
		if only != nil && !only(fn) {
			continue
		}
		for _, b := range fn.Blocks {
			for _, in := range b.Instrs {
				ci, ok := in.(ssa.CallInstruction)
				if !ok {
					continue
				}
				cal := core.Callee(ci.Common())
				if cal == nil {
					continue
				}
				idx, is := fmtArg[cal.String()]
				if !is || idx >= len(ci.Common().Args) {
					continue
				}
				n++
				fname := core.FuncName(fn)
				pos := c.P.Pos(in.Pos())
				if ok, why := safe(ci.Common().Args[idx], 0); ok {
					c.Discharge(rule, fname, cal.Name()+" format", pos, "the format is built from constants only")
				} else {
					c.Violate(rule, fname, cal.Name()+" format", pos, "the format string of "+cal.String()+" contains run-time text ("+why+"): a '%' in a name, note or path is taken for a verb and the row is misprinted or merged with the next", nil)
				}
			}
		}
	}
	if n == 0 {
		c.Note(rule + ": no printf-family call in scope")
	}
}
