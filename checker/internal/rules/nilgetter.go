package rules

import (
	"fmt"
	"go/token"
	"go/types"
	"sort"

	"golang.org/x/tools/go/ssa"

	"hrverif/internal/absint"
	"hrverif/internal/core"
)

// maybeNilGetters: functions of the tree with a single pointer result that hand back the constant nil on some path
// and something else on another (FirstChild: nil for a node without children).
func maybeNilGetters(p *core.Program) []*ssa.Function {
	var out []*ssa.Function
	for _, fn := range p.Funcs {
		if fn.Parent() != nil || len(fn.Blocks) == 0 || !p.InScope(fn) || fn.Signature.Results().Len() != 1 {
			continue
		}
		if _, ok := fn.Signature.Results().At(0).Type().Underlying().(*types.Pointer); !ok {
			continue
		}
		nils, others := 0, 0
		for _, b := range fn.Blocks {
			if ret, ok := b.Instrs[len(b.Instrs)-1].(*ssa.Return); ok && len(ret.Results) == 1 {
				if cst, isC := ret.Results[0].(*ssa.Const); isC && cst.IsNil() {
					nils++
				} else {
					others++
				}
			}
		}
		if nils > 0 && others > 0 {
			out = append(out, fn)
		}
	}
	sort.Slice(out, func(i, j int) bool { return out[i].String() < out[j].String() })
	return out
}

// ruleNilFromGetter is C08-R11: where the result of a getter that answers nil for "there is none" is dereferenced
// (a field taken, a load through it, or handed to a helper that does so), the path has settled that there is one —
// by a test of the result against nil or by the same question the getter asks (len(n.Children) == 1 before
// n.FirstChild().Name). A helper is judged in the context of its callers.
func ruleNilFromGetter(c *core.Ctx, rule string) {
	getters := maybeNilGetters(c.P)
	isGetter := map[*ssa.Function]bool{}
	for _, g := range getters {
		isGetter[g] = true
		c.Universe(rule+" getters that may answer nil", core.FuncName(g)+" ("+c.P.Pos(g.Pos())+")")
	}
	if len(getters) == 0 {
		c.Note(rule + ": no function of the tree answers nil for \"none\" (vacuous)")
		return
	}
	// fromGetter: v (in the function of the frame on top) is the result of a getter call
	var fromGetter func(s *absint.State, depth int, v ssa.Value) bool
	fromGetter = func(s *absint.State, depth int, v ssa.Value) bool {
		switch t := v.(type) {
		case *ssa.Call:
			return isGetter[core.Callee(&t.Call)]
		case *ssa.Parameter:
			// handed down by the caller
			fi := len(s.Frames) - 1 - depth
			if fi <= 0 || s.Frames[fi].Site == nil {
				return false
			}
			fr := s.Frames[fi]
			for i, prm := range fr.Fn.Params {
				if prm == t && i < len(fr.Site.Common().Args) && !fr.Site.Common().IsInvoke() {
					return fromGetter(s, depth+1, fr.Site.Common().Args[i])
				}
			}
		}
		return false
	}
	sites := 0
	for _, fn := range c.P.Funcs {
		if !c.P.InScope(fn) {
			continue
		}
		var calls []*ssa.Call
		for _, b := range fn.Blocks {
			for _, in := range b.Instrs {
				if call, ok := in.(*ssa.Call); ok && isGetter[core.Callee(&call.Call)] && call.Referrers() != nil && len(*call.Referrers()) > 0 {
					calls = append(calls, call)
				}
			}
		}
		if len(calls) == 0 {
			continue
		}
		sites += len(calls)
		fname := core.FuncName(fn)
		bad := map[string]string{}
		failed := false
		explore := func(root *ssa.Function) {
			x := newExec(c)
			// a getter that searches (a loop over the children for the smallest key) is not followed: states that meet at
			// a loop head inside an inlined call lose what the caller had settled. It is modelled by its own question
			// instead — "nil exactly when len(receiver.Field) == 0": nil-able where the path leaves that open, a value
			// that is not nil where the path has excluded it.
			x.Hooks.Call = func(x *absint.Exec, s *absint.State, site ssa.CallInstruction, callee *ssa.Function, fnv absint.Value, args []absint.Value) (absint.Value, bool) {
				if callee == nil || !isGetter[callee] || len(args) == 0 {
					return nil, false
				}
				field, ok := elementOfField(callee)
				if !ok && loopFree(callee) {
					return nil, false // followed as it stands
				}
				if !ok {
					field, ok = emptyGuardField(callee)
				}
				if !ok {
					return nil, false // followed as it stands
				}
				var cell absint.Value
				switch r := args[0].(type) {
				case absint.Ptr:
					cell = absint.Ptr{Loc: r.Loc + "·" + field, Fresh: r.Fresh}
				case absint.Sym, *absint.Term:
					cell = absint.Ptr{Loc: "L:" + r.Key() + "·" + field}
				default:
					return nil, false
				}
				res := x.Fresh(s, "getter:"+callee.Name())
				if !x.CanBeZero(s, absint.NewTerm("len", x.Load(s, cell, nil))) {
					x.AssumeNil(s, res, false)
				} else {
					s.SetData("maybenil:"+res.Key(), "1")
				}
				return res, true
			}
			// the getter and the function itself are followed; a helper with a loop (Keys) is an unknown call that is taken
			// not to change the structure it is asked about
			x.Hooks.Inline = func(callee *ssa.Function, depth int) bool {
				if callee == fn || isGetter[callee] {
					return true // (getters modelled by their contract never get here: the call hook answers for them)
				}
				// helpers without loops (isLastPair) are followed too: nothing in them meets an earlier visit of itself
				return depth <= 4 && c.P.InScope(callee) && loopFree(callee)
			}
			x.Hooks.Deref = func(x *absint.Exec, s *absint.State, in ssa.Instruction, ptr absint.Value) {
				if len(s.Frames) == 0 {
					return
				}
				cst, ok := ptr.(absint.Const)
				if sym, isSym := ptr.(absint.Sym); isSym && s.Data["maybenil:"+sym.Key()] == "1" {
					// the answer of a searching getter where the path left "is there one" open (and it was not tested since)
					ok, cst = true, absint.Const{Nil: true}
				}
				if !ok || !cst.Nil {
					return
				}
				var operand ssa.Value
				switch t := in.(type) {
				case *ssa.FieldAddr:
					operand = t.X
				case *ssa.UnOp:
					if t.Op == token.MUL {
						operand = t.X
					}
				case *ssa.Store:
					operand = t.Addr
				}
				if operand == nil || !fromGetter(s, 0, operand) {
					return
				}
				bad[c.P.Pos(in.Pos())] = x.Valuation(s)
			}
			x.Run(x.NewState(root, nil, nil))
			if !account(c, x, rule, root) {
				failed = true
			}
		}
		explore(fn)
		if len(bad) > 0 && !failed && fn.Parent() == nil && fn.Object() != nil && !fn.Object().Exported() {
			// an unexported helper: what its callers settled before calling it counts
			var callers []*ssa.Function
			seen := map[*ssa.Function]bool{}
			for _, g := range c.P.Funcs {
				for _, b := range g.Blocks {
					for _, in := range b.Instrs {
						if ci, ok := in.(ssa.CallInstruction); ok && core.Callee(ci.Common()) == fn && g != fn && !seen[g] {
							seen[g] = true
							callers = append(callers, g)
						}
					}
				}
			}
			if len(callers) > 0 {
				bad = map[string]string{}
				for _, g := range callers {
					explore(g)
				}
			}
		}
		if failed {
			continue
		}
		for _, call := range calls {
			c.Universe(rule+" uses of such a getter", fmt.Sprintf("%s: %s (%s)", fname, core.FuncName(core.Callee(&call.Call)), c.P.Pos(call.Pos())))
		}
		if len(bad) == 0 {
			c.Discharge(rule, fname, "nil-result", c.P.Pos(fn.Pos()), fmt.Sprintf("%d call(s) of a getter that may answer nil: no path dereferences the nil answer", len(calls)))
			continue
		}
		var keys []string
		for k := range bad {
			keys = append(keys, k)
		}
		sort.Strings(keys)
		for _, k := range keys {
			c.Violate(rule, fname, "nil-result", k, "the nil that a getter answers for \"there is none\" is dereferenced here on a path that has not settled that there is one ("+bad[k]+"): a nil pointer dereference, the command panics instead of reporting", nil)
		}
	}
	if sites == 0 {
		c.Note(rule + ": no getter result is used in the tree")
	}
}

// loopFree: no block of fn is reached again from one it dominates.
func loopFree(fn *ssa.Function) bool {
	for _, b := range fn.Blocks {
		for _, p := range b.Preds {
			if b.Dominates(p) {
				return false
			}
		}
	}
	return len(fn.Blocks) > 0
}

// ruleIndexFound is C08-R12: the position Elements.Index answers is used as an index only on the side of a test on
// which its second answer (found) is true. For a miss Index answers position 0: indexing with it on a list that has
// no elements at all is out of range, and the command panics.
func ruleIndexFound(c *core.Ctx, rule string) {
	n := 0
	for _, fn := range c.P.Funcs {
		if !c.P.InScope(fn) {
			continue
		}
		for _, b := range fn.Blocks {
			for _, in := range b.Instrs {
				call, ok := in.(*ssa.Call)
				if !ok {
					continue
				}
				cal := core.Callee(&call.Call)
				if cal == nil || cal.Name() != "Index" || !isMethod(cal, core.LibPath, "Elements", "Index") || call.Referrers() == nil {
					continue
				}
				var pos, found ssa.Value
				for _, r := range *call.Referrers() {
					if ex, ok := r.(*ssa.Extract); ok {
						if ex.Index == 0 {
							pos = ex
						} else {
							found = ex
						}
					}
				}
				if pos == nil || pos.Referrers() == nil {
					continue
				}
				var uses []ssa.Instruction
				for _, r := range *pos.Referrers() {
					switch t := r.(type) {
					case *ssa.IndexAddr:
						if t.Index == pos {
							uses = append(uses, t)
						}
					case *ssa.Index:
						if t.Index == pos {
							uses = append(uses, t)
						}
					}
				}
				if len(uses) == 0 {
					continue
				}
				n++
				fname := core.FuncName(fn)
				c.Universe(rule+" positions answered by Elements.Index and used as an index", fname+" ("+c.P.Pos(call.Pos())+")")
				// the blocks entered only when found is true
				var guards []*ssa.BasicBlock
				if found != nil && found.Referrers() != nil {
					var conds []struct {
						v   ssa.Value
						neg bool
					}
					conds = append(conds, struct {
						v   ssa.Value
						neg bool
					}{found, false})
					for _, r := range *found.Referrers() {
						if u, ok := r.(*ssa.UnOp); ok && u.Op == token.NOT {
							conds = append(conds, struct {
								v   ssa.Value
								neg bool
							}{u, true})
						}
					}
					for _, cd := range conds {
						if cd.v.Referrers() == nil {
							continue
						}
						for _, r := range *cd.v.Referrers() {
							iff, ok := r.(*ssa.If)
							if !ok {
								continue
							}
							side := iff.Block().Succs[0]
							if cd.neg {
								side = iff.Block().Succs[1]
							}
							if len(side.Preds) == 1 {
								guards = append(guards, side)
							}
						}
					}
				}
				bad := false
				for _, u := range uses {
					ok := false
					for _, g := range guards {
						if g.Dominates(u.Block()) {
							ok = true
						}
					}
					if !ok {
						bad = true
						c.Violate(rule, fname, "found-first", c.P.Pos(u.Pos()), "the position answered by Elements.Index is used as an index where its second answer (found) has not been tested true: for a miss the position is 0, and on a list without elements that is out of range — the command panics on a food the book lists with no elements", nil)
					}
				}
				if !bad {
					c.Discharge(rule, fname, "found-first", c.P.Pos(call.Pos()), fmt.Sprintf("%d use(s) of the position as an index, all on the side where found is true", len(uses)))
				}
			}
		}
	}
	if n == 0 {
		c.Note(rule + ": no position answered by Elements.Index is used as an index")
	}
}

// ruleIntegerDivision is C08-R13: an integer division or remainder whose divisor is not a constant is reached only
// where the path has settled that the divisor is not zero (a test against a literal that excludes 0). Integer
// division by zero panics; a count or a number of days computed from the data can be zero for a legitimate log.
func ruleIntegerDivision(c *core.Ctx, rule string) {
	n := 0
	for _, fn := range c.P.Funcs {
		if !c.P.InScope(fn) {
			continue
		}
		var sites []*ssa.BinOp
		for _, b := range fn.Blocks {
			for _, in := range b.Instrs {
				bo, ok := in.(*ssa.BinOp)
				if !ok || (bo.Op != token.QUO && bo.Op != token.REM) {
					continue
				}
				bt, ok := bo.Type().Underlying().(*types.Basic)
				if !ok || bt.Info()&types.IsInteger == 0 {
					continue
				}
				if cst, isC := bo.Y.(*ssa.Const); isC && cst.Value != nil && !cst.IsNil() && cst.Int64() != 0 {
					continue
				}
				sites = append(sites, bo)
			}
		}
		if len(sites) == 0 {
			continue
		}
		fname := core.FuncName(fn)
		bad := map[*ssa.BinOp]string{}
		reached := map[*ssa.BinOp]bool{}
		failed := false
		for _, root := range contextRoots(c.P, fn, 1) {
			x := newExec(c)
			x.Hooks.Inline = func(callee *ssa.Function, depth int) bool {
				return callee == fn || (depth <= 3 && c.P.InScope(callee) && loopFree(callee))
			}
			x.Hooks.Instr = func(x *absint.Exec, s *absint.State, in ssa.Instruction) {
				bo, ok := in.(*ssa.BinOp)
				if !ok || len(s.Frames) == 0 {
					return
				}
				isSite := false
				for _, st := range sites {
					if st == bo {
						isSite = true
					}
				}
				if !isSite {
					return
				}
				reached[bo] = true
				f := s.Frames[len(s.Frames)-1]
				dv, ok := f.Env[bo.Y]
				if !ok {
					if cst, isC := bo.Y.(*ssa.Const); isC && cst.Value != nil && cst.Int64() == 0 {
						bad[bo] = "the divisor is the constant 0"
					}
					return
				}
				if x.CanBeZero(s, dv) {
					bad[bo] = nonEmptyText(x.Valuation(s))
				}
			}
			x.Run(x.NewState(root, nil, nil))
			if !account(c, x, rule, root) {
				failed = true
			}
		}
		if failed {
			continue
		}
		for _, st := range sites {
			n++
			pos := c.P.Pos(st.Pos())
			c.Universe(rule+" integer divisions by a computed value", fname+" ("+pos+")")
			if why, isBad := bad[st]; isBad {
				c.Violate(rule, fname, "divisor "+st.Y.Name(), pos, "an integer is divided by a computed value that no test on the path excludes from being 0 ("+why+"): integer division by zero panics, the command dies instead of reporting", nil)
			} else if reached[st] {
				c.Discharge(rule, fname, "divisor "+st.Y.Name(), pos, "reached only where the divisor was tested against a literal that excludes 0")
			} else {
				c.Discharge(rule, fname, "divisor "+st.Y.Name(), pos, "not reachable in the abstract exploration")
			}
		}
	}
	if n == 0 {
		c.Note(rule + ": no integer division by a computed value in the tree")
	}
}

// ruleConvertedIndex is the C08-R5 rule for []rune(s)[k] and []byte(s)[k]: a constant position in the runes or bytes
// of a string is reached only where the string is known not to be empty (k = 0); a later position is never known
// to exist.
func ruleConvertedIndex(c *core.Ctx, rule string) {
	for _, fn := range c.P.Funcs {
		if !c.P.InScope(fn) {
			continue
		}
		var sites []*ssa.IndexAddr
		for _, b := range fn.Blocks {
			for _, in := range b.Instrs {
				ia, ok := in.(*ssa.IndexAddr)
				if !ok {
					continue
				}
				cv, ok := ia.X.(*ssa.Convert)
				if !ok {
					continue
				}
				if bt, ok := cv.X.Type().Underlying().(*types.Basic); !ok || bt.Info()&types.IsString == 0 {
					continue
				}
				if _, isC := ia.Index.(*ssa.Const); isC {
					sites = append(sites, ia)
				}
			}
		}
		if len(sites) == 0 {
			continue
		}
		fname := core.FuncName(fn)
		okAt := map[*ssa.IndexAddr]bool{}
		badAt := map[*ssa.IndexAddr]string{}
		failed := false
		roots := contextRoots(c.P, fn, 2)
		roots = append(roots, nil) // nil: the function on its own, when no caller's exploration reached the site
		for _, root := range roots {
			if root == nil {
				all := true
				for _, st := range sites {
					if !okAt[st] && badAt[st] == "" {
						all = false
					}
				}
				if all {
					continue
				}
				root = fn
			}
			x := newExec(c)
			x.Hooks.Instr = func(x *absint.Exec, s *absint.State, in ssa.Instruction) {
				ia, ok := in.(*ssa.IndexAddr)
				if !ok || len(s.Frames) == 0 {
					return
				}
				isSite := false
				for _, st := range sites {
					if st == ia {
						isSite = true
					}
				}
				if !isSite {
					return
				}
				f := s.Frames[len(s.Frames)-1]
				sv, ok := f.Env[ia.X.(*ssa.Convert).X]
				if k := ia.Index.(*ssa.Const); ok && k.Int64() == 0 && nonEmptyKnown(x, s, sv) {
					okAt[ia] = true
				} else {
					badAt[ia] = nonEmptyText(x.Valuation(s))
				}
			}
			x.Run(x.NewState(root, nil, nil))
			if !account(c, x, rule, root) {
				failed = true
			}
		}
		if failed {
			continue
		}
		for _, st := range sites {
			pos := c.P.Pos(st.Pos())
			c.Universe(rule+" constant positions in the runes or bytes of a string", fname+" ("+pos+")")
			switch {
			case badAt[st] != "":
				c.Violate(rule, fname, "converted index", pos, "the runes (or bytes) of a string are indexed at a constant position on a path that has not established that the string is long enough ("+badAt[st]+"): an empty value — an option given as '' — panics with index out of range", nil)
			case okAt[st]:
				c.Discharge(rule, fname, "converted index", pos, "reached only where the string was tested non-empty")
			default:
				c.Discharge(rule, fname, "converted index", pos, "not reachable in the abstract exploration")
			}
		}
	}
}

// nonEmptyText: a valuation as text, never the empty string (a path on which nothing was tested has none).
func nonEmptyText(v string) string {
	if v == "" {
		return "nothing tested on the path"
	}
	return v
}

// emptyGuardField: the getter answers nil exactly on the true side of a test `len(receiver.Field) == 0` in its entry
// block, and nowhere else; the field's name.
func emptyGuardField(fn *ssa.Function) (string, bool) {
	if len(fn.Blocks) == 0 || len(fn.Params) == 0 {
		return "", false
	}
	if f, ok := elementOfField(fn); ok {
		return f, true
	}
	b := fn.Blocks[0]
	iff, ok := b.Instrs[len(b.Instrs)-1].(*ssa.If)
	if !ok {
		return "", false
	}
	cmp, ok := iff.Cond.(*ssa.BinOp)
	if !ok || cmp.Op != token.EQL {
		return "", false
	}
	cst, ok := cmp.Y.(*ssa.Const)
	if !ok || cst.Value == nil || cst.Int64() != 0 {
		return "", false
	}
	call, ok := cmp.X.(*ssa.Call)
	if !ok {
		return "", false
	}
	if bi, isB := call.Call.Value.(*ssa.Builtin); !isB || bi.Name() != "len" || len(call.Call.Args) != 1 {
		return "", false
	}
	ld, ok := call.Call.Args[0].(*ssa.UnOp)
	if !ok || ld.Op != token.MUL {
		return "", false
	}
	fa, ok := ld.X.(*ssa.FieldAddr)
	if !ok || fa.X != ssa.Value(fn.Params[0]) {
		return "", false
	}
	// the true side returns nil; no other block returns the constant nil
	nils := 0
	for _, blk := range fn.Blocks {
		if ret, isRet := blk.Instrs[len(blk.Instrs)-1].(*ssa.Return); isRet && len(ret.Results) == 1 {
			if k, isC := ret.Results[0].(*ssa.Const); isC && k.IsNil() {
				nils++
				if blk != b.Succs[0] {
					return "", false
				}
			}
		}
	}
	if nils != 1 {
		return "", false
	}
	return fieldName(fa.X.Type(), fa.Field), true
}

func hasEmptyGuard(fn *ssa.Function) bool {
	_, ok := emptyGuardField(fn)
	return ok
}

// elementOfField: every answer of the getter that is not the constant nil is an element of one and the same map or
// slice field of the receiver (tn.Children[k]). Such a getter is taken to answer nil only when that field is empty —
// the contract of "first child", "smallest", "last": with something in the field there is an element to answer.
func elementOfField(fn *ssa.Function) (string, bool) {
	field := ""
	n := 0
	for _, b := range fn.Blocks {
		ret, ok := b.Instrs[len(b.Instrs)-1].(*ssa.Return)
		if !ok || len(ret.Results) != 1 {
			continue
		}
		if k, isC := ret.Results[0].(*ssa.Const); isC && k.IsNil() {
			continue
		}
		var base ssa.Value
		switch t := ret.Results[0].(type) {
		case *ssa.Lookup:
			base = t.X
		case *ssa.UnOp:
			if ia, isIA := t.X.(*ssa.IndexAddr); isIA && t.Op == token.MUL {
				base = ia.X
			}
		}
		ld, ok := base.(*ssa.UnOp)
		if !ok || ld.Op != token.MUL {
			return "", false
		}
		fa, ok := ld.X.(*ssa.FieldAddr)
		if !ok || fa.X != ssa.Value(fn.Params[0]) {
			return "", false
		}
		f := fieldName(fa.X.Type(), fa.Field)
		if field != "" && field != f {
			return "", false
		}
		field = f
		n++
	}
	return field, n > 0
}
