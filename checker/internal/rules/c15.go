package rules

import (
	"fmt"
	"go/ast"
	"go/token"
	"go/types"
	"regexp"
	"strconv"
	"strings"

	"golang.org/x/tools/go/ssa"
	"golang.org/x/tools/go/types/typeutil"

	"hrverif/internal/absint"
	"hrverif/internal/core"
)

var ansiRe = regexp.MustCompile("\x1b\\[[0-9;]*m")

// pattern renders a string-valued abstract value as the text it would print,
// with every fmt.Sprintf(format, …) replaced by its format.
func pattern(v absint.Value) (string, bool) {
	switch t := v.(type) {
	case absint.Const:
		if t.V == nil {
			return "", false
		}
		s, err := strconv.Unquote(t.V.ExactString())
		return s, err == nil
	case *absint.Term:
		switch {
		case t.Op == "+" && len(t.Args) >= 2:
			// string concatenation: the engine keeps the operands in evaluation order, as one flat term
			out := ""
			for _, a := range t.Args {
				p, ok := pattern(a)
				if !ok {
					return "", false
				}
				out += p
			}
			return out, true
		case t.Op == "call:fmt.Sprintf" && len(t.Args) >= 1:
			return pattern(t.Args[0])
		}
	}
	return "", false
}

type rendering struct {
	colour string // "on" | "off"
	sign   string // "<" | "=" | ">"
	pat    string
	pos    string
}

// ruleColourBySign is C15-R2.
func ruleColourBySign(c *core.Ctx, rule string) {
	hasEsc := func(fn *ssa.Function) bool {
		for _, b := range fn.Blocks {
			for _, in := range b.Instrs {
				for _, op := range in.Operands(nil) {
					if cst, ok := (*op).(*ssa.Const); ok && cst.Value != nil && strings.Contains(cst.Value.ExactString(), `\x1b[`) {
						return true
					}
				}
			}
		}
		return false
	}
	universe := map[*ssa.Function]bool{}
	for _, fn := range c.P.Funcs {
		if !hasEsc(fn) {
			continue
		}
		top := fn
		for top.Parent() != nil {
			top = top.Parent()
		}
		universe[top] = true
	}
	// a named colouring function that a selector hands out (getFormatValue(colour) returning formatValueColored or
	// formatValuePlain) is judged through the selector: it never sees the colour switch itself
	for f := range universe {
		for _, g := range c.P.Funcs {
			if g == f || g.Parent() != nil || g.Signature.Results().Len() != 1 || len(g.Params) != 1 {
				continue
			}
			if _, isFn := g.Signature.Results().At(0).Type().Underlying().(*types.Signature); !isFn {
				continue
			}
			if b, ok := g.Params[0].Type().Underlying().(*types.Basic); !ok || b.Kind() != types.Bool {
				continue
			}
			hands := false
			for _, b := range g.Blocks {
				for _, in := range b.Instrs {
					for _, op := range in.Operands(nil) {
						if *op == ssa.Value(f) {
							if _, isCall := in.(ssa.CallInstruction); !isCall {
								hands = true
							}
						}
					}
				}
			}
			if hands {
				delete(universe, f)
				universe[g] = true
			}
		}
	}
	if len(universe) == 0 {
		c.Note(rule + ": no function mentions a terminal escape sequence (vacuous)")
		return
	}
	for top := range universe {
		fname := core.FuncName(top)
		pos := c.P.Pos(top.Pos())
		c.Universe(rule+" colouring functions", fname+" ("+pos+")")
		var rs []rendering
		explore := func(fn *ssa.Function, binds []absint.Value, colour string, params []absint.Value) {
			x := newExec(c)
			x.Hooks.Decide = func(x *absint.Exec, s *absint.State, atom string, outs []string) {
				// the colour switch: a boolean field or parameter named after colour, wherever the reporter keeps it
				// (r.config.Color, a private copy r.color, a parameter color)
				if len(outs) != 1 {
					return
				}
				// … or a field of a formatter held by value: b(field(f,"color"))
				if strings.HasPrefix(atom, "b(field(") {
					if i := strings.LastIndex(atom, `c:"`); i >= 0 {
						if fld := strings.TrimSuffix(atom[i+3:], `"))`); colourNamed(fld) && !strings.Contains(fld, `"`) {
							s.SetData("colour", map[string]string{"T": "on", "F": "off"}[outs[0]])
						}
					}
					return
				}
				if !strings.HasPrefix(atom, "b(§") {
					return
				}
				name := strings.TrimSuffix(strings.TrimPrefix(atom, "b(§"), ")")
				if strings.HasPrefix(name, "@") {
					name = x.LocOf[name[1:]]
					if i := strings.LastIndex(name, "·"); i >= 0 {
						name = name[i+len("·"):]
					}
				}
				if colourNamed(name) {
					s.SetData("colour", map[string]string{"T": "on", "F": "off"}[outs[0]])
				}
			}
			st := x.NewState(fn, params, binds)
			terms := x.Run(st)
			account(c, x, rule, fn)
			for _, tm := range terms {
				if tm.Kind != "return" || len(tm.Ret) != 1 {
					continue
				}
				pat, ok := pattern(tm.Ret[0])
				if !ok {
					c.Undecide(rule, fname, "rendering", c.P.Pos(tm.Pos), "the formatted number is "+tm.Ret[0].Key()+", not a concatenation of constants and one fmt.Sprintf", nil)
					continue
				}
				var numKey string
				for _, p := range fn.Params {
					if bt, ok := p.Type().Underlying().(*types.Basic); ok && bt.Info()&types.IsFloat != 0 {
						numKey = "§" + p.Name()
					}
				}
				signs := x.OrdOutcomes(tm.State, numKey, "c:0")
				if signs == nil {
					signs = []string{"<", "=", ">"}
				}
				col := colour
				if col == "" {
					col = tm.State.Data["colour"]
				}
				cols := []string{col}
				if col == "" {
					cols = []string{"on", "off"}
				}
				for _, cl := range cols {
					for _, sg := range signs {
						rs = append(rs, rendering{cl, sg, pat, c.P.Pos(tm.Pos)})
					}
				}
			}
		}
		// does the function return a closure selected by a boolean parameter?
		retClosure := false
		if top.Signature.Results().Len() == 1 {
			_, retClosure = top.Signature.Results().At(0).Type().Underlying().(*types.Signature)
		}
		if retClosure && len(top.Params) == 1 {
			for _, on := range []bool{true, false} {
				x := newExec(c)
				st := x.NewState(top, []absint.Value{boolValue(on)}, nil)
				terms := x.Run(st)
				account(c, x, rule, top)
				for _, tm := range terms {
					if clo, ok := tm.Ret[0].(*absint.Closure); ok {
						explore(clo.Fn, clo.Binds, map[bool]string{true: "on", false: "off"}[on], nil)
					}
				}
			}
		} else {
			explore(top, nil, "", nil)
			// a colour switch taken as a parameter must be the colour setting at every call site
			for i, p := range top.Params {
				if bt, ok := p.Type().Underlying().(*types.Basic); !ok || bt.Kind() != types.Bool || !colourNamed(p.Name()) {
					continue
				}
				for _, g := range c.P.Funcs {
					for _, b := range g.Blocks {
						for _, in := range b.Instrs {
							call, ok := in.(ssa.CallInstruction)
							if !ok || core.Callee(call.Common()) != top || i >= len(call.Common().Args) {
								continue
							}
							if a := call.Common().Args[i]; !colourSetting(a, 0) {
								c.Violate(rule, fname, "colour switch at "+core.FuncName(g), c.P.Pos(in.Pos()), "the colour switch handed to "+fname+" is "+a.String()+", not the colour setting", nil)
							}
						}
					}
				}
			}
		}
		// oracle
		plain := ""
		var bad []string
		for _, r := range rs {
			if r.colour == "off" {
				if ansiRe.MatchString(r.pat) {
					bad = append(bad, fmt.Sprintf("%s: with colour off the number is rendered as %q, which contains an escape sequence", r.pos, r.pat))
				}
				if plain == "" {
					plain = r.pat
				} else if plain != r.pat {
					bad = append(bad, fmt.Sprintf("%s: plain renderings differ (%q vs %q)", r.pos, plain, r.pat))
				}
			}
		}
		if plain == "" {
			bad = append(bad, "no colour-off rendering found")
		}
		seen := map[string]bool{}
		for _, r := range rs {
			seen[r.colour+r.sign] = true
			c.Valuations = append(c.Valuations, fmt.Sprintf("%s: colour=%s sign%s0 → %q", fname, r.colour, r.sign, r.pat))
			if r.colour != "on" {
				continue
			}
			if ansiRe.ReplaceAllString(r.pat, "") != plain {
				bad = append(bad, fmt.Sprintf("%s: the coloured rendering %q without its escape sequences is not the plain rendering %q: colour changes the digits or the width", r.pos, r.pat, plain))
			}
			want := ""
			switch r.sign {
			case ">":
				want = "\x1b[31m"
			case "<":
				want = "\x1b[32m"
			}
			codes := ansiRe.FindAllString(r.pat, -1)
			switch {
			case want == "" && len(codes) > 0:
				bad = append(bad, fmt.Sprintf("%s: zero is coloured (%q)", r.pos, r.pat))
			case want != "" && (len(codes) != 2 || codes[0] != want || codes[1] != "\x1b[0m" || !strings.HasPrefix(r.pat, want) || !strings.HasSuffix(r.pat, "\x1b[0m")):
				bad = append(bad, fmt.Sprintf("%s: a number with sign %s0 is rendered %q; expected %q…reset (positive red, negative green)", r.pos, r.sign, r.pat, want))
			}
		}
		for _, k := range []string{"on<", "on=", "on>", "off<", "off=", "off>"} {
			if !seen[k] {
				bad = append(bad, "no rendering for colour/sign "+k)
			}
		}
		bad = uniq(bad)
		if len(bad) == 0 {
			c.Discharge(rule, fname, "colour x sign", pos, fmt.Sprintf("positive red, negative green, zero and colour-off plain; stripped of escapes every rendering is %q (8 cases)", plain))
		}
		for _, m := range bad {
			c.Violate(rule, fname, "colour x sign", pos, m, nil)
		}
	}
}

func colourNamed(name string) bool {
	l := strings.ToLower(name)
	return strings.Contains(l, "color") || strings.Contains(l, "colour")
}

// colourSetting: the value is read from a field or parameter named after colour, unchanged.
func colourSetting(v ssa.Value, depth int) bool {
	if depth > 4 {
		return false
	}
	switch t := v.(type) {
	case *ssa.Parameter:
		return colourNamed(t.Name())
	case *ssa.Field:
		return colourNamed(fieldNameV(t.X.Type(), t.Field))
	case *ssa.UnOp:
		if t.Op != token.MUL {
			return false
		}
		if fa, ok := t.X.(*ssa.FieldAddr); ok {
			return colourNamed(fieldName(fa.X.Type(), fa.Field))
		}
		// a variable of the enclosing function that a closure captured (getFormatValue(hasColor) returning a
		// function that passes hasColor on)
		if fv, ok := t.X.(*ssa.FreeVar); ok {
			return colourNamed(fv.Name())
		}
		if al, ok := t.X.(*ssa.Alloc); ok && al.Comment != "" {
			return colourNamed(al.Comment)
		}
	case *ssa.FreeVar:
		return colourNamed(t.Name())
	case *ssa.Phi:
		for _, e := range t.Edges {
			if !colourSetting(e, depth+1) {
				return false
			}
		}
		return len(t.Edges) > 0
	}
	return false
}

func boolValue(b bool) absint.Value {
	if b {
		return absint.Const{V: constantBool(true)}
	}
	return absint.Const{V: constantBool(false)}
}

// ruleTotalsGates is C15-R4: the totals switches gate lines, they do not alter what is accumulated.
func ruleTotalsGates(c *core.Ctx, rule string) {
	for _, fn := range expansionSites(c.P) {
		if !inPkgs(fn, registerPkg, reporterPkg) {
			continue
		}
		fname := core.FuncName(fn)
		cons, ok := collectContributions(c, rule, fn)
		if !ok {
			continue
		}
		type grp struct{ sink, name, value, found, filter string }
		gates := map[grp]map[string]bool{}
		for _, ct := range cons {
			g := grp{ct.sink, ct.name, ct.value, ct.found, ct.filter}
			if gates[g] == nil {
				gates[g] = map[string]bool{}
			}
			gates[g][ct.gate] = true
		}
		var bad []string
		usesSwitch := false
		for g, gs := range gates {
			for gate := range gs {
				if gate != "" {
					usesSwitch = true
				}
				if g.sink != "Accumulator.Add" {
					continue
				}
				if strings.Contains(gate, "TotalsOnly=F") {
					twin := strings.Replace(gate, "TotalsOnly=F", "TotalsOnly=T", 1)
					if !gs[twin] {
						bad = append(bad, fmt.Sprintf("the day's accumulator receives %s(%s, %s) (found=%s) only when totals-only is off: with --totals-only the totals miss this contribution, so the switch changes the numbers", g.sink, g.name, g.value, g.found))
					}
				}
				if strings.Contains(gate, "TotalsOnly=T") {
					twin := strings.Replace(gate, "TotalsOnly=T", "TotalsOnly=F", 1)
					if !gs[twin] {
						bad = append(bad, fmt.Sprintf("the day's accumulator receives %s(%s, %s) (found=%s) only under --totals-only", g.sink, g.name, g.value, g.found))
					}
				}
			}
		}
		// the lines printed for a food the book defines and for one it does not are gated by the same switches
		pf, pn := map[string]bool{}, map[string]bool{}
		for _, ct := range cons {
			if ct.sink != "print" || ct.value == "" {
				continue
			}
			switch {
			case ct.found == "T" && ct.name == "inner.Name":
				pf[ct.gate] = true
			case ct.found == "F" && ct.name == "outer.Name":
				pn[ct.gate] = true
			}
		}
		if len(pf) > 0 && len(pn) > 0 {
			// compared switch by switch: the values of each switch under which the line is printed
			proj := func(m map[string]bool) map[string]bool {
				out := map[string]bool{}
				for g := range m {
					for _, part := range strings.Split(g, ",") {
						if part != "" {
							out[part] = true
						}
					}
				}
				return out
			}
			a, b := proj(pf), proj(pn)
			same := len(a) == len(b)
			for g := range a {
				if !b[g] {
					same = false
				}
			}
			if !same {
				bad = append(bad, fmt.Sprintf("the ingredient line of a food the book defines is printed under %v, that of a food it does not define under %v (switch values seen on the printing paths): for some combination of --totals-only/--no-totals one of them is shown and the other is not, so the switches change which records appear", keysOf(proj(pf)), keysOf(proj(pn))))
			}
		}
		if !usesSwitch {
			continue
		}
		c.Universe(rule+" sites gated by totals switches", fname)
		bad = uniq(bad)
		if len(bad) == 0 {
			c.Discharge(rule, fname, "gates", c.P.Pos(fn.Pos()), "what is accumulated does not depend on totals-only; the switches only gate which lines are produced")
		}
		for _, m := range bad {
			c.Violate(rule, fname, "gates", c.P.Pos(fn.Pos()), m, nil)
		}
	}
}

// ruleDescMirrors is C15-R5: a descending comparator is the ascending one with the operator flipped.
func ruleDescMirrors(c *core.Ctx, rule string) {
	n := 0
	for _, pkg := range c.P.RootsInScope() {
		info := pkg.TypesInfo
		for _, f := range pkg.Syntax {
			ast.Inspect(f, func(nd ast.Node) bool {
				is, ok := nd.(*ast.IfStmt)
				if !ok || is.Else == nil {
					return true
				}
				eb, ok := is.Else.(*ast.BlockStmt)
				if !ok {
					return true
				}
				a, okA := soleSortComparator(info, is.Body)
				b, okB := soleSortComparator(info, eb)
				if !okA || !okB {
					return true
				}
				n++
				pos := c.P.Pos(is.Pos())
				disc := "if " + exprStr(is.Cond)
				ax, aop, ay, ok1 := cmpParts(a)
				bx, bop, by, ok2 := cmpParts(b)
				mirror := map[token.Token]token.Token{token.LSS: token.GTR, token.GTR: token.LSS, token.LEQ: token.GEQ, token.GEQ: token.LEQ}
				if ok1 && ok2 && ax == bx && ay == by && mirror[aop] == bop {
					c.Discharge(rule, pkg.PkgPath, disc, pos, fmt.Sprintf("descending comparator (%s %s %s) mirrors the ascending one (%s %s %s)", ax, aop, ay, bx, bop, by))
				} else {
					c.Violate(rule, pkg.PkgPath, disc, pos, fmt.Sprintf("the two orders compare (%s %s %s) and (%s %s %s): --desc is not the mirror image of the ascending order, so it shows different rows first, not the same rows reversed", ax, aop, ay, bx, bop, by), nil)
				}
				return true
			})
		}
	}
	if n == 0 {
		c.Note(rule + ": no ascending/descending comparator pair found (vacuous)")
	}
}

func soleSortComparator(info *types.Info, b *ast.BlockStmt) (*ast.FuncLit, bool) {
	if len(b.List) != 1 {
		return nil, false
	}
	es, ok := b.List[0].(*ast.ExprStmt)
	if !ok {
		return nil, false
	}
	call, ok := es.X.(*ast.CallExpr)
	if !ok || len(call.Args) != 2 {
		return nil, false
	}
	fn, _ := typeutil.Callee(info, call).(*types.Func)
	if fn == nil || !strings.HasPrefix(fn.FullName(), "sort.Slice") {
		return nil, false
	}
	lit, ok := call.Args[1].(*ast.FuncLit)
	return lit, ok
}

func cmpParts(lit *ast.FuncLit) (string, token.Token, string, bool) {
	if len(lit.Body.List) != 1 {
		return "", 0, "", false
	}
	rs, ok := lit.Body.List[0].(*ast.ReturnStmt)
	if !ok || len(rs.Results) != 1 {
		return "", 0, "", false
	}
	be, ok := rs.Results[0].(*ast.BinaryExpr)
	if !ok {
		return "", 0, "", false
	}
	return types.ExprString(be.X), be.Op, types.ExprString(be.Y), true
}

func init() {
	register(&Property{
		ID:    "C15",
		Rules: []string{"C15-R1", "C15-R2", "C15-R3", "C15-R4", "C15-R5", "C15-R6", "C15-R7", "C15-R8", "C15-R9", "C15-R10", "C15-R11", "C06-R7", "C15-R12", "C15-R13", "C15-R14", "C05-R4", "C02-R10", "C16-R11", "C12-R6", "C07-R5", "C03-R2"},
		Explain: "Decides that presentation switches are wired so that they cannot change numbers: C15-R1 the templates selectable through the same option show the same set of fields; C15-R3 every shorten width equals the width of the column the name is printed in; C15-R2 every colouring function, over colour on/off x sign(value), renders positive red, negative green, zero and colour-off plain, and stripped of escape sequences every rendering equals the plain one (same verb, same width); " +
			"C15-R4 at the register's expansion sites what goes into the day's accumulator does not depend on totals-only (the switches gate lines only); C15-R5 each descending comparator is the ascending one mirrored; " +
			"C15-R6 presentation flags declared on several levels (no-color) are read through the context lineage so either position works; " +
			"C15-R7 in every collapse mode a balance row shows the visited child's own Total and a subtree is skipped only where the mode joins it into the row; " +
			"C15-R8 the template path (GetReportItem) and the old reporter expand a logged food by the same rule, so choosing a template or the old reporter shows the same records; " +
			"C15-R9 no package-level state (a template cache, a colour switch) is written while a command runs; " +
			"C15-R10 every printf format in the tree is built from constants and constant padding, so no display mode can misprint a name that contains '%'; " +
			"C15-R11 no string is cut at a computed byte position in the command packages (shortening is the rune-aware library's); " +
			"C06-R7 (shared) no reporter or template function converts a date to the process time zone, so every template and the old reporter show the same day. C15-R12 the '=' column is exactly positive + negative register of one name (no rounding or scaling of the parts); C15-R13 every flag of a lineage level is asked for on every level of the context lineage. C15-R14 a function that cuts a name as runes compares rune counts, not byte lengths, with the width. C05-R4 and C02-R10 (shared) no state kept in package variables between days, no row dropped because of its amount: both show in one rendering and not in another. C07-R5 (shared) reporter selectors depend on the single-element request first. C03-R2 (shared) a chain helper answers with the empty list wherever the chain forks.",
		NotDecided: "that two renderings contain the same digits, the interleaving claim, truncation arithmetic inside the truncate library",
		Run: func(c *core.Ctx) {
			ruleSentinel(c, "C03-R2") // collapse joins chains only; a chain that forks is printed level by level
			ruleReporterSelection(c, "C07-R5", nil)
			ruleNoFlagSkipped(c, "C15-R13")
			ruleSumOfRegisters(c, "C15-R12")
			ruleTemplates(c, "", "C15-R1", "C15-R3")
			ruleColourBySign(c, "C15-R2")
			ruleTotalsGates(c, "C15-R4")
			ruleDescMirrors(c, "C15-R5")
			ruleLineage(c, "C15-R6", func(n string) bool { return n != "begin" && n != "end" })
			ruleTreePrinters(c, "C15-R7")
			ruleExpansionSites(c, "C15-R8", func(fn *ssa.Function) bool { return inPkgs(fn, registerPkg, reporterPkg) })
			ruleGlobalState(c, "C15-R9")
			ruleConstFormats(c, "C15-R10", nil)
			ruleNoByteSlicing(c, "C15-R11")
			ruleEnvBoolFlags(c, "C16-R11")
			ruleEmptinessTests(c, "C12-R6") // a block shown only for "more than one row" is shown by one rendering and not by the other
			ruleNoAmountSkips(c, "C02-R10", func(p string) bool { return strings.HasPrefix(p, core.CmdPath) })
			ruleGlobalState(c, "C05-R4") // state kept between days in a package variable shows in one rendering and not in the other
			ruleRuneWidths(c, "C15-R14", func(p string) bool { return strings.HasPrefix(p, core.CmdPath) })
			ruleZoneAPIs(c, "C06-R7")
		},
		Canary: func(c *core.Ctx) {
			ruleRuneWidths(c, "C15-R14", func(p string) bool { return strings.HasPrefix(p, "canary/") })
		},
	})
}

// ruleNoByteSlicing is C15-R11: the command packages never cut a run-time
// string at a computed byte position (s[a:b] with non-constant bounds). Names
// are UTF-8: a byte cut can fall inside a character and a byte count is not a
// column count, so a "shortened" name would be neither a prefix nor a suffix
// of the original nor fit the column. Shortening goes through the rune-aware
// truncate library (C15-R3 checks its widths).
func ruleNoByteSlicing(c *core.Ctx, rule string) {
	n := 0
	for _, fn := range c.P.Funcs {
		if !strings.HasPrefix(core.FnPkgPath(fn), core.CmdPath) {
			continue
		}
		for _, b := range fn.Blocks {
			for _, in := range b.Instrs {
				sl, ok := in.(*ssa.Slice)
				if !ok {
					continue
				}
				if bt, ok := sl.X.Type().Underlying().(*types.Basic); !ok || bt.Info()&types.IsString == 0 {
					continue
				}
				nonConst := false
				for _, bnd := range []ssa.Value{sl.Low, sl.High} {
					if bnd == nil {
						continue
					}
					if !boundarySafe(bnd, 0) {
						nonConst = true
					}
				}
				if !nonConst {
					continue
				}
				n++
				c.Violate(rule, core.FuncName(fn), "slice "+sl.X.Name(), c.P.Pos(sl.Pos()), "a string is cut at a computed byte position: for a name with multi-byte characters the cut can fall inside a character and the byte length is not the column width, so the shortened text is not a prefix/suffix of the original and may not fit", nil)
			}
		}
	}
	if n == 0 {
		c.Discharge(rule, "commands", "no-byte-slicing", "-", "no string is sliced at a computed byte position in the command packages")
	}
}

// boundarySafe: a slice bound that is a constant, a length, the position a
// strings.Index-family search returned, or sums/differences of those — cuts at
// such positions fall on the boundaries of the searched or measured text.
func boundarySafe(v ssa.Value, depth int) bool {
	if depth > 5 {
		return false
	}
	switch x := v.(type) {
	case *ssa.Const:
		return true
	case *ssa.BinOp:
		if x.Op != token.ADD && x.Op != token.SUB {
			return false
		}
		return boundarySafe(x.X, depth+1) && boundarySafe(x.Y, depth+1)
	case *ssa.Call:
		if b, ok := x.Call.Value.(*ssa.Builtin); ok && b.Name() == "len" {
			return true
		}
		if cal := core.Callee(&x.Call); cal != nil {
			n := cal.String()
			return strings.HasPrefix(n, "strings.Index") || strings.HasPrefix(n, "strings.LastIndex") || n == "unicode/utf8.RuneLen"
		}
	case *ssa.Phi:
		for _, e := range x.Edges {
			if !boundarySafe(e, depth+1) {
				return false
			}
		}
		return true
	}
	return false
}

// ruleRuneWidths is C15-R14: a function of the command packages that cuts a name as runes ([]rune(s) sliced at
// computed positions) measures it as runes too: where it compares a length with a computed width, the length is
// that of the rune slice (or a rune count), not len(s) of the string — bytes. A name that fits its column in
// characters but not in bytes would otherwise be cut although it fits, with a prefix and suffix that overlap.
func ruleRuneWidths(c *core.Ctx, rule string, inPkg func(string) bool) {
	n := 0
	for _, fn := range c.P.Funcs {
		if !inPkg(core.FnPkgPath(fn)) {
			continue
		}
		// strings converted to runes, and whether such a rune slice is cut at a computed position
		converted := map[ssa.Value]bool{}
		runes := map[ssa.Value]bool{}
		for _, b := range fn.Blocks {
			for _, in := range b.Instrs {
				cv, ok := in.(*ssa.Convert)
				if !ok {
					continue
				}
				st, isSl := cv.Type().Underlying().(*types.Slice)
				bt, isStr := cv.X.Type().Underlying().(*types.Basic)
				if isSl && isStr && bt.Info()&types.IsString != 0 {
					if et, ok := st.Elem().Underlying().(*types.Basic); ok && et.Kind() == types.Int32 {
						converted[cv.X] = true
						runes[cv] = true
					}
				}
			}
		}
		if len(runes) == 0 {
			continue
		}
		cuts := false
		var byteCmp []*ssa.BinOp
		runeCmp := false
		lenOf := func(v ssa.Value) (ssa.Value, bool) {
			call, ok := v.(*ssa.Call)
			if !ok {
				return nil, false
			}
			if b, ok := call.Call.Value.(*ssa.Builtin); ok && b.Name() == "len" && len(call.Call.Args) == 1 {
				return call.Call.Args[0], true
			}
			if cal := core.Callee(&call.Call); cal != nil && (cal.String() == "unicode/utf8.RuneCountInString" || cal.String() == "unicode/utf8.RuneCount") {
				return nil, true
			}
			return nil, false
		}
		for _, b := range fn.Blocks {
			for _, in := range b.Instrs {
				switch t := in.(type) {
				case *ssa.Slice:
					if runes[t.X] {
						for _, bnd := range []ssa.Value{t.Low, t.High} {
							if bnd == nil {
								continue
							}
							if _, isC := bnd.(*ssa.Const); !isC {
								cuts = true
							}
						}
					}
				case *ssa.BinOp:
					switch t.Op {
					case token.LSS, token.LEQ, token.GTR, token.GEQ:
					default:
						continue
					}
					for i, side := range []ssa.Value{t.X, t.Y} {
						other := []ssa.Value{t.Y, t.X}[i]
						if _, isC := other.(*ssa.Const); isC {
							continue
						}
						arg, ok := lenOf(side)
						if !ok {
							continue
						}
						switch {
						case arg == nil || runes[arg]:
							runeCmp = true
						case converted[arg]:
							byteCmp = append(byteCmp, t)
						}
					}
				}
			}
		}
		if !cuts {
			continue
		}
		n++
		fname := core.FuncName(fn)
		pos := c.P.Pos(fn.Pos())
		c.Universe(rule+" functions that cut names as runes", fname+" ("+pos+")")
		if len(byteCmp) > 0 && !runeCmp {
			c.Violate(rule, fname, "width", c.P.Pos(byteCmp[0].Pos()), "the name is cut as runes but measured in bytes: len of the string is compared with the width and no length of the rune slice is: a name with multi-byte characters that fits its column in characters is cut although it fits, and the prefix and suffix kept can overlap or exceed the name", nil)
		} else {
			c.Discharge(rule, fname, "width", pos, "where a length is compared with a computed width it is a rune count")
		}
	}
	if n == 0 {
		c.Note(rule + ": no function of the command packages cuts a rune slice at a computed position (shortening is left to the truncate library)")
	}
}
