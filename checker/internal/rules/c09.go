package rules

import "hrverif/internal/core"

func init() {
	register(&Property{
		ID:    "C09",
		Rules: []string{"C09-R1", "C09-R2", "C09-R3", "C09-R4", "C09-R5"},
		Explain: "Decides how malformed entries reach the user: C09-R1 the line number is a loop-carried counter with 0 on entry and the same φ+1 on every back edge of the Scan loop (so blank, comment and note lines are counted); " +
			"C09-R2 the quoted line is the raw Scanner.Text() result; C09-R3 every ParseCallback of the tree, given an error, stops with an error deriving from it or prints it and continues; " +
			"C09-R4 lint writes its success message exactly when no malformed line was reported (and not silent); " +
			"C09-R5 an error callback that does not stop leaves the open record in place, so every later malformed line of the record is still reported.",
		NotDecided: "the wording of the messages, and which lines the parser classifies as malformed (C04)",
		Run: func(c *core.Ctx) {
			ruleLineCounter(c, "C09-R1")
			analyseParserLoop(c, map[string]bool{"C09-R2": true, "C09-R5": true})
			ruleCallbackConsumers(c, map[string]bool{"C09-R3": true})
			ruleLintVerdict(c, "C09-R4")
		},
	})
}
