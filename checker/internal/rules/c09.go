package rules

import (
	"fmt"
	"strconv"
	"strings"

	"golang.org/x/tools/go/ssa"

	"hrverif/internal/absint"
	"hrverif/internal/core"
)

func init() {
	register(&Property{
		ID:    "C09",
		Rules: []string{"C09-R1", "C09-R2", "C09-R3", "C09-R4", "C09-R5", "C09-R6", "C09-R7", "C09-R8", "C10-R2", "C10-R3", "C10-R4", "C17-R4"},
		Explain: "Decides how malformed entries reach the user: C10-R3 (shared) no consumer stops the walk early without an error, so no malformed line further down goes unread; C09-R1 the line number is a loop-carried counter with 0 on entry and the same φ+1 on every back edge of the Scan loop (so blank, comment and note lines are counted); " +
			"C09-R2 the quoted line is the raw Scanner.Text() result; C09-R3 every ParseCallback of the tree, given an error, stops with an error deriving from it or prints it and continues; " +
			"C09-R4 lint writes its success message exactly when no malformed line was reported (and not silent); " +
			"C09-R5 an error callback that does not stop leaves the open record in place, so every later malformed line of the record is still reported; " +
			"C09-R6 the Error() text of ErrorBadSyntax and ErrorConversion contains Line unaltered (%s/%v/concatenation, not %q or a truncating verb) and LineNumber in decimal; " +
			"C09-R7 the line classification table (C04-R1) gives every malformed line its error event on every occurrence; " +
			"C09-R8 the commands' file helper hands the parser the opened file itself, not a filtered or rewritten stream, so physical line numbers are the file's; " +
			"C10-R2 (shared) the error the parser returns — a positioned error handed back by a callback as much as a read error — reaches the result of every command on every path (no deferred flush overwrites it).",
		NotDecided: "the wording of the messages beyond containing the line and its number, and the arithmetic of what counts as a number (strconv.ParseFloat)",
		Run: func(c *core.Ctx) {
			ruleLineCounter(c, "C09-R1")
			ruleScannerSetup(c, "C10-R4") // what a line is (and so its number) is decided by bufio.ScanLines on the reader as handed over
			analyseParserLoop(c, map[string]bool{"C09-R2": true, "C09-R5": true, "C09-R7": true})
			ruleCallbackConsumers(c, map[string]bool{"C09-R3": true, "C10-R3": true}) // a consumer that stops early without an error never reads the malformed lines further down
			ruleLintVerdict(c, "C09-R4")
			ruleErrorText(c, "C09-R6") // judged path by path: a helper that cuts or replaces the line on one path only does not pass
			ruleFileReaders(c, "C09-R8")
			// lint's lines reach the output: a writer lint buffers them in is flushed before it reports success
			ruleLocalWriters(c, "C17-R4")
			// "every command that reads the file fails": what the parser returns (a positioned error a callback handed
			// back, like a read error) reaches the command's result on every path
			runErrorFlow(c, "C10-R2", func(cal *ssa.Function, ci ssa.CallInstruction) (bool, string) {
				if cal != nil {
					if w, ok := inputSeeds[cal.String()]; ok {
						return true, w
					}
				}
				return false, ""
			})
		},
	})
}

// ruleErrorText is C09-R6: the message of every positioned parse error contains
// the offending line unaltered and its line number in decimal. A verb that
// re-encodes the line (%q, %x, %.Ns, strconv.Quote) quotes something other than
// what is in the file whenever the line has a quote, a tab or a non-ASCII letter.
func ruleErrorText(c *core.Ctx, rule string) {
	pkg := core.LibPath + "/parser"
	found := 0
	for _, tn := range []string{"ErrorBadSyntax", "ErrorConversion"} {
		fn := c.P.LookupMethod(pkg, tn, "Error")
		if !requireAnchor(c, rule, "parser."+tn+".Error", fn != nil) {
			continue
		}
		found++
		fname := core.FuncName(fn)
		x := newExec(c)
		// field -> how it is rendered, path by path (a helper that cuts the line on one path only must not hide behind
		// the path on which it does not)
		var cur *absint.State
		note := func(field, how string) {
			if cur == nil {
				return
			}
			if prev, ok := cur.Data["verb:"+field]; ok && prev == "verbatim" {
				return
			}
			cur.SetData("verb:"+field, how)
		}
		fieldOf := func(v absint.Value) string {
			if iv, ok := v.(*absint.Iface); ok {
				v = iv.V
			}
			l := locOf(x, v)
			if i := strings.LastIndex(l, "·"); i >= 0 {
				return l[i+len("·"):]
			}
			return ""
		}
		var leaves func(s *absint.State, v absint.Value)
		leaves = func(s *absint.State, v absint.Value) {
			cur = s
			if f := fieldOf(v); f != "" {
				note(f, "verbatim")
				return
			}
			t, ok := v.(*absint.Term)
			if !ok {
				return
			}
			switch {
			case t.Op == "+":
				for _, a := range t.Args {
					leaves(s, a)
				}
			case t.Op == "call:strconv.Itoa" || t.Op == "call:strconv.FormatInt":
				if len(t.Args) > 0 {
					if t.Op == "call:strconv.FormatInt" && (len(t.Args) < 2 || t.Args[1].Key() != "c:10") {
						if f := fieldOf(t.Args[0]); f != "" {
							note(f, "a base other than 10")
						}
						return
					}
					leaves(s, t.Args[0])
				}
			case strings.HasPrefix(t.Op, "call:strconv.Quote"):
				if len(t.Args) > 0 {
					if f := fieldOf(t.Args[0]); f != "" {
						note(f, t.Op[5:])
					}
				}
			case t.Op == "convert" || strings.HasPrefix(t.Op, "convert"):
				for _, a := range t.Args {
					leaves(s, a)
				}
			}
		}
		x.Hooks.Call = func(x *absint.Exec, s *absint.State, site ssa.CallInstruction, callee *ssa.Function, fnv absint.Value, args []absint.Value) (absint.Value, bool) {
			if callee == nil {
				return nil, false
			}
			name := callee.String()
			if name != "fmt.Sprintf" && name != "fmt.Sprint" && name != "fmt.Sprintln" && name != "fmt.Errorf" {
				return nil, false
			}
			cur = s
			var vals []absint.Value
			rest := args
			format := ""
			if name == "fmt.Sprintf" || name == "fmt.Errorf" {
				cst, ok := args[0].(absint.Const)
				if !ok || cst.V == nil {
					return nil, false
				}
				format, _ = strconv.Unquote(cst.V.ExactString())
				rest = args[1:]
			}
			for _, a := range rest {
				if t, ok := a.(*absint.Term); ok && t.Op == "slice" {
					if p, ok := t.Args[0].(absint.Ptr); ok {
						for i := 0; i < 8; i++ {
							hv, ok := s.Heap[fmt.Sprintf("%s[c:%d]", p.Loc, i)]
							if !ok {
								break
							}
							vals = append(vals, hv)
						}
					}
				}
			}
			if format == "" {
				for _, v := range vals {
					leaves(s, v)
				}
				return nil, false
			}
			// tokenise the verbs
			ai := 0
			for i := 0; i < len(format); i++ {
				if format[i] != '%' {
					continue
				}
				j := i + 1
				for j < len(format) && strings.IndexByte("+-# 0123456789.[]*", format[j]) >= 0 {
					j++
				}
				if j >= len(format) {
					break
				}
				v := format[j]
				flags := format[i+1 : j]
				i = j
				if v == '%' {
					continue
				}
				if ai >= len(vals) {
					break
				}
				arg := vals[ai]
				ai++
				f := fieldOf(arg)
				if f == "" {
					// a nested rendering
					if (v == 's' || v == 'v') && flags == "" {
						leaves(s, arg)
					}
					continue
				}
				isInt := f == "LineNumber"
				switch {
				case flags == "" && (v == 'v' || (v == 's' && !isInt) || (v == 'd' && isInt)):
					note(f, "verbatim")
				case flags != "" && strings.Trim(flags, "0123456789- ") == "" && (v == 's' || v == 'd' || v == 'v'):
					// padding only: the text is still contained unaltered
					note(f, "verbatim")
				default:
					note(f, "%"+flags+string(v))
				}
			}
			return nil, false
		}
		terms := x.Run(x.NewState(fn, nil, nil))
		if !account(c, x, rule, fn) {
			continue
		}
		verb := map[string]string{}
		seenAny := map[string]bool{}
		for _, tm := range terms {
			if len(tm.Ret) == 1 {
				leaves(tm.State, tm.Ret[0])
			}
			if tm.Kind != "return" {
				continue
			}
			for _, f := range []string{"Line", "LineNumber"} {
				how, ok := tm.State.Data["verb:"+f]
				switch {
				case !ok:
					if seenAny[f] || len(terms) > 1 {
						if _, had := verb[f]; !had || verb[f] == "verbatim" {
							verb[f] = "nothing at all on one path (the text is cut or replaced there)"
						}
					}
				case how != "verbatim":
					verb[f] = how
				default:
					seenAny[f] = true
					if _, had := verb[f]; !had {
						verb[f] = how
					}
				}
			}
		}
		for _, f := range []string{"Line", "LineNumber"} {
			how, ok := verb[f]
			switch {
			case !ok:
				c.Violate(rule, fname, f, c.P.Pos(fn.Pos()), "the message does not contain the error's "+f+": the user is not shown "+map[string]string{"Line": "the malformed line", "LineNumber": "where the malformed line is"}[f], nil)
			case how != "verbatim":
				c.Violate(rule, fname, f, c.P.Pos(fn.Pos()), "the message renders "+f+" with "+how+", which re-encodes it: a line containing a quote, a tab, a backslash or a non-ASCII letter is not quoted as it stands in the file", nil)
			default:
				c.Discharge(rule, fname, f, c.P.Pos(fn.Pos()), "the message contains "+f+" unaltered")
			}
		}
	}
}
