package rules

import (
	"fmt"
	"strings"

	"golang.org/x/tools/go/ssa"

	"hrverif/internal/absint"
	"hrverif/internal/core"
)

// ruleElementTotalRows is C07-R8: `report element-total` lists the resolved amount of the requested element for every
// food that has it — the same rows the resolved-book CSV has for that element. Which foods are listed is decided by
// the element's name alone: no test in the row-building function looks at an amount (a food whose resolved amount is
// 0, or negative, has a row in the CSV and must have one here), and at least one list is extended inside it.
func ruleElementTotalRows(c *core.Ctx, rule string) {
	reportPkg := core.CmdPath + "/internal/report"
	fn := c.P.LookupFunc(reportPkg, "ReportElement")
	if !requireAnchor(c, rule, "report.ReportElement", fn != nil) {
		return
	}
	fname := core.FuncName(fn)
	x := newExec(c)
	x.Hooks.Inline = func(callee *ssa.Function, depth int) bool {
		// the loading, resolving and printing helpers are other rules' subjects
		return core.FnPkgPath(callee) == reportPkg && callee.Name() != "Flush" || core.FnPkgPath(callee) == core.LibPath && callee.Name() == "NewElement"
	}
	var bad []string
	appends := 0
	x.Hooks.Decide = func(x *absint.Exec, s *absint.State, atom string, outs []string) {
		if len(s.Frames) == 0 || s.Frames[len(s.Frames)-1].Fn.Parent() != nil {
			return // comparators of the sorts look at amounts, legitimately
		}
		for _, m := range loadSymRe.FindAllStringSubmatch(atom, -1) {
			if strings.HasSuffix(x.LocOf[m[1]], "·Value") {
				bad = append(bad, fmt.Sprintf("whether a food is listed depends on %s, a test on an amount: foods whose resolved amount fails it are missing here but present in the resolved-book CSV", atom))
			}
		}
	}
	x.Hooks.Builtin = func(x *absint.Exec, s *absint.State, in *ssa.Call, name string, args []absint.Value) {
		if name == "append" && len(s.Frames) > 0 && s.Frames[len(s.Frames)-1].Fn == fn {
			appends++
		}
	}
	x.Run(x.NewState(fn, nil, nil))
	if !account(c, x, rule, fn) {
		return
	}
	if appends == 0 {
		bad = append(bad, "no list is extended in ReportElement: the rows of the report are not built where the rule looks")
	}
	bad = uniq(bad)
	if len(bad) == 0 {
		c.Discharge(rule, fname, "rows-by-name", c.P.Pos(fn.Pos()), "which foods are listed is decided by name comparisons only; no test looks at an amount")
	}
	for _, m := range bad {
		c.Violate(rule, fname, "rows-by-name", c.P.Pos(fn.Pos()), m, nil)
	}
}

// ruleBookLoaderKeepsAll (C01-R7, shared): the callback that fills the recipe book from the parser stores every
// record it is handed without an error — a record skipped here (one without ingredient lines, say) is a name the
// resolver and every report then take for an undefined one.
func ruleBookLoaderKeepsAll(c *core.Ctx, rule string) {
	n := 0
	for _, cb := range parseCallbacks(c.P) {
		pushes := false
		for _, b := range cb.Blocks {
			for _, in := range b.Instrs {
				if ci, ok := in.(ssa.CallInstruction); ok && isMethod(core.Callee(ci.Common()), core.LibPath, "DBNodeMap", "Push") {
					pushes = true
				}
				if mu, ok := in.(*ssa.MapUpdate); ok && strings.HasSuffix(mu.Map.Type().String(), ".DBNodeMap") {
					pushes = true
				}
			}
		}
		if !pushes || len(cb.Params) < 2 {
			continue
		}
		n++
		fname := core.FuncName(cb)
		pos := c.P.Pos(cb.Pos())
		c.Universe(rule+" book loaders", fname+" ("+pos+")")
		x := newExec(c)
		errP := cb.Params[len(cb.Params)-1]
		x.Hooks.Call = func(x *absint.Exec, s *absint.State, site ssa.CallInstruction, callee *ssa.Function, fnv absint.Value, args []absint.Value) (absint.Value, bool) {
			if isMethod(callee, core.LibPath, "DBNodeMap", "Push") {
				s.SetData("kept", "1")
				return absint.Const{}, true
			}
			return nil, false
		}
		x.Hooks.MapUpdate = func(x *absint.Exec, s *absint.State, in *ssa.MapUpdate, m, k, v absint.Value) {
			if strings.HasSuffix(in.Map.Type().String(), ".DBNodeMap") {
				s.SetData("kept", "1")
			}
		}
		st := x.NewState(cb, nil, nil)
		x.AssumeNil(st, absint.Sym{Name: errP.Name()}, true)
		terms := x.Run(st)
		if !account(c, x, rule, cb) {
			continue
		}
		bad := ""
		paths := 0
		for _, tm := range terms {
			if tm.Kind != "return" {
				continue
			}
			// paths that end with an error of the callback's own are not "handed a record and went on"
			if len(tm.Ret) == 2 && nilnessOf(x, tm.State, tm.Ret[1]) == "nonnil" {
				continue
			}
			paths++
			if tm.State.Data["kept"] != "1" && bad == "" {
				bad = fmt.Sprintf("%s: a record delivered without an error is not stored in the book (%s): a recipe the file defines is treated as undefined — its name stays unexpanded in every recipe that uses it and in every report", c.P.Pos(tm.Pos), x.Valuation(tm.State))
			}
		}
		if bad != "" {
			c.Violate(rule, fname, "keeps-all", pos, bad, nil)
		} else {
			c.Discharge(rule, fname, "keeps-all", pos, fmt.Sprintf("every record delivered without an error is stored (%d paths)", paths))
		}
	}
	if n == 0 {
		c.Undecide(rule, "loaders", "universe", "-", "no parse callback stores records into a DBNodeMap", nil)
	}
}
