package rules

import (
	"fmt"
	"go/constant"
	"go/token"
	"go/types"
	"regexp"
	"strconv"
	"strings"
	"text/template"

	"golang.org/x/tools/go/ssa"

	"hrverif/internal/absint"
	"hrverif/internal/core"
)

// selfRecursive lists in-scope functions that call themselves directly, and
// reports call-graph cycles of more than one function as undecided.
func selfRecursive(c *core.Ctx, rule string) []*ssa.Function {
	var out []*ssa.Function
	calls := map[*ssa.Function][]*ssa.Function{}
	for _, fn := range c.P.Funcs {
		for _, b := range fn.Blocks {
			for _, in := range b.Instrs {
				switch in := in.(type) {
				case ssa.CallInstruction:
					if cal := core.Callee(in.Common()); cal != nil && c.P.InScope(cal) {
						calls[fn] = append(calls[fn], cal)
					}
				case *ssa.MakeClosure:
					calls[fn] = append(calls[fn], in.Fn.(*ssa.Function))
				}
			}
		}
	}
	for _, fn := range c.P.Funcs {
		for _, cal := range calls[fn] {
			if cal == fn {
				out = append(out, fn)
				break
			}
		}
	}
	// longer cycles (Tarjan-free: DFS from each function, bounded)
	for _, fn := range c.P.Funcs {
		seen := map[*ssa.Function]bool{}
		var stack []*ssa.Function
		var dfs func(f *ssa.Function, depth int) bool
		dfs = func(f *ssa.Function, depth int) bool {
			if depth > 12 {
				return false
			}
			for _, cal := range calls[f] {
				if cal == fn && f != fn {
					return true
				}
				if cal == f || seen[cal] {
					continue
				}
				seen[cal] = true
				stack = append(stack, cal)
				if dfs(cal, depth+1) {
					return true
				}
				stack = stack[:len(stack)-1]
			}
			return false
		}
		if dfs(fn, 0) {
			c.Undecide(rule, core.FuncName(fn), "cycle", c.P.Pos(fn.Pos()), "the function lies on a call cycle through other repository functions; no ranking argument is modelled for mutual recursion", nil)
		}
	}
	return out
}

// ruleRecursion is C08-R2: every recursive function has a ranking argument.
func ruleRecursion(c *core.Ctx, rule string) {
	treeT := c.P.LookupType(core.LibPath, "TreeNode")
	for _, fn := range selfRecursive(c, rule) {
		fname := core.FuncName(fn)
		pos := c.P.Pos(fn.Pos())
		c.Universe(rule+" recursive functions", fname+" ("+pos+")")
		depthWhy := ""
		if li, step, ok := levelParam(fn); ok {
			// depth counter: guard dominates every recursive call with the recursion on the small side
			lvl := fn.Params[li]
			for _, b := range fn.Blocks {
				for _, in := range b.Instrs {
					ci, isCall := in.(ssa.CallInstruction)
					if !isCall || core.Callee(ci.Common()) != fn {
						continue
					}
					if !guardedByLevel(lvl, in.Block()) {
						depthWhy = fmt.Sprintf("the recursive call at %s is not dominated by a test that bounds %s from above (level < bound on the path to the call); an equality test does not bound it: a negative or already exceeded limit is never reached", c.P.Pos(in.Pos()), lvl.Name())
					}
				}
			}
			if step <= 0 {
				depthWhy = "the depth parameter does not increase"
			}
			if depthWhy == "" {
				c.Discharge(rule, fname, "depth-counter", pos, fmt.Sprintf("%s grows by %d per call and every recursive call is dominated by %s < bound", lvl.Name(), step, lvl.Name()))
				continue
			}
		}
		// a list that gets shorter: every recursive call passes p[k:] (k >= 1) for a slice parameter p and lies on the
		// side of a test on which len(p) is not zero
		if ok, why := shrinksList(fn); ok {
			c.Discharge(rule, fname, "shrinking-list", pos, why)
			continue
		}
		// structural descent on the tree type
		if treeT != nil {
			if ok, why := descendsTree(c.P, fn, treeT); ok {
				c.Discharge(rule, fname, "structural-descent", pos, why)
				continue
			} else if why != "" {
				c.Undecide(rule, fname, "ranking", pos, "no ranking argument: "+why, nil)
				continue
			}
		}
		if depthWhy != "" {
			c.Violate(rule, fname, "depth-counter", pos, depthWhy, nil)
			continue
		}
		c.Undecide(rule, fname, "ranking", pos, "recursive function with neither a depth counter nor a descent into a tree of freshly allocated nodes", nil)
	}
	if treeT != nil {
		ruleTreeAcyclic(c, rule, treeT)
	}
}

// shrinksList: a ranking argument on the length of a slice parameter.
func shrinksList(fn *ssa.Function) (bool, string) {
	for pi, prm := range fn.Params {
		if _, ok := prm.Type().Underlying().(*types.Slice); !ok {
			continue
		}
		calls, good := 0, 0
		for _, b := range fn.Blocks {
			for _, in := range b.Instrs {
				ci, isCall := in.(ssa.CallInstruction)
				if !isCall || core.Callee(ci.Common()) != fn {
					continue
				}
				calls++
				args := ci.Common().Args
				if pi >= len(args) {
					continue
				}
				sl, ok := args[pi].(*ssa.Slice)
				if !ok || sl.X != ssa.Value(prm) || sl.High != nil {
					continue
				}
				lo, ok := sl.Low.(*ssa.Const)
				if !ok || lo.Value == nil || lo.Int64() < 1 {
					continue
				}
				// dominated by a test of len(prm) on the non-empty side
				if nonEmptyHere(prm, in.Block()) {
					good++
				}
			}
		}
		if calls > 0 && calls == good {
			return true, fmt.Sprintf("every recursive call passes %s[k:] with k >= 1 and is reached only while %s is not empty: the list gets shorter with every call", prm.Name(), prm.Name())
		}
	}
	return false, ""
}

// nonEmptyHere: block is dominated by a test of len(prm) against 0 (or len(prm) > 0 / >= 1) on the side where the
// list is not empty.
func nonEmptyHere(prm *ssa.Parameter, block *ssa.BasicBlock) bool {
	for d := block; d != nil; d = d.Idom() {
		idom := d.Idom()
		if idom == nil {
			break
		}
		ifi, ok := idom.Instrs[len(idom.Instrs)-1].(*ssa.If)
		if !ok {
			continue
		}
		bo, ok := ifi.Cond.(*ssa.BinOp)
		if !ok {
			continue
		}
		isLen := func(v ssa.Value) bool {
			call, ok := v.(*ssa.Call)
			if !ok {
				return false
			}
			b, ok := call.Call.Value.(*ssa.Builtin)
			return ok && b.Name() == "len" && len(call.Call.Args) == 1 && call.Call.Args[0] == ssa.Value(prm)
		}
		k, isC := bo.Y.(*ssa.Const)
		if !isLen(bo.X) || !isC || k.Value == nil {
			continue
		}
		onTrue := idom.Succs[0] == d || idom.Succs[0].Dominates(d)
		onFalse := idom.Succs[1] == d || idom.Succs[1].Dominates(d)
		if onTrue == onFalse {
			continue
		}
		n := k.Int64()
		switch {
		case bo.Op == token.EQL && n == 0 && onFalse,
			bo.Op == token.NEQ && n == 0 && onTrue,
			bo.Op == token.GTR && n >= 0 && onTrue,
			bo.Op == token.GEQ && n >= 1 && onTrue,
			bo.Op == token.LSS && n <= 1 && n >= 1 && onFalse,
			bo.Op == token.LEQ && n == 0 && onFalse:
			return true
		}
	}
	return false
}

// guardedByLevel: some If dominating block compares the level parameter with an
// upper bound, and block lies on the side where level < bound.
func guardedByLevel(lvl *ssa.Parameter, block *ssa.BasicBlock) bool {
	for d := block; d != nil; d = d.Idom() {
		idom := d.Idom()
		if idom == nil {
			break
		}
		ifi, ok := idom.Instrs[len(idom.Instrs)-1].(*ssa.If)
		if !ok {
			continue
		}
		bo, ok := ifi.Cond.(*ssa.BinOp)
		if !ok {
			continue
		}
		// the bound tested by a helper that answers with an error: if err := checkDepth(level, max); err != nil { return err }
		if (bo.Op == token.NEQ || bo.Op == token.EQL) && isErrorType(bo.X.Type()) {
			if k, isC := bo.Y.(*ssa.Const); isC && k.IsNil() {
				if call, isCall := bo.X.(*ssa.Call); isCall {
					if g := core.Callee(&call.Call); g != nil && len(g.Blocks) > 0 {
						for ai, a := range call.Call.Args {
							if a == ssa.Value(lvl) && errorsWhenLevelReachesBound(g, ai) {
								onTrue := idom.Succs[0] == d || idom.Succs[0].Dominates(d)
								onFalse := idom.Succs[1] == d || idom.Succs[1].Dominates(d)
								if onTrue != onFalse && ((bo.Op == token.NEQ && onFalse) || (bo.Op == token.EQL && onTrue)) {
									return true
								}
							}
						}
					}
				}
			}
		}
		op := bo.Op
		var other ssa.Value
		switch {
		case bo.X == ssa.Value(lvl):
			other = bo.Y
		case bo.Y == ssa.Value(lvl):
			other = bo.X
			switch op { // mirror
			case token.LSS:
				op = token.GTR
			case token.LEQ:
				op = token.GEQ
			case token.GTR:
				op = token.LSS
			case token.GEQ:
				op = token.LEQ
			}
		default:
			continue
		}
		_ = other
		// which successor leads to d?
		onTrue := idom.Succs[0] == d || idom.Succs[0].Dominates(d)
		onFalse := idom.Succs[1] == d || idom.Succs[1].Dominates(d)
		if onTrue == onFalse {
			continue
		}
		switch op {
		case token.GEQ, token.GTR:
			if onFalse {
				return true
			}
		case token.LSS, token.LEQ:
			if onTrue {
				return true
			}
		}
	}
	return false
}

// errorsWhenLevelReachesBound: g compares its parameter idx with an upper bound (param >= x or param > x) and
// returns a non-nil error exactly on that side, nil on the other.
func errorsWhenLevelReachesBound(g *ssa.Function, idx int) bool {
	if idx >= len(g.Params) || g.Signature.Results().Len() != 1 || !isErrorType(g.Signature.Results().At(0).Type()) {
		return false
	}
	prm := g.Params[idx]
	for _, b := range g.Blocks {
		ifi, ok := b.Instrs[len(b.Instrs)-1].(*ssa.If)
		if !ok {
			continue
		}
		bo, ok := ifi.Cond.(*ssa.BinOp)
		if !ok {
			continue
		}
		reached := -1 // successor index on which param has reached the bound
		switch {
		case bo.X == ssa.Value(prm) && (bo.Op == token.GEQ || bo.Op == token.GTR):
			reached = 0
		case bo.X == ssa.Value(prm) && (bo.Op == token.LSS || bo.Op == token.LEQ):
			reached = 1
		case bo.Y == ssa.Value(prm) && (bo.Op == token.LEQ || bo.Op == token.LSS):
			reached = 0
		case bo.Y == ssa.Value(prm) && (bo.Op == token.GEQ || bo.Op == token.GTR):
			reached = 1
		}
		if reached < 0 {
			continue
		}
		retOf := func(blk *ssa.BasicBlock) ssa.Value {
			if r, ok := soleReturn(blk); ok {
				return r.Results[0]
			}
			return nil
		}
		hit, miss := retOf(b.Succs[reached]), retOf(b.Succs[1-reached])
		if hit == nil || miss == nil {
			continue
		}
		if k, isC := hit.(*ssa.Const); isC && k.IsNil() {
			continue
		}
		if k, isC := miss.(*ssa.Const); isC && k.IsNil() {
			return true
		}
	}
	return false
}

// descendsTree: every recursive call passes, for some *TreeNode parameter p, a child of p.
func descendsTree(p *core.Program, fn *ssa.Function, treeT *types.Named) (bool, string) {
	pi := -1
	for i, prm := range fn.Params {
		if pt, ok := prm.Type().(*types.Pointer); ok && types.Identical(pt.Elem(), treeT) {
			pi = i
		}
	}
	if pi < 0 {
		return false, ""
	}
	prm := fn.Params[pi]
	var derives func(v ssa.Value, depth int) bool
	derives = func(v ssa.Value, depth int) bool {
		if depth > 6 {
			return false
		}
		switch x := v.(type) {
		case *ssa.Lookup:
			// Children[key] of something that is p (or a child of p)
			if u, ok := x.X.(*ssa.UnOp); ok {
				if fa, ok := u.X.(*ssa.FieldAddr); ok && fieldName(fa.X.Type(), fa.Field) == "Children" {
					return fa.X == ssa.Value(prm) || derives(fa.X, depth+1)
				}
			}
		case *ssa.Extract:
			return derives(x.Tuple, depth+1)
		case *ssa.Call:
			// a method of the tree type on p (or a child) that returns one of the receiver's children
			cal := core.Callee(&x.Call)
			if cal != nil && cal.Signature.Recv() != nil && len(x.Call.Args) > 0 && returnsOwnChild(cal) {
				a := x.Call.Args[0]
				return a == ssa.Value(prm) || derives(a, depth+1)
			}
		case *ssa.Phi:
			for _, e := range x.Edges {
				if !derives(e, depth+1) {
					return false
				}
			}
			return len(x.Edges) > 0
		}
		return false
	}
	n := 0
	for _, b := range fn.Blocks {
		for _, in := range b.Instrs {
			ci, ok := in.(ssa.CallInstruction)
			if !ok || core.Callee(ci.Common()) != fn {
				continue
			}
			n++
			if !derives(ci.Common().Args[pi], 0) {
				return false, fmt.Sprintf("the recursive call at %s does not pass a child of %s", p.Pos(in.Pos()), prm.Name())
			}
		}
	}
	return n > 0, fmt.Sprintf("every recursive call descends from %s to one of its Children; nodes are only ever linked to freshly allocated nodes (checked below), so the descent is finite", prm.Name())
}

// returnsOwnChild: every non-nil result of the method is a lookup in the receiver's Children.
func returnsOwnChild(fn *ssa.Function) bool {
	if len(fn.Params) == 0 {
		return false
	}
	recv := fn.Params[0]
	ok := false
	for _, b := range fn.Blocks {
		for _, in := range b.Instrs {
			r, isR := in.(*ssa.Return)
			if !isR || len(r.Results) != 1 {
				continue
			}
			switch v := r.Results[0].(type) {
			case *ssa.Const:
				if v.Value != nil {
					return false
				}
			case *ssa.Lookup:
				u, isU := v.X.(*ssa.UnOp)
				if !isU {
					return false
				}
				fa, isF := u.X.(*ssa.FieldAddr)
				if !isF || fa.X != ssa.Value(recv) || fieldName(fa.X.Type(), fa.Field) != "Children" {
					return false
				}
				ok = true
			default:
				// the value variable of a range over the receiver's own Children, possibly carried through a scan
				if returnsRangedChild(fn) {
					return true
				}
				return false
			}
		}
	}
	return ok
}

// ruleTreeAcyclic: TreeNode.Children is only ever extended with a node that was
// allocated for that purpose (who-may-write), so the tree has no cycles.
func ruleTreeAcyclic(c *core.Ctx, rule string, treeT *types.Named) {
	for _, fn := range c.P.Funcs {
		for _, b := range fn.Blocks {
			for _, in := range b.Instrs {
				mu, ok := in.(*ssa.MapUpdate)
				if !ok {
					continue
				}
				u, ok := mu.Map.(*ssa.UnOp)
				if !ok {
					continue
				}
				fa, ok := u.X.(*ssa.FieldAddr)
				if !ok || fieldName(fa.X.Type(), fa.Field) != "Children" {
					continue
				}
				pt, ok := fa.X.Type().Underlying().(*types.Pointer)
				if !ok || !types.Identical(pt.Elem(), treeT) {
					continue
				}
				fname := core.FuncName(fn)
				pos := c.P.Pos(mu.Pos())
				prm, isParam := mu.Value.(*ssa.Parameter)
				if !isParam {
					if freshNode(mu.Value) {
						c.Discharge(rule, fname, "children-write", pos, "links a node allocated on the spot")
					} else {
						c.Undecide(rule, fname, "children-write", pos, "a node of unknown origin is linked into TreeNode.Children: the tree may become cyclic and the printing recursion unbounded", nil)
					}
					continue
				}
				// every caller passes a fresh node
				okAll, n := true, 0
				idx := -1
				for i, p := range fn.Params {
					if p == prm {
						idx = i
					}
				}
				for _, g := range c.P.Funcs {
					for _, gb := range g.Blocks {
						for _, gi := range gb.Instrs {
							ci, isCall := gi.(ssa.CallInstruction)
							if !isCall || core.Callee(ci.Common()) != fn {
								continue
							}
							n++
							if !freshNode(ci.Common().Args[idx]) {
								okAll = false
								c.Undecide(rule, core.FuncName(g), "children-write", c.P.Pos(gi.Pos()), "a node that is not freshly allocated is linked into the tree: the tree may become cyclic", nil)
							}
						}
					}
				}
				if okAll {
					c.Discharge(rule, fname, "children-write", pos, fmt.Sprintf("links its parameter; all %d callers pass a node allocated for that call", n))
				}
			}
		}
	}
}

func freshNode(v ssa.Value) bool {
	switch x := v.(type) {
	case *ssa.Alloc:
		return true
	case *ssa.Call:
		cal := core.Callee(&x.Call)
		if cal == nil {
			return false
		}
		for _, b := range cal.Blocks {
			for _, in := range b.Instrs {
				if r, ok := in.(*ssa.Return); ok {
					for _, res := range r.Results {
						if _, isAlloc := res.(*ssa.Alloc); !isAlloc {
							return false
						}
					}
				}
			}
		}
		return len(cal.Blocks) > 0
	}
	return false
}

// ruleAborts is C08-R3: no deliberate aborts outside main; template.Must only on constant, parseable templates.
func ruleAborts(c *core.Ctx, rule string) {
	constStringsProg = c.P
	for _, fn := range c.P.Funcs {
		fname := core.FuncName(fn)
		for _, b := range fn.Blocks {
			for _, in := range b.Instrs {
				switch in := in.(type) {
				case *ssa.Panic:
					if n, ok := panicOnConstTemplate(c.P, in); ok {
						c.Universe(rule+" deliberate aborts", fname+": panic on a template error ("+c.P.Pos(in.Pos())+")")
						c.Discharge(rule, fname, "panic", c.P.Pos(in.Pos()), fmt.Sprintf("the panic is for the error of a constructor that fails only when its template text does not parse, and the %d text(s) it is given here are constants that parse: template.Must written out by hand", n))
						continue
					}
					c.Violate(rule, fname, "panic", c.P.Pos(in.Pos()), "explicit panic in repository code reachable from a command", nil)
				case ssa.CallInstruction:
					cal := core.Callee(in.Common())
					if cal == nil {
						continue
					}
					full := cal.String()
					switch {
					case strings.HasPrefix(full, "log.Fatal") || strings.HasPrefix(full, "log.Panic") || full == "os.Exit":
						c.Universe(rule+" deliberate aborts", fname+": "+full+" ("+c.P.Pos(in.Pos())+")")
						if fn.Name() == "main" && fn.Pkg != nil && fn.Pkg.Pkg.Name() == "main" && fn.Parent() == nil {
							c.Discharge(rule, fname, full, c.P.Pos(in.Pos()), "the process's single exit point for errors")
						} else {
							c.Violate(rule, fname, full, c.P.Pos(in.Pos()), full+" outside main.main ends the process without going through the error path", nil)
						}
					case strings.HasPrefix(full, "regexp.MustCompile"):
						c.Universe(rule+" deliberate aborts", fname+": "+full+" ("+c.P.Pos(in.Pos())+")")
						texts, ok := constStrings(in.Common().Args[0], 0)
						if !ok {
							c.Violate(rule, fname, full, c.P.Pos(in.Pos()), full+" panics when the pattern does not compile, and the pattern here is not a compile-time constant: a pattern supplied by a flag, the configuration or a data file takes the process down instead of producing an error", nil)
							continue
						}
						bad := ""
						for _, t := range texts {
							if _, err := regexp.Compile(t); err != nil {
								bad = err.Error()
							}
						}
						if bad != "" {
							c.Violate(rule, fname, full, c.P.Pos(in.Pos()), "a constant pattern does not compile, so "+full+" panics: "+bad, nil)
						} else {
							c.Discharge(rule, fname, full, c.P.Pos(in.Pos()), fmt.Sprintf("all %d possible patterns are constants and compile", len(texts)))
						}
					case full == "text/template.Must":
						c.Universe(rule+" deliberate aborts", fname+": template.Must ("+c.P.Pos(in.Pos())+")")
						if isTextTemplateClone(in.Common().Args[0]) {
							c.Discharge(rule, fname, "template.Must", c.P.Pos(in.Pos()), "wraps (*text/template.Template).Clone, which never returns an error")
							continue
						}
						texts, ok := templateTexts(in.Common().Args[0])
						if !ok {
							c.Undecide(rule, fname, "template.Must", c.P.Pos(in.Pos()), "template.Must panics on a parse error and the template text is not a set of compile-time constants", nil)
							continue
						}
						bad := ""
						for _, t := range texts {
							if _, err := template.New("t").Funcs(stubFuncs()).Parse(t); err != nil {
								bad = err.Error()
							}
						}
						if bad != "" {
							c.Violate(rule, fname, "template.Must", c.P.Pos(in.Pos()), "a constant template does not parse, so template.Must panics when the reporter is created: "+bad, nil)
						} else {
							c.Discharge(rule, fname, "template.Must", c.P.Pos(in.Pos()), fmt.Sprintf("all %d possible template texts are constants and parse", len(texts)))
						}
					}
				}
			}
		}
	}
}

// isTextTemplateClone: v is (the template result of) a call of text/template's Clone.
func isTextTemplateClone(v ssa.Value) bool {
	if ext, ok := v.(*ssa.Extract); ok {
		v = ext.Tuple
	}
	call, ok := v.(*ssa.Call)
	if !ok {
		return false
	}
	cal := core.Callee(&call.Call)
	return cal != nil && cal.String() == "(*text/template.Template).Clone"
}

func stubFuncs() template.FuncMap {
	return template.FuncMap{
		"formatDate":  func(interface{}) string { return "" },
		"formatValue": func(interface{}) string { return "" },
		"shorten":     func(interface{}, interface{}) string { return "" },
	}
}

// templateTexts follows template.New(..).Funcs(..).Parse(X) back to the constant texts X may be.
func templateTexts(v ssa.Value) ([]string, bool) {
	ext, ok := v.(*ssa.Extract)
	if ok {
		v = ext.Tuple
	}
	call, ok := v.(*ssa.Call)
	if !ok {
		return nil, false
	}
	cal := core.Callee(&call.Call)
	if cal == nil || cal.String() != "(*text/template.Template).Parse" || len(call.Call.Args) != 2 {
		return nil, false
	}
	return constStrings(call.Call.Args[1], 0)
}

// constStrings: the set of compile-time strings v may be (constants, φ of them, or results of a function that returns only constants).
// constStringsProg: the program whose call sites constStrings may consult for parameters of named functions.
var constStringsProg *core.Program

func constStrings(v ssa.Value, depth int) ([]string, bool) {
	if depth > 4 {
		return nil, false
	}
	switch x := v.(type) {
	case *ssa.Const:
		if x.Value != nil && x.Value.Kind() == constant.String {
			return []string{constant.StringVal(x.Value)}, true
		}
	case *ssa.Extract:
		if lk, ok := x.Tuple.(*ssa.Lookup); ok && x.Index == 0 {
			return constStrings(lk, depth+1)
		}
	case *ssa.Lookup:
		// an entry of a package-level table of constants (a map literal nothing ever updates)
		if ld, ok := x.X.(*ssa.UnOp); ok && ld.Op == token.MUL {
			if g, ok := ld.X.(*ssa.Global); ok && constStringsProg != nil {
				return constMapValues(constStringsProg, g)
			}
		}
	case *ssa.Phi:
		var out []string
		for _, e := range x.Edges {
			s, ok := constStrings(e, depth+1)
			if !ok {
				return nil, false
			}
			out = append(out, s...)
		}
		return out, true
	case *ssa.Parameter:
		fn := x.Parent()
		if fn != nil && fn.Parent() == nil && constStringsProg != nil {
			// a named function: every call of it in the tree must hand over a constant
			idx := -1
			for i, prm := range fn.Params {
				if prm == x {
					idx = i
				}
			}
			var out []string
			for _, g := range constStringsProg.Funcs {
				for _, b := range g.Blocks {
					for _, in := range b.Instrs {
						ci, ok := in.(ssa.CallInstruction)
						if !ok || core.Callee(ci.Common()) != fn || idx < 0 || idx >= len(ci.Common().Args) {
							continue
						}
						s, ok := constStrings(ci.Common().Args[idx], depth+1)
						if !ok {
							return nil, false
						}
						out = append(out, s...)
					}
				}
			}
			return out, len(out) > 0
		}
		if fn == nil || fn.Parent() == nil {
			return nil, false
		}
		idx := -1
		for i, prm := range fn.Params {
			if prm == x {
				idx = i
			}
		}
		var out []string
		var scan func(g *ssa.Function) bool
		scan = func(g *ssa.Function) bool {
			for _, b := range g.Blocks {
				for _, in := range b.Instrs {
					ci, ok := in.(ssa.CallInstruction)
					if !ok || core.Callee(ci.Common()) != fn || idx < 0 || idx >= len(ci.Common().Args) {
						continue
					}
					s, ok := constStrings(ci.Common().Args[idx], depth+1)
					if !ok {
						return false
					}
					out = append(out, s...)
				}
			}
			for _, a := range g.AnonFuncs {
				if a != fn && !scan(a) {
					return false
				}
			}
			return true
		}
		// a closure is only callable from the function that creates it (and its other closures), unless it escapes
		for _, b := range fn.Parent().Blocks {
			for _, in := range b.Instrs {
				if mc, ok := in.(*ssa.MakeClosure); ok && mc.Fn == ssa.Value(fn) {
					for _, r := range *mc.Referrers() {
						if _, isCall := r.(ssa.CallInstruction); !isCall {
							if _, isDbg := r.(*ssa.DebugRef); !isDbg {
								return nil, false // stored or passed on: callers unknown
							}
						}
					}
				}
			}
		}
		if !scan(fn.Parent()) {
			return nil, false
		}
		return out, len(out) > 0
	case *ssa.Call:
		cal := core.Callee(&x.Call)
		if cal == nil || len(cal.Blocks) == 0 {
			return nil, false
		}
		var out []string
		for _, b := range cal.Blocks {
			for _, in := range b.Instrs {
				if r, ok := in.(*ssa.Return); ok && len(r.Results) == 1 {
					s, ok := constStrings(r.Results[0], depth+1)
					if !ok {
						return nil, false
					}
					out = append(out, s...)
				}
			}
		}
		return out, len(out) > 0
	}
	return nil, false
}

// ruleNilMapWrite is C08-R4: GetReportItem writes the accumulator only when it was allocated.
func ruleNilMapWrite(c *core.Ctx, rule string) {
	reporterPkg := core.CmdPath + "/internal/reporter"
	fn := c.P.LookupFunc(reporterPkg, "GetReportItem")
	if !requireAnchor(c, rule, "reporter.GetReportItem", fn != nil) {
		return
	}
	fname := core.FuncName(fn)
	x := newExec(c)
	var bad []string
	x.Hooks.MapUpdate = func(x *absint.Exec, s *absint.State, in *ssa.MapUpdate, m, k, v absint.Value) {
		if isNilConst(m) {
			bad = append(bad, fmt.Sprintf("assignment to an entry of a nil map at %s when %s", c.P.Pos(in.Pos()), x.Valuation(s)))
		}
	}
	x.Run(x.NewState(fn, nil, nil))
	if !account(c, x, rule, fn) {
		return
	}
	bad = uniq(bad)
	if len(bad) == 0 {
		c.Discharge(rule, fname, "nil-map", c.P.Pos(fn.Pos()), "over Totals ∈ {T,F} the accumulator is written only on paths that allocated it")
	}
	for _, m := range bad {
		c.Violate(rule, fname, "nil-map", c.P.Pos(fn.Pos()), m, nil)
	}
}

// ruleStringIndex is C08-R5: s[k] with constant k on a string is reached only
// where s (or a trim of s) is known to be non-empty.
func ruleStringIndex(c *core.Ctx, rule string) {
	for _, fn := range c.P.Funcs {
		ruleStringSlices(c, rule, fn)
		var sites []*ssa.Index
		for _, b := range fn.Blocks {
			for _, in := range b.Instrs {
				ix, ok := in.(*ssa.Index)
				if !ok {
					continue
				}
				if bt, ok := ix.X.Type().Underlying().(*types.Basic); !ok || bt.Info()&types.IsString == 0 {
					continue
				}
				if _, isC := ix.Index.(*ssa.Const); isC {
					sites = append(sites, ix)
				}
			}
		}
		if len(sites) == 0 || fn.Parent() != nil && false {
			continue
		}
		fname := core.FuncName(fn)
		okAt := map[*ssa.Index]bool{}
		badAt := map[*ssa.Index]string{}
		// an unexported helper is judged in the context of its callers (what they established about the
		// string holds inside it); anything else is judged on its own
		roots := contextRoots(c.P, fn, 2)
		failed := false
		for _, root := range roots {
			x := newExec(c)
			x.Hooks.Instr = func(x *absint.Exec, s *absint.State, in ssa.Instruction) {
				ix, ok := in.(*ssa.Index)
				if !ok || len(s.Frames) == 0 {
					return
				}
				isSite := false
				for _, st := range sites {
					if st == ix {
						isSite = true
					}
				}
				if !isSite {
					return
				}
				f := s.Frames[len(s.Frames)-1]
				xv, ok := f.Env[ix.X]
				if !ok {
					if cst, isC := ix.X.(*ssa.Const); isC && cst.Value != nil && len(constant.StringVal(cst.Value)) > 0 {
						okAt[ix] = true
					}
					return
				}
				if nonEmptyKnown(x, s, xv) {
					okAt[ix] = true
				} else {
					badAt[ix] = nonEmptyText(x.Valuation(s))
				}
			}
			x.Run(x.NewState(root, nil, nil))
			if !account(c, x, rule, root) {
				failed = true
			}
		}
		if failed {
			continue
		}
		for _, st := range sites {
			pos := c.P.Pos(st.Pos())
			c.Universe(rule+" constant string indexings", fname+" "+st.String()+" ("+pos+")")
			disc := "index " + st.X.Name()
			switch {
			case badAt[st] != "":
				c.Violate(rule, fname, disc, pos, "a string is indexed at a constant position on a path that has not established it is non-empty ("+badAt[st]+"): an input line made only of trimmed characters panics with index out of range", nil)
			case okAt[st]:
				c.Discharge(rule, fname, disc, pos, "reached only where the string, or a trim of it, was tested non-empty")
			default:
				c.Discharge(rule, fname, disc, pos, "not reachable in the abstract exploration")
			}
		}
	}
}

// contextRoots: the functions from which fn is explored — fn itself when it is
// exported, a closure, or has no static caller in the tree; otherwise its callers
// (going up at most depth levels through unexported helpers).
func contextRoots(p *core.Program, fn *ssa.Function, depth int) []*ssa.Function {
	if depth == 0 || fn.Parent() != nil || fn.Object() == nil || fn.Object().Exported() {
		return []*ssa.Function{fn}
	}
	var callers []*ssa.Function
	seen := map[*ssa.Function]bool{}
	for _, g := range p.Funcs {
		for _, b := range g.Blocks {
			for _, in := range b.Instrs {
				if ci, ok := in.(ssa.CallInstruction); ok && core.Callee(ci.Common()) == fn && g != fn && !seen[g] {
					seen[g] = true
					callers = append(callers, g)
				}
			}
		}
	}
	if len(callers) == 0 {
		return []*ssa.Function{fn}
	}
	var out []*ssa.Function
	for _, g := range callers {
		top := g
		for top.Parent() != nil {
			top = top.Parent()
		}
		if top != g {
			out = append(out, g) // a closure: explored as it stands
			continue
		}
		out = append(out, contextRoots(p, g, depth-1)...)
	}
	return out
}

// nonEmptyKnown: the path condition says v != "" for v itself or for strings.Trim*(v, …).
func nonEmptyKnown(x *absint.Exec, s *absint.State, v absint.Value) bool {
	vk := v.Key()
	for k := range s.PC {
		if !strings.HasPrefix(k, "ord(") {
			continue
		}
		parts := splitTop(strings.TrimSuffix(strings.TrimPrefix(k, "ord("), ")"))
		if len(parts) != 2 {
			continue
		}
		var other string
		switch {
		case parts[0] == `c:""`:
			other = parts[1]
		case parts[1] == `c:""`:
			other = parts[0]
		default:
			continue
		}
		outs := x.Possible(s, k)
		nonEq := len(outs) > 0
		for _, o := range outs {
			if o == "=" {
				nonEq = false
			}
		}
		if !nonEq {
			continue
		}
		if other == vk {
			return true
		}
		// trim of v non-empty ⇒ v non-empty
		for _, fnn := range []string{"call:strings.Trim(", "call:strings.TrimSpace(", "call:strings.TrimLeft(", "call:strings.TrimRight(", "call:strings.TrimPrefix(", "call:strings.TrimSuffix("} {
			if strings.HasPrefix(other, fnn+vk+",") || other == fnn+vk+")" {
				return true
			}
		}
	}
	return false
}

func init() {
	register(&Property{
		ID:    "C08",
		Rules: []string{"C08-R1", "C08-R2", "C08-R3", "C08-R4", "C08-R5", "C08-R6", "C08-R7", "C08-R8", "C08-R9", "C08-R10", "C08-R11", "C08-R12", "C08-R13"},
		Explain: "Decides the crash and hang mechanisms visible in the shape of this code (not general panic freedom): C08-R1 the (record, err) contract of ParseCallback on both sides — the parser passes (non-nil, nil) or (nil, non-nil) and no callback dereferences the record when an error is given; " +
			"C08-R2 every recursive function has a ranking argument (depth counter bounded from above on the path to the call, or descent into a tree whose nodes are only linked to freshly allocated nodes); " +
			"C08-R3 no panic/log.Fatal/os.Exit outside main.main, template.Must and regexp.MustCompile only on constants that parse; C08-R8 on the path where os.Open fails nothing but Close is called on the nil file; C08-R7 where acc[k][i] indexes a plain lookup in an accumulator the function filled itself, every key added is known to equal k; C08-R6 WithFileReaders stores a reader for every requested name before calling back; C08-R4 the accumulator map is written only when allocated; " +
			"C08-R5 constant-position string indexing is reached only where the string is known non-empty. C08-R9 an error handed to a wrapping constructor whose Error() calls the wrapped error's Error() is known to be non-nil at the call; C08-R10 no loop has a stutter path and no trimming loop can leave its text unchanged; every loop is listed with its termination argument. C08-R11 the nil that a getter of the tree answers for \"there is none\" (TreeNode.FirstChild) is never dereferenced: every use is on a path that settled that there is one (helpers judged in the context of their callers). C08-R12 the position Elements.Index answers is used as an index only where its second answer was tested true (for a miss it is 0, out of range on an empty list). C08-R13 an integer is divided by a computed value only where a test against a literal has excluded 0.",
		NotDecided: "index/slice bounds and nil dereferences in general, stack exhaustion under an absurd --maxdepth, termination of third-party code, a reader that never ends",
		Run: func(c *core.Ctx) {
			analyseParserLoop(c, map[string]bool{"C08-R1": true})
			ruleCallbackConsumers(c, map[string]bool{"C08-R1": true})
			ruleRecursion(c, "C08-R2")
			ruleAborts(c, "C08-R3")
			ruleNilMapWrite(c, "C08-R4")
			ruleStringIndex(c, "C08-R5")
			ruleConvertedIndex(c, "C08-R5")
			ruleFileReaders(c, "C08-R6")
			ruleNilFromGetter(c, "C08-R11")
			ruleIndexFound(c, "C08-R12")
			ruleIntegerDivision(c, "C08-R13")
			ruleUncheckedLookup(c, "C08-R7")
			ruleNilFile(c, "C08-R8")
			ruleWrappedErrorsSet(c, "C08-R9")
			ruleLoopProgress(c, "C08-R10")
		},
		Canary: func(c *core.Ctx) {
			ruleLoopProgress(c, "C08-R10")
			ruleNilFromGetter(c, "C08-R11")
			ruleIntegerDivision(c, "C08-R13")
		},
	})
}

// ruleFileReaders is C08-R6: the helper that opens the files of a command hands
// its callback a reader for every requested name — a slot left nil is
// dereferenced by the first consumer that scans it.
func ruleFileReaders(c *core.Ctx, rule string) {
	ctor := c.P.LookupFunc(core.CmdPath+"/internal/utils", "NewCmdUtils")
	if !requireAnchor(c, rule, "utils.NewCmdUtils", ctor != nil) {
		return
	}
	var fn *ssa.Function
	// the constructor, or a function of the package it delegates to (newCmdUtils(fs, …))
	for _, g := range c.P.Funcs {
		if core.FnPkgPath(g) != core.FnPkgPath(ctor) {
			continue
		}
		for _, b := range g.Blocks {
			for _, in := range b.Instrs {
				st, ok := in.(*ssa.Store)
				if !ok {
					continue
				}
				fa, ok := st.Addr.(*ssa.FieldAddr)
				if !ok || fieldName(fa.X.Type(), fa.Field) != "WithFileReaders" || !strings.HasSuffix(fa.X.Type().String(), "utils.CmdUtils") {
					continue
				}
				switch v := st.Val.(type) {
				case *ssa.Function:
					fn = v
				case *ssa.MakeClosure:
					fn, _ = v.Fn.(*ssa.Function)
				}
			}
		}
	}
	if !requireAnchor(c, rule, "the function stored in CmdUtils.WithFileReaders", fn != nil) {
		return
	}
	fname := core.FuncName(fn)
	x := newExec(c)
	x.Hooks.Devirt = uniqueImpl(c) // a file-system interface with the one real implementation
	var bad []string
	iterations, calls := 0, 0
	x.Hooks.Call = func(x *absint.Exec, s *absint.State, site ssa.CallInstruction, callee *ssa.Function, fnv absint.Value, args []absint.Value) (absint.Value, bool) {
		if callee == nil && site.Parent() == fn && !site.Common().IsInvoke() {
			// the callback
			calls++
			return absint.Sym{Name: "cbresult"}, true
		}
		return nil, false
	}
	x.Hooks.Store = func(x *absint.Exec, s *absint.State, in *ssa.Store, addr, val absint.Value) {
		if in.Parent() != fn {
			return
		}
		if _, ok := in.Addr.(*ssa.IndexAddr); !ok {
			return
		}
		s.SetData("stored", "1")
		if k, ok := val.(absint.Const); ok && k.Nil {
			bad = append(bad, "a nil reader is stored for a requested file")
		}
		if !types.IsInterface(in.Val.Type()) {
			// an intermediate list of the opened files themselves ([]*os.File): the conversion to readers is checked where it happens
			if in.Val.Type().String() != "*os.File" {
				s.SetData("stored", "")
			}
			return
		}
		if iv, ok := val.(*absint.Iface); !ok || iv.T == nil || iv.T.String() != "*os.File" {
			bad = append(bad, "the reader handed to the command is "+val.Key()+", not an opened *os.File: what the parser sees (bytes, line ends, line numbers) is no longer the file itself")
		}
	}
	x.Hooks.BackEdge = func(x *absint.Exec, s *absint.State, f *absint.Frame, h *ssa.BasicBlock) {
		if f.Fn != fn {
			return
		}
		iterations++
		if s.Data["stored"] != "1" {
			bad = append(bad, "an iteration over the file names ends without storing a reader for that name: the callback receives a nil io.Reader and the scanner built on it dereferences nil")
		}
		s.SetData("stored", "")
	}
	st := x.NewState(fn, nil, nil)
	if len(fn.FreeVars) > 0 {
		// a closure over variables of the constructor (the opener it was given): run the constructor first and start
		// the closure with what it captured there
		x0 := newExec(c)
		for _, tm := range x0.Run(x0.NewState(ctor, nil, nil)) {
			var cl *absint.Closure
			var find func(v absint.Value, depth int)
			find = func(v absint.Value, depth int) {
				if depth > 4 || cl != nil {
					return
				}
				switch t := v.(type) {
				case *absint.Closure:
					if t.Fn == fn {
						cl = t
					}
				case *absint.Struct:
					for _, f := range t.Fields {
						find(f, depth+1)
					}
				}
			}
			for _, r := range tm.Ret {
				find(r, 0)
			}
			for _, hv := range tm.State.Heap {
				find(hv, 0)
			}
			if cl != nil && len(x0.Problems) == 0 && !x0.Exhausted {
				st = x.NewState(fn, nil, cl.Binds)
				for k, v := range tm.State.Heap {
					st.Heap[k] = v
				}
				for k, v := range tm.State.PC {
					st.PC[k] = v
				}
				break
			}
		}
	}
	x.Run(st)
	if !account(c, x, rule, fn) {
		return
	}
	if iterations == 0 || calls == 0 {
		bad = append(bad, fmt.Sprintf("explored %d iterations over the file names and %d callback invocations: the helper no longer has the expected shape", iterations, calls))
	}
	bad = uniq(bad)
	if len(bad) == 0 {
		c.Discharge(rule, fname, "every-slot", c.P.Pos(fn.Pos()), "every iteration either returns the open error or stores the opened file in the slot of that name before the callback runs")
	}
	for _, m := range bad {
		c.Violate(rule, fname, "every-slot", c.P.Pos(fn.Pos()), m, nil)
	}
}

// ruleUncheckedLookup is C08-R7: where a function indexes the result of a plain
// (no comma-ok) lookup in an accumulator it filled itself — acc[k][i] — every
// key it put into the accumulator is known to equal k on the path that added
// it. Otherwise the map can be non-empty without holding k, the lookup yields
// nil and the index panics.
func ruleUncheckedLookup(c *core.Ctx, rule string) {
	accT := c.P.LookupType(core.LibPath, "Accumulator")
	if !requireAnchor(c, rule, "lib.Accumulator", accT != nil) {
		return
	}
	n := 0
	for _, fn := range c.P.Funcs {
		var sites []*ssa.Lookup
		for _, b := range fn.Blocks {
			for _, in := range b.Instrs {
				lk, ok := in.(*ssa.Lookup)
				if !ok || lk.CommaOk || !types.Identical(lk.X.Type(), accT) {
					continue
				}
				indexed := false
				for _, r := range *lk.Referrers() {
					switch r.(type) {
					case *ssa.Index, *ssa.IndexAddr:
						indexed = true
					}
				}
				if indexed {
					sites = append(sites, lk)
				}
			}
		}
		if len(sites) == 0 {
			continue
		}
		fname := core.FuncName(fn)
		x := newExec(c)
		type added struct {
			name string
			eqs  map[string]bool
			pos  string
		}
		var adds []added
		keys := map[*ssa.Lookup]map[string]bool{}
		guarded := map[*ssa.Lookup]bool{}
		x.Hooks.Call = func(x *absint.Exec, s *absint.State, site ssa.CallInstruction, callee *ssa.Function, fnv absint.Value, args []absint.Value) (absint.Value, bool) {
			if isMethod(callee, core.LibPath, "Accumulator", "Add") && len(args) == 3 {
				eqs := map[string]bool{}
				for k := range s.PC {
					if !strings.HasPrefix(k, "ord(") {
						continue
					}
					if o := x.Possible(s, k); len(o) == 1 && o[0] == "=" {
						parts := splitTop(strings.TrimSuffix(strings.TrimPrefix(k, "ord("), ")"))
						if len(parts) == 2 {
							eqs[parts[0]+"|"+parts[1]] = true
							eqs[parts[1]+"|"+parts[0]] = true
						}
					}
				}
				adds = append(adds, added{args[1].Key(), eqs, c.P.Pos(site.Pos())})
				return absint.Const{}, true
			}
			return nil, false
		}
		x.Hooks.Instr = func(x *absint.Exec, s *absint.State, in ssa.Instruction) {
			lk, ok := in.(*ssa.Lookup)
			if !ok || len(s.Frames) == 0 {
				return
			}
			for _, st := range sites {
				if st == lk {
					f := s.Frames[len(s.Frames)-1]
					if kv, ok := f.Env[lk.Index]; ok {
						// only a key that comes from outside (a field of the receiver or of the configuration, a
						// parameter) is at issue; keys read back from the map itself or from a list collected
						// from it are present by construction
						loc := locOf(x, kv)
						_, isSym := kv.(absint.Sym)
						external := strings.HasPrefix(loc, "L:§") && !strings.Contains(loc, "[") && !strings.Contains(loc, "lookup(") || (isSym && loc == "" && x.KeepSyms[strings.TrimPrefix(kv.Key(), "§")])
						if !external {
							continue
						}
						if keys[lk] == nil {
							keys[lk] = map[string]bool{}
						}
						keys[lk][kv.Key()] = true
					} else if cst, ok := lk.Index.(*ssa.Const); ok {
						if keys[lk] == nil {
							keys[lk] = map[string]bool{}
						}
						keys[lk][absint.Const{V: cst.Value}.Key()] = true
					}
				}
			}
		}
		x.Run(x.NewState(fn, nil, nil))
		if !account(c, x, rule, fn) {
			continue
		}
		_ = guarded
		for _, lk := range sites {
			n++
			pos := c.P.Pos(lk.Pos())
			c.Universe(rule+" indexed plain lookups", fname+" ("+pos+")")
			var bad []string
			for k := range keys[lk] {
				for _, a := range adds {
					if a.name == k || a.eqs[a.name+"|"+k] {
						continue
					}
					bad = append(bad, fmt.Sprintf("%s: the accumulator receives the key %s, which is not known to equal the key %s it is later read with", a.pos, a.name, k))
				}
			}
			bad = uniq(bad)
			if len(keys[lk]) == 0 {
				c.Discharge(rule, fname, "lookup "+lk.Name(), pos, "not reachable in the abstract exploration")
			} else if len(bad) == 0 {
				c.Discharge(rule, fname, "lookup "+lk.Name(), pos, fmt.Sprintf("every key added to the accumulator (%d sites) equals the key it is read with", len(adds)))
			}
			for _, m := range bad {
				c.Violate(rule, fname, "lookup "+lk.Name(), pos, m+": the map can be non-empty without holding that key, the lookup yields a nil slice and indexing it panics", nil)
			}
		}
	}
	if n == 0 {
		c.Note(rule + ": no indexed plain lookup in an accumulator")
	}
}

// ruleStringSlices (part of C08-R5): s[:k], s[k:] and s[a:b] with constant
// bounds on a string are reached only where the path condition says the
// string is at least that long.
func ruleStringSlices(c *core.Ctx, rule string, fn *ssa.Function) {
	type site struct {
		in   *ssa.Slice
		need int64
	}
	var sites []site
	for _, b := range fn.Blocks {
		for _, in := range b.Instrs {
			sl, ok := in.(*ssa.Slice)
			if !ok {
				continue
			}
			if bt, ok := sl.X.Type().Underlying().(*types.Basic); !ok || bt.Info()&types.IsString == 0 {
				continue
			}
			var need int64
			for _, bnd := range []ssa.Value{sl.Low, sl.High} {
				if k, ok := bnd.(*ssa.Const); ok && k.Value != nil && k.Int64() > need {
					need = k.Int64()
				}
			}
			if need > 0 {
				sites = append(sites, site{sl, need})
			}
		}
	}
	if len(sites) == 0 {
		return
	}
	fname := core.FuncName(fn)
	okAt, badAt := map[*ssa.Slice]bool{}, map[*ssa.Slice]string{}
	failed := false
	for _, root := range contextRoots(c.P, fn, 2) {
		x := newExec(c)
		x.Hooks.Instr = func(x *absint.Exec, s *absint.State, in ssa.Instruction) {
			sl, ok := in.(*ssa.Slice)
			if !ok || len(s.Frames) == 0 {
				return
			}
			for _, st := range sites {
				if st.in != sl {
					continue
				}
				f := s.Frames[len(s.Frames)-1]
				xv, ok := f.Env[sl.X]
				if !ok {
					if cst, isC := sl.X.(*ssa.Const); isC && cst.Value != nil && int64(len(constant.StringVal(cst.Value))) >= st.need {
						okAt[sl] = true
					}
					return
				}
				if lenAtLeast(x, s, xv, st.need) {
					okAt[sl] = true
				} else {
					badAt[sl] = nonEmptyText(x.Valuation(s))
				}
			}
		}
		x.Run(x.NewState(root, nil, nil))
		if !account(c, x, rule, root) {
			failed = true
		}
	}
	if failed {
		return
	}
	for _, st := range sites {
		pos := c.P.Pos(st.in.Pos())
		c.Universe(rule+" constant string indexings", fname+" "+st.in.String()+" ("+pos+")")
		disc := "slice " + st.in.X.Name()
		switch {
		case badAt[st.in] != "":
			c.Violate(rule, fname, disc, pos, fmt.Sprintf("a string is sliced at the constant position %d on a path that has not established it is that long (%s): a shorter string panics with slice bounds out of range", st.need, badAt[st.in]), nil)
		case okAt[st.in]:
			c.Discharge(rule, fname, disc, pos, fmt.Sprintf("reached only where the string is known to have at least %d bytes", st.need))
		default:
			c.Discharge(rule, fname, disc, pos, "not reachable in the abstract exploration")
		}
	}
}

// lenAtLeast: the path condition implies len(v) >= k.
func lenAtLeast(x *absint.Exec, s *absint.State, v absint.Value, k int64) bool {
	if k <= 1 && nonEmptyKnown(x, s, v) {
		return true
	}
	lk := "len(" + v.Key() + ")"
	for a := range s.PC {
		if !strings.HasPrefix(a, "ord(") {
			continue
		}
		parts := splitTop(strings.TrimSuffix(strings.TrimPrefix(a, "ord("), ")"))
		if len(parts) != 2 {
			continue
		}
		outs := x.Possible(s, a)
		if len(outs) == 0 {
			continue
		}
		has := func(o string) bool {
			for _, y := range outs {
				if y == o {
					return true
				}
			}
			return false
		}
		var bound int64 = -1
		switch {
		case parts[1] == lk && strings.HasPrefix(parts[0], "c:"):
			// ord(K, len): "<" K<len ; "=" K==len ; ">" K>len
			K, err := strconv.ParseInt(strings.TrimPrefix(parts[0], "c:"), 10, 64)
			if err != nil || has(">") {
				continue
			}
			bound = K
			if !has("=") {
				bound = K + 1
			}
		case parts[0] == lk && strings.HasPrefix(parts[1], "c:"):
			K, err := strconv.ParseInt(strings.TrimPrefix(parts[1], "c:"), 10, 64)
			if err != nil || has("<") {
				continue
			}
			bound = K
			if !has("=") {
				bound = K + 1
			}
		}
		if bound >= k {
			return true
		}
	}
	return false
}

// ruleNilFile is C08-R8: where os.Open (Create, OpenFile) fails, the file it
// returned is nil; on that path nothing but Close may be called on it.
func ruleNilFile(c *core.Ctx, rule string) {
	openers := map[string]bool{"os.Open": true, "os.Create": true, "os.OpenFile": true}
	n := 0
	for _, fn := range c.P.Funcs {
		opens := false
		for _, b := range fn.Blocks {
			for _, in := range b.Instrs {
				if ci, ok := in.(ssa.CallInstruction); ok {
					if cal := core.Callee(ci.Common()); cal != nil && openers[cal.String()] {
						opens = true
					}
				}
			}
		}
		if !opens || fn.Parent() != nil && false {
			continue
		}
		n++
		fname := core.FuncName(fn)
		x := newExec(c)
		x.Hooks.Inline = func(callee *ssa.Function, depth int) bool { return false }
		var bad []string
		x.Hooks.Call = func(x *absint.Exec, s *absint.State, site ssa.CallInstruction, callee *ssa.Function, fnv absint.Value, args []absint.Value) (absint.Value, bool) {
			if callee == nil {
				return nil, false
			}
			if openers[callee.String()] {
				f, e := x.Fresh(s, "file"), x.Fresh(s, "openerr")
				s.SetData("pair:"+e.Key(), f.Key())
				return &absint.Tuple{Elems: []absint.Value{f, e}}, true
			}
			if strings.HasPrefix(callee.String(), "(*os.File).") && callee.Name() != "Close" && len(args) > 0 {
				if nilnessOf(x, s, args[0]) == "nil" {
					bad = append(bad, fmt.Sprintf("%s: %s is called on the file of an open that failed (the file is nil there): nil pointer dereference", c.P.Pos(site.Pos()), callee.Name()))
				}
			}
			return nil, false
		}
		x.Hooks.Decide = func(x *absint.Exec, s *absint.State, atom string, outs []string) {
			if len(outs) != 1 || outs[0] != "nonnil" || !strings.HasPrefix(atom, "nil(§openerr") {
				return
			}
			ek := strings.TrimSuffix(strings.TrimPrefix(atom, "nil("), ")")
			if fk := s.Data["pair:"+ek]; fk != "" {
				x.AssumeNil(s, absint.Sym{Name: strings.TrimPrefix(fk, "§")}, true)
			}
		}
		x.Run(x.NewState(fn, nil, nil))
		if !account(c, x, rule, fn) {
			continue
		}
		bad = uniq(bad)
		if len(bad) == 0 {
			c.Discharge(rule, fname, "nil-file", c.P.Pos(fn.Pos()), "on the path where the open fails nothing is called on the (nil) file")
		}
		for _, m := range bad {
			c.Violate(rule, fname, "nil-file", c.P.Pos(fn.Pos()), m, nil)
		}
	}
	if n == 0 {
		c.Note(rule + ": no function opens a file")
	}
}

// panicOnConstTemplate: the panic's operand is the error answered by a call of a function of the tree whose only
// source of errors is (*text/template.Template).Parse of a text it is handed, and the texts handed over at this call
// are compile-time constants that parse. The count of texts is returned.
func panicOnConstTemplate(p *core.Program, pn *ssa.Panic) (int, bool) {
	v := pn.X
	if mi, ok := v.(*ssa.MakeInterface); ok {
		v = mi.X
	}
	if ci, ok := v.(*ssa.ChangeInterface); ok {
		v = ci.X
	}
	ext, ok := v.(*ssa.Extract)
	if !ok || !isErrorType(ext.Type()) {
		return 0, false
	}
	call, ok := ext.Tuple.(*ssa.Call)
	if !ok {
		return 0, false
	}
	f := core.Callee(&call.Call)
	if f == nil || !p.InScope(f) || len(f.Blocks) == 0 {
		return 0, false
	}
	// every error f returns is nil or the error of one Parse call on a parameter of f
	var parse *ssa.Call
	for _, b := range f.Blocks {
		ret, ok := b.Instrs[len(b.Instrs)-1].(*ssa.Return)
		if !ok || len(ret.Results) == 0 {
			continue
		}
		ev := ret.Results[len(ret.Results)-1]
		if cst, isC := ev.(*ssa.Const); isC && cst.IsNil() {
			continue
		}
		ex2, ok := ev.(*ssa.Extract)
		if !ok {
			return 0, false
		}
		pc, ok := ex2.Tuple.(*ssa.Call)
		if !ok {
			return 0, false
		}
		cal := core.Callee(&pc.Call)
		if cal == nil || cal.String() != "(*text/template.Template).Parse" || len(pc.Call.Args) != 2 || (parse != nil && parse != pc) {
			return 0, false
		}
		parse = pc
	}
	if parse == nil {
		return 0, false
	}
	// no other call in f answers an error that f could pass on under another name (kept simple: f has no other error-valued calls)
	for _, b := range f.Blocks {
		for _, in := range b.Instrs {
			if c2, ok := in.(*ssa.Call); ok && c2 != parse {
				if res := c2.Call.Signature().Results(); res.Len() > 0 && isErrorType(res.At(res.Len()-1).Type()) {
					return 0, false
				}
			}
		}
	}
	prm, ok := parse.Call.Args[1].(*ssa.Parameter)
	if !ok {
		return 0, false
	}
	idx := -1
	for i, q := range f.Params {
		if q == prm {
			idx = i
		}
	}
	if idx < 0 || idx >= len(call.Call.Args) {
		return 0, false
	}
	constStringsProg = p
	texts, ok := constStrings(call.Call.Args[idx], 0)
	if !ok || len(texts) == 0 {
		return 0, false
	}
	for _, t := range texts {
		if _, err := template.New("t").Funcs(stubFuncs()).Parse(t); err != nil {
			return 0, false
		}
	}
	return len(texts), true
}

// constMapValues: the string values of a package-level map that is given a literal of constant keys and values in
// its package initialiser and is never updated, reassigned or handed to code that could (C05-R4 decides the latter).
func constMapValues(p *core.Program, g *ssa.Global) ([]string, bool) {
	if g.Pkg == nil {
		return nil, false
	}
	init := g.Pkg.Func("init")
	if init == nil {
		return nil, false
	}
	var mk *ssa.MakeMap
	for _, b := range init.Blocks {
		for _, in := range b.Instrs {
			if st, ok := in.(*ssa.Store); ok && st.Addr == ssa.Value(g) {
				m, isMk := st.Val.(*ssa.MakeMap)
				if !isMk || mk != nil {
					return nil, false
				}
				mk = m
			}
		}
	}
	if mk == nil {
		return nil, false
	}
	var out []string
	for _, r := range *mk.Referrers() {
		switch t := r.(type) {
		case *ssa.MapUpdate:
			vals, ok := constStrings(t.Value, 3)
			if !ok {
				return nil, false
			}
			out = append(out, vals...)
		case *ssa.Store, *ssa.DebugRef:
		default:
			return nil, false
		}
	}
	// nothing else writes it
	for _, fn := range p.Funcs {
		for _, b := range fn.Blocks {
			for _, in := range b.Instrs {
				switch t := in.(type) {
				case *ssa.Store:
					if t.Addr == ssa.Value(g) {
						return nil, false
					}
				case *ssa.MapUpdate:
					if ld, ok := t.Map.(*ssa.UnOp); ok && ld.X == ssa.Value(g) {
						return nil, false
					}
				}
			}
		}
	}
	return out, len(out) > 0
}
