package rules

import (
	"fmt"
	"go/constant"
	"go/token"
	"go/types"
	"sort"
	"strings"

	"golang.org/x/tools/go/ssa"

	"hrverif/internal/absint"
	"hrverif/internal/core"
	"hrverif/internal/flow"
)

const (
	filterPkg  = core.LibPath + "/filter"
	optionsPkg = core.CmdPath + "/internal/options"
	utilsPkg   = core.CmdPath + "/internal/utils"
	parserPkg  = core.LibPath + "/parser"
)

// timeOrdAtom maps Time.Equal/After/Before(a,b) onto one three-valued atom per operand pair.
func timeOrdAtom(cond absint.Value) *absint.Atom {
	t, ok := cond.(*absint.Term)
	if !ok || len(t.Args) != 2 {
		return nil
	}
	var tr []string
	switch t.Op {
	case "call:(time.Time).Equal":
		tr = []string{"="}
	case "call:(time.Time).After":
		tr = []string{">"}
	case "call:(time.Time).Before":
		tr = []string{"<"}
	default:
		return nil
	}
	a, b := t.Args[0].Key(), t.Args[1].Key()
	// one atom per pair whichever side the method is called on: end.After(t) is t.Before(end)
	if b == "§t" || (a != "§t" && b < a) {
		a, b = b, a
		tr = []string{map[string]string{"=": "=", "<": ">", ">": "<"}[tr[0]]}
	}
	return &absint.Atom{Name: "tord(" + a + "," + b + ")", Domain: []string{"<", "=", ">"}, True: tr}
}

// timeBool: the truth value of a filter result that is a constant or a time comparison handed back as it is
// (return !hasEnd || end.After(t)), under the given orderings of the day against the bounds.
func timeBool(v absint.Value, ob, oe string) (bool, bool) {
	if b, ok := boolOf(v); ok {
		return b, true
	}
	t, ok := v.(*absint.Term)
	if !ok {
		return false, false
	}
	if t.Op == "!" && len(t.Args) == 1 {
		b, ok := timeBool(t.Args[0], ob, oe)
		return !b, ok
	}
	a := timeOrdAtom(v)
	if a == nil {
		return false, false
	}
	var o string
	switch a.Name {
	case "tord(§t,§begin)":
		o = ob
	case "tord(§t,§end)":
		o = oe
	default:
		return false, false
	}
	for _, tv := range a.True {
		if tv == o {
			return true, true
		}
	}
	return false, true
}

// C06-R1: the interval predicate, exhaustively over nil(begin) x nil(end) x ord(t,begin) x ord(t,end).
func ruleC06R1(c *core.Ctx) {
	const rule = "C06-R1"
	get := c.P.LookupFunc(filterPkg, "GetIntervalNodeFilter")
	cfgT := c.P.LookupType(filterPkg, "Config")
	if !requireAnchor(c, rule, "filter.GetIntervalNodeFilter", get != nil) || !requireAnchor(c, rule, "filter.Config", cfgT != nil) {
		return
	}
	st, _ := cfgT.Underlying().(*types.Struct)
	bi, ei := -1, -1
	for i := 0; st != nil && i < st.NumFields(); i++ {
		switch st.Field(i).Name() {
		case "BeginningTime":
			bi = i
		case "EndTime":
			ei = i
		}
	}
	if !requireAnchor(c, rule, "filter.Config{BeginningTime,EndTime}", bi >= 0 && ei >= 0) {
		return
	}
	fname := core.FuncName(get)
	cases := 0
	for _, hasB := range []bool{false, true} {
		for _, hasE := range []bool{false, true} {
			x := newExec(c)
			x.Hooks.Atom = func(_ *absint.Exec, _ *absint.State, cond absint.Value) *absint.Atom { return timeOrdAtom(cond) }
			fields := make([]absint.Value, st.NumFields())
			for i := range fields {
				fields[i] = absint.Top{}
			}
			fields[bi], fields[ei] = absint.Const{Nil: true}, absint.Const{Nil: true}
			s := x.NewState(get, nil, nil)
			if hasB {
				fields[bi] = absint.Ptr{Loc: "X:begin", Fresh: true}
				s.Heap["X:begin"] = absint.Sym{Name: "begin"}
			}
			if hasE {
				fields[ei] = absint.Ptr{Loc: "X:end", Fresh: true}
				s.Heap["X:end"] = absint.Sym{Name: "end"}
			}
			s.Frames[0].Env[get.Params[0]] = &absint.Struct{T: cfgT, Fields: fields}
			terms := x.Run(s)
			account(c, x, rule, get)
			disc := fmt.Sprintf("begin=%v,end=%v", hasB, hasE)
			if len(terms) != 1 || terms[0].Kind != "return" || len(terms[0].Ret) != 1 {
				c.Undecide(rule, fname, disc, c.P.Pos(get.Pos()), fmt.Sprintf("constructor has %d abstract outcomes for a fixed configuration; expected one", len(terms)), nil)
				continue
			}
			ret := terms[0].Ret[0]
			if !hasB && !hasE {
				cases++
				if isNilConst(ret) {
					c.Discharge(rule, fname, disc, c.P.Pos(get.Pos()), "no bounds: no filter object (nil)")
				} else {
					c.Violate(rule, fname, disc, c.P.Pos(get.Pos()), "with neither bound set a filter object is returned; every record must then pass it", describe(x, terms[0]))
				}
				continue
			}
			// locate the closure behind the returned pointer
			var clo *absint.Closure
			if p, ok := ret.(absint.Ptr); ok {
				clo, _ = terms[0].State.Heap[p.Loc].(*absint.Closure)
			} else if cl, ok := ret.(*absint.Closure); ok {
				clo = cl
			}
			if clo == nil {
				c.Violate(rule, fname, disc, c.P.Pos(get.Pos()), fmt.Sprintf("with a bound set the constructor returns %s, not a filter function", ret.Key()), describe(x, terms[0]))
				continue
			}
			// phase 2: run the filter on a symbolic day
			x2 := newExec(c)
			x2.Hooks.Atom = x.Hooks.Atom
			var stateWrites []string
			x2.Hooks.Store = func(_ *absint.Exec, _ *absint.State, in *ssa.Store, addr, val absint.Value) {
				if p, ok := addr.(absint.Ptr); ok {
					pre := !strings.HasPrefix(p.Loc, "A:")
					for k := range terms[0].State.Heap {
						if p.Loc == k || strings.HasPrefix(p.Loc, k+"·") || strings.HasPrefix(k, p.Loc+"·") {
							pre = true
						}
					}
					if pre {
						stateWrites = append(stateWrites, fmt.Sprintf("%s at %s", p.Loc, c.P.Pos(in.Pos())))
					}
				}
			}
			s2 := x2.NewState(clo.Fn, []absint.Value{absint.Sym{Name: "t"}, absint.Sym{Name: "node"}}, clo.Binds)
			for k, v := range terms[0].State.Heap {
				s2.Heap[k] = v
			}
			t2 := x2.Run(s2)
			account(c, x2, rule, clo.Fn)
			bad := 0
			for _, tm := range t2 {
				if tm.Kind != "return" || len(tm.Ret) != 2 {
					c.Violate(rule, fname, disc, c.P.Pos(tm.Pos), "filter ends in "+tm.Kind, describe(x2, tm))
					bad++
					continue
				}
				pb := x2.Possible(tm.State, "tord(§t,§begin)")
				pe := x2.Possible(tm.State, "tord(§t,§end)")
				if pb == nil {
					pb = []string{"<", "=", ">"}
				}
				if pe == nil {
					pe = []string{"<", "=", ">"}
				}
				for _, ob := range pb {
					for _, oe := range pe {
						cases++
						want := (!hasB || ob != "<") && (!hasE || oe != ">")
						val := fmt.Sprintf("%s ord(t,begin)=%s ord(t,end)=%s", disc, ob, oe)
						c.Valuations = append(c.Valuations, val)
						got, isBool := timeBool(tm.Ret[0], ob, oe)
						if !isBool {
							c.Violate(rule, fname, disc, c.P.Pos(tm.Pos), fmt.Sprintf("filter result %s is not decided by the orderings of the day against the bounds (%s)", tm.Ret[0].Key(), val), describe(x2, tm))
							bad++
						} else if got != want {
							c.Violate(rule, fname, disc, c.P.Pos(tm.Pos), fmt.Sprintf("day selected=%v but begin<=day<=end is %v for %s", got, want, val), describe(x2, tm))
							bad++
						}
					}
				}
				if !isNilConst(tm.Ret[1]) {
					c.Violate(rule, fname, disc, c.P.Pos(tm.Pos), "filter returns a non-nil error", describe(x2, tm))
					bad++
				}
			}
			if len(stateWrites) > 0 {
				c.Violate(rule, fname, disc+",stateless", c.P.Pos(clo.Fn.Pos()), "the filter writes state that outlives one record ("+strings.Join(stateWrites, "; ")+"): selection then depends on the order of days", nil)
				bad++
			}
			if bad == 0 {
				c.Discharge(rule, fname, disc, c.P.Pos(clo.Fn.Pos()), fmt.Sprintf("all orderings agree with begin<=day<=end (%d abstract paths)", len(t2)))
			}
		}
	}
	c.Universe(rule+" valuations", fmt.Sprintf("%d (nil(begin) x nil(end) x ord(t,begin) x ord(t,end))", cases))
}

// walkCallback finds the ParseCallback closure that utils.WalkNodesInStream hands to the parser.
func walkCallback(c *core.Ctx, rule string) (*ssa.Function, *ssa.Function) {
	walk := c.P.LookupFunc(utilsPkg, "WalkNodesInStream")
	psc := c.P.LookupFunc(parserPkg, "ParseStreamCallback")
	if !requireAnchor(c, rule, "utils.WalkNodesInStream", walk != nil) || !requireAnchor(c, rule, "parser.ParseStreamCallback", psc != nil) {
		return nil, nil
	}
	cbs := closuresPassedTo(walk, psc, 2)
	if len(cbs) == 0 {
		// the walk hands its arguments on to a worker of the package (WalkNodesInStreamWithOptions) that does it
		for _, b := range walk.Blocks {
			for _, in := range b.Instrs {
				if ci, ok := in.(ssa.CallInstruction); ok {
					if g := core.Callee(ci.Common()); g != nil && g != walk && core.FnPkgPath(g) == utilsPkg {
						if more := closuresPassedTo(g, psc, 2); len(more) > 0 {
							cbs = append(cbs, more...)
						}
					}
				}
			}
		}
	}
	if len(cbs) != 1 {
		c.Undecide(rule, core.FuncName(walk), "callback", c.P.Pos(walk.Pos()), fmt.Sprintf("expected WalkNodesInStream to hand one callback to ParseStreamCallback, found %d", len(cbs)), nil)
		return walk, nil
	}
	return walk, cbs[0]
}

// C06-R2: the filter gates every record. Over nil(err) x parse ok x nil(filter) x ok x nil(ferr):
// Reporter.Process is reached exactly when there is no error and (no filter or ok), and a
// record the filter rejects neither stops the walk nor fails it.
func ruleC06R2(c *core.Ctx) {
	const rule = "C06-R2"
	walk, cb := walkCallback(c, rule)
	if cb == nil {
		return
	}
	fname := core.FuncName(cb)
	for _, errNil := range []bool{true, false} {
		x := newExec(c)
		var nodeV, errV absint.Value
		if errNil {
			nodeV, errV = absint.Sym{Name: "node"}, absint.Const{Nil: true}
		} else {
			nodeV, errV = absint.Const{Nil: true}, absint.Sym{Name: "perr"}
		}
		type procEv struct {
			val  string
			pos  string
			path []string
		}
		var procs []procEv
		x.Hooks.Call = func(x *absint.Exec, s *absint.State, site ssa.CallInstruction, callee *ssa.Function, fnv absint.Value, args []absint.Value) (absint.Value, bool) {
			if site.Common().IsInvoke() && site.Common().Method.Name() == "Process" {
				s.SetData("process", "1")
				procs = append(procs, procEv{x.Valuation(s), c.P.Pos(site.Pos()), append([]string(nil), s.Path...)})
				s.Event("Reporter.Process")
			}
			return nil, false
		}
		// the filter is the parameter of WalkNodesInStream that points to a function
		filterParam := ""
		for _, p := range walk.Params {
			t := p.Type()
			for i := 0; i < 2; i++ {
				if pt, ok := t.Underlying().(*types.Pointer); ok {
					t = pt.Elem()
				}
			}
			if sig, ok := t.Underlying().(*types.Signature); ok && sig.Results().Len() == 2 {
				filterParam = p.Name()
			}
		}
		if filterParam == "" {
			c.Undecide(rule, fname, "gate", c.P.Pos(cb.Pos()), "WalkNodesInStream has no filter parameter; the gate cannot be located", nil)
			return
		}
		// phase 1: run WalkNodesInStream up to the point where it hands the callback to the parser
		var clo *absint.Closure
		var heap0 map[string]absint.Value
		x1 := newExec(c)
		x1.Hooks.Call = func(x *absint.Exec, s *absint.State, site ssa.CallInstruction, callee *ssa.Function, fnv absint.Value, args []absint.Value) (absint.Value, bool) {
			if callee != nil && isFunc(callee, parserPkg, "ParseStreamCallback") && len(args) == 3 {
				if cl, ok := args[2].(*absint.Closure); ok && clo == nil {
					clo = cl
					heap0 = map[string]absint.Value{}
					for k, v := range s.Heap {
						heap0[k] = v
					}
				}
				return x.Fresh(s, "parseerr"), true
			}
			return nil, false
		}
		x1.Run(x1.NewState(walk, nil, nil))
		account(c, x1, rule, walk)
		if clo == nil || clo.Fn != cb {
			c.Undecide(rule, fname, "gate", c.P.Pos(cb.Pos()), "the callback value handed to the parser could not be determined", nil)
			return
		}
		x.Hooks.Decide = func(x *absint.Exec, s *absint.State, atom string, outs []string) {
			if len(outs) != 1 {
				return
			}
			switch {
			case strings.HasPrefix(atom, "b(§call:dyn") && strings.Contains(atom, ".0#"):
				s.SetData("fok", outs[0])
			case strings.HasPrefix(atom, "nil(§call:dyn") && strings.Contains(atom, ".1#"):
				s.SetData("ferr", outs[0])
			case strings.HasPrefix(atom, "nil(call:time.Parse#1"):
				s.SetData("parse", outs[0])
			case atom == "nil(§"+filterParam+")":
				s.SetData("filter", outs[0])
			case strings.HasPrefix(atom, "nil(§@"):
				id := strings.TrimSuffix(strings.TrimPrefix(atom, "nil(§@"), ")")
				_ = id
			}
		}
		x.KeepSyms = map[string]bool{filterParam: true}
		s := x.NewState(cb, []absint.Value{nodeV, errV}, clo.Binds)
		for k, v := range heap0 {
			s.Heap[k] = v
		}
		// a captured variable the callback writes may hold anything an earlier record left in it
		for i, fv := range cb.FreeVars {
			written := false
			for _, r := range *fv.Referrers() {
				if st, ok := r.(*ssa.Store); ok && st.Addr == ssa.Value(fv) {
					written = true
				}
			}
			if written && i < len(clo.Binds) {
				if p, ok := clo.Binds[i].(absint.Ptr); ok {
					s.Heap[p.Loc] = absint.Sym{Name: "carried:" + fv.Name()}
				}
			}
		}
		if !errNil {
			x.AssumeNil(s, errV, false)
		} else {
			x.AssumeNil(s, nodeV, false)
		}
		terms := x.Run(s)
		account(c, x, rule, cb)
		bad := 0
		sawProcNoFilter, sawProcFilter := false, false
		for _, tm := range terms {
			if tm.Kind != "return" || len(tm.Ret) != 2 {
				c.Violate(rule, fname, "gate", c.P.Pos(tm.Pos), "callback ends in "+tm.Kind, describe(x, tm))
				bad++
				continue
			}
			d := tm.State.Data
			val := fmt.Sprintf("nil(err)=%v filter=%s ok=%s ferr=%s parse=%s", errNil, d["filter"], d["fok"], d["ferr"], d["parse"])
			c.Valuations = append(c.Valuations, val)
			processed := d["process"] == "1"
			stop, stopKnown := boolOf(tm.Ret[0])
			retNil := isNilConst(tm.Ret[1]) || nilnessOf(x, tm.State, tm.Ret[1]) == "nil"
			if !errNil {
				if processed {
					c.Violate(rule, fname, "gate", c.P.Pos(tm.Pos), "a record is processed although the parser reported an error", describe(x, tm))
					bad++
				}
				continue
			}
			filterNil := d["filter"] == "nil"
			okFalse := d["fok"] == "F"
			okTrue := d["fok"] == "T"
			parseFailed := d["parse"] == "nonnil"
			ferrNonNil := d["ferr"] == "nonnil"
			switch {
			case parseFailed || ferrNonNil:
				if processed || retNil {
					c.Violate(rule, fname, "gate", c.P.Pos(tm.Pos), "a heading that cannot be parsed (or a failing filter) does not end the walk with an error", describe(x, tm))
					bad++
				}
			case okFalse:
				if processed {
					c.Violate(rule, fname, "gate", c.P.Pos(tm.Pos), "a record rejected by the period filter is processed", describe(x, tm))
					bad++
				}
				if !stopKnown || stop || !retNil {
					c.Violate(rule, fname, "gate", c.P.Pos(tm.Pos), fmt.Sprintf("a record rejected by the period filter ends the walk (stop=%s, err=%s): later days inside the period are lost", tm.Ret[0].Key(), tm.Ret[1].Key()), describe(x, tm))
					bad++
				}
			default:
				// selected (no filter, or ok): must have been processed unless Process itself failed
				if !processed {
					c.Violate(rule, fname, "gate", c.P.Pos(tm.Pos), "a selected record is not handed to the reporter", describe(x, tm))
					bad++
				}
				if filterNil {
					sawProcNoFilter = true
				}
				if okTrue {
					sawProcFilter = true
				}
			}
		}
		if errNil {
			if !sawProcNoFilter || !sawProcFilter {
				c.Violate(rule, fname, "gate", c.P.Pos(cb.Pos()), fmt.Sprintf("no path hands a record to the reporter when filter absent=%v / filter accepts=%v", sawProcNoFilter, sawProcFilter), nil)
				bad++
			}
			// the time handed to the filter and stored in the log node derives from this record's heading
			_ = procs
		}
		if bad == 0 {
			c.Discharge(rule, fname, fmt.Sprintf("gate nil(err)=%v", errNil), c.P.Pos(cb.Pos()), fmt.Sprintf("%d abstract paths agree with the gate table", len(terms)))
		}
	}
}

func possibleIs(x *absint.Exec, s *absint.State, prefix, outcome string) bool {
	for k := range s.PC {
		if strings.HasPrefix(k, prefix) {
			outs := x.Possible(s, k)
			if len(outs) == 1 && outs[0] == outcome {
				return true
			}
		}
	}
	return false
}

// C06-R5: keywords resolve against the supplied "now", never the wall clock.
func ruleC06R5(c *core.Ctx) {
	const rule = "C06-R5"
	fn := c.P.LookupFunc(optionsPkg, "GetTimeFromString")
	if !requireAnchor(c, rule, "options.GetTimeFromString", fn != nil) {
		return
	}
	fname := core.FuncName(fn)
	want := map[string]int{"today": 0, "yesterday": -1, "last7": -7, "last30": -30}
	x := newExec(c)
	clock := 0
	x.Hooks.Call = func(x *absint.Exec, s *absint.State, site ssa.CallInstruction, callee *ssa.Function, fnv absint.Value, args []absint.Value) (absint.Value, bool) {
		if callee != nil && callee.String() == "time.Now" {
			clock++
			s.Event("time.Now at %s", c.P.Pos(site.Pos()))
			return absint.Sym{Name: "wallclock"}, true
		}
		return nil, false
	}
	s := x.NewState(fn, nil, nil)
	terms := x.Run(s)
	account(c, x, rule, fn)
	bad := 0
	// no result of any path may depend on the wall clock
	for _, tm := range terms {
		if tm.Kind != "return" || len(tm.Ret) != 2 {
			continue
		}
		if absint.Mentions(tm.Ret[0], "wallclock") {
			c.Violate(rule, fname, "clock", c.P.Pos(tm.Pos), fmt.Sprintf("the resolved date %s depends on the wall clock, not on the supplied now (--today)", tm.Ret[0].Key()), describe(x, tm))
			bad++
		}
	}
	// each keyword, given literally, yields now shifted by its number of days (comparison chains, switches and
	// constant lookup tables all evaluate on the literal)
	dateIdx := -1
	for i, p := range fn.Params {
		if p.Name() == "date" {
			dateIdx = i
		}
	}
	if dateIdx < 0 {
		dateIdx = len(fn.Params) - 1
	}
	kws := make([]string, 0, len(want))
	for k := range want {
		kws = append(kws, k)
	}
	sort.Strings(kws)
	for _, kw := range kws {
		xk := newExec(c)
		xk.Hooks.Call = x.Hooks.Call
		params := make([]absint.Value, len(fn.Params))
		for i, p := range fn.Params {
			params[i] = absint.Sym{Name: p.Name()}
		}
		params[dateIdx] = absint.Const{V: constant.MakeString(kw)}
		kterms := xk.Run(xk.NewState(fn, params, nil))
		account(c, xk, rule, fn)
		c.Valuations = append(c.Valuations, "date="+kw)
		rets := 0
		for _, tm := range kterms {
			if tm.Kind != "return" || len(tm.Ret) != 2 {
				continue
			}
			rets++
			ret := tm.Ret[0]
			okShape := false
			if n := want[kw]; n == 0 {
				okShape = ret.Key() == "§now" || isCallOn(ret, "(time.Time).Local", "§now")
			} else if t, ok := termCall(ret, "(time.Time).AddDate"); ok && len(t.Args) == 4 {
				okShape = t.Args[0].Key() == "§now" && intConst(t.Args[1]) == 0 && intConst(t.Args[2]) == 0 && intConst(t.Args[3]) == int64(n)
			}
			if !okShape || !isNilConst(tm.Ret[1]) {
				c.Violate(rule, fname, "keyword "+kw, c.P.Pos(tm.Pos), fmt.Sprintf("keyword %q resolves to %s (err %s); expected now shifted by %d days", kw, ret.Key(), tm.Ret[1].Key(), want[kw]), describe(xk, tm))
				bad++
			}
		}
		if rets == 0 {
			c.Violate(rule, fname, "keyword "+kw, c.P.Pos(fn.Pos()), fmt.Sprintf("no path returns for the keyword %q", kw), nil)
			bad++
		}
	}
	if bad == 0 {
		c.Discharge(rule, fname, "keywords", c.P.Pos(fn.Pos()), fmt.Sprintf("today/yesterday/last7/last30 derive from the supplied now; no result depends on time.Now (%d paths)", len(terms)))
	}
}

func isCallOn(v absint.Value, method, recvKey string) bool {
	t, ok := termCall(v, method)
	return ok && len(t.Args) >= 1 && t.Args[0].Key() == recvKey
}

func intConst(v absint.Value) int64 {
	if cst, ok := v.(absint.Const); ok && cst.V != nil && cst.V.Kind() == constant.Int {
		n, _ := constant.Int64Val(cst.V)
		return n
	}
	return 1 << 40
}

func init() {
	register(&Property{
		ID:    "C06",
		Rules: []string{"C06-R1", "C06-R2", "C06-R3", "C06-R4", "C06-R5", "C06-R6", "C06-R7", "C06-R8", "C06-R9", "C15-R13"},
		Explain: "Decides the comparison logic and wiring of period selection: C06-R1 the interval predicate evaluated exhaustively over nil(begin) x nil(end) x ord(day,begin) x ord(day,end) equals begin<=day<=end and is stateless; " +
			"C06-R2 the per-record callback hands a record to the reporter exactly when there is no error and (no filter or the filter accepts), and a rejected record neither stops nor fails the walk; " +
			"C06-R3 every walk over the log is handed a filter that derives (value flow) from GetIntervalNodeFilter applied to Options.FilterConfig; " +
			"C06-R4 --begin/--end, declared on the application and on commands, are read from the context lineage root-first so the innermost position wins; " +
			"C06-R5 the keywords today/yesterday/last7/last30 derive from the supplied now and nothing derives from time.Now; " +
			"C06-R6 the summary window is time.Date(Year,Month,Day of the requested date, 0:00 / last instant, the date's own Location), wherever it is built, and it replaces the period: neither bound is set only where -b/-e had left none; " +
			"C06-R7 time-zone dependent calls (Local, In, UTC, ParseInLocation, LoadLocation, time.Local) occur only at the two allowed sites, so no date is moved to the process zone or across a daylight-saving switch; " +
			"C06-R8 in package options a bound derives from its own flag only, and the two bounds of a period never point at one variable that is assigned more than once (begin and end parsed into a shared temporary would both end as the last value parsed); " +
			"C06-R9 on every successful path through Options.Load the date format and the current date that the period bounds were resolved with are the ones the path ends with (the bounds are resolved after --today, --date-format and the configuration file have been applied).",
		NotDecided: "time-zone independence of date parsing itself, equality of a filtered run with the run on the filtered file",
		Assumptions: []string{
			"time.Time.Equal/After/Before form a total order (exactly one of <,=,> holds)",
		},
		Run: func(c *core.Ctx) {
			ruleNoFlagSkipped(c, "C15-R13")
			ruleC06R1(c)
			ruleC06R2(c)
			ruleC06R3(c)
			ruleLineage(c, "C06-R4", func(n string) bool { return n == "begin" || n == "end" })
			ruleC06R5(c)
			ruleC06R6(c)
			ruleZoneAPIs(c, "C06-R7")
			ruleOwnBoundCells(c, "C06-R8")
			ruleBoundsAfterSettings(c, "C06-R9")
		},
	})
}

// ruleOwnBoundCells is C06-R8: the bounds of a period are pointers; a variable whose address is stored into both
// BeginningTime and EndTime and that is assigned more than once makes both bounds the value assigned last.
func ruleOwnBoundCells(c *core.Ctx, rule string) {
	cfgT := c.P.LookupType(filterPkg, "Config")
	if !requireAnchor(c, rule, "filter.Config", cfgT != nil) {
		return
	}
	type use struct {
		fields map[string]string // bound → position of the store
		fn     *ssa.Function
	}
	cells := map[*ssa.Alloc]*use{}
	stores := 0
	var flowG *flow.Graph
	var foreign []string
	for _, fn := range c.P.Funcs {
		for _, b := range fn.Blocks {
			for _, in := range b.Instrs {
				st, ok := in.(*ssa.Store)
				if !ok {
					continue
				}
				fa, ok := st.Addr.(*ssa.FieldAddr)
				if !ok {
					continue
				}
				pt, ok := fa.X.Type().Underlying().(*types.Pointer)
				if !ok || !types.Identical(pt.Elem(), cfgT) {
					continue
				}
				name := fieldName(fa.X.Type(), fa.Field)
				if name != "BeginningTime" && name != "EndTime" {
					continue
				}
				stores++
				c.Universe(rule+" stores into the period bounds", core.FuncName(fn)+" "+name+" ("+c.P.Pos(st.Pos())+")")
				v := st.Val
				if ph, ok := v.(*ssa.Phi); ok && len(ph.Edges) > 0 {
					v = ph.Edges[0]
				}
				a, ok := v.(*ssa.Alloc)
				if !ok {
					continue
				}
				// in the options package a bound is what its own flag says (-b for the beginning, -e for the end): a bound
				// filled in from anything else (today, the other bound) changes which days a period selects
				if core.FnPkgPath(fn) == optionsPkg && a.Referrers() != nil {
					want := map[string]string{"BeginningTime": "begin", "EndTime": "end"}[name]
					for _, r := range *a.Referrers() {
						st2, isSt := r.(*ssa.Store)
						if !isSt || st2.Addr != ssa.Value(a) {
							continue
						}
						if flowG == nil {
							flowG = buildFlow(c)
						}
						if !flowG.Reaches(flow.ValueNode(st2.Val), func(nd flow.Node) bool {
							return strings.HasPrefix(string(nd), "flag:") && strings.Contains(string(nd), "("+want+")")
						}) {
							foreign = append(foreign, fmt.Sprintf("%s|%s|%s", core.FuncName(fn), name, c.P.Pos(st.Pos())))
						}
					}
				}
				if cells[a] == nil {
					cells[a] = &use{fields: map[string]string{}, fn: fn}
				}
				cells[a].fields[name] = c.P.Pos(st.Pos())
			}
		}
	}
	if stores == 0 {
		c.Undecide(rule, "filter", "universe", "-", "nothing stores into filter.Config's bounds", nil)
		return
	}
	for _, f := range uniq(foreign) {
		parts := strings.SplitN(f, "|", 3)
		c.Violate(rule, parts[0], parts[1]+" source", parts[2], "the "+parts[1]+" of the period is set from something other than its own flag (the value stored does not derive from --"+map[string]string{"BeginningTime": "begin", "EndTime": "end"}[parts[1]]+"): a period that is given one bound only, or none, is closed or moved by the program, so days the user did not exclude are missing", nil)
	}
	bad := 0
	for a, u := range cells {
		if len(u.fields) < 2 {
			continue
		}
		writes := 0
		if a.Referrers() != nil {
			for _, r := range *a.Referrers() {
				if st, ok := r.(*ssa.Store); ok && st.Addr == ssa.Value(a) {
					writes++
				}
			}
		}
		if writes > 1 {
			bad++
			c.Violate(rule, core.FuncName(u.fn), "shared cell "+a.Comment, u.fields["EndTime"], fmt.Sprintf("the variable %s is assigned %d times and its address is stored as the beginning (%s) and as the end of the period: both bounds are whatever was parsed last, so --begin A --end B selects B..B", a.Comment, writes, u.fields["BeginningTime"]), nil)
		}
	}
	if bad == 0 {
		c.Discharge(rule, "filter", "own cells", "-", fmt.Sprintf("no variable that is assigned more than once is the target of both bounds (%d stores into the bounds looked at)", stores))
	}
}

// C06-R6: `summary DATE` builds its one-day window from the calendar fields and
// the location of the resolved date itself, so the window is that calendar day
// in the zone the date was parsed in, whatever the process zone is.
func ruleC06R6(c *core.Ctx) {
	const rule = "C06-R6"
	cfgT := c.P.LookupType(filterPkg, "Config")
	if cfgT == nil {
		return
	}
	summaryPkg := core.CmdPath + "/internal/summary"
	found := 0
	for _, fn := range c.P.Funcs {
		// the window is built where the bounds are set from time.Date: in the command itself or in a helper it calls
		writes, builds := false, core.FnPkgPath(fn) == summaryPkg
		for _, b := range fn.Blocks {
			for _, in := range b.Instrs {
				if ci, ok := in.(ssa.CallInstruction); ok {
					if cal := core.Callee(ci.Common()); cal != nil && cal.String() == "time.Date" {
						builds = true
					}
				}
				if fa, ok := in.(*ssa.FieldAddr); ok {
					if pt, ok := fa.X.Type().Underlying().(*types.Pointer); ok && types.Identical(pt.Elem(), cfgT) {
						for _, r := range *fa.Referrers() {
							if st, ok := r.(*ssa.Store); ok && st.Addr == ssa.Value(fa) {
								writes = true
							}
						}
					}
				}
			}
		}
		if !writes || !builds {
			continue
		}
		found++
		fname := core.FuncName(fn)
		x := newExec(c)
		type bound struct {
			field string
			val   absint.Value
			pos   string
		}
		var bounds []bound
		conditional := map[string]string{}
		x.Hooks.Store = func(x *absint.Exec, s *absint.State, in *ssa.Store, addr, val absint.Value) {
			p, ok := addr.(absint.Ptr)
			if !ok {
				return
			}
			for _, f := range []string{"BeginningTime", "EndTime"} {
				if strings.HasSuffix(p.Loc, "·"+f) {
					v := val
					if vp, ok := val.(absint.Ptr); ok {
						if hv, ok := s.Heap[vp.Loc]; ok {
							v = hv
						}
					}
					bounds = append(bounds, bound{f, v, c.P.Pos(in.Pos())})
					// the window replaces whatever period was set before: it is not filled in around a bound that -b/-e left
					for k := range s.PC {
						if !strings.HasPrefix(k, "nil(§@") {
							continue
						}
						id := strings.TrimSuffix(strings.TrimPrefix(k, "nil(§@"), ")")
						if l := x.LocOf[id]; strings.HasSuffix(l, "·BeginningTime") || strings.HasSuffix(l, "·EndTime") {
							conditional[c.P.Pos(in.Pos())] = f
						}
					}
				}
			}
		}
		x.Run(x.NewState(fn, nil, nil))
		account(c, x, rule, fn)
		seen := map[string]bool{}
		for _, b := range bounds {
			key := b.field + "|" + b.val.Key()
			if seen[key] {
				continue
			}
			seen[key] = true
			t, ok := termCall(b.val, "time.Date")
			if !ok || len(t.Args) != 8 {
				c.Undecide(rule, fname, b.field, b.pos, fmt.Sprintf("the %s of the summary window is %s, not time.Date(y, m, d, …, loc) of the requested day; the rule cannot tell which calendar day it bounds", b.field, b.val.Key()), nil)
				continue
			}
			var base string
			okShape := true
			for i, m := range []string{"(time.Time).Year", "(time.Time).Month", "(time.Time).Day"} {
				a, ok := termCall(t.Args[i], m)
				if !ok {
					// y, m, d := t.Date()
					if d, isD := t.Args[i].(*absint.Term); isD && d.Op == fmt.Sprintf("call:(time.Time).Date#%d", i) {
						a, ok = d, true
					}
				}
				if !ok || len(a.Args) != 1 {
					okShape = false
					break
				}
				if base == "" {
					base = a.Args[0].Key()
				} else if base != a.Args[0].Key() {
					okShape = false
				}
			}
			loc, ok := termCall(t.Args[7], "(time.Time).Location")
			if !okShape {
				c.Violate(rule, fname, b.field, b.pos, "the window's year, month and day are not the Year/Month/Day of one and the same date value: "+b.val.Key(), nil)
				continue
			}
			if !ok || len(loc.Args) != 1 || loc.Args[0].Key() != base {
				c.Violate(rule, fname, b.field, b.pos, fmt.Sprintf("the window is built in location %s instead of the location of the requested date: in a process zone with a different offset it covers another calendar day", t.Args[7].Key()), nil)
				continue
			}
			h, mi, se, ns := intConst(t.Args[3]), intConst(t.Args[4]), intConst(t.Args[5]), intConst(t.Args[6])
			switch b.field {
			case "BeginningTime":
				if h == 0 && mi == 0 && se == 0 && ns == 0 {
					c.Discharge(rule, fname, b.field, b.pos, "window starts at 00:00:00.0 of the requested day in the date's own location")
				} else {
					c.Violate(rule, fname, b.field, b.pos, fmt.Sprintf("window starts at %d:%d:%d.%d, not at midnight", h, mi, se, ns), nil)
				}
			case "EndTime":
				if (h == 24 && mi == 0 && se == 0 && ns == -1) || (h == 23 && mi == 59 && se == 59 && ns == 999999999) {
					c.Discharge(rule, fname, b.field, b.pos, "window ends one nanosecond before the next midnight in the date's own location")
				} else {
					c.Violate(rule, fname, b.field, b.pos, fmt.Sprintf("window ends at %d:%d:%d.%d, not at the last instant of the day", h, mi, se, ns), nil)
				}
			}
		}
		for pos, f := range conditional {
			c.Violate(rule, fname, f+" unconditional", pos, "the "+f+" of the day's window is set only where the period had no such bound yet: a bound given with -b/-e (or a keyword period) survives, so `summary DATE` together with a period shows other days than DATE", nil)
		}
		if len(bounds) == 0 {
			c.Undecide(rule, fname, "window", c.P.Pos(fn.Pos()), "stores to the filter bounds were not reached by the abstract interpreter", nil)
		}
	}
	if found == 0 {
		c.Note(rule + ": no function sets the filter bounds from time.Date (vacuous)")
	}
}

// C06-R3: every walk over the log is given a filter that derives from
// GetIntervalNodeFilter applied to a configuration that derives from
// Options.FilterConfig (field-based value flow).
func ruleC06R3(c *core.Ctx) {
	const rule = "C06-R3"
	walk := c.P.LookupFunc(utilsPkg, "WalkNodesInStream")
	get := c.P.LookupFunc(filterPkg, "GetIntervalNodeFilter")
	optT := c.P.LookupType(optionsPkg, "Options")
	if !requireAnchor(c, rule, "utils.WalkNodesInStream", walk != nil) || !requireAnchor(c, rule, "filter.GetIntervalNodeFilter", get != nil) || !requireAnchor(c, rule, "options.Options", optT != nil) {
		return
	}
	fi := -1
	for i, p := range walk.Params {
		if strings.Contains(p.Type().String(), "LogNodeFilter") || strings.Contains(p.Type().String(), "func(t time.Time") {
			fi = i
		}
	}
	if fi < 0 {
		c.Undecide(rule, core.FuncName(walk), "filter-param", c.P.Pos(walk.Pos()), "WalkNodesInStream has no filter parameter", nil)
		return
	}
	g := buildFlow(c)
	retNode := fmt.Sprintf("ret:%s@%d#0", get.String(), get.Pos())
	cfgField := string(flow.FieldNode(optT, "FilterConfig"))
	n := 0
	for _, fn := range c.P.Funcs {
		for _, b := range fn.Blocks {
			for _, in := range b.Instrs {
				ci, ok := in.(ssa.CallInstruction)
				if !ok || core.Callee(ci.Common()) != walk {
					continue
				}
				n++
				fname := core.FuncName(fn)
				pos := c.P.Pos(in.Pos())
				c.Universe(rule+" walks over the log", fname+" ("+pos+")")
				arg := ci.Common().Args[fi]
				viaGet := g.Reaches(flow.ValueNode(arg), func(nd flow.Node) bool { return string(nd) == retNode })
				viaCfg := g.Reaches(flow.ValueNode(get.Params[0]), func(nd flow.Node) bool { return string(nd) == cfgField })
				switch {
				case !viaGet:
					c.Violate(rule, fname, "filter", pos, "the filter handed to the walk does not derive from GetIntervalNodeFilter: --begin/--end have no effect on this command", nil)
				case !viaCfg:
					c.Violate(rule, fname, "filter", pos, "the interval filter is not built from Options.FilterConfig", nil)
				default:
					c.Discharge(rule, fname, "filter", pos, "filter = GetIntervalNodeFilter(cfg) with cfg deriving from Options.FilterConfig")
				}
			}
		}
	}
	if n == 0 {
		c.Undecide(rule, core.FuncName(walk), "universe", c.P.Pos(walk.Pos()), "nobody calls WalkNodesInStream", nil)
	}
}

// ruleZoneAPIs: dates of the log are parsed and printed in one fixed zone
// (time.Parse yields UTC and nothing converts). Any call that brings the
// process time zone in — Local, In, ParseInLocation, LoadLocation, a read of
// time.Local — or that moves a parsed date to another zone (UTC) outside the
// two allowed sites makes days shift with the machine's zone or with a
// daylight-saving switch.
func ruleZoneAPIs(c *core.Ctx, rule string) {
	zoneCalls := map[string]bool{
		"(time.Time).Local": true, "(time.Time).UTC": true, "(time.Time).In": true, "time.ParseInLocation": true,
		"time.LoadLocation": true, "time.FixedZone": true, "time.LoadLocationFromTZData": true,
	}
	allowed := map[string]map[string]string{
		"options.NewDefaultGlobalConfig": {"(time.Time).Local": "the default 'now' is the wall clock; only its calendar date is used"},
		"options.GetTimeFromString":      {"(time.Time).Local": "the keyword today returns the supplied now; Local() keeps the instant"},
	}
	n := 0
	for _, fn := range c.P.Funcs {
		name := core.FuncName(fn)
		top := name
		if i := strings.IndexByte(top, '$'); i >= 0 {
			top = top[:i]
		}
		for _, b := range fn.Blocks {
			for _, in := range b.Instrs {
				what := ""
				switch in := in.(type) {
				case ssa.CallInstruction:
					if cal := core.Callee(in.Common()); cal != nil && zoneCalls[cal.String()] {
						what = cal.String()
					}
				case *ssa.UnOp:
					if g, ok := in.X.(*ssa.Global); ok && g.Pkg != nil && g.Pkg.Pkg.Path() == "time" && (g.Name() == "Local") {
						what = "time.Local"
					}
				}
				if what == "" {
					continue
				}
				n++
				pos := c.P.Pos(in.Pos())
				c.Universe(rule+" time-zone dependent calls", fmt.Sprintf("%s: %s (%s)", name, what, pos))
				if r, ok := allowed[top][what]; ok {
					c.Discharge(rule, name, what, pos, "allowed: "+r)
				} else if ci, isCall := in.(ssa.CallInstruction); isCall && what == "(time.Time).Local" && len(ci.Common().Args) > 0 && isTimeNowCall(ci.Common().Args[0]) {
					c.Discharge(rule, name, what, pos, "allowed: time.Now().Local() keeps the instant; the clock site itself is governed by C05-R3")
				} else if what == "(time.Time).Local" && core.FnPkgPath(fn) == optionsPkg {
					c.Discharge(rule, name, what, pos, "allowed: package options resolves keywords against the supplied now; Local() keeps the instant (the shape of each keyword's result is C06-R5's)")
				} else {
					c.Violate(rule, name, what, pos, what+" in "+name+": dates of the log are parsed and printed without a zone; this brings the process time zone (or another zone) in, so the day shown or selected shifts west or east of UTC, or across a daylight-saving switch", nil)
				}
			}
		}
	}
	if n == 0 {
		c.Note(rule + ": no time-zone dependent call in the tree")
	}
}

func isTimeNowCall(v ssa.Value) bool {
	call, ok := v.(*ssa.Call)
	if !ok {
		return false
	}
	cal := core.Callee(&call.Call)
	return cal != nil && cal.String() == "time.Now"
}

// ruleBoundsAfterSettings is C06-R9: Options.Load resolves --begin/--end (keywords relative to the current date,
// dates in the configured layout) with GlobalConfig.Now and GlobalConfig.DateFormat as they stand at the end of
// Load, that is after --today, --date-format, the environment and the configuration file have been applied.
func ruleBoundsAfterSettings(c *core.Ctx, rule string) {
	load := c.P.LookupMethod(optionsPkg, "Options", "Load")
	get := c.P.LookupFunc(optionsPkg, "GetTimeFromString")
	if !requireAnchor(c, rule, "options.Options.Load", load != nil) || !requireAnchor(c, rule, "options.GetTimeFromString", get != nil) {
		return
	}
	fname := core.FuncName(load)
	recv := load.Params[0].Name()
	nowLoc := "L:§" + recv + "·GlobalConfig·Now"
	fmtLoc := "L:§" + recv + "·GlobalConfig·DateFormat"
	x := newExec(c)
	x.MaxDepth = 6
	x.Hooks.Inline = func(callee *ssa.Function, depth int) bool { return callee != get && c.P.InScope(callee) }
	var bad []string
	resolved := 0
	x.Hooks.Call = func(x *absint.Exec, s *absint.State, site ssa.CallInstruction, callee *ssa.Function, fnv absint.Value, args []absint.Value) (absint.Value, bool) {
		if v, ok := flagStub(x, s, site, callee, args); ok {
			return v, true
		}
		if callee == nil {
			return nil, false
		}
		switch {
		case callee == get && len(args) == 3:
			resolved++
			curNow := x.Load(s, absint.Ptr{Loc: nowLoc}, get.Params[0].Type())
			curFmt := x.Load(s, absint.Ptr{Loc: fmtLoc}, get.Params[1].Type())
			// a value read once before a loop over the lineage is generalised at the loop head under another name than
			// the cell it was read from: it still is the current setting when the function that read it cannot have
			// changed the setting in between
			sameByRead := func(i int, field string) bool {
				if i >= len(site.Common().Args) || !strings.HasPrefix(args[i].Key(), "§j:") {
					return false
				}
				return readOfUnchangedField(c.P, site.Parent(), site.Common().Args[i], field)
			}
			if args[0].Key() != curNow.Key() && sameByRead(0, "Now") {
				args[0] = curNow
			}
			if args[1].Key() != curFmt.Key() && sameByRead(1, "DateFormat") {
				args[1] = curFmt
			}
			if args[0].Key() != curNow.Key() {
				bad = append(bad, fmt.Sprintf("%s: a period bound is resolved relative to %s, not to the options' current date", c.P.Pos(site.Pos()), args[0].Key()))
			}
			if args[1].Key() != curFmt.Key() {
				bad = append(bad, fmt.Sprintf("%s: a period bound is parsed with layout %s, not with the options' date format", c.P.Pos(site.Pos()), args[1].Key()))
			}
			s.SetData("now", curNow.Key())
			s.SetData("fmt", curFmt.Key())
			return &absint.Tuple{Elems: []absint.Value{x.Fresh(s, "bound"), x.Fresh(s, "bounderr")}}, true
		case callee.String() == "os.Stat" || callee.String() == "os.Lstat":
			return &absint.Tuple{Elems: []absint.Value{absint.Sym{Name: "info"}, absint.Sym{Name: "staterr"}}}, true
		case strings.HasSuffix(callee.String(), "gcfg.v1.ReadInto"):
			return x.Fresh(s, "readerr"), true
		case callee.String() == "os.Open":
			return &absint.Tuple{Elems: []absint.Value{x.Fresh(s, "file"), x.Fresh(s, "openerr")}}, true
		}
		return nil, false
	}
	x.Track = func(atom string) bool {
		return strings.Contains(atom, `"date-format"`) || strings.Contains(atom, `"today"`) || strings.HasPrefix(atom, "nil(")
	}
	terms := x.Run(x.NewState(load, nil, nil))
	if !account(c, x, rule, load) {
		return
	}
	checked := 0
	for _, tm := range terms {
		if tm.Kind != "return" || len(tm.Ret) != 1 || nilnessOf(x, tm.State, tm.Ret[0]) == "nonnil" || tm.State.Data["now"] == "" {
			continue
		}
		checked++
		endNow := x.Load(tm.State, absint.Ptr{Loc: nowLoc}, get.Params[0].Type())
		endFmt := x.Load(tm.State, absint.Ptr{Loc: fmtLoc}, get.Params[1].Type())
		if endNow.Key() != tm.State.Data["now"] {
			bad = append(bad, fmt.Sprintf("Load can succeed with period bounds resolved relative to %s while the current date ends as %s (%s): with --today the keywords today/yesterday/last7/last30 still count from the real clock", tm.State.Data["now"], endNow.Key(), x.Valuation(tm.State)))
		}
		if endFmt.Key() != tm.State.Data["fmt"] {
			bad = append(bad, fmt.Sprintf("Load can succeed with period bounds parsed with layout %s while the date format ends as %s (%s): --begin/--end written in the configured layout are misread or rejected", tm.State.Data["fmt"], endFmt.Key(), x.Valuation(tm.State)))
		}
	}
	bad = uniq(bad)
	if resolved == 0 || checked == 0 {
		c.Undecide(rule, fname, "bounds-after-settings", c.P.Pos(load.Pos()), fmt.Sprintf("no successful path through Options.Load that resolves a period bound was explored (%d calls of GetTimeFromString, %d paths)", resolved, checked), nil)
		return
	}
	if len(bad) == 0 {
		c.Discharge(rule, fname, "bounds-after-settings", c.P.Pos(load.Pos()), fmt.Sprintf("on all %d successful paths that resolve a bound, the current date and the date format used are the ones the path ends with", checked))
	}
	for i, m := range bad {
		if i >= 3 {
			break
		}
		c.Violate(rule, fname, "bounds-after-settings", c.P.Pos(load.Pos()), m, nil)
	}
}

// readOfUnchangedField: v is a load of a field called name (o.GlobalConfig.DateFormat) made in fn, and neither fn nor
// a function of the tree it calls stores into a field of that name.
func readOfUnchangedField(p *core.Program, fn *ssa.Function, v ssa.Value, name string) bool {
	ld, ok := v.(*ssa.UnOp)
	if !ok || ld.Op != token.MUL {
		return false
	}
	fa, ok := ld.X.(*ssa.FieldAddr)
	if !ok || fieldName(fa.X.Type(), fa.Field) != name {
		return false
	}
	var storesField func(g *ssa.Function, depth int) bool
	seen := map[*ssa.Function]bool{}
	storesField = func(g *ssa.Function, depth int) bool {
		if g == nil || seen[g] || depth > 3 {
			return false
		}
		seen[g] = true
		for _, b := range g.Blocks {
			for _, in := range b.Instrs {
				switch t := in.(type) {
				case *ssa.Store:
					if a, ok := t.Addr.(*ssa.FieldAddr); ok && fieldName(a.X.Type(), a.Field) == name {
						return true
					}
				case ssa.CallInstruction:
					if cal := core.Callee(t.Common()); cal != nil && p.InScope(cal) && storesField(cal, depth+1) {
						return true
					}
				}
			}
		}
		return false
	}
	return !storesField(fn, 0)
}
