package rules

import (
	"fmt"
	"go/constant"
	"go/types"
	"strings"

	"golang.org/x/tools/go/ssa"

	"hrverif/internal/absint"
	"hrverif/internal/core"
)

const (
	registerPkg = core.CmdPath + "/internal/register"
	reporterPkg = core.CmdPath + "/internal/reporter"
	balancePkg  = core.CmdPath + "/internal/balance"
)

// ruleAccumulatorAdd is C02-R2: sign routing over sign(val) x exists.
func ruleAccumulatorAdd(c *core.Ctx, rule string) {
	fn := c.P.LookupMethod(core.LibPath, "Accumulator", "Add")
	if !requireAnchor(c, rule, "Accumulator.Add", fn != nil) {
		return
	}
	fname := core.FuncName(fn)
	idx := map[string]int64{}
	for _, n := range []string{"Negative", "Positive"} {
		obj := c.P.Pkg(core.LibPath).Types.Scope().Lookup(n)
		cst, ok := obj.(*types.Const)
		if !requireAnchor(c, rule, "lib."+n, ok) {
			return
		}
		v, _ := constant.Int64Val(cst.Val())
		idx[n] = v
	}
	x := newExec(c)
	type upd struct {
		loc, val, when string
		exists         string
		sign           []string
	}
	var updates []upd
	valKey := "§" + fn.Params[2].Name()
	x.Hooks.Store = func(x *absint.Exec, s *absint.State, in *ssa.Store, addr, val absint.Value) {
		p, ok := addr.(absint.Ptr)
		if !ok || !strings.Contains(p.Loc, "[c:") || strings.HasPrefix(p.Loc, "A:") && !strings.Contains(p.Loc, "slice") && false {
			return
		}
		ex := ""
		for k := range s.PC {
			if strings.HasPrefix(k, "b(has(") {
				if o := x.Possible(s, k); len(o) == 1 {
					ex = o[0]
				}
			}
		}
		updates = append(updates, upd{loc: p.Loc, val: val.Key(), exists: ex, sign: x.OrdOutcomes(s, valKey, "c:0"), when: x.Valuation(s)})
	}
	terms := x.Run(x.NewState(fn, nil, nil))
	if !account(c, x, rule, fn) {
		return
	}
	var bad []string
	seenCase := map[string]bool{}
	for _, u := range updates {
		if u.sign == nil {
			bad = append(bad, "a register is updated without comparing the value with 0 ("+u.when+")")
			continue
		}
		slot := int64(-1)
		if i := strings.LastIndex(u.loc, "[c:"); i >= 0 {
			fmt.Sscanf(u.loc[i+3:], "%d", &slot)
		}
		for _, sg := range u.sign {
			want := idx["Positive"]
			if sg == "<" {
				want = idx["Negative"]
			}
			seenCase[fmt.Sprintf("sign=%s exists=%s", sg, u.exists)] = true
			c.Valuations = append(c.Valuations, fmt.Sprintf("Accumulator.Add: sign(val)%s0 exists=%s -> slot %d", sg, u.exists, slot))
			if slot != want {
				bad = append(bad, fmt.Sprintf("a value with val %s 0 goes to slot %d, expected %d (Negative=%d, Positive=%d): positive and negative contributions are mixed up", sg, slot, want, idx["Negative"], idx["Positive"]))
			}
		}
		switch u.exists {
		case "T":
			if !(strings.HasPrefix(u.val, "+(") && strings.Contains(u.val, valKey)) {
				bad = append(bad, "an existing key's register becomes "+u.val+", expected old + val")
			}
		case "F":
			if u.val != valKey {
				bad = append(bad, "a new key's register becomes "+u.val+", expected val")
			}
		default:
			bad = append(bad, "a register is updated without testing whether the key exists ("+u.when+")")
		}
	}
	for _, sg := range []string{"<", "=", ">"} {
		for _, ex := range []string{"T", "F"} {
			if !seenCase[fmt.Sprintf("sign=%s exists=%s", sg, ex)] {
				bad = append(bad, fmt.Sprintf("no update happens for sign(val)%s0, exists=%s", sg, ex))
			}
		}
	}
	bad = uniq(bad)
	if len(bad) == 0 {
		c.Discharge(rule, fname, "sign x exists", c.P.Pos(fn.Pos()), fmt.Sprintf("negative values go to the Negative slot, others to Positive; existing key +=, new key created (6 cases, %d paths)", len(terms)))
	}
	for _, m := range bad {
		c.Violate(rule, fname, "sign x exists", c.P.Pos(fn.Pos()), m, nil)
	}
}

func inPkgs(fn *ssa.Function, pkgs ...string) bool {
	p := core.FnPkgPath(fn)
	for _, q := range pkgs {
		if p == q {
			return true
		}
	}
	return false
}

func init() {
	register(&Property{
		ID:    "C02",
		Rules: []string{"C02-R1", "C02-R2", "C02-R3", "C02-R4", "C02-R5", "C02-R6", "C02-R7", "C02-R8", "C02-R9", "C15-R1", "C06-R1", "C01-R1", "C01-R4", "C01-R5", "C07-R6", "C15-R12", "C15-R13", "C02-R10", "C16-R11"},
		Explain: "Decides the accounting shape of the register: C02-R10 no iteration of a loop in the reporting code is cut short by a test on a floating-point amount (rows and contributions exist whatever the amount: zero, tiny or negative); C02-R1 at the register's expansion sites (template path via GetReportItem, the old reporter, the single-element and group-by-food forms) found → quantity x each resolved element under the element's name, not found → the food itself with its own quantity, and the same pair goes to the day's accumulator in the same branch; " +
			"C02-R2 Accumulator.Add over sign(val) x exists routes negative values to the Negative slot and others to Positive, += for an existing key; " +
			"C02-R3 the day's totals are listed through collect-then-sort on the element name; C02-R4 the constant register and summary templates are well-typed against the report item they are executed with (field paths exist, functions and arities match, numbers go through formatValue); C02-R5 NewLogNodeFromElements merges repeated foods of a day by name in first-appearance position; " +
			"C02-R6 the register and summary reporters keep no state across days (a day's totals list only that day's elements): Process is streaming or accumulating, never both, and writes no package-level variable; C02-R7 every printf format of the register packages is built from constants; C02-R9 the totals block is guarded by an emptiness test of the day's accumulator; C15-R1 (shared) the selectable templates show the same fields (the sum column is the sum in each of them); C02-R8 what goes into the day's accumulator does not depend on totals-only/no-totals (the switches gate printed lines only); " +
			"C01-R1/R4/R5 (shared with C01) the resolved element lists the quantities are multiplied with are built by merge-by-name only, so each resolved element appears once. Shared: C07-R6 every reporter's Process leaves its loops over the day's entries only at the head, on a set error or with an error value; C15-R12 the only arithmetic on register values outside the accumulator is positive + negative of one name; C15-R13 every flag of a lineage level is asked for on every level.",
		NotDecided: "the arithmetic, the exact text layout, that every selected day appears in file order (C06/C12)",
		Run: func(c *core.Ctx) {
			ruleEnvBoolFlags(c, "C16-R11") // a display switch preset from the environment is read by its value
			ruleNoAmountSkips(c, "C02-R10", func(p string) bool { return strings.HasPrefix(p, core.CmdPath) })
			ruleNoFlagSkipped(c, "C15-R13")
			ruleSumOfRegisters(c, "C15-R12")
			ruleEveryEntrySeen(c, "C07-R6")
			ruleExpansionSites(c, "C02-R1", func(fn *ssa.Function) bool { return inPkgs(fn, registerPkg, reporterPkg) })
			ruleAccumulatorAdd(c, "C02-R2")
			RuleMapRanges(c, "C02-R3", func(s mapRangeSite) bool {
				t := s.pkg.TypesInfo.Types[s.stmt.X].Type.String()
				return strings.HasSuffix(t, ".Accumulator") && (s.pkg.PkgPath == registerPkg || s.pkg.PkgPath == reporterPkg)
			})
			ruleTemplates(c, "C02-R4", "", "")
			ruleConstFormats(c, "C02-R7", func(fn *ssa.Function) bool {
				return inPkgs(fn, registerPkg, reporterPkg, core.CmdPath+"/internal/summary")
			})
			ruleTotalsGates(c, "C02-R8")
			ruleEmptinessTests(c, "C02-R9")
			ruleTemplates(c, "", "C15-R1", "")
			ruleC06R1(c) // "every selected day": the interval predicate is inclusive at both ends for equal instants
			ruleReporterDiscipline(c, "C02-R6", registerPkg, core.CmdPath+"/internal/summary")
			if fn := c.P.LookupFunc(core.LibPath, "NewLogNodeFromElements"); requireAnchor(c, "C02-R5", "NewLogNodeFromElements", fn != nil) {
				ruleMergeByName(c, "C02-R5", fn, false)
			}
			// what the register multiplies the quantity with: the resolved lists (C01's construction discipline)
			for _, r := range recursiveResolvers(c.P) {
				analyseResolver(c, r, map[string]bool{"C01-R1": true, "C01-R5": true})
			}
			if fn := c.P.LookupMethod(core.LibPath, "Elements", "SumMerge"); requireAnchor(c, "C01-R4", "Elements.SumMerge", fn != nil) {
				ruleMergeByName(c, "C01-R4", fn, true)
			}
		},
	})
}

var _ = absint.Top{}
