package rules

import (
	"fmt"
	"go/token"
	"go/types"
	"sort"
	"strings"

	"golang.org/x/tools/go/ssa"

	"hrverif/internal/absint"
	"hrverif/internal/core"
)

// reporterImpls: named types of the tree whose method set satisfies reporter.Reporter.
func reporterImpls(p *core.Program) []*types.Named {
	rp := p.Pkg(reporterPkg)
	if rp == nil {
		return nil
	}
	obj := rp.Types.Scope().Lookup("Reporter")
	if obj == nil {
		return nil
	}
	iface, ok := obj.Type().Underlying().(*types.Interface)
	if !ok {
		return nil
	}
	var out []*types.Named
	for _, pkg := range p.RootsInScope() {
		sc := pkg.Types.Scope()
		for _, n := range sc.Names() {
			tn, ok := sc.Lookup(n).(*types.TypeName)
			if !ok {
				continue
			}
			named, ok := tn.Type().(*types.Named)
			if !ok || types.IsInterface(named) {
				continue
			}
			if types.Implements(named, iface) || types.Implements(types.NewPointer(named), iface) {
				out = append(out, named)
			}
		}
	}
	sort.Slice(out, func(i, j int) bool { return out[i].String() < out[j].String() })
	return out
}

type effects struct {
	emits, accumulates bool
	global, book       []string
	emitPos, accPos    string
	feeds              string   // position of a contribution to the receiver's accumulator/tree (Add, AddDeep)
	nets               string   // position of an arithmetic update m[k] = m[k] + v of a map of the receiver
	overwrites         []string // numeric state of the receiver assigned without adding to its old value
}

// methodEffects explores one method and classifies what it writes.
func methodEffects(c *core.Ctx, rule string, fn *ssa.Function) (effects, bool) {
	var ef effects
	ctorOnlyProg = c.P
	x := newExec(c)
	// boolean switches stay path-sensitive (which map is written depends on them); everything else is merged
	recv := ""
	if len(fn.Params) > 0 {
		recv = "§" + fn.Params[0].Name()
	}
	x.Track = func(atom string) bool {
		if strings.HasPrefix(atom, "b(field(") {
			return true // a switch of a configuration struct passed by value
		}
		if strings.HasPrefix(atom, "b(§@") {
			id := strings.TrimSuffix(strings.TrimPrefix(atom, "b(§@"), ")")
			return strings.HasPrefix(x.LocOf[id], "L:"+recv+"·")
		}
		return false
	}
	rootOf := func(x *absint.Exec, v absint.Value) string {
		// "recv" if v was loaded from receiver state, "global", "book", "fresh", "arg" or ""
		switch p := v.(type) {
		case absint.Ptr:
			switch {
			case strings.HasPrefix(p.Loc, "G:"):
				return "global"
			case strings.HasPrefix(p.Loc, "A:"):
				return "fresh"
			case strings.HasPrefix(p.Loc, "L:"+recv+"·db") || strings.Contains(p.Loc, "lookup("+"§@") && strings.Contains(p.Loc, "·Elements"):
				return "book"
			case strings.HasPrefix(p.Loc, "L:"+recv):
				return "recv"
			case recv != "" && strings.HasPrefix(p.Loc, "L:field("+recv+","):
				return "recv" // through a pointer kept in a field of a receiver passed by value
			}
			// follow a load symbol
			if strings.HasPrefix(p.Loc, "L:§") {
				name := strings.TrimPrefix(p.Loc, "L:§")
				if j := strings.IndexAny(name, "[·"); j >= 0 {
					name = name[:j]
				}
				if loc := locOf(x, absint.Sym{Name: name}); loc != "" {
					return rootOfLoc(loc, recv)
				}
			}
			return ""
		case absint.Sym:
			if strings.HasPrefix(p.Name, "map:") || strings.HasPrefix(p.Name, "slice:") {
				return "fresh"
			}
			if loc := locOf(x, p); loc != "" {
				return rootOfLoc(loc, recv)
			}
		case *absint.Term:
			if p.Op == "field" && len(p.Args) == 2 && recv != "" && p.Args[0].Key() == recv {
				// a field of a receiver passed by value: maps and pointers in it are still the reporter's own state
				if p.Args[1].Key() == `c:"db"` {
					return "book"
				}
				return "recv"
			}
			if p.Op == "lookup" && len(p.Args) > 0 {
				if loc := locOf(x, p.Args[0]); loc != "" {
					r := rootOfLoc(loc, recv)
					if r == "recv" && strings.HasSuffix(loc, "·db") {
						return "book"
					}
					return r
				}
			}
		}
		return ""
	}
	note := func(kind, what, pos string) {
		switch kind {
		case "recv":
			if !ef.accumulates {
				ef.accumulates, ef.accPos = true, pos
			}
		case "global":
			ef.global = append(ef.global, what+" at "+pos)
		case "book":
			ef.book = append(ef.book, what+" at "+pos)
		}
	}
	x.Hooks.Store = func(x *absint.Exec, s *absint.State, in *ssa.Store, addr, val absint.Value) {
		r := rootOf(x, addr)
		if r == "recv" && configDerived(x, val, recv, 0) {
			// a memo of something computed from the immutable configuration only (a compiled pattern, a flag
			// that says it was computed): the same on every day, so not state that carries days over
			return
		}
		note(r, "store to "+addr.Key(), c.P.Pos(in.Pos()))
		if r == "recv" && !isNumeric(in.Val.Type()) && fn.Name() == "Process" && len(fn.Params) == 2 && derivesFromParam(x, val, fn.Params[1].Name(), 0) {
			// something of this day (its date, a name, the record itself) is kept for the next call
			ef.overwrites = append(ef.overwrites, fmt.Sprintf("%s: %s is set to something taken from this day's record (%s) — what the next day shows can then depend on this one", c.P.Pos(in.Pos()), addr.Key(), shortKey(val.Key())))
		}
		if r == "recv" && isNumeric(in.Val.Type()) {
			if p, ok := addr.(absint.Ptr); ok && !strings.Contains(p.Loc, "[") {
				oldKey := ""
				if hv, ok := s.Heap[p.Loc]; ok {
					oldKey = hv.Key()
				}
				okSum := sumContains(val, func(a absint.Value) bool { return locOf(x, a) == p.Loc || (oldKey != "" && a.Key() == oldKey) }, 0)
				if !okSum {
					ef.overwrites = append(ef.overwrites, fmt.Sprintf("%s: %s = %s", c.P.Pos(in.Pos()), p.Loc[strings.LastIndex(p.Loc, "·")+len("·"):], val.Key()))
				}
			}
		}
	}
	x.Hooks.MapUpdate = func(x *absint.Exec, s *absint.State, in *ssa.MapUpdate, m, k, v absint.Value) {
		r := rootOf(x, m)
		note(r, "map update of "+m.Key(), c.P.Pos(in.Pos()))
		if t, ok := v.(*absint.Term); ok && r == "recv" && ef.nets == "" && (t.Op == "+" || t.Op == "-") && strings.Contains(t.Key(), "lookup(") {
			ef.nets = c.P.Pos(in.Pos())
		}
		if r == "recv" && isNumeric(in.Value.Type()) {
			want := absint.NewTerm("lookup", m, k).Key()
			okSum := sumContains(v, func(a absint.Value) bool { return a.Key() == want }, 0)
			if !okSum && (v.Key() == "c:0" || v.Key() == "zero") {
				// seeding an absent entry with zero before adding to it
				if o := x.Possible(s, "b("+absint.NewTerm("has", m, k).Key()+")"); len(o) == 1 && o[0] == "F" {
					okSum = true
				}
			}
			if !okSum {
				ef.overwrites = append(ef.overwrites, fmt.Sprintf("%s: entry [%s] = %s", c.P.Pos(in.Pos()), k.Key(), v.Key()))
			}
		}
	}
	x.Hooks.Call = func(x *absint.Exec, s *absint.State, site ssa.CallInstruction, callee *ssa.Function, fnv absint.Value, args []absint.Value) (absint.Value, bool) {
		if callee == nil {
			return nil, false
		}
		pos := c.P.Pos(site.Pos())
		full := callee.String()
		switch {
		case strings.HasPrefix(full, "fmt.Fprint"), full == "(*encoding/csv.Writer).Write", full == "(*text/template.Template).Execute", full == "(*bufio.Writer).Write", full == "(*bufio.Writer).WriteString", full == "io.WriteString":
			if !ef.emits {
				ef.emits, ef.emitPos = true, pos
			}
		case isMethod(callee, core.LibPath, "Accumulator", "Add"), isMethod(callee, core.LibPath, "TreeNode", "AddDeep"), isMethod(callee, core.LibPath, "Elements", "Add"), isMethod(callee, core.LibPath, "TreeNode", "Add"):
			if len(args) > 0 {
				r := rootOf(x, args[0])
				note(r, callee.Name()+" on "+args[0].Key(), pos)
				if r == "recv" && ef.feeds == "" {
					ef.feeds = pos
				}
			}
			return absint.Const{}, true
		}
		return nil, false
	}
	x.Run(x.NewState(fn, nil, nil))
	return ef, account(c, x, rule, fn) || true
}

// configDerived: v is built only from constants and loads of the receiver's
// configuration (…·config·…), through pure calls.
func configDerived(x *absint.Exec, v absint.Value, recv string, depth int) bool {
	if depth > 8 {
		return false
	}
	switch t := v.(type) {
	case absint.Const:
		return true
	case absint.Sym:
		loc := locOf(x, t)
		if recv != "" && (strings.HasPrefix(loc, "L:"+recv+"·config·") || strings.HasPrefix(loc, "L:"+recv+"·config[")) {
			return true
		}
		// a field of a helper object the reporter holds (r.matcher.pattern) that is only ever set where such an
		// object is made: fixed for the whole walk like the configuration it was taken from
		if recv != "" && strings.HasPrefix(loc, "L:§@") && ctorOnlyProg != nil {
			rest := strings.TrimPrefix(loc, "L:§@")
			if i := strings.Index(rest, "·"); i > 0 && !strings.ContainsAny(rest[i+len("·"):], "·[") {
				holder := x.LocOf[rest[:i]]
				if strings.HasPrefix(holder, "L:"+recv+"·") && setOnlyAtConstruction(ctorOnlyProg, rest[i+len("·"):]) {
					return true
				}
			}
		}
		return false
	case *absint.Iface:
		return configDerived(x, t.V, recv, depth+1)
	case *absint.Tuple:
		for _, e := range t.Elems {
			if !configDerived(x, e, recv, depth+1) {
				return false
			}
		}
		return true
	case *absint.Term:
		if t.Op == "field" && len(t.Args) == 2 && t.Args[0].Key() == recv {
			return t.Args[1].Key() == `c:"config"`
		}
		if t.Op == "lookup" || t.Op == "has" || t.Op == "len" {
			return false
		}
		for _, a := range t.Args {
			if !configDerived(x, a, recv, depth+1) {
				return false
			}
		}
		return len(t.Args) > 0
	}
	return false
}

func rootOfLoc(loc, recv string) string {
	switch {
	case strings.HasPrefix(loc, "G:"):
		return "global"
	case strings.HasPrefix(loc, "A:"):
		return "fresh"
	case strings.HasPrefix(loc, "L:"+recv+"·db"):
		return "book"
	case strings.HasPrefix(loc, "L:"+recv):
		return "recv"
	}
	return ""
}

// ruleReporterDiscipline is C12-R1.
func ruleReporterDiscipline(c *core.Ctx, rule string, only ...string) {
	impls := reporterImpls(c.P)
	if len(only) > 0 {
		var f []*types.Named
		for _, t := range impls {
			for _, p := range only {
				if t.Obj().Pkg().Path() == p {
					f = append(f, t)
				}
			}
		}
		impls = f
	}
	if len(impls) == 0 {
		c.Undecide(rule, "reporters", "universe", "-", "no type implements reporter.Reporter", nil)
		return
	}
	for _, t := range impls {
		pkg := t.Obj().Pkg().Path()
		proc := c.P.LookupMethod(pkg, t.Obj().Name(), "Process")
		flush := c.P.LookupMethod(pkg, t.Obj().Name(), "Flush")
		if proc == nil || flush == nil {
			continue
		}
		fname := core.FuncName(proc)
		pos := c.P.Pos(proc.Pos())
		c.Universe(rule+" Reporter implementations", fname+" ("+pos+")")
		pe, _ := methodEffects(c, rule, proc)
		fe, _ := methodEffects(c, rule, flush)
		var bad []string
		if pe.emits && pe.accumulates {
			bad = append(bad, fmt.Sprintf("Process both writes to the output (%s) and keeps state across days (%s): what is printed for a day then depends on the days before it", pe.emitPos, pe.accPos))
		}
		for _, g := range pe.global {
			bad = append(bad, "Process writes a package-level variable ("+g+"): state leaks from one day (and one reporter) to the next")
		}
		for _, o := range pe.overwrites {
			bad = append(bad, "Process overwrites a running figure of the reporter instead of adding to it ("+o+"): what an earlier day contributed is forgotten, so the report of a concatenated log is not the sum of the reports of its parts")
		}
		for _, g := range pe.book {
			bad = append(bad, "Process writes through the shared recipe book ("+g+")")
		}
		kind := "inert"
		switch {
		case pe.emits:
			kind = "streaming"
			if fe.emits {
				bad = append(bad, "a streaming reporter's Flush writes report content of its own ("+fe.emitPos+"): output no longer concatenates day by day")
			}
		case pe.accumulates:
			kind = "accumulating"
			if fe.feeds != "" && pe.nets != "" {
				bad = append(bad, "Process nets amounts in a map of its own ("+pe.nets+") and Flush feeds the accumulator from it ("+fe.feeds+"): amounts are held back and combined over the whole walk before they reach the positive/negative registers, so the report of a concatenated log is not the element-wise sum of the reports of its parts")
			}
		}
		bad = uniq(bad)
		if len(bad) == 0 {
			c.Discharge(rule, fname, kind, pos, fmt.Sprintf("%s reporter: Process %s", kind, map[string]string{"streaming": "writes to its sink and to nothing persistent", "accumulating": "updates its own state and writes nothing", "inert": "has no effect"}[kind]))
		}
		for _, m := range bad {
			c.Violate(rule, fname, kind, pos, m, nil)
		}
	}
}

// ruleCallbackScratch is C12-R2: captured variables a per-record callback writes are written before they are read.
func ruleCallbackScratch(c *core.Ctx, rule string) {
	for _, cb := range parseCallbacks(c.P) {
		written := map[string]bool{}
		for _, fv := range cb.FreeVars {
			for _, r := range *fv.Referrers() {
				if st, ok := r.(*ssa.Store); ok && st.Addr == ssa.Value(fv) {
					written[fv.Name()] = true
				}
			}
		}
		fname := core.FuncName(cb)
		pos := c.P.Pos(cb.Pos())
		c.Universe(rule+" ParseCallback closures", fmt.Sprintf("%s captures %d written variables (%s)", fname, len(written), pos))
		if len(written) == 0 {
			c.Discharge(rule, fname, "scratch", pos, "writes no captured variable")
			continue
		}
		var bad []string
		for _, errCase := range []bool{false, true} {
			x := newExec(c)
			x.Hooks.Store = func(x *absint.Exec, s *absint.State, in *ssa.Store, addr, val absint.Value) {
				if p, ok := addr.(absint.Ptr); ok && strings.HasPrefix(p.Loc, "fv:") {
					s.SetData("w:"+strings.TrimPrefix(p.Loc, "fv:"), "1")
				}
			}
			x.Hooks.Load = func(x *absint.Exec, s *absint.State, in *ssa.UnOp, addr, val absint.Value) {
				p, ok := addr.(absint.Ptr)
				if !ok || !strings.HasPrefix(p.Loc, "fv:") || len(s.Frames) != 1 {
					return
				}
				name := strings.TrimPrefix(p.Loc, "fv:")
				if written[name] && s.Data["w:"+name] != "1" {
					bad = append(bad, fmt.Sprintf("captured variable %s is read at %s before this invocation has written it: it carries a value from an earlier record", name, c.P.Pos(in.Pos())))
				}
			}
			var st *absint.State
			if errCase {
				e := absint.Sym{Name: "perr"}
				st = x.NewState(cb, []absint.Value{absint.Const{Nil: true}, e}, nil)
				x.AssumeNil(st, e, false)
			} else {
				nd := absint.Sym{Name: "node"}
				st = x.NewState(cb, []absint.Value{nd, absint.Const{Nil: true}}, nil)
				x.AssumeNil(st, nd, false)
			}
			x.Run(st)
			account(c, x, rule, cb)
		}
		bad = uniq(bad)
		// counters and flags that are meant to persist (stats counts, lint's verdict, first date) are read-modify-write by design:
		// they are accepted when the closure is not a per-day report callback, i.e. hands nothing to a Reporter
		perDay := false
		for _, b := range cb.Blocks {
			for _, in := range b.Instrs {
				if ci, ok := in.(ssa.CallInstruction); ok && ci.Common().IsInvoke() && ci.Common().Method.Name() == "Process" {
					perDay = true
				}
			}
		}
		if len(bad) == 0 {
			c.Discharge(rule, fname, "scratch", pos, "every captured variable it writes is written before it is read within one invocation")
		} else if !perDay {
			c.Discharge(rule, fname, "scratch", pos, "keeps counters across records by design and hands no record to a Reporter (not a per-day report)")
		} else {
			for _, m := range bad {
				c.Violate(rule, fname, "scratch", pos, m, nil)
			}
		}
	}
}

func init() {
	register(&Property{
		ID:    "C12",
		Rules: []string{"C12-R1", "C12-R2", "C12-R3", "C12-R4", "C12-R5", "C12-R6", "C10-R3", "C06-R1", "C12-R7", "C12-R8"},
		Explain: "Decides the absence of state that could leak from one day into the next: C12-R1 every Reporter implementation is streaming (Process writes to its sink and to nothing persistent; Flush adds no content) or accumulating (Process updates its own state and writes nothing), never both, and no Process writes a package-level variable or the shared recipe book; " +
			"C12-R2 the per-record callback that feeds reporters writes every captured variable before reading it within one invocation; " +
			"C12-R3 no pointer to a variable that outlives one record is stored into a record by the parser, nor a reference that a local carries round the scan loop and that the loop only ever makes when it is still nil; C12-R4 every heading yields exactly one delivered record whatever follows it; " +
			"C12-R5 a reporter's sink is the configured output, a bufio.Writer or a csv.Writer over it — not a writer that holds rows back and re-lays them out when flushed (text/tabwriter), which would make earlier days' rows depend on later days; " +
			"C12-R6 a decision on the size of an accumulator is an emptiness test (a part that contributed one element is not treated as empty); C12-R7 in Process an entry of a numeric map of the reporter, or a scalar total, is only ever updated to its old value plus the day's contribution (never overwritten); " +
			"C10-R3 (shared) no per-record callback stops the walk without an error, so a day in the middle cannot make the later days vanish. C12-R7 a per-day function that reads its accumulator back makes it anew in that call. C12-R1 also: Process keeps nothing taken from the day's record (its date, a name) in the reporter for the next call. C12-R8 the day record a per-record callback hands to Process is made in that call, or every field of a reused record is assigned on every path before the call (and a reused list is emptied first).",
		NotDecided: "element-wise sum of the parts for period reports (float addition order), equality of concatenated outputs as byte strings",
		Run: func(c *core.Ctx) {
			ruleDayAccumulatorFresh(c, "C12-R7")
			ruleRecordFresh(c, "C12-R8")
			ruleReporterDiscipline(c, "C12-R1")
			ruleReporterSinks(c, "C12-R5")
			ruleEmptinessTests(c, "C12-R6")
			ruleC06R1(c) // days are independent: the interval filter keeps no state from one record to the next
			ruleCallbackConsumers(c, map[string]bool{"C10-R3": true})
			ruleCallbackScratch(c, "C12-R2")
			analyseParserLoop(c, map[string]bool{"C12-R3": true, "C12-R4": true})
		},
	})
}

// ruleReporterSinks is C12-R5: the fields a Reporter implementation writes its
// rows to have a pass-through writer type.
func ruleReporterSinks(c *core.Ctx, rule string) {
	okTypes := map[string]string{
		"*bufio.Writer":        "buffers bytes, never re-lays them out",
		"io.Writer":            "the configured output itself",
		"*encoding/csv.Writer": "writes each record as it is given",
		"*os.File":             "unbuffered file",
	}
	n := 0
	for _, t := range reporterImpls(c.P) {
		st, ok := t.Underlying().(*types.Struct)
		if !ok {
			continue
		}
		for i := 0; i < st.NumFields(); i++ {
			ft := st.Field(i).Type()
			if !isWriterType(ft) {
				continue
			}
			ft = core.EffectiveType(ft) // an interface of the tree that only ever holds one writer type
			n++
			name := t.Obj().Pkg().Name() + "." + t.Obj().Name()
			pos := c.P.Pos(st.Field(i).Pos())
			if why, ok := okTypes[ft.String()]; ok {
				c.Discharge(rule, name, "sink "+st.Field(i).Name(), pos, ft.String()+": "+why)
			} else if wrapsOnly(ft, okTypes, 0) {
				c.Discharge(rule, name, "sink "+st.Field(i).Name(), pos, ft.String()+": a repository wrapper whose own sinks are pass-through writers")
			} else {
				c.Violate(rule, name, "sink "+st.Field(i).Name(), pos, "the reporter writes its rows to a "+ft.String()+": a writer that keeps rows until it is flushed and lays them out together makes what is printed for one day depend on the other days", nil)
			}
		}
	}
	if n == 0 {
		c.Note(rule + ": no reporter keeps a writer in a field")
	}
}

// isWriterType: t has a method Write([]byte) (int, error) or is encoding/csv's Writer.
func isWriterType(t types.Type) bool {
	if strings.HasSuffix(t.String(), "encoding/csv.Writer") {
		return true
	}
	for _, tt := range []types.Type{t, types.NewPointer(t)} {
		ms := types.NewMethodSet(tt)
		for i := 0; i < ms.Len(); i++ {
			m := ms.At(i).Obj()
			if m.Name() != "Write" {
				continue
			}
			sig, ok := m.Type().(*types.Signature)
			if ok && sig.Params().Len() == 1 && sig.Results().Len() == 2 {
				if sl, ok := sig.Params().At(0).Type().(*types.Slice); ok {
					if b, ok := sl.Elem().(*types.Basic); ok && b.Kind() == types.Byte {
						return true
					}
				}
			}
		}
	}
	return false
}

// wrapsOnly: t is a struct type of the repository (or a pointer to one) whose
// writer-typed fields are all pass-through writers themselves.
func wrapsOnly(t types.Type, okTypes map[string]string, depth int) bool {
	if depth > 3 {
		return false
	}
	if pt, ok := t.(*types.Pointer); ok {
		t = pt.Elem()
	}
	named, ok := t.(*types.Named)
	if !ok || named.Obj().Pkg() == nil || !(strings.HasPrefix(named.Obj().Pkg().Path(), core.CmdPath) || strings.HasPrefix(named.Obj().Pkg().Path(), core.LibPath)) {
		return false
	}
	st, ok := named.Underlying().(*types.Struct)
	if !ok {
		return false
	}
	seen := false
	for i := 0; i < st.NumFields(); i++ {
		ft := st.Field(i).Type()
		if !isWriterType(ft) {
			continue
		}
		seen = true
		if _, ok := okTypes[ft.String()]; !ok && !wrapsOnly(ft, okTypes, depth+1) {
			return false
		}
	}
	return seen
}

// ruleEmptinessTests is C12-R6 (and C02-R9): wherever a reporter decides on the
// size of an Accumulator, the test is an emptiness test (len == 0, len > 0 and
// their equivalents). A report that is printed only from two elements on
// (len > 1) drops a day or a period that contributed exactly one element, so
// the report of a part is empty although the concatenation shows its values.
func ruleEmptinessTests(c *core.Ctx, rule string) {
	accT := c.P.LookupType(core.LibPath, "Accumulator")
	if !requireAnchor(c, rule, "lib.Accumulator", accT != nil) {
		return
	}
	isAccLen := func(v ssa.Value) bool {
		call, ok := v.(*ssa.Call)
		if !ok {
			return false
		}
		b, ok := call.Call.Value.(*ssa.Builtin)
		return ok && b.Name() == "len" && len(call.Call.Args) == 1 && types.Identical(call.Call.Args[0].Type(), accT)
	}
	n := 0
	for _, fn := range c.P.Funcs {
		for _, b := range fn.Blocks {
			for _, in := range b.Instrs {
				bo, ok := in.(*ssa.BinOp)
				if !ok {
					continue
				}
				var k *ssa.Const
				op := bo.Op
				switch {
				case isAccLen(bo.X):
					k, _ = bo.Y.(*ssa.Const)
				case isAccLen(bo.Y):
					k, _ = bo.X.(*ssa.Const)
					// mirror: K op len  ==  len op' K
					switch op {
					case token.LSS:
						op = token.GTR
					case token.GTR:
						op = token.LSS
					case token.LEQ:
						op = token.GEQ
					case token.GEQ:
						op = token.LEQ
					}
				default:
					continue
				}
				n++
				fname := core.FuncName(fn)
				pos := c.P.Pos(bo.Pos())
				if k == nil {
					c.Violate(rule, fname, "len(acc) test", pos, "the size of an accumulator is compared with a run-time value", nil)
					continue
				}
				v := k.Int64()
				okTest := (v == 0 && (op == token.GTR || op == token.EQL || op == token.NEQ || op == token.LEQ)) || (v == 1 && (op == token.LSS || op == token.GEQ))
				if okTest {
					c.Discharge(rule, fname, "len(acc) test", pos, "an emptiness test")
				} else if leadsToMadeError(bo) {
					c.Discharge(rule, fname, "len(acc) test", pos, "an assertion: one side of the test does nothing but return an error made on the spot")
				} else {
					c.Violate(rule, fname, "len(acc) test", pos, fmt.Sprintf("the size of the accumulator is tested with %s %d, which is not an emptiness test: a day or period that contributed exactly one element is treated like an empty one (or the reverse)", op, v), nil)
				}
			}
		}
	}
	if n == 0 {
		c.Note(rule + ": no decision on the size of an accumulator in the tree")
	}
}

func isNumeric(t types.Type) bool {
	b, ok := t.Underlying().(*types.Basic)
	return ok && b.Info()&(types.IsInteger|types.IsFloat) != 0
}

// sumContains: v is a sum/difference (possibly nested) one of whose operands satisfies pred.
func sumContains(v absint.Value, pred func(absint.Value) bool, depth int) bool {
	t, ok := v.(*absint.Term)
	if !ok || (t.Op != "+" && t.Op != "-") || depth > 6 {
		return false
	}
	for _, a := range t.Args {
		if pred(a) || sumContains(a, pred, depth+1) {
			return true
		}
	}
	return false
}

// ruleDayAccumulatorFresh is C12-R7: the accumulator a per-day function (one that is handed the day's *LogNode)
// adds the day's amounts to is made in that call — `acc := NewAccumulator()` — or, when it is kept in a field, the
// field is given a newly made accumulator before the first Add of the call. An accumulator that survives from one
// day to the next and is merely emptied of its values keeps the names of earlier days: later days then show rows of
// zeros for elements they do not have, so the report of a history is not the reports of its days put together.
func ruleDayAccumulatorFresh(c *core.Ctx, rule string) {
	lnT := c.P.LookupType(core.LibPath, "LogNode")
	accT := c.P.LookupType(core.LibPath, "Accumulator")
	if !requireAnchor(c, rule, "lib.LogNode", lnT != nil) || !requireAnchor(c, rule, "lib.Accumulator", accT != nil) {
		return
	}
	fresh := func(v ssa.Value) bool {
		switch t := v.(type) {
		case *ssa.MakeMap:
			return true
		case *ssa.Call:
			cal := core.Callee(&t.Call)
			return cal != nil && cal.Name() == "NewAccumulator"
		case *ssa.ChangeType:
			_, ok := t.X.(*ssa.MakeMap)
			return ok
		}
		return false
	}
	n := 0
	for _, fn := range c.P.Funcs {
		perDay := false
		for _, p := range fn.Params {
			if pt, ok := p.Type().(*types.Pointer); ok && types.Identical(pt.Elem(), lnT) {
				perDay = true
			}
		}
		if !perDay || fn.Parent() != nil {
			continue
		}
		for _, b := range fn.Blocks {
			for _, in := range b.Instrs {
				call, ok := in.(*ssa.Call)
				if !ok || !isMethod(core.Callee(&call.Call), core.LibPath, "Accumulator", "Add") || len(call.Call.Args) == 0 {
					continue
				}
				recv := call.Call.Args[0]
				ld, ok := recv.(*ssa.UnOp)
				if !ok || ld.Op != token.MUL {
					continue // a local accumulator (made in this call or handed in by the caller for this day)
				}
				fa, ok := ld.X.(*ssa.FieldAddr)
				if !ok {
					continue
				}
				n++
				fname := core.FuncName(fn)
				fld := fieldName(fa.X.Type(), fa.Field)
				pos := c.P.Pos(call.Pos())
				c.Universe(rule+" accumulators kept in a field and fed per day", fname+" "+fld+" ("+pos+")")
				// a store of a newly made accumulator into the same field that dominates this Add
				renewed := false
				for _, b2 := range fn.Blocks {
					for _, in2 := range b2.Instrs {
						st, ok := in2.(*ssa.Store)
						if !ok {
							continue
						}
						fa2, ok := st.Addr.(*ssa.FieldAddr)
						if !ok || fa2.Field != fa.Field || fa2.X != fa.X || !fresh(st.Val) {
							continue
						}
						if b2.Dominates(call.Block()) {
							renewed = true
						}
					}
				}
				if renewed {
					c.Discharge(rule, fname, "fresh "+fld, pos, "the field is given a newly made accumulator earlier in the same call")
				} else {
					// an accumulator that collects over the whole walk (a period total, printed at Flush) is not a per-day one:
					// it is one only if the same call also reads it back
					if readsBack(fn, fa) {
						c.Violate(rule, fname, "fresh "+fld, pos, fmt.Sprintf("the day's amounts are added to the accumulator kept in field %s, which the same call also reads back for the day's totals, and the call does not give the field a newly made accumulator first: names (and, unless every register is cleared, amounts) of earlier days survive into later ones", fld), nil)
					} else {
						c.Discharge(rule, fname, "fresh "+fld, pos, "a running accumulator over the whole walk (the call does not read it back)")
					}
				}
			}
		}
	}
	if n == 0 {
		c.Note(rule + ": no per-day function feeds an accumulator kept in a field (vacuous)")
	}
}

// readsBack: fn (or a function of its package it calls with the structure) ranges over or looks up the accumulator
// held in the field fa names, or hands it to another function.
func readsBack(fn *ssa.Function, fa *ssa.FieldAddr) bool {
	for _, b := range fn.Blocks {
		for _, in := range b.Instrs {
			ld, ok := in.(*ssa.UnOp)
			if !ok || ld.Op != token.MUL {
				continue
			}
			fa2, ok := ld.X.(*ssa.FieldAddr)
			if !ok || fa2.Field != fa.Field || fa2.X != fa.X || ld.Referrers() == nil {
				continue
			}
			for _, r := range *ld.Referrers() {
				switch t := r.(type) {
				case *ssa.Range, *ssa.Lookup:
					return true
				case *ssa.Call:
					if cal := core.Callee(&t.Call); cal != nil && cal.Name() != "Add" {
						return true
					}
				}
			}
		}
	}
	return false
}

// derivesFromParam: v mentions the parameter called pname, or the initial content of memory reached through it.
func derivesFromParam(x *absint.Exec, v absint.Value, pname string, depth int) bool {
	if depth > 3 || v == nil {
		return false
	}
	key := v.Key()
	if strings.Contains(key, "§"+pname+",") || strings.Contains(key, "§"+pname+")") || strings.HasSuffix(key, "§"+pname) || strings.Contains(key, "§"+pname+"·") || strings.Contains(key, "§"+pname+"}") {
		return true
	}
	for i := 0; i < len(key); i++ {
		j := strings.Index(key[i:], "§@")
		if j < 0 {
			break
		}
		i += j + len("§@")
		k := i
		for k < len(key) && key[k] >= '0' && key[k] <= '9' {
			k++
		}
		if loc, ok := x.LocOf[key[i:k]]; ok {
			if strings.Contains(loc, "§"+pname+"·") || strings.Contains(loc, "§"+pname+"[") || strings.HasSuffix(loc, "§"+pname) {
				return true
			}
			if derivesFromParam(x, absint.Sym{Name: "loc:" + loc}, pname, depth+1) && false {
				return true
			}
			// a cell reached through another loaded cell
			if strings.Contains(loc, "§@") && derivesFromParam(x, absint.Sym{Name: strings.TrimPrefix(loc, "L:§")}, pname, depth+1) {
				return true
			}
		}
	}
	return false
}

func shortKey(k string) string {
	if len(k) > 80 {
		return k[:80] + "…"
	}
	return k
}

// leadsToMadeError: the comparison decides a branch one side of which only returns an error made on the spot
// (fmt.Errorf, errors.New): an internal assertion, not a decision about what is shown.
func leadsToMadeError(bo *ssa.BinOp) bool {
	if bo.Referrers() == nil {
		return false
	}
	for _, r := range *bo.Referrers() {
		iff, ok := r.(*ssa.If)
		if !ok {
			continue
		}
		for _, s := range iff.Block().Succs {
			if ret, ok := soleReturn(s); ok && len(ret.Results) > 0 {
				res := ret.Results[len(ret.Results)-1]
				if isErrorType(res.Type()) && madeError(res) {
					return true
				}
			}
		}
	}
	return false
}

var ctorOnlyProg *core.Program

// setOnlyAtConstruction: every store into a field called name of a structure of the command packages goes into a
// structure that is being made (a composite literal): the field never changes afterwards.
func setOnlyAtConstruction(p *core.Program, name string) bool {
	n := 0
	for _, fn := range p.Funcs {
		if !strings.HasPrefix(core.FnPkgPath(fn), core.CmdPath) {
			continue
		}
		for _, b := range fn.Blocks {
			for _, in := range b.Instrs {
				st, ok := in.(*ssa.Store)
				if !ok {
					continue
				}
				fa, ok := st.Addr.(*ssa.FieldAddr)
				if !ok || fieldName(fa.X.Type(), fa.Field) != name {
					continue
				}
				n++
				if _, fresh := fa.X.(*ssa.Alloc); !fresh {
					return false
				}
			}
		}
	}
	return n > 0
}
