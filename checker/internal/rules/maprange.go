package rules

import (
	"fmt"
	"go/ast"
	"go/token"
	"go/types"
	"strings"

	"golang.org/x/tools/go/ast/astutil"
	"golang.org/x/tools/go/packages"
	"golang.org/x/tools/go/ssa"
	"golang.org/x/tools/go/types/typeutil"

	"hrverif/internal/core"
)

// ---------------------------------------------------------------------------
// C05-R1 / C05-R2: every range over a map is order-insensitive.
//
// Accepted idioms:
//  (a) collect-then-sort: the body only copies the key (optionally with data
//      derived from the value, optionally under a condition that does not read
//      an accumulator, optionally from a nested loop over a slice) into a slice
//      whose first use after the loop is a sort that is total on the key;
//  (b) commutative body: integer counting, insertion into a map under the
//      range key itself, delete, boolean or/and;
//  (c) extremum of the keys: a single "if [!found ||] key < best { best = key … }".
// Anything else is reported with the first offending statement.
// ---------------------------------------------------------------------------

type mapRangeSite struct {
	pkg    *packages.Package
	stmt   *ast.RangeStmt
	path   []ast.Node // enclosing nodes, innermost first
	fn     *ssa.Function
	fnName string
}

func findMapRanges(p *core.Program) []mapRangeSite {
	var out []mapRangeSite
	for _, pkg := range p.RootsInScope() {
		sp := p.SSA.Package(pkg.Types)
		for _, f := range pkg.Syntax {
			if strings.HasSuffix(p.Fset.Position(f.Pos()).Filename, "_test.go") {
				continue
			}
			ast.Inspect(f, func(n ast.Node) bool {
				rs, ok := n.(*ast.RangeStmt)
				if !ok {
					return true
				}
				tv, ok := pkg.TypesInfo.Types[rs.X]
				if !ok {
					return true
				}
				if _, isMap := tv.Type.Underlying().(*types.Map); !isMap {
					return true
				}
				path, _ := astutil.PathEnclosingInterval(f, rs.Pos(), rs.Pos())
				// PathEnclosingInterval may return the RangeStmt's child; normalise to start at rs
				for len(path) > 0 && path[0] != ast.Node(rs) {
					path = path[1:]
				}
				var fn *ssa.Function
				if sp != nil {
					fn = ssa.EnclosingFunction(sp, path)
				}
				name := "?"
				if fn != nil {
					name = core.FuncName(fn)
				}
				out = append(out, mapRangeSite{pkg: pkg, stmt: rs, path: path, fn: fn, fnName: name})
				return true
			})
		}
	}
	return out
}

type mrState struct {
	p       *core.Program
	info    *types.Info
	site    mapRangeSite
	keyObj  types.Object
	valObj  types.Object
	outer   map[types.Object]bool // objects assigned in the body that are declared outside it
	collect map[types.Object]*collectInfo
	reason  string
	reasonP token.Pos
	commut  int
}

type collectInfo struct {
	obj      types.Object
	exprs    []ast.Expr // collected element expressions
	nested   bool       // some append sits in a nested loop (duplicate keys possible)
	counters []types.Object
}

func (s *mrState) fail(pos token.Pos, format string, a ...interface{}) {
	if s.reason == "" {
		s.reason = fmt.Sprintf(format, a...)
		s.reasonP = pos
	}
}

func objOf(info *types.Info, e ast.Expr) types.Object {
	if id, ok := ast.Unparen(e).(*ast.Ident); ok {
		if o := info.Uses[id]; o != nil {
			return o
		}
		return info.Defs[id]
	}
	return nil
}

// classifyMapRange decides one site. It returns the verdict and a message.
func classifyMapRange(p *core.Program, site mapRangeSite) (core.Verdict, string, token.Pos) {
	info := site.pkg.TypesInfo
	s := &mrState{p: p, info: info, site: site, outer: map[types.Object]bool{}, collect: map[types.Object]*collectInfo{}}
	if site.stmt.Key != nil {
		s.keyObj = objOf(info, site.stmt.Key)
	}
	if site.stmt.Value != nil {
		s.valObj = objOf(info, site.stmt.Value)
	}
	body := site.stmt.Body
	// objects written in the body but declared outside it
	ast.Inspect(body, func(n ast.Node) bool {
		switch n := n.(type) {
		case *ast.AssignStmt:
			for _, l := range n.Lhs {
				s.noteWrite(l, body)
			}
		case *ast.IncDecStmt:
			s.noteWrite(n.X, body)
		}
		return true
	})
	if msg, ok := s.extremumOfKeys(body); ok {
		return core.Discharged, msg, site.stmt.Pos()
	}
	s.stmts(body.List, 0)
	if s.reason != "" {
		return core.Violated, s.reason, s.reasonP
	}
	if len(s.collect) == 0 {
		if s.commut == 0 {
			return core.Discharged, "empty or effect-free body", site.stmt.Pos()
		}
		return core.Discharged, fmt.Sprintf("commutative body (%d order-insensitive updates)", s.commut), site.stmt.Pos()
	}
	// collect-then-sort: first later use of each collected slice must be a total-key sort
	var msgs []string
	for _, ci := range s.collect {
		ok, msg, pos := s.checkSortAfter(ci)
		if !ok {
			return core.Violated, msg, pos
		}
		msgs = append(msgs, msg)
	}
	return core.Discharged, "collect-then-sort: " + strings.Join(msgs, "; "), site.stmt.Pos()
}

// extremumOfKeys accepts idiom (c): the body is a single
//
//	if [!found ||] key < best { best = key [; found = true] [; bestVal = value] }
//
// (any of < > <= >=, operands in either order). The keys of a map are distinct,
// so the smallest/largest key — and the value stored under it — is the same
// whatever the iteration order.
func (s *mrState) extremumOfKeys(body *ast.BlockStmt) (string, bool) {
	if s.keyObj == nil || len(body.List) != 1 {
		return "", false
	}
	ifs, ok := body.List[0].(*ast.IfStmt)
	if !ok || ifs.Init != nil || ifs.Else != nil {
		return "", false
	}
	if b, ok := s.keyObj.Type().Underlying().(*types.Basic); !ok || b.Info()&types.IsOrdered == 0 {
		return "", false
	}
	var best, flag types.Object
	cmp := func(e ast.Expr) bool {
		be, ok := ast.Unparen(e).(*ast.BinaryExpr)
		if !ok {
			return false
		}
		switch be.Op {
		case token.LSS, token.GTR, token.LEQ, token.GEQ:
		default:
			return false
		}
		l, r := objOf(s.info, be.X), objOf(s.info, be.Y)
		switch {
		case l == s.keyObj && r != nil && r != s.keyObj && !s.declaredInside(r):
			best = r
		case r == s.keyObj && l != nil && l != s.keyObj && !s.declaredInside(l):
			best = l
		default:
			return false
		}
		return true
	}
	notFlag := func(e ast.Expr) bool {
		ue, ok := ast.Unparen(e).(*ast.UnaryExpr)
		if !ok || ue.Op != token.NOT {
			return false
		}
		o := objOf(s.info, ue.X)
		if o == nil || s.declaredInside(o) {
			return false
		}
		if b, ok := o.Type().Underlying().(*types.Basic); !ok || b.Info()&types.IsBoolean == 0 {
			return false
		}
		flag = o
		return true
	}
	cond := ast.Unparen(ifs.Cond)
	if be, ok := cond.(*ast.BinaryExpr); ok && be.Op == token.LOR {
		if !(notFlag(be.X) && cmp(be.Y)) && !(cmp(be.X) && notFlag(be.Y)) {
			return "", false
		}
	} else if !cmp(cond) {
		return "", false
	}
	assignedBest := false
	for _, st := range ifs.Body.List {
		as, ok := st.(*ast.AssignStmt)
		if !ok || as.Tok != token.ASSIGN || len(as.Lhs) != len(as.Rhs) {
			return "", false
		}
		for i := range as.Lhs {
			lo := objOf(s.info, as.Lhs[i])
			if _, isIdent := ast.Unparen(as.Lhs[i]).(*ast.Ident); !isIdent || lo == nil {
				return "", false
			}
			ro := objOf(s.info, as.Rhs[i])
			switch {
			case lo == best && ro == s.keyObj:
				assignedBest = true
			case flag != nil && lo == flag:
				if id, ok := ast.Unparen(as.Rhs[i]).(*ast.Ident); !ok || id.Name != "true" {
					return "", false
				}
			case s.valObj != nil && ro == s.valObj && lo != best && lo != s.keyObj && !s.declaredInside(lo):
				// the value stored under the extremal key
			default:
				return "", false
			}
		}
	}
	if !assignedBest {
		return "", false
	}
	return "extremum of the keys: keys are distinct, so the selected key (and its value) does not depend on the iteration order", true
}

func (s *mrState) noteWrite(lhs ast.Expr, body *ast.BlockStmt) {
	root := lhs
	for {
		switch x := ast.Unparen(root).(type) {
		case *ast.IndexExpr:
			root = x.X
			continue
		case *ast.SelectorExpr:
			root = x.X
			continue
		case *ast.StarExpr:
			root = x.X
			continue
		}
		break
	}
	if o := objOf(s.info, root); o != nil {
		if !(body.Pos() <= o.Pos() && o.Pos() <= body.End()) {
			s.outer[o] = true
		}
	}
}

func (s *mrState) declaredInside(o types.Object) bool {
	b := s.site.stmt.Body
	return o != nil && b.Pos() <= o.Pos() && o.Pos() <= b.End()
}

// pure reports whether evaluating e has no effect and reads no accumulator
// other than those in allow.
func (s *mrState) pure(e ast.Expr, allow ...types.Object) bool {
	ok := true
	ast.Inspect(e, func(n ast.Node) bool {
		if !ok {
			return false
		}
		switch n := n.(type) {
		case *ast.IndexExpr:
			// another map read under the range key itself (cur := acc[name] while ranging over other by name): each
			// iteration sees only the entry of its own key, which no other iteration touches
			if s.keyObj != nil && objOf(s.info, n.Index) == s.keyObj {
				if bo := objOf(s.info, n.X); bo != nil {
					if _, isMap := bo.Type().Underlying().(*types.Map); isMap {
						return false
					}
				}
			}
		case *ast.Ident:
			o := s.info.Uses[n]
			if o != nil && s.outer[o] {
				for _, a := range allow {
					if a == o {
						return true
					}
				}
				s.fail(n.Pos(), "expression reads %s, which earlier iterations of the map range modify", n.Name)
				ok = false
			}
		case *ast.CallExpr:
			if !s.pureCall(n) {
				s.fail(n.Pos(), "call %s inside a map range may have effects that depend on iteration order", types.ExprString(n.Fun))
				ok = false
			}
		case *ast.FuncLit:
			s.fail(n.Pos(), "closure inside a map range")
			ok = false
		case *ast.UnaryExpr:
			if n.Op == token.ARROW {
				s.fail(n.Pos(), "channel receive inside a map range")
				ok = false
			}
		}
		return ok
	})
	return ok
}

func (s *mrState) pureCall(call *ast.CallExpr) bool {
	if tv, ok := s.info.Types[call.Fun]; ok && tv.IsType() {
		return true // conversion
	}
	switch fn := typeutil.Callee(s.info, call).(type) {
	case *types.Builtin:
		switch fn.Name() {
		case "len", "cap", "append", "make", "new", "min", "max", "complex", "real", "imag":
			return true
		}
		return false
	case *types.Func:
		if fn.Pkg() != nil {
			switch fn.Pkg().Path() {
			case "strings", "strconv", "math", "unicode", "unicode/utf8", "path", "path/filepath":
				return true
			case "fmt":
				return fn.Name() == "Sprintf" || fn.Name() == "Sprint" || fn.Name() == "Sprintln"
			}
		}
		if sf := s.p.SSA.FuncValue(fn); sf != nil && s.p.InScope(sf) {
			return pureSSA(s.p, sf, 0)
		}
	}
	return false
}

// pureSSA: fn writes only memory it allocates itself and calls only pure functions.
func pureSSA(p *core.Program, fn *ssa.Function, depth int) bool {
	if depth > 3 || len(fn.Blocks) == 0 {
		return false
	}
	local := func(v ssa.Value) bool {
		for {
			switch x := v.(type) {
			case *ssa.Alloc:
				return true
			case *ssa.FieldAddr:
				v = x.X
			case *ssa.IndexAddr:
				v = x.X
			default:
				return false
			}
		}
	}
	for _, b := range fn.Blocks {
		for _, in := range b.Instrs {
			switch in := in.(type) {
			case *ssa.Store:
				if !local(in.Addr) {
					return false
				}
			case *ssa.MapUpdate, *ssa.Send, *ssa.Go, *ssa.Defer, *ssa.Panic, *ssa.Select:
				return false
			case *ssa.Call:
				if b, ok := in.Call.Value.(*ssa.Builtin); ok {
					switch b.Name() {
					case "len", "cap", "append":
						continue
					}
					return false
				}
				cal := core.Callee(&in.Call)
				if cal == nil || !p.InScope(cal) || !pureSSA(p, cal, depth+1) {
					return false
				}
			}
		}
	}
	return true
}

func (s *mrState) stmts(list []ast.Stmt, loopDepth int) {
	for _, st := range list {
		if s.reason != "" {
			return
		}
		s.stmt(st, loopDepth)
	}
}

func (s *mrState) stmt(st ast.Stmt, loopDepth int) {
	switch st := st.(type) {
	case *ast.BlockStmt:
		s.stmts(st.List, loopDepth)
	case *ast.EmptyStmt:
	case *ast.DeclStmt:
		gd, ok := st.Decl.(*ast.GenDecl)
		if !ok {
			return
		}
		for _, sp := range gd.Specs {
			if vs, ok := sp.(*ast.ValueSpec); ok {
				for _, v := range vs.Values {
					s.pure(v)
				}
			}
		}
	case *ast.IfStmt:
		if st.Init != nil {
			s.stmt(st.Init, loopDepth)
		}
		s.pure(st.Cond)
		s.stmt(st.Body, loopDepth)
		if st.Else != nil {
			s.stmt(st.Else, loopDepth)
		}
	case *ast.RangeStmt:
		if tv, ok := s.info.Types[st.X]; ok {
			if _, isMap := tv.Type.Underlying().(*types.Map); isMap {
				s.fail(st.Pos(), "nested range over a map")
				return
			}
		}
		s.pure(st.X)
		s.stmt(st.Body, loopDepth+1)
	case *ast.ForStmt:
		if st.Init != nil {
			s.stmt(st.Init, loopDepth)
		}
		if st.Cond != nil {
			s.pure(st.Cond)
		}
		if st.Post != nil {
			s.stmt(st.Post, loopDepth+1)
		}
		s.stmt(st.Body, loopDepth+1)
	case *ast.BranchStmt:
		if st.Tok != token.CONTINUE || st.Label != nil {
			s.fail(st.Pos(), "%s leaves the map range after an order-dependent number of iterations", st.Tok)
		}
	case *ast.ReturnStmt:
		s.fail(st.Pos(), "return inside a map range: which iteration returns depends on map order")
	case *ast.IncDecStmt:
		o := objOf(s.info, st.X)
		if o == nil {
			s.fail(st.Pos(), "increment of a non-variable inside a map range")
			return
		}
		if s.declaredInside(o) {
			return
		}
		if b, ok := o.Type().Underlying().(*types.Basic); ok && b.Info()&types.IsInteger != 0 {
			s.commut++
			return
		}
		s.fail(st.Pos(), "non-integer accumulation of %s in map order", o.Name())
	case *ast.ExprStmt:
		call, ok := st.X.(*ast.CallExpr)
		if ok {
			if b, isB := typeutil.Callee(s.info, call).(*types.Builtin); isB && b.Name() == "delete" {
				for _, a := range call.Args {
					s.pure(a)
				}
				s.commut++
				return
			}
		}
		s.fail(st.Pos(), "statement %s has effects in map iteration order", exprStr(st.X))
	case *ast.AssignStmt:
		s.assign(st, loopDepth)
	default:
		s.fail(st.Pos(), "statement of kind %T inside a map range is outside the accepted idioms", st)
	}
}

func exprStr(e ast.Expr) string {
	t := types.ExprString(e)
	if len(t) > 60 {
		t = t[:57] + "..."
	}
	return t
}

func (s *mrState) assign(st *ast.AssignStmt, loopDepth int) {
	if len(st.Lhs) != 1 || len(st.Rhs) != 1 {
		// multi-assign: all targets must be locals, all rhs pure
		for _, l := range st.Lhs {
			if o := objOf(s.info, l); o == nil || !s.declaredInside(o) {
				if id, ok := l.(*ast.Ident); ok && id.Name == "_" {
					continue
				}
				s.fail(st.Pos(), "multi-value assignment to a variable outside the map range")
				return
			}
		}
		for _, r := range st.Rhs {
			s.pure(r)
		}
		return
	}
	lhs, rhs := ast.Unparen(st.Lhs[0]), st.Rhs[0]
	if id, ok := lhs.(*ast.Ident); ok && id.Name == "_" {
		s.pure(rhs)
		return
	}
	// local variable
	if o := objOf(s.info, lhs); o != nil && s.declaredInside(o) {
		s.pure(rhs)
		return
	}
	switch l := lhs.(type) {
	case *ast.Ident:
		o := objOf(s.info, l)
		if o == nil {
			s.fail(st.Pos(), "assignment to unknown target")
			return
		}
		// S = append(S, e...)
		if call, ok := rhs.(*ast.CallExpr); ok && st.Tok == token.ASSIGN {
			if b, isB := typeutil.Callee(s.info, call).(*types.Builtin); isB && b.Name() == "append" && len(call.Args) >= 2 && objOf(s.info, call.Args[0]) == o && !call.Ellipsis.IsValid() {
				ci := s.collect[o]
				if ci == nil {
					ci = &collectInfo{obj: o}
					s.collect[o] = ci
				}
				for _, a := range call.Args[1:] {
					if !s.pure(a) {
						return
					}
					ci.exprs = append(ci.exprs, a)
				}
				if loopDepth > 0 {
					ci.nested = true
				}
				return
			}
		}
		// integer counting: n += const / n = n + const
		if bt, ok := o.Type().Underlying().(*types.Basic); ok && bt.Info()&types.IsInteger != 0 {
			if st.Tok == token.ADD_ASSIGN || st.Tok == token.SUB_ASSIGN {
				if s.pure(rhs) {
					s.commut++
				}
				return
			}
		}
		// boolean or/and
		if bt, ok := o.Type().Underlying().(*types.Basic); ok && bt.Kind() == types.Bool && st.Tok == token.ASSIGN {
			if be, ok := ast.Unparen(rhs).(*ast.BinaryExpr); ok && (be.Op == token.LOR || be.Op == token.LAND) && objOf(s.info, be.X) == o {
				if s.pure(be.Y) {
					s.commut++
				}
				return
			}
			if id, ok := ast.Unparen(rhs).(*ast.Ident); ok && (id.Name == "true" || id.Name == "false") {
				s.commut++ // monotone flag
				return
			}
		}
		s.fail(st.Pos(), "assignment to %s carries state across iterations in map order", o.Name())
	case *ast.IndexExpr:
		base := objOf(s.info, l.X)
		if base == nil {
			s.fail(st.Pos(), "indexed store through %s inside a map range", exprStr(l.X))
			return
		}
		switch base.Type().Underlying().(type) {
		case *types.Map:
			// insertion under the range key itself is order-independent
			if s.keyObj != nil && objOf(s.info, l.Index) == s.keyObj && st.Tok == token.ASSIGN {
				if s.pure(rhs) {
					s.commut++
				}
				return
			}
			// insertion into a set: whatever the key, what is stored is the same constant (seen[name] = true,
			// names[name] = struct{}{}), so the last writer writes what every writer writes
			if st.Tok == token.ASSIGN {
				switch r := ast.Unparen(rhs).(type) {
				case *ast.Ident:
					if r.Name == "true" {
						s.commut++
						return
					}
				case *ast.CompositeLit:
					if len(r.Elts) == 0 {
						if tv, ok := s.info.Types[r]; ok {
							if stt, isSt := tv.Type.Underlying().(*types.Struct); isSt && stt.NumFields() == 0 {
								s.commut++
								return
							}
						}
					}
				}
			}
			s.fail(st.Pos(), "map update %s under a key other than the range key (last writer wins in map order)", exprStr(lhs))
		case *types.Slice, *types.Array:
			idx := objOf(s.info, l.Index)
			if idx == nil || !s.outer[idx] || st.Tok != token.ASSIGN {
				s.fail(st.Pos(), "slice store %s inside a map range is not the keys[i]=k; i++ idiom", exprStr(lhs))
				return
			}
			ci := s.collect[base]
			if ci == nil {
				ci = &collectInfo{obj: base}
				s.collect[base] = ci
			}
			if !s.pure(rhs, idx) {
				return
			}
			ci.exprs = append(ci.exprs, rhs)
			ci.counters = append(ci.counters, idx)
			if loopDepth > 0 {
				ci.nested = true
			}
		default:
			s.fail(st.Pos(), "indexed store %s inside a map range", exprStr(lhs))
		}
	default:
		s.fail(st.Pos(), "store to %s inside a map range happens in map order", exprStr(lhs))
	}
}

// keyShape describes where the map key sits inside a collected element.
type keyShape struct {
	self  bool   // the element is the key itself
	field string // or: the struct field that holds the key
}

func (s *mrState) shapeOf(e ast.Expr) (keyShape, bool) {
	e = ast.Unparen(e)
	if s.keyObj == nil {
		return keyShape{}, false
	}
	if objOf(s.info, e) == s.keyObj {
		return keyShape{self: true}, true
	}
	switch x := e.(type) {
	case *ast.CompositeLit:
		tv, ok := s.info.Types[x]
		if !ok {
			return keyShape{}, false
		}
		st, ok := tv.Type.Underlying().(*types.Struct)
		if !ok {
			return keyShape{}, false
		}
		for i, el := range x.Elts {
			if kv, ok := el.(*ast.KeyValueExpr); ok {
				if objOf(s.info, kv.Value) == s.keyObj {
					if id, ok := kv.Key.(*ast.Ident); ok {
						return keyShape{field: id.Name}, true
					}
				}
				continue
			}
			if objOf(s.info, el) == s.keyObj && i < st.NumFields() {
				return keyShape{field: st.Field(i).Name()}, true
			}
		}
	case *ast.CallExpr:
		if tv, ok := s.info.Types[x.Fun]; ok && tv.IsType() && len(x.Args) == 1 {
			return s.shapeOf(x.Args[0])
		}
		fn, _ := typeutil.Callee(s.info, x).(*types.Func)
		if fn == nil {
			return keyShape{}, false
		}
		sf := s.p.SSA.FuncValue(fn)
		if sf == nil || !s.p.InScope(sf) {
			return keyShape{}, false
		}
		for i, a := range x.Args {
			if objOf(s.info, a) == s.keyObj && i < len(sf.Params) {
				if f, ok := fieldSetFromParam(sf, sf.Params[i]); ok {
					return keyShape{field: f}, true
				}
			}
		}
	}
	return keyShape{}, false
}

// fieldSetFromParam: the constructor stores param into exactly one field of the
// struct it builds and returns.
func fieldSetFromParam(fn *ssa.Function, param *ssa.Parameter) (string, bool) {
	var found []string
	for _, b := range fn.Blocks {
		for _, in := range b.Instrs {
			st, ok := in.(*ssa.Store)
			if !ok || st.Val != ssa.Value(param) {
				continue
			}
			fa, ok := st.Addr.(*ssa.FieldAddr)
			if !ok {
				return "", false
			}
			pt, ok := fa.X.Type().Underlying().(*types.Pointer)
			if !ok {
				return "", false
			}
			stt, ok := pt.Elem().Underlying().(*types.Struct)
			if !ok {
				return "", false
			}
			found = append(found, stt.Field(fa.Field).Name())
		}
	}
	if len(found) == 1 {
		return found[0], true
	}
	return "", false
}

// checkSortAfter: the first use of the collected slice after the range loop,
// in the statement list that contains the loop, is a sort total on the key.
func (s *mrState) checkSortAfter(ci *collectInfo) (bool, string, token.Pos) {
	name := ci.obj.Name()
	// shape of every collected expression must agree and contain the key
	var shape keyShape
	for i, e := range ci.exprs {
		sh, ok := s.shapeOf(e)
		if !ok {
			return false, fmt.Sprintf("%s collects %s, in which the map key cannot be located; its order cannot be restored by sorting", name, exprStr(e)), e.Pos()
		}
		if i > 0 && sh != shape {
			return false, fmt.Sprintf("%s collects elements of different shapes", name), e.Pos()
		}
		shape = sh
	}
	// the statement list containing the range statement
	var following []ast.Stmt
	for i := 1; i < len(s.site.path); i++ {
		var list []ast.Stmt
		switch b := s.site.path[i].(type) {
		case *ast.BlockStmt:
			list = b.List
		case *ast.CaseClause:
			list = b.Body
		case *ast.CommClause:
			list = b.Body
		default:
			continue
		}
		for j, st := range list {
			if st == ast.Stmt(s.site.stmt) || (i > 1 && st == s.site.path[i-1]) {
				following = list[j+1:]
				break
			}
		}
		break
	}
	for _, st := range following {
		if !mentions(s.info, st, ci.obj) {
			// a counter reset or an unrelated statement
			continue
		}
		es, ok := st.(*ast.ExprStmt)
		if !ok {
			return false, fmt.Sprintf("%s is used by `%s` before being sorted: its order is the map's iteration order", name, stmtStr(s.p, st)), st.Pos()
		}
		call, ok := es.X.(*ast.CallExpr)
		if !ok {
			return false, fmt.Sprintf("%s is used before being sorted", name), st.Pos()
		}
		ok, why := s.totalKeySort(call, ci, shape)
		if !ok {
			return false, fmt.Sprintf("first use of %s after the map range is `%s`: %s", name, exprStr(call), why), st.Pos()
		}
		return true, fmt.Sprintf("%s sorted by %s", name, why), st.Pos()
	}
	return false, fmt.Sprintf("%s is filled in map order and never sorted in the enclosing block", name), s.site.stmt.Pos()
}

func stmtStr(p *core.Program, st ast.Stmt) string {
	return fmt.Sprintf("%T at %s", st, p.Pos(st.Pos()))
}

func mentions(info *types.Info, n ast.Node, o types.Object) bool {
	found := false
	ast.Inspect(n, func(n ast.Node) bool {
		if id, ok := n.(*ast.Ident); ok && info.Uses[id] == o {
			found = true
		}
		return !found
	})
	return found
}

func isSortStringSlice(t types.Type) bool {
	n, ok := t.(*types.Named)
	return ok && n.Obj().Pkg() != nil && n.Obj().Pkg().Path() == "sort" && n.Obj().Name() == "StringSlice"
}

func (s *mrState) totalKeySort(call *ast.CallExpr, ci *collectInfo, shape keyShape) (bool, string) {
	fn, _ := typeutil.Callee(s.info, call).(*types.Func)
	if fn == nil || fn.Pkg() == nil {
		return false, "not a recognised sort"
	}
	argIs := func(i int) bool {
		if i >= len(call.Args) {
			return false
		}
		a := ast.Unparen(call.Args[i])
		if c, ok := a.(*ast.CallExpr); ok && len(c.Args) == 1 { // conversion sort.StringSlice(keys)
			if tv, ok := s.info.Types[c.Fun]; ok && tv.IsType() {
				a = ast.Unparen(c.Args[0])
			}
		}
		// a wrapper literal around the collected slice: byName{rows}
		if cl, ok := a.(*ast.CompositeLit); ok && len(cl.Elts) == 1 {
			e := cl.Elts[0]
			if kv, ok := e.(*ast.KeyValueExpr); ok {
				e = kv.Value
			}
			if tv, ok := s.info.Types[cl]; ok && wrapsOneSlice(tv.Type) {
				a = ast.Unparen(e)
			}
		}
		return objOf(s.info, a) == ci.obj
	}
	full := fn.FullName()
	switch full {
	case "sort.Strings", "slices.Sort":
		if argIs(0) && shape.self {
			return true, full + " (total order on the keys)"
		}
		return false, "sorts something other than a slice of the keys"
	case "sort.Sort", "sort.Stable":
		if argIs(0) && shape.self {
			if tv, ok := s.info.Types[call.Args[0]]; ok && isSortStringSlice(tv.Type) {
				return true, full + " on sort.StringSlice (total order on the keys)"
			}
		}
		// a named slice type of the tree with its own Less: judged like a comparator literal, with the receiver as
		// the slice (type AccRows []AccRow; func (r AccRows) Less(i, j int) bool { return r[i].Name < r[j].Name })
		if argIs(0) && !shape.self && len(call.Args) == 1 {
			if tv, ok := s.info.Types[call.Args[0]]; ok {
				if lit, recv, info := s.lessMethodOf(tv.Type); lit != nil {
					if ci.nested && full == "sort.Sort" {
						return false, "elements collected in a nested loop may share a key; an unstable sort leaves their order to the input permutation"
					}
					ok, why := comparatorTotalOnKey(info, lit, recv, shape)
					if !ok {
						return false, "Less of " + tv.Type.String() + ": " + why
					}
					return true, full + " with Less of " + tv.Type.String() + ": " + why
				}
			}
		}
		return false, "sort.Interface whose Less is not known to be total on the key"
	case "(sort.StringSlice).Sort":
		// keys.Sort(), sort.StringSlice(keys).Sort(), sort.StringSlice.Sort(keys)
		if shape.self {
			if sel, ok := ast.Unparen(call.Fun).(*ast.SelectorExpr); ok {
				x := ast.Unparen(sel.X)
				if c, ok := x.(*ast.CallExpr); ok && len(c.Args) == 1 {
					x = ast.Unparen(c.Args[0])
				}
				if objOf(s.info, x) == ci.obj || argIs(0) {
					return true, "sort.StringSlice.Sort (total order on the keys)"
				}
			}
		}
		return false, "StringSlice.Sort on something other than the collected keys"
	case "sort.Slice", "sort.SliceStable", "slices.SortFunc", "slices.SortStableFunc":
		if !argIs(0) || len(call.Args) < 2 {
			return false, "sorts a different slice"
		}
		stable := strings.Contains(full, "Stable")
		if ci.nested && !stable {
			return false, "elements collected in a nested loop may share a key; an unstable sort leaves their order to the input permutation"
		}
		lit, ok := ast.Unparen(call.Args[1]).(*ast.FuncLit)
		if !ok {
			return false, "comparator is not a function literal"
		}
		ok, why := comparatorTotalOnKey(s.info, lit, ci.obj, shape)
		if !ok {
			return false, why
		}
		return true, full + " with " + why
	}
	// a helper of the tree that is handed the collected slice: judged by the first thing it does with it
	if ok, why, found := s.sortHelper(fn, call, argIs, ci, shape, 0); found {
		return ok, why
	}
	return false, "not a recognised sort"
}

// sortHelper: fn is a function of the tree called with the collected slice as one argument (sortByValue(list, desc));
// the first statement of its body that mentions that parameter must itself be a sort that is total on the key.
func (s *mrState) sortHelper(fn *types.Func, call *ast.CallExpr, argIs func(int) bool, ci *collectInfo, shape keyShape, depth int) (bool, string, bool) {
	if depth > 2 {
		return false, "", false
	}
	for _, pkg := range s.p.Roots {
		if pkg.Types != fn.Pkg() {
			continue
		}
		for _, file := range pkg.Syntax {
			for _, d := range file.Decls {
				fd, ok := d.(*ast.FuncDecl)
				if !ok || fd.Body == nil || pkg.TypesInfo.Defs[fd.Name] != types.Object(fn) || fd.Recv != nil {
					continue
				}
				var param types.Object
				i := 0
				for _, f := range fd.Type.Params.List {
					for _, n := range f.Names {
						if argIs(i) {
							param = pkg.TypesInfo.Defs[n]
						}
						i++
					}
				}
				if param == nil {
					return false, "", false
				}
				if _, isSlice := param.Type().Underlying().(*types.Slice); !isSlice {
					return false, "", false
				}
				sub := &mrState{p: s.p, info: pkg.TypesInfo, site: s.site}
				sci := &collectInfo{obj: param, nested: ci.nested}
				for _, st := range fd.Body.List {
					if !mentions(pkg.TypesInfo, st, param) {
						continue
					}
					es, ok := st.(*ast.ExprStmt)
					if !ok {
						return false, "helper " + fn.Name() + " uses the slice before sorting it", true
					}
					c2, ok := es.X.(*ast.CallExpr)
					if !ok {
						return false, "helper " + fn.Name() + " uses the slice before sorting it", true
					}
					f2, _ := typeutil.Callee(pkg.TypesInfo, c2).(*types.Func)
					if f2 != nil && f2.Pkg() == fn.Pkg() && f2 != fn {
						a2 := func(i int) bool { return i < len(c2.Args) && objOf(pkg.TypesInfo, ast.Unparen(c2.Args[i])) == param }
						if ok, why, found := sub.sortHelper(f2, c2, a2, sci, shape, depth+1); found {
							return ok, why, true
						}
					}
					ok, why := sub.totalKeySort(c2, sci, shape)
					if !ok {
						return false, "in helper " + fn.Name() + ": " + why, true
					}
					return true, "helper " + fn.Name() + ": " + why, true
				}
				return false, "helper " + fn.Name() + " never sorts the slice", true
			}
		}
	}
	return false, "", false
}

// comparatorTotalOnKey accepts less(i,j) bodies of the forms
//
//	return S[i].K < S[j].K                     (or >, or S[i] < S[j] for key slices)
//	if S[i].V != S[j].V { return S[i].V < S[j].V }; return S[i].K < S[j].K
//
// where K is the key field. A comparator on a non-key field alone keeps the
// map's order among equal values (C05-R2).
func comparatorTotalOnKey(info *types.Info, lit *ast.FuncLit, slice types.Object, shape keyShape) (bool, string) {
	if lit.Type.Params == nil || lit.Type.Params.NumFields() != 2 {
		return false, "comparator does not take two indexes"
	}
	var params []types.Object
	for _, f := range lit.Type.Params.List {
		for _, n := range f.Names {
			params = append(params, info.Defs[n])
		}
	}
	if len(params) != 2 {
		return false, "comparator does not take two indexes"
	}
	// side returns (paramIndex, field, ok) for S[p].F or S[p]
	side := func(e ast.Expr) (int, string, bool) {
		e = ast.Unparen(e)
		field := ""
		if sel, ok := e.(*ast.SelectorExpr); ok {
			field = sel.Sel.Name
			e = ast.Unparen(sel.X)
		}
		ix, ok := e.(*ast.IndexExpr)
		if !ok {
			return 0, "", false
		}
		if objOf(info, ix.X) != slice {
			// the slice kept in the single field of a wrapper the comparator is a method of: s.rows[i]
			fs, isSel := ast.Unparen(ix.X).(*ast.SelectorExpr)
			if !isSel || objOf(info, fs.X) != slice || !wrapsOneSlice(slice.Type()) {
				return 0, "", false
			}
		}
		io := objOf(info, ix.Index)
		for k, p := range params {
			if io == p {
				return k, field, true
			}
		}
		return 0, "", false
	}
	cmp := func(e ast.Expr) (field string, op token.Token, ok bool) {
		be, isB := ast.Unparen(e).(*ast.BinaryExpr)
		if !isB {
			return "", 0, false
		}
		a, fa, ok1 := side(be.X)
		b, fb, ok2 := side(be.Y)
		if !ok1 || !ok2 || a == b || fa != fb {
			return "", 0, false
		}
		return fa, be.Op, true
	}
	keyField := shape.field
	isKey := func(f string) bool {
		if shape.self {
			return f == ""
		}
		return f == keyField
	}
	list := lit.Body.List
	for n, st := range list {
		last := n == len(list)-1
		if last {
			rs, ok := st.(*ast.ReturnStmt)
			if !ok || len(rs.Results) != 1 {
				return false, "comparator body outside the recognised forms"
			}
			f, op, ok := cmp(rs.Results[0])
			if !ok || (op != token.LSS && op != token.GTR) {
				return false, "comparator's final comparison is not a strict order on one field of both elements"
			}
			if !isKey(f) {
				return false, fmt.Sprintf("comparator orders by %q only; elements with equal %s keep the map's iteration order (the key is %s)", f, f, keyName(shape))
			}
			return true, fmt.Sprintf("comparator total on the key (%s)", keyName(shape))
		}
		is, ok := st.(*ast.IfStmt)
		if !ok || is.Init != nil || is.Else != nil || len(is.Body.List) != 1 {
			return false, "comparator body outside the recognised forms"
		}
		f1, op1, ok := cmp(is.Cond)
		if !ok || op1 != token.NEQ {
			return false, "comparator guard is not a != test of one field"
		}
		rs, ok := is.Body.List[0].(*ast.ReturnStmt)
		if !ok || len(rs.Results) != 1 {
			return false, "comparator body outside the recognised forms"
		}
		f2, op2, ok := cmp(rs.Results[0])
		if !ok || f2 != f1 || (op2 != token.LSS && op2 != token.GTR) {
			return false, "comparator guard and its return compare different fields"
		}
	}
	return false, "empty comparator"
}

func keyName(sh keyShape) string {
	if sh.self {
		return "the element itself"
	}
	return "field " + sh.field
}

// RuleMapRanges runs C05-R1/R2 over every map range of p; filter (optional)
// restricts the universe (used by C02-R3, C03-R1, C11-R4, C13-R5).
func RuleMapRanges(c *core.Ctx, rule string, filter func(mapRangeSite) bool) int {
	n := 0
	for _, site := range findMapRanges(c.P) {
		if filter != nil && !filter(site) {
			continue
		}
		n++
		mt := types.TypeString(site.pkg.TypesInfo.Types[site.stmt.X].Type, func(p *types.Package) string { return p.Name() })
		c.Universe(rule+" map ranges", fmt.Sprintf("%s range %s (%s)", site.fnName, exprStr(site.stmt.X), c.P.Pos(site.stmt.Pos())))
		v, msg, pos := classifyMapRange(c.P, site)
		disc := "range " + mt
		switch v {
		case core.Discharged:
			c.Discharge(rule, site.fnName, disc, c.P.Pos(site.stmt.Pos()), msg)
		default:
			c.Violate(rule, site.fnName, disc, c.P.Pos(pos), msg, map[string]string{"map_type": mt, "range_at": c.P.Pos(site.stmt.Pos())})
		}
	}
	return n
}

// lessMethodOf finds the declaration of the Less method of a named slice type of the tree and hands it back in the
// form of a comparator literal, together with the receiver variable (the slice) and the type information of the
// package that declares it.
func (s *mrState) lessMethodOf(t types.Type) (*ast.FuncLit, types.Object, *types.Info) {
	nt, ok := t.(*types.Named)
	if !ok || nt.Obj().Pkg() == nil {
		return nil, nil, nil
	}
	if _, isSlice := nt.Underlying().(*types.Slice); !isSlice && !wrapsOneSlice(nt) {
		return nil, nil, nil
	}
	for _, pkg := range s.p.Roots {
		if pkg.Types != nt.Obj().Pkg() {
			continue
		}
		for _, file := range pkg.Syntax {
			for _, d := range file.Decls {
				fd, ok := d.(*ast.FuncDecl)
				if !ok || fd.Name.Name != "Less" || fd.Recv == nil || len(fd.Recv.List) != 1 || len(fd.Recv.List[0].Names) != 1 || fd.Body == nil {
					continue
				}
				recv := pkg.TypesInfo.Defs[fd.Recv.List[0].Names[0]]
				if recv == nil || !types.Identical(recv.Type(), nt) {
					continue
				}
				return &ast.FuncLit{Type: fd.Type, Body: fd.Body}, recv, pkg.TypesInfo
			}
		}
	}
	return nil, nil, nil
}

// wrapsOneSlice: a structure type whose only field is a slice (type byName struct{ rows }).
func wrapsOneSlice(t types.Type) bool {
	st, ok := t.Underlying().(*types.Struct)
	if !ok || st.NumFields() != 1 {
		return false
	}
	_, isSlice := st.Field(0).Type().Underlying().(*types.Slice)
	return isSlice
}
