package rules

import "hrverif/internal/core"

func init() {
	register(&Property{
		ID:    "C07",
		Rules: []string{"C07-R1", "C07-R4"},
		Explain: "Decides that the separately written accumulations have the same shape, which is what makes their figures comparable: C07-R1 for every function that looks a logged food up in the recipe book, every contribution (Accumulator.Add, TreeNode.AddDeep, Elements.Add, scalar +=, printed row, set insertion) is extracted with its name class, value class, found ∈ {T,F} and element filter, and must agree with 'quantity x resolved element under the element's name, else the food itself with its own quantity', with the same sinks and the same selected element on both sides; the unresolved report records a name exactly when the lookup fails; " +
			"C07-R4 each record count stats prints is a counter incremented exactly once per record delivered with a nil error and never on an error.",
		NotDecided: "numeric equality between any two reports, rounding at the printed precision, the day-distance arithmetic of stats, which date layout stats parses headings with (C14-R1)",
		Run: func(c *core.Ctx) {
			ruleExpansionSites(c, "C07-R1", nil)
			ruleStatsCounters(c, "C07-R4")
		},
	})
}
