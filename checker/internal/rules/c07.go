package rules

import (
	"strings"

	"hrverif/internal/core"
)

func init() {
	register(&Property{
		ID:    "C07",
		Rules: []string{"C07-R1", "C07-R4", "C07-R5", "C07-R6", "C07-R7", "C06-R4", "C06-R6", "C06-R7", "C05-R3", "C03-R8", "C01-R4", "C01-R5", "C02-R5", "C07-R8", "C07-R9", "C02-R10", "C15-R4", "C03-R7"},
		Explain: "Decides that the separately written accumulations have the same shape, which is what makes their figures comparable: C07-R1 for every function that looks a logged food up in the recipe book, every contribution (Accumulator.Add, TreeNode.AddDeep, Elements.Add, scalar +=, printed row, set insertion) is extracted with its name class, value class, found ∈ {T,F} and element filter, and must agree with 'quantity x resolved element under the element's name, else the food itself with its own quantity', with the same sinks and the same selected element on both sides; the unresolved report records a name exactly when the lookup fails; " +
			"C07-R4 each record count stats prints is a counter incremented exactly once per record delivered with a nil error and never on an error; C05-R3 (shared) nothing reads the wall clock outside the default of --today, so the day distances of stats are computed from the supplied now; C06-R6 (shared) the window of summary is the calendar day of the requested date; C06-R4/R7 (shared with C06) every command reads the period through the context lineage, so a global -b/-e selects the same days for all of them, and no command moves dates to the process time zone (summary and register agree on what a day is); C07-R5 every reporter selector (register, balance) returns an element-filtering reporter exactly when a single element is requested; C07-R6 every reporter's Process leaves each loop over the day's entries only at its head, on a set error or by returning an error value (no return nil or break drops the rest of a day from one report while the others count it); C07-R7 every day distance stats prints is the truncated quotient hours/24 of the supplied current date minus a date of the log; " +
			"shared inputs of all the reports compared: C03-R8 the balance tree receives every amount on every segment, C01-R4/R5 resolved lists hold one slot per name, C02-R5 a day's foods are merged by name. C07-R8 report element-total decides which foods are listed by name comparisons only. C07-R9 the element asked for with --single-element never reaches a prefix, substring, case-folding or pattern test in any report; C02-R10 (shared) no loop iteration of the reporting code is cut short by a test on an amount. C03-R7 (shared) the grand total of the single-element balance is a scalar fed together with the tree; C15-R4 (shared) what the day's accumulator receives does not depend on the totals switches.",
		NotDecided: "numeric equality between any two reports, rounding at the printed precision, the numeric result of the day distances (C07-R7 decides the shape of the computation), which date layout stats parses headings with (C14-R1)",
		Run: func(c *core.Ctx) {
			ruleGrandTotal(c, "C03-R7")  // the grand total of the single-element balance is fed together with the tree
			ruleTotalsGates(c, "C15-R4") // the daily totals receive the same contributions whatever the totals switches say
			ruleElementTotalRows(c, "C07-R8")
			ruleExpansionSites(c, "C07-R1", nil)
			ruleStatsCounters(c, "C07-R4")
			ruleReporterSelection(c, "C07-R5", nil)
			ruleExactElementMatch(c, "C07-R9")
			ruleNoAmountSkips(c, "C02-R10", func(p string) bool { return strings.HasPrefix(p, core.CmdPath) })
			ruleEveryEntrySeen(c, "C07-R6")
			ruleDayDistances(c, "C07-R7")
			ruleLineage(c, "C06-R4", func(n string) bool { return n == "begin" || n == "end" })
			ruleZoneAPIs(c, "C06-R7")
			ruleC06R6(c)
			ruleC05R3(c, "C05-R3", allowedClock)
			ruleAddDeep(c, "C03-R8")
			for _, r := range recursiveResolvers(c.P) {
				analyseResolver(c, r, map[string]bool{"C01-R5": true})
			}
			if fn := c.P.LookupMethod(core.LibPath, "Elements", "SumMerge"); requireAnchor(c, "C01-R4", "Elements.SumMerge", fn != nil) {
				ruleMergeByName(c, "C01-R4", fn, true)
			}
			if fn := c.P.LookupFunc(core.LibPath, "NewLogNodeFromElements"); requireAnchor(c, "C02-R5", "NewLogNodeFromElements", fn != nil) {
				ruleMergeByName(c, "C02-R5", fn, false)
			}
		},
	})
}
