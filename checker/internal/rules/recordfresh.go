package rules

import (
	"fmt"
	"go/types"
	"regexp"
	"sort"
	"strings"

	"golang.org/x/tools/go/ssa"

	"hrverif/internal/absint"
	"hrverif/internal/core"
)

// truncation of a list to no elements: l[:0]
var truncRe = regexp.MustCompile(`slice\(§(j|w)?@[0-9]+,(zero|c:0),c:0\)`)

// ruleRecordFresh is C12-R8: the day record a per-record callback hands to a reporter's Process is made for that
// record. Either it is built in the call (a constructor's result, a local value), or — when the callback reuses a
// record that outlives the call (a field of the walker, a captured variable) — every field of it (Time, Elements,
// Metadata) is assigned on every path from the start of the call to Process, and what is assigned to the list does
// not carry the old list along except as l[:0]. A field left as it was shows the previous day's entries under the
// next day's date.
func ruleRecordFresh(c *core.Ctx, rule string) {
	lnT := c.P.LookupType(core.LibPath, "LogNode")
	if !requireAnchor(c, rule, "lib.LogNode", lnT != nil) {
		return
	}
	var fields []string
	if st, ok := lnT.Underlying().(*types.Struct); ok {
		for i := 0; i < st.NumFields(); i++ {
			fields = append(fields, st.Field(i).Name())
		}
	}
	n := 0
	for _, cb := range parseCallbacks(c.P) {
		if len(cb.Params) != 2 && len(cb.FreeVars) == 0 && len(cb.Params) != 3 {
			continue
		}
		fname := core.FuncName(cb)
		pos := c.P.Pos(cb.Pos())
		x := newExec(c)
		sites := 0
		bad := map[string]bool{}
		x.Hooks.Call = func(x *absint.Exec, s *absint.State, site ssa.CallInstruction, callee *ssa.Function, fnv absint.Value, args []absint.Value) (absint.Value, bool) {
			if !site.Common().IsInvoke() || site.Common().Method.Name() != "Process" || callee != nil || len(args) != 2 {
				return nil, false
			}
			if !strings.HasSuffix(site.Common().Args[0].Type().String(), ".LogNode") {
				return nil, false
			}
			sites++
			p, ok := args[1].(absint.Ptr)
			if !ok || p.Fresh || strings.HasPrefix(p.Loc, "A:") {
				return nil, false // made in this call
			}
			// storage that outlives the call
			for _, f := range fields {
				loc := p.Loc + "·" + f
				assigned := false
				var stale string
				for k, hv := range s.Heap {
					if k != loc && !strings.HasPrefix(k, loc+"·") {
						continue
					}
					assigned = true
					key := truncRe.ReplaceAllString(hv.Key(), "")
					for id, l := range x.LocOf {
						if l == k && (strings.Contains(key, "§@"+id+",") || strings.Contains(key, "§@"+id+")") || strings.HasSuffix(key, "§@"+id)) {
							stale = hv.Key()
						}
					}
				}
				switch {
				case !assigned:
					bad[fmt.Sprintf("%s: the record handed to Process is one that outlives the call (%s), and on a path to this call its %s is not assigned: the reporter sees the %s of the previous record under this record's date", c.P.Pos(site.Pos()), p.Loc, f, f)] = true
				case stale != "":
					bad[fmt.Sprintf("%s: the record handed to Process outlives the call (%s) and its %s is assigned a value that carries the old one along (%s): the entries of earlier records stay in", c.P.Pos(site.Pos()), p.Loc, f, stale)] = true
				}
			}
			return nil, false
		}
		perr := absint.Const{Nil: true}
		var params []absint.Value
		for i := range cb.Params {
			switch {
			case i == len(cb.Params)-1:
				params = append(params, perr)
			default:
				params = append(params, absint.Sym{Name: cb.Params[i].Name()})
			}
		}
		st := x.NewState(cb, params, nil)
		for i := range cb.Params {
			if i < len(cb.Params)-1 {
				x.AssumeNil(st, params[i], false)
			}
		}
		x.Run(st)
		if sites == 0 {
			continue
		}
		n++
		c.Universe(rule+" callbacks that hand a day to a reporter", fname+" ("+pos+")")
		if !account(c, x, rule, cb) {
			continue
		}
		if len(bad) == 0 {
			c.Discharge(rule, fname, "record", pos, "the record handed to Process is made in the call, or every field of a reused one is assigned on every path before it")
			continue
		}
		var keys []string
		for k := range bad {
			keys = append(keys, k)
		}
		sort.Strings(keys)
		for _, k := range keys {
			c.Violate(rule, fname, "record", pos, k, nil)
		}
	}
	if n == 0 {
		c.Undecide(rule, "callbacks", "universe", "-", "no parser callback hands a day record to a reporter's Process", nil)
	}
}
