package rules

import (
	"fmt"
	"go/types"
	"strings"

	"golang.org/x/tools/go/ssa"

	"hrverif/internal/absint"
	"hrverif/internal/core"
)

func init() {
	register(&Property{
		ID:    "C18",
		Rules: []string{"C18-R1", "C18-R2", "C18-R3", "C18-R4", "C18-R5", "C18-R6", "C08-R8"},
		Explain: "Decides the protocol of the channel parser as a typestate over its three channels: C18-R1 Nodes, Errors and Done are unbuffered (every send is a rendezvous, so the order a consumer observes is the producer's program order under every schedule); " +
			"C18-R2 package parser has no go statement and no select, and sends on the three channels occur only in the exported methods of Parser; " +
			"C18-R3 the send language of ParseStream and ParseFile (with the callback parser inlined) is N* E? D on every terminating path: no record after an error, at most one error, exactly one Done, last; " +
			"C18-R4 a non-nil result of the callback parser (or of opening the file) is always sent on Errors; " +
			"C18-R6 the adapter callback sends every record it is given before letting the parse continue; C18-R5 the Parser's methods parse with the receiver's own configuration, so both parsers classify lines alike; C08-R8 (shared) on the path where the open fails nothing is called on the nil file (the producer cannot die before sending the error).",
		NotDecided:  "liveness of a consumer that stops listening (the producer then blocks by design); equality of the delivered records with the callback parser's (they are the same objects)",
		Assumptions: []string{"an unbuffered channel send completes only when a receiver takes the value"},
		Run: func(c *core.Ctx) {
			ruleChanUnbuffered(c, "C18-R1")
			ruleParserConcurrency(c, "C18-R2")
			ruleSendLanguage(c, "C18-R3")
			ruleParserOwnConfig(c, "C18-R5")
			ruleAdapterForwards(c, "C18-R6")
			ruleNilFile(c, "C08-R8")
			_, sites := errorChain(c.P, func(cal *ssa.Function, ci ssa.CallInstruction) (bool, string) {
				if cal != nil {
					if w, ok := inputSeeds[cal.String()]; ok {
						return true, w
					}
				}
				return false, ""
			})
			n := 0
			for _, s := range sites {
				if core.FnPkgPath(s.fn) == parserPkg && s.fn.Signature.Recv() != nil {
					n++
					checkErrSite(c, "C18-R4", s)
				}
			}
			if n == 0 {
				c.Undecide("C18-R4", "parser", "universe", "-", "the channel API calls nothing that can fail: universe empty", nil)
			}
		},
	})
}

func parserChanFields(p *core.Program) (map[string]bool, *types.Named) {
	pt := p.LookupType(parserPkg, "Parser")
	out := map[string]bool{}
	if pt == nil {
		return out, nil
	}
	if st, ok := pt.Underlying().(*types.Struct); ok {
		for i := 0; i < st.NumFields(); i++ {
			if _, isChan := st.Field(i).Type().Underlying().(*types.Chan); isChan {
				out[st.Field(i).Name()] = true
			}
		}
	}
	return out, pt
}

func ruleChanUnbuffered(c *core.Ctx, rule string) {
	n := 0
	for _, fn := range c.P.Funcs {
		if core.FnPkgPath(fn) != parserPkg {
			continue
		}
		for _, b := range fn.Blocks {
			for _, in := range b.Instrs {
				mc, ok := in.(*ssa.MakeChan)
				if !ok {
					continue
				}
				n++
				fname := core.FuncName(fn)
				disc := "make " + mc.Type().String()
				if cst, ok := mc.Size.(*ssa.Const); ok && cst.Int64() == 0 {
					c.Discharge(rule, fname, disc, c.P.Pos(mc.Pos()), "unbuffered: each send is a rendezvous")
				} else {
					c.Violate(rule, fname, disc, c.P.Pos(mc.Pos()), "the channel has a buffer ("+mc.Size.String()+"): a consumer's select may observe Done before a record or an error that was sent earlier", nil)
				}
			}
		}
	}
	if n == 0 {
		c.Undecide(rule, "parser", "universe", "-", "no channel is created in package parser although Parser has channel fields", nil)
	}
}

func ruleParserConcurrency(c *core.Ctx, rule string) {
	chans, _ := parserChanFields(c.P)
	bad := 0
	for _, fn := range c.P.Funcs {
		inParser := core.FnPkgPath(fn) == parserPkg
		for _, b := range fn.Blocks {
			for _, in := range b.Instrs {
				switch in := in.(type) {
				case *ssa.Go:
					if inParser {
						bad++
						c.Violate(rule, core.FuncName(fn), "go", c.P.Pos(in.Pos()), "a goroutine inside package parser: sends no longer happen in one program order", nil)
					}
				case *ssa.Select:
					if inParser {
						bad++
						c.Violate(rule, core.FuncName(fn), "select", c.P.Pos(in.Pos()), "a select inside package parser: a send may be skipped or reordered depending on the schedule (the consumer's receive loop then never sees Done, or sees it early)", nil)
					}
				case *ssa.Send:
					// a send on a Parser channel outside the Parser's exported methods (and their closures)
					if fld := chanField(in.Chan); fld != "" && chans[fld] {
						top := fn
						for top.Parent() != nil {
							top = top.Parent()
						}
						if !(inParser && top.Signature.Recv() != nil) {
							bad++
							c.Violate(rule, core.FuncName(fn), "send "+fld, c.P.Pos(in.Pos()), "a send on Parser."+fld+" outside the Parser's own methods: a second producer breaks the observed order", nil)
						}
					}
				}
			}
		}
	}
	if bad == 0 {
		c.Discharge(rule, "lib/parser", "single-producer", "-", "no go, no select in package parser; the three channels are sent on only by Parser's methods")
	}
}

func chanField(v ssa.Value) string {
	switch x := v.(type) {
	case *ssa.Field:
		return fieldNameV(x.X.Type(), x.Field)
	case *ssa.UnOp:
		if fa, ok := x.X.(*ssa.FieldAddr); ok {
			return fieldName(fa.X.Type(), fa.Field)
		}
	}
	return ""
}

func fieldNameV(t types.Type, i int) string {
	if st, ok := t.Underlying().(*types.Struct); ok && i < st.NumFields() {
		return st.Field(i).Name()
	}
	return ""
}

// ruleSendLanguage explores ParseStream and ParseFile and checks the word of sends on every path.
func ruleSendLanguage(c *core.Ctx, rule string) {
	chans, pt := parserChanFields(c.P)
	if !requireAnchor(c, rule, "parser.Parser", pt != nil) {
		return
	}
	if !requireAnchor(c, rule, "parser.Parser{Nodes,Errors,Done}", chans["Nodes"] && chans["Errors"] && chans["Done"]) {
		return
	}
	letter := map[string]string{"Nodes": "N", "Errors": "E", "Done": "D"}
	for _, name := range []string{"ParseStream", "ParseFile"} {
		fn := c.P.LookupMethod(parserPkg, "Parser", name)
		if !requireAnchor(c, rule, "parser.Parser."+name, fn != nil) {
			continue
		}
		fname := core.FuncName(fn)
		x := newExec(c)
		var bad []string
		x.Hooks.Send = func(x *absint.Exec, s *absint.State, in *ssa.Send, ch, v absint.Value) {
			l := "?"
			k := ch.Key()
			for f, ll := range letter {
				if strings.Contains(k, `"`+f+`"`) || strings.HasSuffix(k, "·"+f) {
					l = ll
				}
			}
			// observer: N* E? D with saturation
			cur := s.Obs
			next := cur
			switch {
			case l == "?":
				next = cur + "?"
			case strings.Contains(cur, "D"):
				bad = append(bad, fmt.Sprintf("a send on %s follows Done (word %s%s) at %s", l, cur, l, c.P.Pos(in.Pos())))
				next = "X"
			case l == "N" && strings.Contains(cur, "E"):
				bad = append(bad, fmt.Sprintf("a record is sent after an error (word %s%s) at %s", cur, l, c.P.Pos(in.Pos())))
				next = "X"
			case l == "E" && strings.Contains(cur, "E"):
				bad = append(bad, fmt.Sprintf("a second error is sent (word %sE) at %s: a consumer that drains until Done sees the error twice", cur, c.P.Pos(in.Pos())))
				next = "X"
			case l == "N":
				next = "N" // N* saturates
			default:
				next = strings.TrimSuffix(cur, "") + l
			}
			s.Obs = next
		}
		x.Hooks.Call = func(x *absint.Exec, s *absint.State, site ssa.CallInstruction, callee *ssa.Function, fnv absint.Value, args []absint.Value) (absint.Value, bool) {
			if callee != nil && (callee.String() == "(*bufio.Scanner).Scan" || callee.String() == "(*bufio.Reader).ReadString" || callee.String() == "(*bufio.Reader).ReadLine" || callee.String() == "(*bufio.Reader).Read") {
				s.SetData("scanned", "1")
			}
			return nil, false
		}
		terms := x.Run(x.NewState(fn, nil, nil))
		if !account(c, x, rule, fn) {
			continue
		}
		words := map[string]bool{}
		for _, tm := range terms {
			w := tm.State.Obs
			words[w] = true
			if tm.Kind != "return" {
				bad = append(bad, "a path ends in "+tm.Kind)
				continue
			}
			if !strings.Contains(w, "E") && w != "X" && tm.State.Data["scanned"] != "1" {
				bad = append(bad, fmt.Sprintf("completion is signalled (word %q) on a path that sent no error and never read from the input (%s; %s): the consumer takes an unread file for an empty one, where the callback parser reports its records", w, c.P.Pos(tm.Pos), x.Valuation(tm.State)))
			}
			if !strings.HasSuffix(w, "D") && w != "X" {
				bad = append(bad, fmt.Sprintf("a terminating path sends the word %q, which does not end with Done (%s): a consumer that waits for completion never terminates", w, c.P.Pos(tm.Pos)))
			}
		}
		var ws []string
		for w := range words {
			ws = append(ws, w)
		}
		c.Valuations = append(c.Valuations, fname+": words "+strings.Join(sortedStrings(ws), " "))
		bad = uniq(bad)
		if len(bad) == 0 {
			c.Discharge(rule, fname, "N*E?D", c.P.Pos(fn.Pos()), fmt.Sprintf("every terminating path sends a word of N* E? D (observed classes: %s; %d paths)", strings.Join(sortedStrings(ws), " "), len(terms)))
		}
		for _, m := range bad {
			c.Violate(rule, fname, "N*E?D", c.P.Pos(fn.Pos()), m, nil)
		}
	}
}

// ruleParserOwnConfig is C18-R5: the channel parser's methods parse with the
// configuration the Parser was built with — the argument handed to
// ParseStreamCallback is the receiver's config field itself, not a default or a
// copy made elsewhere — so both parsers classify lines alike.
func ruleParserOwnConfig(c *core.Ctx, rule string) {
	psc := c.P.LookupFunc(parserPkg, "ParseStreamCallback")
	pt := c.P.LookupType(parserPkg, "Parser")
	if !requireAnchor(c, rule, "parser.ParseStreamCallback", psc != nil) || !requireAnchor(c, rule, "parser.Parser", pt != nil) {
		return
	}
	cfgIdx := -1
	for i, p := range psc.Params {
		if strings.HasSuffix(p.Type().String(), "parser.Config") {
			cfgIdx = i
		}
	}
	n := 0
	for _, fn := range c.P.Funcs {
		top := fn
		for top.Parent() != nil {
			top = top.Parent()
		}
		if top.Signature.Recv() == nil || !types.Identical(derefType(top.Signature.Recv().Type()), pt) {
			continue
		}
		for _, b := range fn.Blocks {
			for _, in := range b.Instrs {
				ci, ok := in.(ssa.CallInstruction)
				if !ok || core.Callee(ci.Common()) != psc || cfgIdx < 0 || cfgIdx >= len(ci.Common().Args) {
					continue
				}
				n++
				how, okDirect := directSetting(ci.Common().Args[cfgIdx])
				fname := core.FuncName(fn)
				pos := c.P.Pos(in.Pos())
				if okDirect && strings.HasPrefix(how, "the field ") {
					c.Discharge(rule, fname, "config", pos, "parses with "+how+" of the receiver")
				} else {
					c.Violate(rule, fname, "config", pos, "the channel parser parses with "+how+", not with the configuration it was built with: with a non-default comment character it classifies lines differently from the callback parser", nil)
				}
			}
		}
	}
	if n == 0 {
		c.Note(rule + ": no method of Parser calls ParseStreamCallback directly")
	}
}

func derefType(t types.Type) types.Type {
	if p, ok := t.(*types.Pointer); ok {
		return p.Elem()
	}
	return t
}

// ruleAdapterForwards is C18-R6: the callback through which the channel parser
// listens to the callback parser forwards every record it is given — with
// (record, nil) every path that lets the parse go on has sent that record on a
// channel first. A record filtered out here is one the callback parser reports
// and the channel consumer never sees.
func ruleAdapterForwards(c *core.Ctx, rule string) {
	pt := c.P.LookupType(parserPkg, "Parser")
	if !requireAnchor(c, rule, "parser.Parser", pt != nil) {
		return
	}
	n := 0
	for _, cb := range parseCallbacks(c.P) {
		pkgPath := core.FnPkgPath(cb)
		if pkgPath == "" && cb.Object() != nil && cb.Object().Pkg() != nil {
			pkgPath = cb.Object().Pkg().Path() // a method value: the wrapper belongs to the method's package
		}
		if pkgPath != parserPkg || len(cb.Params) != 2 {
			continue
		}
		// the adapter is the callback the channel parser itself makes: one that can reach a channel send. Other
		// callbacks of the package (a helper that collects records into a slice, a wrapper that counts and hands on)
		// are not adapters
		if !reachesSend(c.P, cb, 0, map[*ssa.Function]bool{}) {
			continue
		}
		n++
		fname := core.FuncName(cb)
		x := newExec(c)
		node := absint.Sym{Name: "node"}
		x.Hooks.Send = func(x *absint.Exec, s *absint.State, in *ssa.Send, ch, v absint.Value) {
			if v.Key() == node.Key() {
				s.SetData("sent", "1")
			}
		}
		st := x.NewState(cb, []absint.Value{node, absint.Const{Nil: true}}, nil)
		x.AssumeNil(st, node, false)
		terms := x.Run(st)
		if !account(c, x, rule, cb) {
			continue
		}
		var bad []string
		for _, tm := range terms {
			if tm.Kind != "return" || len(tm.Ret) != 2 {
				continue
			}
			if stop, known := boolOf(tm.Ret[0]); known && stop {
				continue
			}
			if tm.State.Data["sent"] != "1" {
				bad = append(bad, fmt.Sprintf("%s: given a record and no error the adapter lets the parse go on without having sent the record (%s): the channel consumer sees fewer records than the callback parser reports", c.P.Pos(tm.Pos), x.Valuation(tm.State)))
			}
		}
		bad = uniq(bad)
		if len(bad) == 0 {
			c.Discharge(rule, fname, "forwards", c.P.Pos(cb.Pos()), "every record handed to the adapter is sent on before the parse continues")
		}
		for _, m := range bad {
			c.Violate(rule, fname, "forwards", c.P.Pos(cb.Pos()), m, nil)
		}
	}
	if n == 0 {
		c.Undecide(rule, "parser", "universe", "-", "no ParseCallback is created in package parser: the channel parser's adapter was not found", nil)
	}
}

// reachesSend: fn, a closure it makes or a function of the tree it calls contains a channel send.
func reachesSend(p *core.Program, fn *ssa.Function, depth int, seen map[*ssa.Function]bool) bool {
	if fn == nil || seen[fn] || depth > 3 {
		return false
	}
	seen[fn] = true
	for _, b := range fn.Blocks {
		for _, in := range b.Instrs {
			switch t := in.(type) {
			case *ssa.Send:
				return true
			case *ssa.Select:
				for _, st := range t.States {
					if st.Dir == types.SendOnly {
						return true
					}
				}
			case ssa.CallInstruction:
				if cal := core.Callee(t.Common()); cal != nil && p.InScope(cal) && reachesSend(p, cal, depth+1, seen) {
					return true
				}
			}
		}
	}
	for _, a := range fn.AnonFuncs {
		if reachesSend(p, a, depth+1, seen) {
			return true
		}
	}
	return false
}
