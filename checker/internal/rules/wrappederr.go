package rules

import (
	"fmt"
	"go/token"
	"go/types"
	"strings"

	"golang.org/x/tools/go/ssa"

	"hrverif/internal/absint"
	"hrverif/internal/core"
)

// errorWrappers: constructors of the tree that keep an error they are handed in a field whose Error method calls
// that error's own Error() — NewErrorIO(err, name). Handing such a constructor a nil error gives a value that
// panics (nil dereference) when the message is printed.
func errorWrappers(p *core.Program) map[*ssa.Function]int {
	out := map[*ssa.Function]int{}
	for _, fn := range p.Funcs {
		if fn.Parent() != nil || fn.Signature.Recv() != nil || fn.Signature.Results().Len() != 1 || len(fn.Blocks) == 0 {
			continue
		}
		pt, ok := fn.Signature.Results().At(0).Type().(*types.Pointer)
		if !ok {
			continue
		}
		nt, ok := pt.Elem().(*types.Named)
		if !ok {
			continue
		}
		for i, prm := range fn.Params {
			if !isErrorType(prm.Type()) {
				continue
			}
			fld, ok := fieldSetFromParam(fn, prm)
			if !ok {
				continue
			}
			// does (*T).Error / (T).Error call Error() on that field?
			{
				m := p.LookupMethod(nt.Obj().Pkg().Path(), nt.Obj().Name(), "Error")
				if m == nil {
					continue
				}
				for _, b := range m.Blocks {
					for _, in := range b.Instrs {
						call, ok := in.(*ssa.Call)
						if !ok || !call.Call.IsInvoke() || call.Call.Method.Name() != "Error" {
							continue
						}
						ld, ok := call.Call.Value.(*ssa.UnOp)
						if !ok || ld.Op != token.MUL {
							continue
						}
						if fa, ok := ld.X.(*ssa.FieldAddr); ok && fieldName(fa.X.Type(), fa.Field) == fld {
							out[fn] = i
						}
					}
				}
			}
		}
	}
	return out
}

// ruleWrappedErrorsSet is C08-R9: at every call of an error wrapper the wrapped error is known to be non-nil on
// the path that reaches the call (the call sits on the set side of a test of that very value).
func ruleWrappedErrorsSet(c *core.Ctx, rule string) {
	ws := errorWrappers(c.P)
	if len(ws) == 0 {
		c.Note(rule + ": no error constructor of the tree wraps another error whose Error() it calls (vacuous)")
		return
	}
	sites := 0
	for _, fn := range c.P.Funcs {
		if fn.Parent() != nil {
			continue
		}
		has := false
		var visit func(f *ssa.Function)
		visit = func(f *ssa.Function) {
			for _, b := range f.Blocks {
				for _, in := range b.Instrs {
					if ci, ok := in.(ssa.CallInstruction); ok {
						if _, isW := ws[core.Callee(ci.Common())]; isW {
							has = true
						}
					}
				}
			}
			for _, an := range f.AnonFuncs {
				visit(an)
			}
		}
		visit(fn)
		if !has || ws[fn] != 0 && false {
			continue
		}
		if _, isW := ws[fn]; isW {
			continue
		}
		fname := core.FuncName(fn)
		x := newExec(c)
		x.Track = func(atom string) bool { return strings.HasPrefix(atom, "nil(") }
		x.Hooks.Inline = func(callee *ssa.Function, depth int) bool {
			for f := callee; f != nil; f = f.Parent() {
				if f == fn {
					return true
				}
			}
			return false
		}
		type verdict struct{ ok, bad int }
		seen := map[string]*verdict{}
		var order []string
		x.Hooks.Call = func(x *absint.Exec, s *absint.State, site ssa.CallInstruction, callee *ssa.Function, fnv absint.Value, args []absint.Value) (absint.Value, bool) {
			idx, isW := ws[callee]
			if !isW || idx >= len(args) {
				return nil, false
			}
			key := c.P.Pos(site.Pos()) + "|" + callee.Name()
			if seen[key] == nil {
				seen[key] = &verdict{}
				order = append(order, key)
			}
			if nilnessOf(x, s, args[idx]) == "nonnil" {
				seen[key].ok++
			} else {
				seen[key].bad++
			}
			return nil, false
		}
		x.Run(x.NewState(fn, nil, nil))
		if !account(c, x, rule, fn) {
			continue
		}
		for _, key := range order {
			sites++
			v := seen[key]
			parts := strings.SplitN(key, "|", 2)
			c.Universe(rule+" wrapped errors", fname+" "+parts[1]+" ("+parts[0]+")")
			if v.bad > 0 {
				c.Violate(rule, fname, parts[1], parts[0], fmt.Sprintf("%s is handed an error that is not known to be set on %d of %d paths reaching the call: the value it builds calls Error() on a nil error when its message is printed — the command panics instead of reporting the failure", parts[1], v.bad, v.ok+v.bad), nil)
			} else {
				c.Discharge(rule, fname, parts[1], parts[0], fmt.Sprintf("the wrapped error is non-nil on all %d paths reaching the call", v.ok))
			}
		}
	}
	if sites == 0 {
		c.Undecide(rule, "wrappers", "universe", "-", "error wrappers exist but no call of one was reached", nil)
	}
}
