package rules

import (
	"fmt"
	"go/constant"
	"go/token"
	"go/types"
	"os"
	"path/filepath"
	"regexp"
	"sort"
	"strconv"
	"strings"
	"unicode"

	"golang.org/x/tools/go/ssa"

	"hrverif/internal/absint"
	"hrverif/internal/core"
)

// The scan loop of parser.ParseStreamCallback is evaluated once, as an online
// observer over these atoms (each consulted lazily by the code):
//   first(line) ∈ {comment, space, tab, dash, other}   line[0] against the constants and the comment char
//   blank       ∈ {T,F}                                  trimmed line == ""
//   open        ∈ {T,F}                                  a record is open (node != nil at the start of the line)
//   note        ∈ {T,F}                                  trimmed[0] == comment char
//   nosep       ∈ {T,F}                                  no blank found in the trimmed line
//   conv        ∈ {nil,nonnil}                           ParseFloat's error
// and these events: flush, open, note, badsyntax, conversion, entry.
// The oracle is the line classification table of DESIGN.md C04-R1.

type parserFinding struct{ rule, disc, pos, msg string }

// side channel for rules that compare other code with the tokenizer's tables (C14-R2)
var lastTrims, lastSplitters map[string]string

var firstDomain = []string{"comment", "space", "tab", "dash", "other"}

func analyseParserLoop(c *core.Ctx, want map[string]bool) {
	psc := c.P.LookupFunc(parserPkg, "ParseStreamCallback")
	if psc == nil {
		for r := range want {
			requireAnchor(c, r, "parser.ParseStreamCallback", false)
		}
		return
	}
	// the scan loop itself may live in an unexported worker that ParseStreamCallback hands its arguments to
	psc = parserLoopFunc(psc)
	fname := core.FuncName(psc)
	// the callback parameter and the node phi
	var cbParam *ssa.Parameter
	for _, p := range psc.Params {
		if n, ok := p.Type().(*types.Named); ok && n.Obj().Name() == "ParseCallback" {
			cbParam = p
		}
	}
	if cbParam == nil {
		for r := range want {
			c.Undecide(r, fname, "callback", c.P.Pos(psc.Pos()), "ParseStreamCallback has no parameter of type ParseCallback", nil)
		}
		return
	}
	var nodePhi *ssa.Phi
	var loopHead *ssa.BasicBlock
	for _, b := range psc.Blocks {
		for _, in := range b.Instrs {
			phi, ok := in.(*ssa.Phi)
			if !ok {
				break
			}
			if pt, ok := phi.Type().(*types.Pointer); ok {
				if n, ok := pt.Elem().(*types.Named); ok && n.Obj().Name() == "ParserNode" {
					// the loop head is the block with the Scan call
					for _, in2 := range b.Instrs {
						if call, ok := in2.(*ssa.Call); ok && isMethod(core.Callee(&call.Call), "bufio", "Scanner", "Scan") {
							nodePhi, loopHead = phi, b
						}
					}
				}
			}
		}
	}
	// Second accepted shape: the loop's memory is a state object (s := &scanState{…}) whose *ParserNode field is
	// the open record and whose methods do the work of the loop body.
	nodeField := ""
	if nodePhi == nil {
		for _, b := range psc.Blocks {
			for _, in := range b.Instrs {
				if call, ok := in.(*ssa.Call); ok && isMethod(core.Callee(&call.Call), "bufio", "Scanner", "Scan") && isLoopHead(b) {
					loopHead = b
				}
				al, ok := in.(*ssa.Alloc)
				if !ok {
					continue
				}
				if st, ok := al.Type().(*types.Pointer).Elem().Underlying().(*types.Struct); ok {
					for i := 0; i < st.NumFields(); i++ {
						if pt, ok := st.Field(i).Type().(*types.Pointer); ok {
							if n, ok := pt.Elem().(*types.Named); ok && n.Obj().Name() == "ParserNode" {
								nodeField = st.Field(i).Name()
							}
						}
					}
				}
			}
		}
		if loopHead == nil || nodeField == "" {
			for r := range want {
				c.Undecide(r, fname, "loop", c.P.Pos(psc.Pos()), "no loop headed by Scanner.Scan() that carries the open *ParserNode in a φ or in a field of a state object was found: the parser left the idioms the rule models", nil)
			}
			return
		}
	}
	// curNode: the open record as the current state sees it
	curNode := func(s *absint.State) (absint.Value, bool) {
		if nodePhi != nil {
			f := rootFrame(s)
			if f == nil {
				return nil, false
			}
			v, ok := f.Env[nodePhi]
			return v, ok
		}
		for k, v := range s.Heap {
			if strings.HasPrefix(k, "A:r/") && strings.HasSuffix(k, "·"+nodeField) && strings.Count(k, "·") == 1 {
				return v, true
			}
		}
		return absint.Const{Nil: true}, true
	}

	x := newExec(c)
	cbKey := absint.Sym{Name: cbParam.Name()}.Key()
	var finds []parserFinding
	seen := map[string]bool{}
	report := func(rule, disc string, pos string, format string, a ...interface{}) {
		m := fmt.Sprintf(format, a...)
		if seen[rule+disc+m] {
			return
		}
		seen[rule+disc+m] = true
		finds = append(finds, parserFinding{rule, disc, pos, m})
	}
	covered := map[string]bool{}
	trims := map[string]string{}     // role|set -> position
	splitters := map[string]string{} // function|chars -> position
	addEv := func(s *absint.State, ev string) {
		cur := s.Data["ev"]
		if cur != "" {
			cur += ","
		}
		s.SetData("ev", cur+ev)
	}
	resetIter := func(s *absint.State) {
		for _, k := range []string{"ev", "first", "blank", "open", "note", "nosep", "conv", "mpnil", "stop", "line"} {
			s.SetData(k, "")
		}
	}
	var trimSet absint.Value = absint.Top{}
	commentKey := "" // key of the comment-char value, learnt from the first comparison against a non-constant
	lineKey := ""    // key of the Text() result

	// atom recognisers -----------------------------------------------------
	firstOf := func(t *absint.Term) (idx absint.Value, other absint.Value, ok bool) {
		// ==(index(S,0), X) in either order
		for i := 0; i < 2; i++ {
			if it, isT := t.Args[i].(*absint.Term); isT && it.Op == "index" && len(it.Args) == 2 && it.Args[1].Key() == "c:0" {
				return it.Args[0], t.Args[1-i], true
			}
		}
		return nil, nil, false
	}
	x.Hooks.Atom = func(x *absint.Exec, s *absint.State, cond absint.Value) *absint.Atom {
		if sym, isSym := cond.(absint.Sym); isSym && strings.HasPrefix(sym.Name, "@") {
			// a lookup table indexed by the first byte of the line: a constant [256]bool whose true entries are
			// the indentation characters is the same test as the comparison chain
			loc := x.LocOf[strings.TrimPrefix(sym.Name, "@")]
			if i := strings.IndexByte(loc, '['); i > 0 && strings.HasPrefix(loc, "G:") && loc[i:] == "["+absint.NewTerm("index", absint.Sym{Name: strings.TrimPrefix(s.Data["line"], "§")}, absint.Const{V: constant.MakeInt64(0)}).Key()+"]" {
				if tab := x.ConstArray(loc[:i]); tab != nil {
					names := map[int64]string{32: "space", 9: "tab", 45: "dash"}
					var tr []string
					for k, v := range tab {
						n, known := names[k]
						if !known || v.Key() != "c:true" {
							return nil
						}
						tr = append(tr, n)
					}
					sort.Strings(tr)
					return &absint.Atom{Name: "first(" + s.Data["line"] + ")", Domain: firstDomain, True: tr}
				}
			}
			return nil
		}
		t, ok := cond.(*absint.Term)
		if !ok || (t.Op != "==" && t.Op != "!=") || len(t.Args) < 2 {
			return nil
		}
		neg := t.Op == "!="
		mk := func(name string, dom, tr []string) *absint.Atom {
			if neg {
				var c2 []string
				for _, d := range dom {
					in := false
					for _, y := range tr {
						if y == d {
							in = true
						}
					}
					if !in {
						c2 = append(c2, d)
					}
				}
				tr = c2
			}
			return &absint.Atom{Name: name + "(" + s.Data["line"] + ")", Domain: dom, True: tr}
		}
		lineKey := s.Data["line"]
		trimKey := absint.NewTerm("call:strings.Trim", absint.Sym{Name: strings.TrimPrefix(lineKey, "§")}, trimSet).Key()
		if str, other, ok := firstOf(t); ok {
			switch str.Key() {
			case lineKey:
				switch other.Key() {
				case "c:32":
					return mk("first", firstDomain, []string{"space"})
				case "c:9":
					return mk("first", firstDomain, []string{"tab"})
				case "c:45":
					return mk("first", firstDomain, []string{"dash"})
				}
				if _, isC := other.(absint.Const); !isC {
					if commentKey == "" {
						commentKey = other.Key()
					}
					if other.Key() == commentKey {
						return mk("first", firstDomain, []string{"comment"})
					}
				}
			case trimKey:
				if commentKey == "" {
					if _, isC := other.(absint.Const); !isC {
						commentKey = other.Key()
					}
				}
				if other.Key() == commentKey {
					return mk("note", []string{"F", "T"}, []string{"T"})
				}
			}
		}
		for i := 0; i < 2; i++ {
			if t.Args[i].Key() == trimKey && t.Args[1-i].Key() == `c:""` {
				return mk("blank", []string{"F", "T"}, []string{"T"})
			}
			if tt, isT := t.Args[i].(*absint.Term); isT && strings.HasPrefix(tt.Op, "call:strings.LastIndex") && t.Args[1-i].Key() == "c:-1" {
				return mk("nosep", []string{"F", "T"}, []string{"T"})
			}
		}
		return nil
	}
	x.Hooks.Decide = func(x *absint.Exec, s *absint.State, atom string, outs []string) {
		if strings.HasPrefix(atom, "nil(§cberr#") && len(outs) == 1 {
			s.SetData("cberrnil", atom+"="+outs[0]) // what the path knows about the error the callback handed back last
		}
		base := atom
		if i := strings.IndexByte(atom, '('); i > 0 {
			base = atom[:i]
		}
		if len(outs) != 1 {
			// first() narrows gradually
			if base == "first" {
				s.SetData("first", strings.Join(outs, "|"))
			}
			return
		}
		switch {
		case base == "first", base == "blank", base == "note", base == "nosep":
			s.SetData(base, outs[0])
		case strings.HasPrefix(atom, "nil(call:strconv.ParseFloat#1"):
			s.SetData("conv", outs[0])
		case strings.HasPrefix(atom, "nil(§scanerr"):
			s.SetData("scanerr", outs[0])
		case strings.HasPrefix(atom, "b(§scan#"):
			if outs[0] == "F" {
				s.SetData("scan", "ended")
			}
		case strings.HasPrefix(atom, "b(§cbstop"):
			s.SetData("stop", outs[0])
		case strings.HasPrefix(atom, "nil("):
			// nil test on the node φ value
			if os.Getenv("HRDEBUGN") != "" {
				nv, _ := curNode(s)
				fmt.Fprintf(os.Stderr, "DECIDE %s outs=%v cur=%v\n", atom, outs, nv)
			}
			if nv, ok := curNode(s); ok && atom == "nil("+nv.Key()+")" {
				if outs[0] == "nil" {
					s.SetData("open", "F")
				} else {
					s.SetData("open", "T")
				}
			}
		}
	}

	// expected events for a completed valuation
	expected := func(first, blank, open, note, nosep, conv string) string {
		if blank == "T" || first == "comment" {
			return ""
		}
		if first == "other" {
			if open == "T" {
				return "flush,open"
			}
			return "open"
		}
		if open == "F" {
			return ""
		}
		if note == "T" {
			return "note"
		}
		if nosep == "T" {
			return "badsyntax"
		}
		if conv == "nonnil" {
			return "conversion"
		}
		return "entry"
	}
	checkIteration := func(x *absint.Exec, s *absint.State, where string, stopped bool) {
		d := s.Data
		opts := func(v string, dom []string) []string {
			if v == "" {
				return dom
			}
			return strings.Split(v, "|")
		}
		// a definitely-nil or definitely-non-nil node never produces an atom
		open := d["open"]
		if open == "" {
			switch d["node0"] {
			case "nil":
				open = "F"
			case "":
			default:
				if strings.HasPrefix(d["node0"], "&") {
					open = "T"
				} else if o := x.Possible(s, "nil("+d["node0"]+")"); len(o) == 1 {
					// the path already knows whether the open record is nil (a fact carried over from an earlier test)
					open = map[string]string{"nil": "F", "nonnil": "T"}[o[0]]
				}
			}
		}
		if os.Getenv("HRDEBUGN") != "" && open == "" {
			nv, _ := curNode(s)
			fmt.Fprintf(os.Stderr, "OPEN? node0=%q cur=%v ev=%s first=%s\n", d["node0"], nv, d["ev"], d["first"])
		}
		got := d["ev"]
		if d["note"] == "T" && got == "" && d["mpnil"] == "nil" {
			got = "note" // a note line that yields no pair stores nothing
		}
		exp := map[string]bool{}
		for _, f := range opts(d["first"], firstDomain) {
			for _, b := range opts(d["blank"], []string{"F", "T"}) {
				for _, o := range opts(open, []string{"F", "T"}) {
					for _, n := range opts(d["note"], []string{"F", "T"}) {
						for _, ns := range opts(d["nosep"], []string{"F", "T"}) {
							for _, cv := range opts(d["conv"], []string{"nil", "nonnil"}) {
								exp[expected(f, b, o, n, ns, cv)] = true
							}
						}
					}
				}
			}
		}
		val := fmt.Sprintf("first=%s blank=%s open=%s note=%s nosep=%s conv=%s", d["first"], d["blank"], open, d["note"], d["nosep"], d["conv"])
		covered[val+" → "+got] = true
		if len(exp) != 1 {
			var es []string
			for e := range exp {
				es = append(es, "["+e+"]")
			}
			sort.Strings(es)
			report("C04-R1", "classification", where, "a line is handled (events [%s]) without consulting everything its classification depends on (%s): the documented table would give one of %s", got, val, strings.Join(es, " "))
			return
		}
		for e := range exp {
			if stopped && got != "" && strings.HasPrefix(e, got) {
				continue // the callback asked to stop in the middle of the line's events
			}
			if e != got {
				if os.Getenv("HRDEBUGP") != "" {
					fmt.Println("DEBUG trace:", strings.Join(s.Trace, " | "), "PATH:", strings.Join(s.Path, " ; "))
				}
				report("C04-R1", "classification", where, "line class %s: expected events [%s], the parser performs [%s]", val, e, got)
			}
		}
	}

	// events ---------------------------------------------------------------
	x.Hooks.Call = func(x *absint.Exec, s *absint.State, site ssa.CallInstruction, callee *ssa.Function, fnv absint.Value, args []absint.Value) (absint.Value, bool) {
		pos := c.P.Pos(site.Pos())
		inRoot := len(s.Frames) == 1
		switch {
		case callee != nil && callee.String() == "bufio.NewScanner":
			return absint.Sym{Name: "scanner"}, true
		case isMethod(callee, "bufio", "Scanner", "Scan"):
			if inRoot {
				if nv, ok := curNode(s); ok {
					s.SetData("node0", nv.Key())
					// a fact about the open record carried over from an earlier test decides "open" for this line
					// as well (the test itself is then folded away and produces no decision)
					if o := x.Possible(s, "nil("+nv.Key()+")"); len(o) == 1 {
						s.SetData("open", map[string]string{"nil": "F", "nonnil": "T"}[o[0]])
					}
				}
			}
			return x.Fresh(s, "scan"), true
		case isMethod(callee, "bufio", "Scanner", "Text"):
			v := x.Fresh(s, "line")
			lineKey = v.Key()
			s.SetData("line", lineKey)
			return v, true
		case isMethod(callee, "bufio", "Scanner", "Err"):
			if s.Data["scan"] != "ended" {
				report("C10-R1", "typestate", pos, "Scanner.Err() is consulted while the scan has not ended")
			}
			s.SetData("scan", "checked")
			return absint.Sym{Name: "scanerr"}, true
		case callee != nil && callee.String() == "strings.Trim" && len(args) == 2 && args[0].Key() == s.Data["line"]:
			v := absint.NewTerm("call:strings.Trim", args...)
			trimSet = args[1]
			trims["line|"+args[1].Key()] = pos
			return v, true
		case callee != nil && (callee.String() == "strings.Trim" || callee.String() == "strings.TrimRight" || callee.String() == "strings.TrimLeft") && len(args) == 2 && frameInPkg(s, parserPkg):
			role := "other"
			if st, ok := args[0].(*absint.Term); ok && st.Op == "slice" && len(st.Args) == 3 {
				lo, hi := st.Args[1].Key(), st.Args[2].Key()
				switch {
				case (lo == "c:0" || lo == "zero") && strings.Contains(hi, "LastIndex"):
					role = "name"
				case strings.Contains(lo, "LastIndex") && hi == "zero":
					role = "qty"
				}
				// the two halves of a line that was trimmed as a whole need trimming at the cut only — provided the
				// whole-line set covers what the half is trimmed with, and the trimmed end is the cut end
				if callee.String() != "strings.Trim" {
					base, isTrimmedLine := st.Args[0].(*absint.Term)
					okSide := (role == "name" && callee.String() == "strings.TrimRight") || (role == "qty" && callee.String() == "strings.TrimLeft")
					covered := false
					if isTrimmedLine && base.Op == "call:strings.Trim" && len(base.Args) == 2 {
						ls, ok1 := absConstString(base.Args[1])
						hs, ok2 := absConstString(args[1])
						covered = ok1 && ok2
						for _, r := range hs {
							if !strings.ContainsRune(ls, r) {
								covered = false
							}
						}
					}
					if !okSide || !covered {
						report("C04-R3", "trim-"+role, pos, "%s trims one end only of %s: the other end is clean only if it is an end of the line trimmed as a whole with a set that covers this one", callee.String(), args[0].Key())
						role = "other"
					}
				}
			} else if callee.String() != "strings.Trim" {
				return nil, false
			}
			trims[role+"|"+args[1].Key()] = pos
			return nil, false
		case callee != nil && strings.HasPrefix(callee.String(), "strings.LastIndex") && len(args) == 2 && frameInPkg(s, parserPkg):
			splitters[callee.String()+"|"+args[1].Key()] = pos
			return nil, false
		case callee != nil && (callee.String() == "strings.Index" || callee.String() == "strings.IndexByte" || callee.String() == "strings.IndexAny" || callee.String() == "strings.IndexRune" || callee.String() == "strings.Cut") && len(args) == 2 && frameInPkg(s, parserPkg) && s.Data["line"] != "" && absint.Mentions(args[0], strings.TrimPrefix(s.Data["line"], "§")):
			// the line (or its trimmed form) is searched from the front for something: whatever is cut off there
			// is part of a name for the grammar (names may contain any character, the value is what follows the
			// last separator)
			if top := s.Frames[len(s.Frames)-1].Fn; !strings.Contains(top.Signature.Results().String(), "MetadataPair") && usedAsSliceBound(site.Value(), 0) {
				// (the helper that takes a note line apart looks for its ':' from the front, by the grammar of notes)
				report("C04-R3", "extra-cut", pos, "the scanned line is searched with %s for %s before it is split at its last separator: an entry line is then cut at a place the grammar knows nothing about, so a name that contains that text loses its tail (or the line becomes malformed)", callee.String(), args[1].Key())
			}
			return nil, false
		case callee != nil && func() bool { _, ok := forwardingWrapperOf(callee); return ok }():
			// a wrapper that counts or logs and hands the record on to the callback unchanged: the callback itself, as
			// far as delivery is concerned
			pi, _ := forwardingWrapperOf(callee)
			if pi < len(args) {
				return args[pi], true
			}
			return nil, false
		case callee == nil && fnv != nil && fnv.Key() == cbKey && len(args) == 2:
			// the callback is invoked
			nodeA, errA := args[0], args[1]
			if s.Data["scan"] == "checked" && s.Data["scanerr"] == "nonnil" {
				report("C10-R1", "typestate", pos, "a record is delivered after the scanner reported an error")
			}
			switch {
			case isNilConst(errA):
				if x2 := nilnessOf(x, s, nodeA); x2 != "nonnil" {
					report("C08-R1", "producer", pos, "the callback is invoked with a nil error and a record that is not known to be non-nil (%s)", nodeA.Key())
				}
				if nv, ok := curNode(s); ok && nv.Key() != nodeA.Key() {
					report("C04-R1", "flush", pos, "the record delivered (%s) is not the open record (%s)", nodeA.Key(), nv.Key())
				}
				addEv(s, "flush")
			case isNilConst(nodeA):
				iv, ok := errA.(*absint.Iface)
				if !ok {
					report("C08-R1", "producer", pos, "the callback is invoked with a nil record and an error not known to be non-nil (%s)", errA.Key())
					addEv(s, "error")
					break
				}
				tn := iv.T.String()
				switch {
				case strings.HasSuffix(tn, "ErrorBadSyntax"):
					addEv(s, "badsyntax")
				case strings.HasSuffix(tn, "ErrorConversion"):
					addEv(s, "conversion")
				default:
					addEv(s, "error")
				}
			default:
				report("C08-R1", "producer", pos, "the callback is invoked with both a record (%s) and an error (%s): consumers test the error first and would drop the record, or dereference a nil record", nodeA.Key(), errA.Key())
				addEv(s, "mixed")
			}
			cbe := x.Fresh(s, "cberr")
			s.SetData("lastcberr", cbe.Key())
			return &absint.Tuple{Elems: []absint.Value{x.Fresh(s, "cbstop"), cbe}}, true
		case isFunc(callee, core.LibPath, "NewParserNode"):
			if tk := absint.NewTerm("call:strings.Trim", absint.Sym{Name: strings.TrimPrefix(s.Data["line"], "§")}, trimSet).Key(); len(args) == 1 && args[0].Key() != tk {
				report("C04-R1", "heading", pos, "the new record's heading is %s, not the trimmed line", args[0].Key())
			}
			addEv(s, "open")
			return nil, false
		case isMethod(callee, core.LibPath, "Elements", "Add") && len(args) == 3:
			if p, ok := args[0].(absint.Ptr); ok && strings.HasSuffix(p.Loc, "·Elements") {
				addEv(s, "entry")
			} else {
				addEv(s, "add?")
			}
			return absint.Const{}, true
		case callee != nil && want["C09-R2"] && isErrCtor(callee):
			// constructors of the positioned parse errors: the Line argument is the raw line
			for i, p := range callee.Params {
				if fld, ok := fieldSetFromParam(callee, p); ok && i < len(args) {
					switch fld {
					case "Line":
						if args[i].Key() != s.Data["line"] {
							report("C09-R2", "raw-line", pos, "%s is given %s as the quoted line, not the raw line returned by Scanner.Text()", callee.Name(), args[i].Key())
						} else {
							covered["line→"+callee.Name()] = true
						}
					case "LineNumber":
						covered["lineno→"+callee.Name()+"="+args[i].Key()] = true
					}
				}
			}
			return nil, false
		}
		return nil, false
	}
	// the open record is only touched where one is open
	x.Hooks.Deref = func(x *absint.Exec, s *absint.State, in ssa.Instruction, ptr absint.Value) {
		if !frameInPkg(s, parserPkg) {
			return
		}
		isNode := false
		if nv, ok := curNode(s); ok && nv != nil && nv.Key() == ptr.Key() {
			isNode = true
		}
		if cst, ok := ptr.(absint.Const); ok && cst.Nil {
			report("C08-R1", "nil-record", c.P.Pos(in.Pos()), "the parser dereferences a nil record (no heading has been read yet on this path: events [%s], line class first=%s): a file that starts with an indented line crashes every command", s.Data["ev"], s.Data["first"])
			return
		}
		if isNode && nilnessOf(x, s, ptr) != "nonnil" {
			report("C08-R1", "nil-record", c.P.Pos(in.Pos()), "the parser dereferences the open record on a path that has not established that one is open (events [%s], first=%s)", s.Data["ev"], s.Data["first"])
		}
	}
	metaCells := map[string]bool{}
	x.Hooks.Store = func(x *absint.Exec, s *absint.State, in *ssa.Store, addr, val absint.Value) {
		p, ok := addr.(absint.Ptr)
		if !ok {
			return
		}
		if top := s.Frames[len(s.Frames)-1]; len(s.Frames) > 1 && strings.HasPrefix(p.Loc, "A:"+top.Ctx+"/") {
			return // a constructor initialising the object it has just allocated
		}
		if strings.HasSuffix(p.Loc, "·Metadata") {
			if vp, ok := val.(absint.Ptr); ok {
				metaCells[vp.Loc] = true
			}
		}
		if strings.Contains(p.Loc, "·Metadata") || strings.Contains(locOfPtrBase(x, p), "·Metadata") || metaCells[p.Loc] {
			if !strings.Contains(s.Data["ev"], "note") {
				addEv(s, "note")
			}
			// C12-R3: a pointer to a function-level variable must not be stored into the record
			if vp, ok := val.(absint.Ptr); ok && strings.HasPrefix(vp.Loc, "A:r/") {
				if site := allocBlockOf(psc, vp.Loc); site != nil && !loopHead.Dominates(site) {
					report("C12-R3", "leak", c.P.Pos(in.Pos()), "the record's notes point at %s, a variable that lives across records: notes of earlier records leak into later ones", vp.Loc)
				}
			}
			// C12-R3, second form (DESIGN 6.20): what is stored is a reference carried round the scan loop in a local that
			// the loop only ever initialises lazily (made when it is still nil) and never renews: from the first record
			// with notes on, every record is given the same object.
			if sv, ok := val.(absint.Sym); ok && strings.HasPrefix(sv.Name, "j:r/") && strings.HasSuffix(p.Loc, "·Metadata") {
				if phi := loopPhiNamed(loopHead, strings.TrimPrefix(sv.Name, "j:r/")); phi != nil && onlyLazilyInitialised(phi) {
					report("C12-R3", "carried", c.P.Pos(in.Pos()), "the record's notes are set to a reference that a local carries round the scan loop (%s) and that the loop only makes when it is still nil and never renews: every record after the first with notes is given the same object, so notes of earlier records leak into later ones", phi.Name())
				}
			}
		}
	}
	x.Hooks.BackEdge = func(x *absint.Exec, s *absint.State, f *absint.Frame, h *ssa.BasicBlock) {
		if f.Fn != psc || h != loopHead {
			return
		}
		where := c.P.Pos(scanPos(loopHead))
		checkIteration(x, s, where, false)
		// the open record survives the line unless a heading replaced it
		nv, _ := curNode(s)
		if !strings.Contains(s.Data["ev"], "open") && nv != nil && s.Data["node0"] != "" && nv.Key() != s.Data["node0"] {
			report("C04-R1", "record-kept", where, "after a line with events [%s] the open record changes from %s to %s although no heading was read: the rest of the record is lost", s.Data["ev"], s.Data["node0"], nv.Key())
		}
		resetIter(s)
	}
	st := x.NewState(psc, nil, nil)
	terms := x.Run(st)
	if !account(c, x, "C04-R1", psc) {
		return
	}
	// terminals: typestate of the scanner and delivery of the last record
	for _, tm := range terms {
		d := tm.State.Data
		pos := c.P.Pos(tm.Pos)
		if tm.Kind != "return" || len(tm.Ret) != 1 {
			report("C08-R3", "abort", pos, "the parser ends in %s", tm.Kind)
			continue
		}
		ret := tm.Ret[0]
		switch d["scan"] {
		case "":
			// returned from inside the loop: only after a callback asked to stop
			if d["stop"] != "T" && d["ev"] == "" && !isNilConst(ret) && nilnessOf(x, tm.State, ret) == "nonnil" {
				// the parser gives up with an error of its own before doing anything with the line (a cancelled context):
				// a reported failure, not a silent loss
			} else if d["stop"] != "T" {
				report("C04-R1", "early-return", pos, "the parser returns from inside the scan loop although no callback asked it to stop (events [%s])", d["ev"])
			} else {
				checkIteration(x, tm.State, pos, true)
			}
		case "ended":
			report("C10-R1", "typestate", pos, "the parser returns (%s) after Scan() reported false without consulting Scanner.Err(): a failed read or an over-long line ends the input like EOF", ret.Key())
		case "checked":
			switch d["scanerr"] {
			case "nonnil":
				if isNilConst(ret) || !absint.Mentions(ret, "scanerr") && nilnessOf(x, tm.State, ret) != "nonnil" {
					report("C10-R1", "typestate", pos, "Scanner.Err() is non-nil but the parser returns %s", ret.Key())
				}
				if d["ev"] != "" {
					report("C10-R1", "typestate", pos, "events [%s] happen after the scanner reported an error", d["ev"])
				}
			case "nil":
				open := d["open"]
				if open == "" {
					if d["node0"] == "nil" {
						open = "F"
					} else if strings.HasPrefix(d["node0"], "&") {
						open = "T"
					}
				}
				switch open {
				case "T":
					if d["ev"] != "flush" {
						report("C04-R2", "last-record", pos, "at end of input with a record open the parser performs [%s] instead of delivering that record exactly once", d["ev"])
					} else if isNilConst(ret) && d["cberrnil"] == "nil("+d["lastcberr"]+")=nil" {
						// return nil on the path on which the callback's error is known to be nil
					} else if !strings.Contains(ret.Key(), "cberr") {
						if os.Getenv("HRDEBUG") != "" {
							fmt.Fprintf(os.Stderr, "last-record: lastcberr=%q possible=%v pc=%s\n", d["lastcberr"], x.Possible(tm.State, "nil("+d["lastcberr"]+")"), x.Valuation(tm.State))
						}
						report("C04-R2", "last-record", pos, "the error returned by the callback for the last record is dropped (parser returns %s)", ret.Key())
					}
				case "F":
					if d["ev"] != "" || !isNilConst(ret) {
						report("C04-R2", "last-record", pos, "at end of input with no record open the parser performs [%s] and returns %s", d["ev"], ret.Key())
					}
				default:
					report("C04-R2", "last-record", pos, "the end-of-input path does not depend on whether a record is open (events [%s])", d["ev"])
				}
			default:
				report("C10-R1", "typestate", pos, "the parser returns %s without testing the error Scanner.Err() returned", ret.Key())
			}
		}
	}
	lastTrims, lastSplitters = trims, splitters
	if want["C04-R3"] {
		checkTrimTables(c, fname, trims, splitters, report)
	}
	var cov []string
	for k := range covered {
		cov = append(cov, k)
	}
	sort.Strings(cov)
	for _, k := range cov {
		c.Valuations = append(c.Valuations, "parser: "+k)
	}
	by := map[string]int{}
	for _, f := range finds {
		if f.rule == "C04-R1" && (f.disc == "classification" || f.disc == "flush") && want["C12-R4"] {
			by["C12-R4"]++
			c.Violate("C12-R4", fname, f.disc, f.pos, f.msg+" (what is reported for a day then depends on the lines that follow it)", nil)
		}
		if f.rule == "C04-R1" && f.disc == "classification" && want["C09-R7"] {
			by["C09-R7"]++
			c.Violate("C09-R7", fname, f.disc, f.pos, f.msg+" (a malformed line must produce its error event every time it occurs)", nil)
		}
		if f.rule == "C04-R1" && f.disc == "record-kept" && want["C09-R5"] {
			by["C09-R5"]++
			c.Violate("C09-R5", fname, f.disc, f.pos, f.msg+" (lint then reports only the first malformed line of the record)", nil)
		}
		if want[f.rule] {
			by[f.rule]++
			c.Violate(f.rule, fname, f.disc, f.pos, f.msg, nil)
		}
	}
	okMsg := map[string]string{
		"C04-R1": fmt.Sprintf("line classification table holds on %d distinct (valuation → events) cases; the open record survives every non-heading line", len(cov)),
		"C04-R2": "at end of input an open record is delivered exactly once with a nil error and its callback error is returned; with none open nothing is delivered",
		"C04-R3": "trim sets and the entry splitter agree with the documented grammar: separator, quote and both indentation characters stripped from names and quantities, the list dash from names only, the splitter searches exactly the indentation characters",
		"C08-R1": "every invocation of the callback passes (non-nil record, nil) or (nil, non-nil error)",
		"C12-R4": "every heading yields exactly one delivered record whatever follows it (line classification table)",
		"C09-R7": "every line class the table calls malformed (no separator, unparsable value) produces exactly its error event, on every occurrence",
		"C09-R5": "after an error callback that does not stop, the open record is kept: later malformed lines of the same record are still reported",
		"C09-R2": "the positioned errors quote the raw line returned by Scanner.Text()",
		"C10-R1": "every return after Scan()=false consults Scanner.Err(); a non-nil scanner error is returned and nothing is delivered after it",
		"C12-R3": "no pointer to a variable that outlives one record is stored into a record",
	}
	for r, m := range okMsg {
		if want[r] && by[r] == 0 {
			c.Discharge(r, fname, "parser-loop", c.P.Pos(psc.Pos()), m)
		}
	}
}

func rootFrame(s *absint.State) *absint.Frame {
	if len(s.Frames) == 0 {
		return nil
	}
	return s.Frames[0]
}

func nilnessOf(x *absint.Exec, s *absint.State, v absint.Value) string {
	switch v := v.(type) {
	case absint.Const:
		if v.Nil {
			return "nil"
		}
		return "nonnil"
	case absint.Ptr:
		if v.Fresh || strings.HasPrefix(v.Loc, "A:") {
			return "nonnil"
		}
	case *absint.Iface, *absint.Closure:
		return "nonnil"
	case *absint.Term:
		if v.Op == "call:fmt.Errorf" || v.Op == "call:errors.New" {
			return "nonnil"
		}
	}
	o := x.Possible(s, "nil("+v.Key()+")")
	if len(o) == 1 {
		return o[0]
	}
	return ""
}

// locOfPtrBase: for a pointer whose location is rooted at a load symbol, the location that symbol was loaded from.
func locOfPtrBase(x *absint.Exec, p absint.Ptr) string {
	for _, pre := range []string{"L:§@", "L:§j@", "L:§w@"} {
		if !strings.HasPrefix(p.Loc, pre) {
			continue
		}
		id := strings.TrimPrefix(p.Loc, pre)
		end := 0
		for end < len(id) && id[end] >= '0' && id[end] <= '9' {
			end++
		}
		return x.LocOf[id[:end]]
	}
	return ""
}

// isErrCtor: a function of package parser that returns a pointer to a struct with LineNumber and Line fields.
func isErrCtor(fn *ssa.Function) bool {
	if fn == nil || core.FnPkgPath(fn) != parserPkg || fn.Signature.Results().Len() != 1 {
		return false
	}
	pt, ok := fn.Signature.Results().At(0).Type().(*types.Pointer)
	if !ok {
		return false
	}
	st, ok := pt.Elem().Underlying().(*types.Struct)
	if !ok {
		return false
	}
	hasN, hasL := false, false
	for i := 0; i < st.NumFields(); i++ {
		switch st.Field(i).Name() {
		case "LineNumber":
			hasN = true
		case "Line":
			hasL = true
		}
	}
	return hasN && hasL
}

// allocBlockOf maps a root-frame cell name "A:r/<fn>.<block>.<idx>#g" back to its block.
func allocBlockOf(fn *ssa.Function, loc string) *ssa.BasicBlock {
	i := strings.Index(loc, "/")
	if i < 0 {
		return nil
	}
	rest := loc[i+1:]
	if j := strings.IndexByte(rest, '#'); j >= 0 {
		rest = rest[:j]
	}
	parts := strings.Split(rest, ".")
	if len(parts) < 3 {
		return nil
	}
	var bi int
	fmt.Sscanf(parts[len(parts)-2], "%d", &bi)
	if bi >= 0 && bi < len(fn.Blocks) {
		return fn.Blocks[bi]
	}
	return nil
}

func scanPos(b *ssa.BasicBlock) token.Pos {
	for _, in := range b.Instrs {
		if in.Pos().IsValid() {
			return in.Pos()
		}
	}
	return token.NoPos
}

// checkTrimTables is C04-R3: the character tables of the tokenizer against docs/syntax.ebnf.
func checkTrimTables(c *core.Ctx, fname string, trims, splitters map[string]string, report func(rule, disc, pos, format string, a ...interface{})) {
	doc := readEBNF(c.P.Dir)
	sep := doc["ValueSeparator"]
	if sep == "" {
		sep = ":"
	}
	indent := []string{"\t", " "}
	_ = indent
	unq := func(k string) (string, bool) {
		if !strings.HasPrefix(k, "c:") {
			return "", false
		}
		s, err := strconv.Unquote(strings.TrimPrefix(k, "c:"))
		return s, err == nil
	}
	roles := map[string]bool{}
	for k, pos := range trims {
		parts := strings.SplitN(k, "|", 2)
		role := parts[0]
		set, ok := unq(parts[1])
		if role == "other" {
			continue
		}
		roles[role] = true
		if !ok {
			report("C04-R3", "trim-"+role, pos, "the %s trim set is not a compile-time constant (%s)", role, parts[1])
			continue
		}
		for _, must := range []string{"\t", " ", sep, "\""} {
			if !strings.Contains(set, must) {
				report("C04-R3", "trim-"+role, pos, "the %s trim set %q lacks %q: layout variants of the documented format (tabs, the value separator, quoted names) would change the parsed text", role, set, must)
			}
		}
		if role == "qty" && strings.ContainsAny(set, "-+.eE0123456789") {
			report("C04-R3", "trim-qty", pos, "the quantity trim set %q strips characters that belong to a number: signed, fractional or exponent values would change", set)
		}
		if (role == "name" || role == "line") && !strings.Contains(set, "-") {
			report("C04-R3", "trim-"+role, pos, "the %s trim set %q does not strip the YAML list dash", role, set)
		}
		for _, r := range set {
			if unicode.IsLetter(r) || unicode.IsDigit(r) || r == '/' || r == '.' {
				if !(role == "qty") || unicode.IsLetter(r) || r == '/' {
					report("C04-R3", "trim-"+role, pos, "the %s trim set %q strips %q, which may belong to a name or a number", role, set, string(r))
				}
			}
		}
	}
	for _, r := range []string{"line", "name", "qty"} {
		if !roles[r] {
			report("C04-R3", "trim-"+r, "-", "no strings.Trim with a constant set was found in the role %q (raw line / text before the last blank / text after it): the tokenizer left the idiom the table check models", r)
		}
	}
	if len(splitters) == 0 {
		report("C04-R3", "splitter", "-", "no strings.LastIndex* call splits the entry: the tokenizer left the idiom the table check models")
	}
	for k, pos := range splitters {
		parts := strings.SplitN(k, "|", 2)
		chars, ok := unq(parts[1])
		if parts[0] != "strings.LastIndexAny" || !ok {
			report("C04-R3", "splitter", pos, "the entry is split with %s(%s): the value must be separated at the last blank, space or tab (LastIndexAny over both indentation characters)", parts[0], parts[1])
			continue
		}
		if !(strings.Contains(chars, " ") && strings.Contains(chars, "\t") && len(chars) == 2) {
			report("C04-R3", "splitter", pos, "the entry splitter searches %q, not exactly the two indentation characters space and tab", chars)
		}
	}
	if cp := doc["CommentPrefix"]; cp != "" {
		if pk := c.P.Pkg(parserPkg); pk != nil {
			if obj := pk.Types.Scope().Lookup("DefaultCommentChar"); obj != nil {
				if cst, ok := obj.(*types.Const); ok {
					if v, ok := constant.Int64Val(constant.ToInt(cst.Val())); ok && string(rune(v)) != cp {
						report("C04-R3", "comment-char", c.P.Pos(obj.Pos()), "DefaultCommentChar is %q but docs/syntax.ebnf documents CommentPrefix = %q", string(rune(v)), cp)
					}
				}
			}
		}
	}
}

// readEBNF extracts the single-character terminals of docs/syntax.ebnf (Name = "x" .).
func readEBNF(dir string) map[string]string {
	out := map[string]string{}
	b, err := os.ReadFile(filepath.Join(dir, "docs", "syntax.ebnf"))
	if err != nil {
		return out
	}
	re := regexp.MustCompile(`(?m)^(\w+)\s*=\s*"((?:[^"\\]|\\.)*)"\s*\.`)
	for _, m := range re.FindAllStringSubmatch(string(b), -1) {
		if s, err := strconv.Unquote("\"" + m[2] + "\""); err == nil {
			out[m[1]] = s
		}
	}
	return out
}

// frameInPkg: the innermost frame executes a function of package path.
func frameInPkg(s *absint.State, path string) bool {
	if len(s.Frames) == 0 {
		return false
	}
	return core.FnPkgPath(s.Frames[len(s.Frames)-1].Fn) == path
}

// isLoopHead: some predecessor of b is dominated by b (b heads a loop).
func isLoopHead(b *ssa.BasicBlock) bool {
	for _, p := range b.Preds {
		if b.Dominates(p) {
			return true
		}
	}
	return false
}

// absConstString: the value of a string literal.
func absConstString(v absint.Value) (string, bool) {
	if c, ok := v.(absint.Const); ok && c.V != nil && c.V.Kind() == constant.String {
		return constant.StringVal(c.V), true
	}
	return "", false
}

// parserLoopFunc: fn itself when it contains a loop headed by Scanner.Scan(); otherwise the function of the same
// package it calls (directly, or through one more call) that does — a thin exported wrapper over a worker. fn when
// there is none.
func parserLoopFunc(fn *ssa.Function) *ssa.Function {
	hasScanLoop := func(g *ssa.Function) bool {
		for _, b := range g.Blocks {
			for _, in := range b.Instrs {
				if call, ok := in.(*ssa.Call); ok && isMethod(core.Callee(&call.Call), "bufio", "Scanner", "Scan") && isLoopHead(b) {
					return true
				}
			}
		}
		return false
	}
	if fn == nil || hasScanLoop(fn) {
		return fn
	}
	var found []*ssa.Function
	seen := map[*ssa.Function]bool{fn: true}
	var visit func(g *ssa.Function, depth int)
	visit = func(g *ssa.Function, depth int) {
		for _, b := range g.Blocks {
			for _, in := range b.Instrs {
				ci, ok := in.(ssa.CallInstruction)
				if !ok {
					continue
				}
				cal := core.Callee(ci.Common())
				if cal == nil || seen[cal] || len(cal.Blocks) == 0 || core.FnPkgPath(cal) != core.FnPkgPath(fn) {
					continue
				}
				seen[cal] = true
				if hasScanLoop(cal) {
					found = append(found, cal)
				} else if depth > 0 {
					visit(cal, depth-1)
				}
			}
		}
	}
	visit(fn, 1)
	if len(found) == 1 {
		return found[0]
	}
	return fn
}

// ruleScannerSetup (C10-R4, shared with C09 and C04): the scanner that reads the log and the book is given the
// reader its function was handed, as it is, and splits it with bufio.ScanLines (the default). A reader wrapped on
// the way (io.LimitReader, a transforming reader) ends or changes the input without an error; a split function of
// the tree decides what a line is, and with it every line number, by code the properties know nothing about.
func ruleScannerSetup(c *core.Ctx, rule string) {
	n := 0
	for _, fn := range c.P.Funcs {
		if core.FnPkgPath(fn) != parserPkg {
			continue
		}
		for _, b := range fn.Blocks {
			for _, in := range b.Instrs {
				call, ok := in.(*ssa.Call)
				if !ok {
					continue
				}
				cal := core.Callee(&call.Call)
				if cal == nil {
					continue
				}
				fname := core.FuncName(fn)
				pos := c.P.Pos(call.Pos())
				switch {
				case cal.String() == "bufio.NewScanner" && len(call.Call.Args) == 1:
					n++
					c.Universe(rule+" scanners of the parser", fname+" ("+pos+")")
					src := call.Call.Args[0]
					for i := 0; i < 4; i++ {
						switch t := src.(type) {
						case *ssa.ChangeInterface:
							src = t.X
							continue
						case *ssa.MakeInterface:
							src = t.X
							continue
						case *ssa.Call:
							// a buffered reader in between only buffers: the bytes and their order are the same
							if bc := core.Callee(&t.Call); bc != nil && (bc.String() == "bufio.NewReader" || bc.String() == "bufio.NewReaderSize") && len(t.Call.Args) > 0 {
								src = t.Call.Args[0]
								continue
							}
						}
						break
					}
					okSrc := false
					switch t := src.(type) {
					case *ssa.Parameter:
						okSrc = true
					case *ssa.Call:
						// a file the function opened itself (os.Open result), handed over as it is
						if oc := core.Callee(&t.Call); oc != nil && (oc.String() == "os.Open" || oc.String() == "os.OpenFile") {
							okSrc = true
						}
					case *ssa.Extract:
						if tc, isC := t.Tuple.(*ssa.Call); isC {
							if oc := core.Callee(&tc.Call); oc != nil && (oc.String() == "os.Open" || oc.String() == "os.OpenFile") {
								okSrc = true
							}
						}
					case *ssa.UnOp:
						okSrc = true // a reader kept in a variable or field
					case *ssa.Phi, *ssa.FreeVar:
						okSrc = true
					}
					if okSrc {
						c.Discharge(rule, fname, "scanner source", pos, "the scanner reads the reader it was handed, as it is")
					} else {
						c.Violate(rule, fname, "scanner source", pos, "the scanner is built on "+src.String()+", not on the reader the function was handed: a reader that is capped or transformed on the way (io.LimitReader, a decoder) ends or alters the input without any error, so a file that was only partly read is reported as a success", nil)
					}
				case isMethod(cal, "bufio", "Scanner", "Split") && len(call.Call.Args) == 2:
					n++
					splitFn := call.Call.Args[1]
					if ct, isCT := splitFn.(*ssa.ChangeType); isCT {
						splitFn = ct.X
					}
					if f, isF := splitFn.(*ssa.Function); isF && f.String() == "bufio.ScanLines" {
						c.Discharge(rule, fname, "split function", pos, "bufio.ScanLines")
					} else {
						c.Violate(rule, fname, "split function", pos, "the scanner is given the split function "+splitFn.String()+": what counts as a line — and so every line number an error reports, and whether a carriage return, a long line or the last line without a newline is a line of its own — is now decided by that function and no longer by bufio.ScanLines, which the line-number and classification rules assume", nil)
					}
				}
			}
		}
	}
	if n == 0 {
		c.Undecide(rule, "parser", "universe", "-", "package parser builds no bufio.Scanner although it must read its input line by line somehow", nil)
	}
}

// usedAsSliceBound: the position v (or v plus/minus something) is where a string is cut: it is the low or high bound
// of a slice expression.
func usedAsSliceBound(v ssa.Value, depth int) bool {
	if v == nil || depth > 3 || v.Referrers() == nil {
		return false
	}
	for _, r := range *v.Referrers() {
		switch t := r.(type) {
		case *ssa.Slice:
			if t.Low == v || t.High == v {
				return true
			}
		case *ssa.BinOp:
			if (t.Op == token.ADD || t.Op == token.SUB) && usedAsSliceBound(t, depth+1) {
				return true
			}
		case *ssa.Phi:
			if usedAsSliceBound(t, depth+1) {
				return true
			}
		case *ssa.Extract:
			if usedAsSliceBound(t, depth+1) {
				return true
			}
		}
	}
	return false
}

// loopPhiNamed: the φ of that register name at the head of the loop.
func loopPhiNamed(head *ssa.BasicBlock, name string) *ssa.Phi {
	for _, in := range head.Instrs {
		if phi, ok := in.(*ssa.Phi); ok && phi.Name() == name {
			return phi
		}
	}
	return nil
}

// onlyLazilyInitialised: phi is a loop-carried reference whose values coming round the back edges are, through φs
// only, phi itself or allocations made in the branch taken when the carried value is nil — and there is at least one
// such allocation. A nil constant, a call result or an allocation made anywhere else means the loop may renew the
// local, and the answer is false (the rule then says nothing).
func onlyLazilyInitialised(phi *ssa.Phi) bool {
	if _, ok := phi.Type().Underlying().(*types.Pointer); !ok {
		return false
	}
	head := phi.Block()
	closure := map[ssa.Value]bool{phi: true}
	var leaves []ssa.Value
	var walk func(v ssa.Value)
	walk = func(v ssa.Value) {
		if closure[v] {
			return
		}
		if q, ok := v.(*ssa.Phi); ok {
			closure[q] = true
			for _, e := range q.Edges {
				walk(e)
			}
			return
		}
		leaves = append(leaves, v)
	}
	for i, e := range phi.Edges {
		if head.Dominates(head.Preds[i]) { // a back edge
			walk(e)
		}
	}
	if len(leaves) == 0 {
		return false
	}
	for _, l := range leaves {
		al, ok := l.(*ssa.Alloc)
		if !ok || !head.Dominates(al.Block()) {
			return false
		}
		b := al.Block()
		if len(b.Preds) != 1 {
			return false
		}
		cond, ok := b.Preds[0].Instrs[len(b.Preds[0].Instrs)-1].(*ssa.If)
		if !ok {
			return false
		}
		bin, ok := cond.Cond.(*ssa.BinOp)
		if !ok {
			return false
		}
		isNil := func(v ssa.Value) bool { k, ok := v.(*ssa.Const); return ok && k.IsNil() }
		var tested ssa.Value
		switch {
		case isNil(bin.Y):
			tested = bin.X
		case isNil(bin.X):
			tested = bin.Y
		default:
			return false
		}
		if !closure[tested] {
			return false
		}
		// the allocation is on the side where the carried value is nil
		onTrue := b.Preds[0].Succs[0] == b
		if !(bin.Op == token.EQL && onTrue) && !(bin.Op == token.NEQ && !onTrue) {
			return false
		}
	}
	return true
}
