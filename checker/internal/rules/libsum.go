package rules

import (
	"fmt"
	"go/constant"
	"go/token"
	"go/types"
	"os"
	"strings"

	"golang.org/x/tools/go/ssa"

	"hrverif/internal/absint"
	"hrverif/internal/core"
)

// indexStub models Elements.Index as the atom exists ∈ {T,F}: it returns an
// opaque position and an opaque boolean; the branch on the boolean is recorded
// in Data["exists"].
func indexStub(x *absint.Exec, s *absint.State, site ssa.CallInstruction, args []absint.Value) absint.Value {
	nm := "?"
	if len(args) > 1 {
		nm = args[1].Key()
	}
	s.SetData("lookup", nm)
	s.SetData("exists", "")
	return &absint.Tuple{Elems: []absint.Value{x.Fresh(s, "ndx"), x.Fresh(s, "exists")}}
}

func decideExists(x *absint.Exec, s *absint.State, atom string, outs []string) {
	if strings.HasPrefix(atom, "b(§exists#") && len(outs) == 1 {
		s.SetData("exists", outs[0])
	}
	// the position answered by a helper that says "not found" with a negative number: pos == -1, pos < 0, pos >= 0
	if strings.HasPrefix(atom, "ord(") && strings.Contains(atom, "§pos#") && len(outs) > 0 {
		parts := splitTop(strings.TrimSuffix(strings.TrimPrefix(atom, "ord("), ")"))
		if len(parts) != 2 {
			return
		}
		o := strings.Join(outs, "")
		k, posFirst := parts[1], true
		if !strings.HasPrefix(parts[0], "§pos#") {
			k, posFirst = parts[0], false
			// orient the outcomes as "pos versus constant"
			o = strings.NewReplacer("<", ">", ">", "<").Replace(o)
		}
		_ = posFirst
		switch k {
		case "c:-1":
			// the helper answers a position or -1, nothing else: "not -1" is "found"
			if o == "=" {
				s.SetData("exists", "F")
			} else if !strings.Contains(o, "=") {
				s.SetData("exists", "T")
			}
		case "c:0":
			if o == "<" {
				s.SetData("exists", "F")
			} else if !strings.Contains(o, "<") {
				s.SetData("exists", "T")
			}
		}
	}
}

var positionHelperMemo = map[*ssa.Function]bool{}

// isPositionHelper: fn looks a name up in a list of elements and answers its position, or a negative constant when
// the name is not there: func (el Elements) position(name string) int.
func isPositionHelper(c *core.Ctx, fn *ssa.Function) bool {
	if v, ok := positionHelperMemo[fn]; ok {
		return v
	}
	positionHelperMemo[fn] = false
	if fn == nil || fn.Signature.Results().Len() != 1 || len(fn.Params) != 2 || len(fn.Blocks) == 0 {
		return false
	}
	if b, ok := fn.Signature.Results().At(0).Type().Underlying().(*types.Basic); !ok || b.Info()&types.IsInteger == 0 {
		return false
	}
	lt := fn.Params[0].Type()
	if p, ok := lt.Underlying().(*types.Pointer); ok {
		lt = p.Elem()
	}
	if !strings.HasSuffix(lt.String(), ".Elements") {
		return false
	}
	if b, ok := fn.Params[1].Type().Underlying().(*types.Basic); !ok || b.Info()&types.IsString == 0 {
		return false
	}
	x := newExec(c)
	terms := x.Run(x.NewState(fn, nil, nil))
	if len(x.Problems) > 0 || x.Exhausted {
		return false
	}
	nameKey := absint.Sym{Name: fn.Params[1].Name()}.Key()
	found, missing := 0, 0
	for _, tm := range terms {
		if tm.Kind != "return" || len(tm.Ret) != 1 {
			return false
		}
		if cst, ok := tm.Ret[0].(absint.Const); ok && cst.V != nil && cst.V.Kind() == constant.Int && constant.Sign(cst.V) < 0 {
			missing++
			continue
		}
		// a position: on this path the name of the element at that position was found equal to the name asked for
		ok := false
		for k := range tm.State.PC {
			if !strings.HasPrefix(k, "ord(") || !strings.Contains(k, nameKey) {
				continue
			}
			if o := x.Possible(tm.State, k); len(o) == 1 && o[0] == "=" {
				for _, m := range loadSymRe.FindAllStringSubmatch(k, -1) {
					if strings.HasSuffix(x.LocOf[m[1]], "["+tm.Ret[0].Key()+"]·Name") {
						ok = true
					}
				}
			}
		}
		if !ok {
			return false
		}
		found++
	}
	positionHelperMemo[fn] = found > 0 && missing > 0
	return positionHelperMemo[fn]
}

// sameElem: a and b are loads of fields fa and fb of the same slice element.
func sameElem(x *absint.Exec, a absint.Value, fa string, b absint.Value, fb string) bool {
	la, lb := locOf(x, a), locOf(x, b)
	return la != "" && lb != "" && strings.HasSuffix(la, "·"+fa) && strings.HasSuffix(lb, "·"+fb) &&
		strings.TrimSuffix(la, "·"+fa) == strings.TrimSuffix(lb, "·"+fb)
}

// isProduct: v is a*b (operands in either order).
func isProduct(v, a, b absint.Value) bool {
	t, ok := v.(*absint.Term)
	if !ok || t.Op != "*" || len(t.Args) != 2 {
		return false
	}
	return (t.Args[0].Key() == a.Key() && t.Args[1].Key() == b.Key()) || (t.Args[0].Key() == b.Key() && t.Args[1].Key() == a.Key())
}

// isSumWith: v is load(loc)+d.
func isSumWith(x *absint.Exec, v absint.Value, loc string, d func(absint.Value) bool) bool {
	t, ok := v.(*absint.Term)
	if !ok || t.Op != "+" || len(t.Args) != 2 {
		return false
	}
	for i := 0; i < 2; i++ {
		if locOf(x, t.Args[i]) == loc && d(t.Args[1-i]) {
			return true
		}
	}
	return false
}

// ruleMergeByName decides the accumulate-by-name shape of a function that walks
// a list and merges it into another (Elements.SumMerge with a multiplier,
// NewLogNodeFromElements without): over exists ∈ {T,F}, an existing name gets
// exactly one "+=" on its own slot, a new name exactly one Add, nothing else is
// written.
func ruleMergeByName(c *core.Ctx, rule string, fn *ssa.Function, withMult bool) {
	fname := core.FuncName(fn)
	pos := c.P.Pos(fn.Pos())
	// a function that has no loop of its own and hands its list to Elements.SumMerge with the multiplier 1 merges by
	// name exactly as SumMerge does (x*1 is exact): SumMerge is then checked in its place
	if sm := c.P.LookupMethod(core.LibPath, "Elements", "SumMerge"); sm != nil && sm != fn {
		loops := false
		for _, b := range fn.Blocks {
			if isLoopHead(b) {
				loops = true
			}
		}
		if !loops {
			// … directly, or through a helper of the package that does nothing else with the list
			// (elements.merged() = NewElements() + SumMerge(elements, 1))
			for _, b := range fn.Blocks {
				for _, in := range b.Instrs {
					ci, ok := in.(ssa.CallInstruction)
					if !ok {
						continue
					}
					h := core.Callee(ci.Common())
					if h == nil || h == sm || h == fn || !c.P.InScope(h) || core.FnPkgPath(h) != core.FnPkgPath(fn) || len(h.Params) != 1 || len(ci.Common().Args) != 1 {
						continue
					}
					if _, fromParam := ci.Common().Args[0].(*ssa.Parameter); !fromParam || !strings.HasSuffix(h.Params[0].Type().String(), ".Elements") {
						continue
					}
					if delegatesToSumMerge(h, sm) {
						c.Discharge(rule, fname, "exists∈{T,F}", pos, "hands its list to "+h.Name()+", which delegates to Elements.SumMerge(list, 1); SumMerge is checked in its place")
						ruleMergeByName(c, rule, sm, true)
						return
					}
				}
			}
			for _, b := range fn.Blocks {
				for _, in := range b.Instrs {
					ci, ok := in.(ssa.CallInstruction)
					if !ok || core.Callee(ci.Common()) != sm || len(ci.Common().Args) != 3 {
						continue
					}
					k, isC := ci.Common().Args[2].(*ssa.Const)
					_, fromParam := ci.Common().Args[1].(*ssa.Parameter)
					if isC && k.Value != nil && constant.Compare(k.Value, token.EQL, constant.MakeInt64(1)) && fromParam {
						c.Discharge(rule, fname, "exists∈{T,F}", pos, "delegates to Elements.SumMerge(list, 1), which is checked in its place")
						ruleMergeByName(c, rule, sm, true)
						return
					}
				}
			}
		}
	}
	x := newExec(c)
	var bad []string
	seen := map[string]bool{}
	report := func(format string, a ...interface{}) {
		m := fmt.Sprintf(format, a...)
		if !seen[m] {
			seen[m] = true
			bad = append(bad, m)
		}
	}
	var multV absint.Value
	if withMult {
		for _, p := range fn.Params {
			if bt, ok := p.Type().Underlying().(*types.Basic); ok && bt.Info()&types.IsFloat != 0 {
				multV = absint.Sym{Name: p.Name()}
			}
		}
		if multV == nil {
			c.Undecide(rule, fname, "mult", pos, "no float parameter to serve as the multiplier", nil)
			return
		}
	}
	effects := map[string]int{}
	// Second accepted idiom: instead of a linear Index scan, a map created in this function records the
	// position of every name already in the list. "pos, exists := m[name]" is the lookup; a new name must be
	// recorded at len(list) immediately before its Add; an existing name's slot is list[pos].
	x.Hooks.Instr = func(x *absint.Exec, s *absint.State, in ssa.Instruction) {
		lk, ok := in.(*ssa.Lookup)
		if !ok || !lk.CommaOk || len(s.Frames) == 0 {
			return
		}
		f := s.Frames[len(s.Frames)-1]
		if f.Fn != fn {
			return
		}
		mv, ok1 := f.Env[lk.X]
		kv, ok2 := f.Env[lk.Index]
		if !ok1 || !ok2 {
			return
		}
		if sym, isSym := mv.(absint.Sym); !isSym || !strings.HasPrefix(sym.Name, "map:") {
			return // not a map made here
		}
		s.SetData("lookup", kv.Key())
		s.SetData("exists", "")
		s.SetData("posmap", mv.Key())
		s.SetData("pos", "")
	}
	x.Hooks.MapUpdate = func(x *absint.Exec, s *absint.State, in *ssa.MapUpdate, m, k, v absint.Value) {
		if s.Data["posmap"] == "" || m.Key() != s.Data["posmap"] {
			if sym, isSym := m.(absint.Sym); isSym && strings.HasPrefix(sym.Name, "map:") {
				report("a map of positions is written before any lookup in it (%s)", c.P.Pos(in.Pos()))
			}
			return
		}
		switch {
		case s.Data["exists"] != "F":
			report("the position of a name is recorded with exists=%q: an existing name's position must not change (%s)", s.Data["exists"], c.P.Pos(in.Pos()))
		case k.Key() != s.Data["lookup"]:
			report("a position is recorded under %s, not under the name looked up (%s)", k.Key(), s.Data["lookup"])
		case s.Data["pos"] != "":
			report("two positions recorded for one looked-up element (%s)", c.P.Pos(in.Pos()))
		case s.Data["eff"] == "1":
			report("the position of a new name is recorded after its Add (%s): accepted form is m[name] = len(list) immediately before the Add", c.P.Pos(in.Pos()))
		}
		s.SetData("pos", v.Key())
	}
	x.Hooks.Decide = func(x *absint.Exec, s *absint.State, atom string, outs []string) {
		decideExists(x, s, atom, outs)
		if pm := s.Data["posmap"]; pm != "" && len(outs) == 1 && atom == "b("+absint.NewTerm("has", absint.Sym{Name: strings.TrimPrefix(pm, "§")}, absint.Sym{Name: strings.TrimPrefix(s.Data["lookup"], "§")}).Key()+")" {
			s.SetData("exists", outs[0])
		}
	}
	x.Hooks.BackEdge = func(x *absint.Exec, s *absint.State, f *absint.Frame, h *ssa.BasicBlock) {
		if f.Fn != fn {
			return
		}
		if s.Data["lookup"] != "" && s.Data["eff"] != "1" {
			report("an element is looked up (exists=%s) but the iteration neither accumulates into its slot nor adds it", s.Data["exists"])
		}
		if s.Data["lookup"] == "" {
			report("an element of the list is passed over without being looked up or added (%s): it disappears from the merged list", x.Valuation(s))
		}
		if s.Data["posmap"] != "" && s.Data["exists"] == "F" && s.Data["pos"] == "" {
			report("a new name is added but its position is not recorded in the position map: its next occurrence would be added again")
		}
		s.SetData("eff", "")
		s.SetData("lookup", "")
		s.SetData("exists", "")
		s.SetData("pos", "")
	}
	wantDelta := func(x *absint.Exec, nameV, val absint.Value) bool {
		// val must be elem.Value (x mult) for the element whose Name was looked up
		if withMult {
			t, ok := val.(*absint.Term)
			if !ok || t.Op != "*" || len(t.Args) != 2 {
				return false
			}
			for i := 0; i < 2; i++ {
				if t.Args[i].Key() == multV.Key() && sameElem(x, nameV, "Name", t.Args[1-i], "Value") {
					return true
				}
			}
			return false
		}
		return sameElem(x, nameV, "Name", val, "Value")
	}
	// one new element enters the list: through Elements.Add, or through append(list, Element{name, value})
	onAdd := func(x *absint.Exec, s *absint.State, at token.Pos, list, nameV, valV absint.Value, viaPtr bool) {
		effects["add"]++
		if s.Data["exists"] != "F" {
			report("Add is reached with exists=%q: a name already present would be listed twice (%s)", s.Data["exists"], c.P.Pos(at))
		}
		if s.Data["eff"] == "1" {
			report("two effects for one looked-up element (%s)", c.P.Pos(at))
		}
		s.SetData("eff", "1")
		if s.Data["posmap"] != "" {
			var cur absint.Value = list
			if _, isPtr := list.(absint.Ptr); isPtr || viaPtr {
				cur = x.Load(s, list, nil) // the receiver of Add is a pointer to the list, also when it is a parameter
			}
			want := lenKeyOf(x, cur)
			if s.Data["pos"] != want && s.Data["pos"] != absint.NewTerm("len", cur).Key() {
				report("the position recorded for a new name is %s, not the length of the list before the Add (%s): later occurrences of the name accumulate into another element's slot (%s)", s.Data["pos"], want, c.P.Pos(at))
			}
		}
		if nameV.Key() != s.Data["lookup"] {
			report("the element added (%s) is not the one looked up (%s)", nameV.Key(), s.Data["lookup"])
		}
		if !wantDelta(x, nameV, valV) {
			report("a new name is added with value %s, expected that element's own Value%s (%s)", valV.Key(), map[bool]string{true: " x the multiplier", false: ""}[withMult], c.P.Pos(at))
		}
	}
	x.Hooks.Builtin = func(x *absint.Exec, s *absint.State, in *ssa.Call, name string, args []absint.Value) {
		if name != "append" || len(args) != 2 || len(s.Frames) == 0 || s.Frames[len(s.Frames)-1].Fn != fn {
			return
		}
		if !types.Identical(in.Type().Underlying(), elementsSlice(c)) {
			return
		}
		// the appended operand: slice(&cell, …) holding one element
		t, ok := args[1].(*absint.Term)
		if !ok || t.Op != "slice" || len(t.Args) == 0 {
			report("the list is extended by append with %s, not by one {name, value} element (%s)", args[1].Key(), c.P.Pos(in.Pos()))
			return
		}
		p, ok := t.Args[0].(absint.Ptr)
		if !ok {
			return
		}
		var nameV, valV absint.Value
		if st, ok := s.Heap[p.Loc+"[c:0]"].(*absint.Struct); ok && len(st.Fields) == 2 {
			nameV, valV = st.Fields[0], st.Fields[1]
		} else {
			nameV, valV = s.Heap[p.Loc+"[c:0]·Name"], s.Heap[p.Loc+"[c:0]·Value"]
		}
		if nameV == nil || valV == nil {
			report("the element appended to the list could not be read (%s)", c.P.Pos(in.Pos()))
			return
		}
		onAdd(x, s, in.Pos(), args[0], nameV, valV, false)
	}
	x.Hooks.Call = func(x *absint.Exec, s *absint.State, site ssa.CallInstruction, callee *ssa.Function, fnv absint.Value, args []absint.Value) (absint.Value, bool) {
		// a constructor that merges (NewLogNodeFromElements) hands on the merged list: the list it was given may be
		// passed on as it is only where it cannot hold two entries
		if fn.Signature.Recv() == nil && callee != nil && callee != fn && len(s.Frames) == 1 {
			for _, prm := range fn.Params {
				if !strings.HasSuffix(prm.Type().String(), ".Elements") {
					continue
				}
				raw := absint.Sym{Name: prm.Name()}
				for _, a := range args {
					if a.Key() != raw.Key() {
						continue
					}
					lenKey := absint.NewTerm("len", raw).Key()
					short := false
					if o := x.OrdOutcomes(s, lenKey, "c:2"); len(o) == 1 && o[0] == "<" {
						short = true
					}
					if o := x.OrdOutcomes(s, lenKey, "c:1"); len(o) > 0 && !strings.Contains(strings.Join(o, ""), ">") {
						short = true
					}
					if o := x.OrdOutcomes(s, lenKey, "c:0"); len(o) == 1 && o[0] == "=" {
						short = true
					}
					if !short {
						report("the list the function was given is handed to %s unmerged on a path where it may hold two or more entries (%s): a food logged twice that day keeps two entries (%s)", callee.Name(), x.Valuation(s), c.P.Pos(site.Pos()))
					}
				}
			}
		}
		switch {
		case isMethod(callee, core.LibPath, "Elements", "Index") && len(args) == 2:
			return indexStub(x, s, site, args), true
		case callee != nil && c.P.InScope(callee) && callee != fn && isPositionHelper(c, callee) && len(args) == 2:
			// pos := el.position(name): the Index idiom with a negative position for "not there"
			s.SetData("lookup", args[1].Key())
			s.SetData("exists", "")
			return x.Fresh(s, "pos"), true
		case callee != nil && c.P.InScope(callee) && isIndexBuilder(c, callee):
			// positions(list): the map a linear scan would give (checked on its own), kept up to date from here on
			return x.Fresh(s, "map:built"), true
		case isMethod(callee, core.LibPath, "Elements", "Add") && len(args) == 3:
			onAdd(x, s, site.Pos(), args[0], args[1], args[2], true)
			return absint.Const{}, true
		case false:
			effects["add"]++
			if s.Data["exists"] != "F" {
				report("Add is reached with exists=%q: a name already present would be listed twice (%s)", s.Data["exists"], c.P.Pos(site.Pos()))
			}
			if s.Data["eff"] == "1" {
				report("two effects for one looked-up element (%s)", c.P.Pos(site.Pos()))
			}
			s.SetData("eff", "1")
			if s.Data["posmap"] != "" {
				cur := x.Load(s, args[0], nil)
				want := lenKeyOf(x, cur)
				if s.Data["pos"] != want {
					report("the position recorded for a new name is %s, not the length of the list before the Add (%s): later occurrences of the name accumulate into another element's slot (%s)", s.Data["pos"], want, c.P.Pos(site.Pos()))
				}
			}
			nameV := args[1]
			if nameV.Key() != s.Data["lookup"] {
				report("the element added (%s) is not the one looked up (%s)", nameV.Key(), s.Data["lookup"])
			}
			if !wantDelta(x, nameV, args[2]) {
				report("a new name is added with value %s, expected that element's own Value%s (%s)", args[2].Key(), map[bool]string{true: " x the multiplier", false: ""}[withMult], c.P.Pos(site.Pos()))
			}
			return absint.Const{}, true
		}
		return nil, false
	}
	x.Hooks.Store = func(x *absint.Exec, s *absint.State, in *ssa.Store, addr, val absint.Value) {
		p, ok := addr.(absint.Ptr)
		if !ok || !strings.HasPrefix(p.Loc, "L:") && !strings.HasPrefix(p.Loc, "A:") {
			return
		}
		if top := s.Frames[len(s.Frames)-1]; len(s.Frames) > 1 && strings.HasPrefix(p.Loc, "A:"+top.Ctx+"/") {
			return // a constructor (NewElement) initialising the value it has just allocated
		}
		if strings.HasPrefix(p.Loc, "A:") {
			// the function's own fresh list (NewLogNodeFromElements builds one): only slot updates matter
			if !strings.HasSuffix(p.Loc, "·Value") {
				return
			}
		}
		if !strings.HasSuffix(p.Loc, "·Value") && strings.HasPrefix(p.Loc, "L:") {
			// storing back the receiver's own list, possibly grown by the appends checked above, is the write-back of
			// a local copy of the slice header, not an alias of another list
			base := val
			for {
				t, ok := base.(*absint.Term)
				if !ok || t.Op != "append" || len(t.Args) == 0 {
					break
				}
				base = t.Args[0]
			}
			if locOf(x, base) == p.Loc || ownListSSA(in.Val, in.Addr, map[ssa.Value]bool{}) {
				return
			}
		}
		if !strings.HasSuffix(p.Loc, "·Value") {
			report("store to %s = %s at %s: the merge may only accumulate into the Value of an existing slot or Add a new element (a store of a whole list aliases the argument)", p.Loc, val.Key(), c.P.Pos(in.Pos()))
			return
		}
		effects["accumulate"]++
		if s.Data["exists"] != "T" {
			report("a slot is updated with exists=%q (%s)", s.Data["exists"], c.P.Pos(in.Pos()))
		}
		if s.Data["eff"] == "1" {
			report("two effects for one looked-up element (%s)", c.P.Pos(in.Pos()))
		}
		s.SetData("eff", "1")
		okSlot := strings.Contains(p.Loc, "[§ndx#") || strings.Contains(p.Loc, "[§pos#")
		if pm := s.Data["posmap"]; pm != "" && strings.Contains(p.Loc, "["+absint.NewTerm("lookup", absint.Sym{Name: strings.TrimPrefix(pm, "§")}, absint.Sym{Name: strings.TrimPrefix(s.Data["lookup"], "§")}).Key()+"]") {
			okSlot = true
		}
		if !okSlot {
			report("the updated slot %s is not the position Index returned (%s)", p.Loc, c.P.Pos(in.Pos()))
		}
		lookedUp := absint.Sym{Name: strings.TrimPrefix(s.Data["lookup"], "§")}
		if !isSumWith(x, val, p.Loc, func(d absint.Value) bool { return wantDelta(x, lookedUp, d) }) {
			report("an existing name's slot becomes %s, expected old + that element's Value%s (%s)", val.Key(), map[bool]string{true: " x the multiplier", false: ""}[withMult], c.P.Pos(in.Pos()))
		}
	}
	mterms := x.Run(x.NewState(fn, nil, nil))
	if !account(c, x, rule, fn) {
		return
	}
	// no way round the list: a path that ends without the question "is there another element" ever having been asked
	// of the list it was given skips all of it (if mult == 0 { return })
	for _, prm := range fn.Params {
		if !strings.HasSuffix(prm.Type().String(), ".Elements") || (fn.Signature.Recv() != nil && prm == fn.Params[0]) {
			continue
		}
		lenKey := absint.NewTerm("len", absint.Sym{Name: prm.Name()}).Key()
		for _, tm := range mterms {
			if tm.Kind != "return" {
				continue
			}
			asked := false
			for k := range tm.State.PC {
				if strings.HasPrefix(k, "ord(") && strings.Contains(k, lenKey) {
					asked = true
				}
			}
			if !asked {
				report("a path returns without walking the list %s at all (%s): every element of it is dropped from the result, whatever it holds (%s)", prm.Name(), x.Valuation(tm.State), c.P.Pos(tm.Pos))
			}
		}
	}
	if effects["add"] == 0 || effects["accumulate"] == 0 {
		report("the exploration saw %d Add and %d accumulate effects: both branches of merge-by-name must exist", effects["add"], effects["accumulate"])
	}
	if len(bad) == 0 {
		c.Discharge(rule, fname, "exists∈{T,F}", pos, "existing name: one += on the slot Index returned; new name: one Add; nothing else written (2 cases, exhaustive)")
		c.Valuations = append(c.Valuations, fname+": exists=T", fname+": exists=F")
		return
	}
	for _, m := range bad {
		c.Violate(rule, fname, "exists∈{T,F}", pos, m, nil)
	}
}

// ruleLessByName: Elements.Less orders by name ascending (C01-R2).
func ruleLessByName(c *core.Ctx, rule string) {
	fn := c.P.LookupMethod(core.LibPath, "Elements", "Less")
	if !requireAnchor(c, rule, "Elements.Less", fn != nil) {
		return
	}
	fname := core.FuncName(fn)
	x := newExec(c)
	terms := x.Run(x.NewState(fn, nil, nil))
	account(c, x, rule, fn)
	if len(terms) != 1 || len(terms[0].Ret) != 1 {
		c.Undecide(rule, fname, "order", c.P.Pos(fn.Pos()), fmt.Sprintf("%d abstract outcomes; expected one comparison", len(terms)), nil)
		return
	}
	t, ok := terms[0].Ret[0].(*absint.Term)
	okShape := ok && t.Op == "<" && len(t.Args) >= 2
	if okShape {
		pi, pj := "§"+fn.Params[1].Name(), "§"+fn.Params[2].Name()
		la, lb := locOf(x, t.Args[0]), locOf(x, t.Args[1])
		okShape = strings.HasSuffix(la, "["+pi+"]·Name") && strings.HasSuffix(lb, "["+pj+"]·Name")
	}
	for _, o := range []string{"<", "=", ">"} {
		c.Valuations = append(c.Valuations, "Less: ord(name_i,name_j)="+o)
	}
	if okShape {
		c.Discharge(rule, fname, "order", c.P.Pos(fn.Pos()), "Less(i,j) = el[i].Name < el[j].Name: true,false,false over ord(name_i,name_j) ∈ {<,=,>}")
	} else {
		c.Violate(rule, fname, "order", c.P.Pos(fn.Pos()), "Less(i,j) is "+keyOf(terms[0].Ret[0])+", not el[i].Name < el[j].Name: resolved lists are no longer sorted ascending by element name", nil)
	}
}

// ruleElementsAdd: Add appends exactly {name, val}.
func ruleElementsAdd(c *core.Ctx, rule string) {
	fn := c.P.LookupMethod(core.LibPath, "Elements", "Add")
	if !requireAnchor(c, rule, "Elements.Add", fn != nil) {
		return
	}
	fname := core.FuncName(fn)
	x := newExec(c)
	terms := x.Run(x.NewState(fn, nil, nil))
	account(c, x, rule, fn)
	ok := len(terms) == 1
	if ok {
		h := terms[0].State.Heap
		recvLoc := "L:§" + fn.Params[0].Name()
		t, isT := h[recvLoc].(*absint.Term)
		ok = isT && t.Op == "append" && len(t.Args) == 2 && locOf(x, t.Args[0]) == recvLoc
		gotName, gotVal := false, false
		for k, v := range h {
			if strings.HasSuffix(k, "[c:0]·Name") && v.Key() == "§"+fn.Params[1].Name() {
				gotName = true
			}
			if strings.HasSuffix(k, "[c:0]·Value") && v.Key() == "§"+fn.Params[2].Name() {
				gotVal = true
			}
		}
		ok = ok && gotName && gotVal
	}
	if ok {
		c.Discharge(rule, fname, "append", c.P.Pos(fn.Pos()), "*el = append(*el, {name, val})")
	} else {
		c.Violate(rule, fname, "append", c.P.Pos(fn.Pos()), "Add does not append exactly the element {name, val} to the receiver", nil)
	}
}

// ruleElementsIndex: Index returns (i,true) only for an i whose Name equals the argument, else (0,false).
func ruleElementsIndex(c *core.Ctx, rule string) {
	fn := c.P.LookupMethod(core.LibPath, "Elements", "Index")
	if !requireAnchor(c, rule, "Elements.Index", fn != nil) {
		return
	}
	fname := core.FuncName(fn)
	x := newExec(c)
	nameKey := "§" + fn.Params[1].Name()
	x.Hooks.Decide = func(x *absint.Exec, s *absint.State, atom string, outs []string) {
		if !strings.HasPrefix(atom, "ord(") || !strings.Contains(atom, nameKey) {
			return
		}
		parts := splitTop(strings.TrimSuffix(strings.TrimPrefix(atom, "ord("), ")"))
		if len(parts) != 2 {
			return
		}
		other := parts[0]
		if other == nameKey {
			other = parts[1]
		}
		if len(outs) == 1 && outs[0] == "=" {
			s.SetData("eq", locOf(x, absint.Sym{Name: strings.TrimPrefix(other, "§")}))
		} else {
			s.SetData("eq", "")
		}
	}
	x.Hooks.BackEdge = func(x *absint.Exec, s *absint.State, f *absint.Frame, h *ssa.BasicBlock) { s.SetData("eq", "") }
	terms := x.Run(x.NewState(fn, nil, nil))
	account(c, x, rule, fn)
	trues, falses, bad := 0, 0, 0
	for _, tm := range terms {
		if len(tm.Ret) != 2 {
			bad++
			continue
		}
		b, isB := boolOf(tm.Ret[1])
		if !isB {
			bad++
			continue
		}
		if !b {
			falses++
			if tm.State.Data["eq"] != "" {
				if os.Getenv("HRDEBUG") != "" {
					fmt.Fprintf(os.Stderr, "Index bad(false): eq=%q when %s\n", tm.State.Data["eq"], x.Valuation(tm.State))
				}
				bad++
			}
			continue
		}
		trues++
		if !strings.HasSuffix(tm.State.Data["eq"], "["+tm.Ret[0].Key()+"]·Name") {
			if os.Getenv("HRDEBUG") != "" {
				fmt.Fprintf(os.Stderr, "Index bad: eq=%q ret=%s\n", tm.State.Data["eq"], tm.Ret[0].Key())
			}
			bad++
		}
	}
	if bad == 0 && trues > 0 && falses > 0 {
		c.Discharge(rule, fname, "lookup", c.P.Pos(fn.Pos()), fmt.Sprintf("(i,true) only with el[i].Name == name; (_,false) otherwise (%d paths)", len(terms)))
	} else {
		c.Violate(rule, fname, "lookup", c.P.Pos(fn.Pos()), fmt.Sprintf("Index reports found=true on a path that did not establish el[i].Name == name for the returned i (true paths %d, false paths %d, bad %d)", trues, falses, bad), nil)
	}
}

// elementsSlice: the underlying type of lib.Elements ([]Element).
func elementsSlice(c *core.Ctx) types.Type {
	if t := c.P.LookupType(core.LibPath, "Elements"); t != nil {
		return t.Underlying()
	}
	return types.Typ[types.Invalid]
}

// ownListSSA: v is the list stored behind dst itself, possibly grown by
// append — a load of dst, a local variable (or φ) that only ever holds such
// values, or append(such a value, …). Storing it back to dst writes the
// receiver's own list, not an alias of another one.
func ownListSSA(v, dst ssa.Value, seen map[ssa.Value]bool) bool {
	if seen[v] {
		return true
	}
	seen[v] = true
	switch x := v.(type) {
	case *ssa.UnOp:
		if x.Op != token.MUL {
			return false
		}
		if x.X == dst {
			return true
		}
		if a, ok := x.X.(*ssa.Alloc); ok {
			n := 0
			for _, r := range *a.Referrers() {
				if st, ok := r.(*ssa.Store); ok && st.Addr == ssa.Value(a) {
					n++
					if !ownListSSA(st.Val, dst, seen) {
						return false
					}
				}
			}
			return n > 0
		}
	case *ssa.Phi:
		for _, e := range x.Edges {
			if !ownListSSA(e, dst, seen) {
				return false
			}
		}
		return true
	case *ssa.Call:
		if b, ok := x.Call.Value.(*ssa.Builtin); ok && b.Name() == "append" && len(x.Call.Args) > 0 {
			return ownListSSA(x.Call.Args[0], dst, seen)
		}
	}
	return false
}

// lenKeyOf: the key of len(v) as the engine computes it (it folds the length of make(T, n) and of a whole-array
// slice such as an empty literal).
func lenKeyOf(x *absint.Exec, v absint.Value) string {
	if t, ok := v.(*absint.Term); ok {
		if t.Op == "make" && len(t.Args) == 2 {
			return t.Args[1].Key()
		}
		if t.Op == "slice" && len(t.Args) == 3 && t.Args[1].Key() == "zero" && t.Args[2].Key() == "zero" {
			if p, ok := t.Args[0].(absint.Ptr); ok {
				if n, known := x.ArrayLen(p.Loc); known {
					return absint.Const{V: constant.MakeInt64(n)}.Key()
				}
			}
		}
	}
	return absint.NewTerm("len", v).Key()
}

var indexBuilderMemo = map[*ssa.Function]bool{}

// isIndexBuilder: fn takes a list of elements and returns map[string]int, and every entry it records is
// "name of the element at position i -> i", made only while the name is not in the map yet: the map that
// Elements.Index would compute (first occurrence wins).
func isIndexBuilder(c *core.Ctx, fn *ssa.Function) bool {
	if v, ok := indexBuilderMemo[fn]; ok {
		return v
	}
	indexBuilderMemo[fn] = false
	if fn.Signature.Results().Len() != 1 || len(fn.Params) != 1 || len(fn.Blocks) == 0 {
		return false
	}
	mt, ok := fn.Signature.Results().At(0).Type().Underlying().(*types.Map)
	if !ok {
		return false
	}
	if kb, ok := mt.Key().Underlying().(*types.Basic); !ok || kb.Info()&types.IsString == 0 {
		return false
	}
	if vb, ok := mt.Elem().Underlying().(*types.Basic); !ok || vb.Info()&types.IsInteger == 0 {
		return false
	}
	pt := fn.Params[0].Type()
	if p, ok := pt.Underlying().(*types.Pointer); ok {
		pt = p.Elem()
	}
	if !strings.HasSuffix(pt.String(), ".Elements") {
		return false
	}
	x := newExec(c)
	good, bad := 0, 0
	x.Hooks.MapUpdate = func(x *absint.Exec, s *absint.State, in *ssa.MapUpdate, m, k, v absint.Value) {
		loc := locOf(x, k)
		wantSuffix := "[" + v.Key() + "]·Name"
		has := x.Possible(s, "b("+absint.NewTerm("has", m, k).Key()+")")
		if strings.HasSuffix(loc, wantSuffix) && len(has) == 1 && has[0] == "F" {
			good++
		} else {
			bad++
		}
	}
	x.Run(x.NewState(fn, nil, nil))
	if len(x.Problems) > 0 || x.Exhausted {
		return false
	}
	indexBuilderMemo[fn] = good > 0 && bad == 0
	return indexBuilderMemo[fn]
}

// delegatesToSumMerge: h has no loop and calls SumMerge(<its list parameter>, 1).
func delegatesToSumMerge(h, sm *ssa.Function) bool {
	for _, b := range h.Blocks {
		if isLoopHead(b) {
			return false
		}
	}
	for _, b := range h.Blocks {
		for _, in := range b.Instrs {
			ci, ok := in.(ssa.CallInstruction)
			if !ok || core.Callee(ci.Common()) != sm || len(ci.Common().Args) != 3 {
				continue
			}
			k, isC := ci.Common().Args[2].(*ssa.Const)
			_, fromParam := ci.Common().Args[1].(*ssa.Parameter)
			if isC && k.Value != nil && constant.Compare(k.Value, token.EQL, constant.MakeInt64(1)) && fromParam {
				return true
			}
		}
	}
	return false
}
