// Package rules holds one file per property: universes, atoms, oracles.
package rules

import (
	"fmt"
	"sort"
	"strings"

	"hrverif/internal/core"
)

// Property binds a property id to the rules that decide its structural clauses.
type Property struct {
	ID          string
	Rules       []string
	Explain     string
	NotDecided  string
	Assumptions []string
	Run         func(c *core.Ctx)
	// Canary runs the property's generic rules on the canary tree.
	Canary func(c *core.Ctx)
	// Thorough adds the thorough-tier work and returns extra evidence keys.
	Thorough func(c *core.Ctx, repo, verif string, seed int64) map[string]interface{}
}

var Props = map[string]*Property{}

func register(p *Property) { Props[p.ID] = p }

type CanaryResult struct {
	Checked  int
	Fired    int
	Silent   int
	Failures []string
}

// RunCanaries runs pr's generic rules on the canary tree. Functions whose name
// starts with Bad<rule>_ must yield a non-discharged obligation of that rule
// located in them; functions starting with Good<rule>_ must yield none.
// The rule tag in the name is the rule id without the dash (C05R1).
func RunCanaries(pr *Property, cp *core.Program) CanaryResult {
	var res CanaryResult
	if pr.Canary == nil {
		return res
	}
	ctx := core.NewCtx(pr.ID, "canary", cp)
	pr.Canary(ctx)
	bad := map[string]map[string]bool{} // rule -> func -> fired
	good := map[string]map[string]bool{}
	for _, fn := range cp.Funcs {
		if fn.Parent() != nil {
			continue
		}
		name := fn.Name()
		for _, pre := range []string{"Bad", "Good"} {
			if !strings.HasPrefix(name, pre) {
				continue
			}
			rest := name[len(pre):]
			i := strings.IndexByte(rest, '_')
			if i < 0 {
				continue
			}
			tag := rest[:i]
			if !strings.HasPrefix(tag, pr.ID) {
				continue
			}
			rule := pr.ID + "-" + tag[len(pr.ID):]
			m := bad
			if pre == "Good" {
				m = good
			}
			if m[rule] == nil {
				m[rule] = map[string]bool{}
			}
			m[rule][core.FuncName(fn)] = false
		}
	}
	for _, o := range ctx.Obs {
		if o.Verdict == core.Discharged {
			continue
		}
		top := o.Func
		if i := strings.IndexByte(top, '$'); i >= 0 {
			top = top[:i]
		}
		if m := bad[o.Rule]; m != nil {
			if _, ok := m[top]; ok {
				m[top] = true
			}
		}
		if m := good[o.Rule]; m != nil {
			if _, ok := m[top]; ok {
				m[top] = true
			}
		}
	}
	var rulesSeen []string
	for r := range bad {
		rulesSeen = append(rulesSeen, r)
	}
	sort.Strings(rulesSeen)
	for _, r := range rulesSeen {
		for fn, fired := range bad[r] {
			res.Checked++
			if fired {
				res.Fired++
			} else {
				res.Failures = append(res.Failures, fmt.Sprintf("rule %s did not fire on violating canary %s", r, fn))
			}
		}
	}
	for r, m := range good {
		for fn, fired := range m {
			res.Checked++
			if !fired {
				res.Silent++
			} else {
				res.Failures = append(res.Failures, fmt.Sprintf("rule %s fired on conforming canary %s", r, fn))
			}
		}
	}
	// every generic rule that has a canary entry point must have at least one Bad twin
	sort.Strings(res.Failures)
	return res
}
