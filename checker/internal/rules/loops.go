package rules

import (
	"fmt"
	"go/constant"
	"go/token"
	"strings"

	"golang.org/x/tools/go/ssa"

	"hrverif/internal/core"
)

// ruleLoopProgress is C08-R10: two exact ways in which a loop of the tree cannot make progress.
//
// (a) a stutter path: an iteration that goes round the loop through blocks that call nothing, store nothing and
// receive nothing, and that leaves every loop-carried value as it was. The next iteration computes the same values,
// takes the same branches and goes round again: once entered, the loop never ends.
//
// (b) a trimming loop that may not trim: `for strings.HasPrefix(s, p) { s = strings.TrimPrefix(s, q) }` (or the
// suffix forms) ends for every input only if q is a non-empty prefix of p — otherwise there is an s that starts
// with p but not with q, TrimPrefix hands s back unchanged and the loop spins (a note line "#x" with p="#", q="# ").
//
// All other loops are listed with the reason they are taken to end (counter against a bound, scanner or iterator
// that consumes its input, channel receive); a loop of none of these kinds is listed as not decided.
func ruleLoopProgress(c *core.Ctx, rule string) {
	loops, undecided := 0, 0
	for _, fn := range c.P.Funcs {
		if len(fn.Blocks) == 0 {
			continue
		}
		fname := core.FuncName(fn)
		for _, h := range fn.Blocks {
			var latches []*ssa.BasicBlock
			for _, p := range h.Preds {
				if h.Dominates(p) {
					latches = append(latches, p)
				}
			}
			if len(latches) == 0 {
				continue
			}
			loops++
			pos := c.P.Pos(lastPos(h))
			disc := fmt.Sprintf("loop@b%d", h.Index)
			body := map[*ssa.BasicBlock]bool{h: true}
			work := append([]*ssa.BasicBlock(nil), latches...)
			for len(work) > 0 {
				b := work[len(work)-1]
				work = work[:len(work)-1]
				if body[b] {
					continue
				}
				body[b] = true
				work = append(work, b.Preds...)
			}
			// (a) stutter path
			if why := stutterPath(h, body); why != "" {
				c.Violate(rule, fname, disc, pos, why, nil)
				continue
			}
			// (b) trimming loop
			verdict, why := trimmingLoop(h, body)
			switch verdict {
			case "bad":
				c.Violate(rule, fname, disc, pos, why, nil)
				continue
			case "ok":
				c.Discharge(rule, fname, disc, pos, why)
				continue
			}
			if kind := loopKind(h, body); kind != "" {
				c.Discharge(rule, fname, disc, pos, kind)
			} else {
				undecided++
				c.Note(fmt.Sprintf("%s: %s %s (%s): no stutter path; the loop is of no kind the rule has a termination argument for (not decided)", rule, fname, disc, pos))
			}
		}
	}
	if loops == 0 {
		c.Undecide(rule, "tree", "universe", "-", "no loop found in the tree", nil)
	}
}

func impure(in ssa.Instruction) bool {
	switch t := in.(type) {
	case *ssa.Call, *ssa.Go, *ssa.Defer, *ssa.Store, *ssa.MapUpdate, *ssa.Send, *ssa.Select, *ssa.Next, *ssa.Panic, *ssa.RunDefers:
		return true
	case *ssa.UnOp:
		return t.Op == token.ARROW
	}
	return false
}

// stutterPath: a path h → … → latch → h through pure blocks of the loop on which every φ of h gets itself back.
func stutterPath(h *ssa.BasicBlock, body map[*ssa.BasicBlock]bool) string {
	pure := func(b *ssa.BasicBlock) bool {
		for _, in := range b.Instrs {
			if impure(in) {
				return false
			}
		}
		return true
	}
	if !pure(h) {
		return ""
	}
	var phis []*ssa.Phi
	for _, in := range h.Instrs {
		if p, ok := in.(*ssa.Phi); ok {
			phis = append(phis, p)
		}
	}
	// inner φs make "unchanged" depend on the path taken; only loops whose inner blocks on the path have none are judged
	seen := map[*ssa.BasicBlock]bool{}
	var dfs func(b *ssa.BasicBlock) *ssa.BasicBlock
	dfs = func(b *ssa.BasicBlock) *ssa.BasicBlock {
		for _, s := range b.Succs {
			if s == h {
				// back edge from b: every φ unchanged?
				idx := -1
				for i, p := range h.Preds {
					if p == b {
						idx = i
					}
				}
				same := idx >= 0
				for _, p := range phis {
					if idx < 0 || p.Edges[idx] != ssa.Value(p) {
						same = false
					}
				}
				if same {
					return b
				}
				continue
			}
			if !body[s] || seen[s] || !pure(s) {
				continue
			}
			hasPhi := false
			for _, in := range s.Instrs {
				if _, ok := in.(*ssa.Phi); ok {
					hasPhi = true
				}
			}
			if hasPhi {
				continue
			}
			seen[s] = true
			if r := dfs(s); r != nil {
				return r
			}
		}
		return nil
	}
	if b := dfs(h); b != nil {
		return fmt.Sprintf("an iteration can go round the loop through block %d without calling, storing or receiving anything and with every loop-carried value unchanged: the next iteration does exactly the same, so the loop never ends once that path is taken", b.Index)
	}
	return ""
}

func strConst(v ssa.Value) (string, bool) {
	if cst, ok := v.(*ssa.Const); ok && cst.Value != nil && cst.Value.Kind() == constant.String {
		return constant.StringVal(cst.Value), true
	}
	return "", false
}

// trimmingLoop recognises `for strings.HasPrefix(s, p) { … s = f(s) … }` and the suffix form.
func trimmingLoop(h *ssa.BasicBlock, body map[*ssa.BasicBlock]bool) (string, string) {
	iff, ok := h.Instrs[len(h.Instrs)-1].(*ssa.If)
	if !ok {
		return "", ""
	}
	call, ok := iff.Cond.(*ssa.Call)
	if !ok || core.Callee(&call.Call) == nil || len(call.Call.Args) != 2 {
		return "", ""
	}
	pred := core.Callee(&call.Call).String()
	if pred != "strings.HasPrefix" && pred != "strings.HasSuffix" {
		return "", ""
	}
	if !body[h.Succs[0]] || body[h.Succs[1]] {
		return "", "" // not "while the prefix is there"
	}
	phi, ok := call.Call.Args[0].(*ssa.Phi)
	if !ok || phi.Block() != h {
		return "", ""
	}
	p, ok := strConst(call.Call.Args[1])
	if !ok {
		return "", ""
	}
	want := map[string]string{"strings.HasPrefix": "strings.TrimPrefix", "strings.HasSuffix": "strings.TrimSuffix"}[pred]
	for i, e := range phi.Edges {
		if !h.Dominates(h.Preds[i]) {
			continue
		}
		step, ok := e.(*ssa.Call)
		if !ok || core.Callee(&step.Call) == nil {
			return "", ""
		}
		name := core.Callee(&step.Call).String()
		if !strings.HasPrefix(name, "strings.Trim") && !strings.HasPrefix(name, "strings.Replace") {
			return "", ""
		}
		if len(step.Call.Args) < 1 || step.Call.Args[0] != ssa.Value(phi) {
			return "", ""
		}
		q, isC := "", false
		if len(step.Call.Args) == 2 {
			q, isC = strConst(step.Call.Args[1])
		}
		progress := false
		switch {
		case name == want && isC && q != "" && pred == "strings.HasPrefix":
			progress = strings.HasPrefix(p, q)
		case name == want && isC && q != "" && pred == "strings.HasSuffix":
			progress = strings.HasSuffix(p, q)
		case name == "strings.TrimLeft" && isC && pred == "strings.HasPrefix" && p != "":
			progress = strings.ContainsRune(q, []rune(p)[0])
		case name == "strings.TrimRight" && isC && pred == "strings.HasSuffix" && p != "":
			r := []rune(p)
			progress = strings.ContainsRune(q, r[len(r)-1])
		}
		if !progress {
			return "bad", fmt.Sprintf("the loop runs while the text %s %q and each round replaces the text by %s(text, %q): a text that %s %q but is left unchanged by that call (%q is not a non-empty %s of %q) keeps the loop running for ever", map[string]string{"strings.HasPrefix": "starts with", "strings.HasSuffix": "ends with"}[pred], p, name, q, map[string]string{"strings.HasPrefix": "starts with", "strings.HasSuffix": "ends with"}[pred], p, q, map[string]string{"strings.HasPrefix": "prefix", "strings.HasSuffix": "suffix"}[pred], p)
		}
	}
	return "ok", fmt.Sprintf("trimming loop: every round removes a non-empty part of the %q the test found", p)
}

// loopKind: a reason for which the loop is taken to end, or "".
func loopKind(h *ssa.BasicBlock, body map[*ssa.BasicBlock]bool) string {
	consuming := map[string]string{
		"(*bufio.Scanner).Scan":       "scanner loop: every round consumes input",
		"(*encoding/csv.Reader).Read": "csv reader loop: every round consumes input",
		"(*bufio.Reader).ReadString":  "reader loop: every round consumes input",
	}
	for b := range body {
		exits := false
		for _, s := range b.Succs {
			if !body[s] {
				exits = true
			}
		}
		if !exits {
			continue
		}
		iff, ok := b.Instrs[len(b.Instrs)-1].(*ssa.If)
		if !ok {
			continue
		}
		switch cond := iff.Cond.(type) {
		case *ssa.BinOp:
			for _, op := range []ssa.Value{cond.X, cond.Y} {
				if counterOf(op, h, 0) {
					return "counter loop: a loop-carried integer moves by a non-zero constant every round and is compared with the bound"
				}
			}
		case *ssa.Call:
			if cal := core.Callee(&cond.Call); cal != nil {
				if why, ok := consuming[cal.String()]; ok {
					return why
				}
			}
		case *ssa.Extract:
			switch t := cond.Tuple.(type) {
			case *ssa.Next:
				return "range loop over a map or string: the iterator is finite"
			case *ssa.UnOp:
				if t.Op == token.ARROW {
					return "receive loop: ends when the channel is closed"
				}
			case *ssa.Call:
				if cal := core.Callee(&t.Call); cal != nil {
					if why, ok := consuming[cal.String()]; ok {
						return why
					}
				}
			}
		}
	}
	// for { select { … return … } }
	for b := range body {
		for _, in := range b.Instrs {
			if _, ok := in.(*ssa.Select); ok {
				return "select loop: every round receives from a channel and one of the cases leaves"
			}
			if u, ok := in.(*ssa.UnOp); ok && u.Op == token.ARROW {
				return "receive loop: every round receives from a channel"
			}
		}
	}
	return ""
}

// counterOf: v is a φ of h (or that φ plus/minus a constant) whose back-edge values all are the φ moved by a
// non-zero constant of one sign.
func counterOf(v ssa.Value, h *ssa.BasicBlock, depth int) bool {
	if depth > 2 {
		return false
	}
	if b, ok := v.(*ssa.BinOp); ok && (b.Op == token.ADD || b.Op == token.SUB) {
		if _, isC := b.Y.(*ssa.Const); isC {
			return counterOf(b.X, h, depth+1)
		}
	}
	phi, ok := v.(*ssa.Phi)
	if !ok || phi.Block() != h {
		return false
	}
	sign := 0
	for i, e := range phi.Edges {
		if !h.Dominates(h.Preds[i]) {
			continue
		}
		step, ok := e.(*ssa.BinOp)
		if !ok || (step.Op != token.ADD && step.Op != token.SUB) || step.X != ssa.Value(phi) {
			return false
		}
		k, ok := step.Y.(*ssa.Const)
		if !ok || k.Value == nil || k.Value.Kind() != constant.Int || k.Int64() == 0 {
			return false
		}
		s := 1
		if (k.Int64() < 0) != (step.Op == token.SUB) {
			s = -1
		}
		if sign != 0 && sign != s {
			return false
		}
		sign = s
	}
	return sign != 0
}
