package rules

import (
	"fmt"
	"go/constant"
	"go/token"
	"go/types"
	"os"
	"strings"

	"golang.org/x/tools/go/ssa"

	"hrverif/internal/absint"
	"hrverif/internal/core"
)

// ruleSentinel is C03-R2: a slice-returning recursive function of package balance
// whose callers branch on len(result) must return an empty result whenever its
// recursive call does.
func ruleSentinel(c *core.Ctx, rule string) {
	n := 0
	for _, fn := range selfRecursiveQuiet(c.P) {
		if core.FnPkgPath(fn) != balancePkg || fn.Signature.Results().Len() != 1 {
			continue
		}
		if _, ok := fn.Signature.Results().At(0).Type().Underlying().(*types.Slice); !ok {
			continue
		}
		n++
		fname := core.FuncName(fn)
		pos := c.P.Pos(fn.Pos())
		c.Universe(rule+" sentinel-returning recursions", fname+" ("+pos+")")
		x := newExec(c)
		x.Hooks.Call = func(x *absint.Exec, s *absint.State, site ssa.CallInstruction, callee *ssa.Function, fnv absint.Value, args []absint.Value) (absint.Value, bool) {
			if callee == fn {
				return absint.Sym{Name: "rec"}, true
			}
			return nil, false
		}
		x.KeepSyms = map[string]bool{"rec": true}
		terms := x.Run(x.NewState(fn, nil, nil))
		if !account(c, x, rule, fn) {
			continue
		}
		var bad []string
		emptyRet, recRet := 0, 0
		for _, tm := range terms {
			if tm.Kind != "return" || len(tm.Ret) != 1 {
				continue
			}
			ret := tm.Ret[0]
			outs := x.OrdOutcomes(tm.State, "len(§rec)", "c:0")
			if len(outs) == 1 && outs[0] == "=" && ret.Key() != "§rec" && !isEmptySlice(x, ret) {
				bad = append(bad, fmt.Sprintf("returns %s at %s on the path where the recursive result is the empty 'forks below' sentinel: the caller takes the non-empty answer for a joined chain, prints one row and skips the subtree that forks", ret.Key(), c.P.Pos(tm.Pos)))
			}
			if !absint.Mentions(ret, "rec") {
				if isEmptySlice(x, ret) {
					emptyRet++
				}
				continue
			}
			recRet++
			if ret.Key() == "§rec" {
				continue // passes the recursive result through unchanged
			}
			// built from the recursive result: only allowed where it is known non-empty
			nonEmpty := outs != nil
			for _, o := range outs {
				if o == "=" {
					nonEmpty = false
				}
			}
			if !nonEmpty {
				bad = append(bad, fmt.Sprintf("returns %s at %s without having established that the recursive result is non-empty: an empty result means 'this subtree forks, print it level by level', and prepending to it makes the caller skip the whole subtree", ret.Key(), c.P.Pos(tm.Pos)))
			}
		}
		if emptyRet == 0 || recRet == 0 {
			c.Note(fmt.Sprintf("%s: %s has no empty-literal return or no return built from its recursive call; not a sentinel recursion", rule, fname))
			c.Discharge(rule, fname, "sentinel", pos, "not a sentinel-propagating recursion (vacuous)")
			continue
		}
		bad = uniq(bad)
		if len(bad) == 0 {
			c.Discharge(rule, fname, "sentinel", pos, "recursive result empty ⇒ result empty on every path")
		}
		for _, m := range bad {
			c.Violate(rule, fname, "sentinel", pos, m, nil)
		}
	}
	if n == 0 {
		c.Note(rule + ": no slice-returning recursion in package balance (a rewrite that needs no sentinel is vacuous by design)")
	}
	ruleChainStopsAtFork(c, rule)
}

// ruleChainStopsAtFork (part of C03-R2): whatever its shape — recursion or a loop down the only children — a
// function of package balance that turns a node into the list of names of a joined chain answers with the empty
// list on every path on which it has seen a node with more than one child. A non-empty answer makes the caller
// print one joined row and skip everything below, fork included.
func ruleChainStopsAtFork(c *core.Ctx, rule string) {
	treeT := c.P.LookupType(core.LibPath, "TreeNode")
	if treeT == nil {
		return
	}
	for _, fn := range c.P.Funcs {
		if core.FnPkgPath(fn) != balancePkg || fn.Parent() != nil || len(fn.Params) != 1 || fn.Signature.Results().Len() != 1 {
			continue
		}
		if _, ok := fn.Signature.Results().At(0).Type().Underlying().(*types.Slice); !ok {
			continue
		}
		if pt, ok := fn.Params[0].Type().(*types.Pointer); !ok || !types.Identical(pt.Elem(), treeT) {
			continue
		}
		fname := core.FuncName(fn)
		pos := c.P.Pos(fn.Pos())
		x := newExec(c)
		x.Hooks.Call = func(x *absint.Exec, s *absint.State, site ssa.CallInstruction, callee *ssa.Function, fnv absint.Value, args []absint.Value) (absint.Value, bool) {
			if callee == fn {
				return absint.Sym{Name: "rec"}, true // the recursive form is judged by the sentinel rule above
			}
			return nil, false
		}
		x.Hooks.Decide = func(x *absint.Exec, s *absint.State, atom string, outs []string) {
			// ord(c:1,len(children)) = "<": more than one child
			if !strings.HasPrefix(atom, "ord(") || !strings.Contains(atom, "len(") || len(outs) == 0 {
				return
			}
			parts := splitTop(strings.TrimSuffix(strings.TrimPrefix(atom, "ord("), ")"))
			if len(parts) != 2 {
				return
			}
			for i := 0; i < 2; i++ {
				if !strings.HasPrefix(parts[i], "len(§") {
					continue
				}
				loc := locOf(x, absint.Sym{Name: strings.TrimSuffix(strings.TrimPrefix(parts[i], "len(§"), ")")})
				if !strings.HasSuffix(loc, "·Children") {
					continue
				}
				o := strings.Join(x.OrdOutcomes(s, parts[i], parts[1-i]), "") // len versus the constant
				switch {
				case parts[1-i] == "c:1" && o == ">":
					s.SetData("fork", "1")
				case parts[1-i] == "c:1" && o != "" && !strings.Contains(o, "="):
					s.SetData("ne1:"+parts[i], "1") // not one child …
				case parts[1-i] == "c:0" && o == ">":
					s.SetData("gt0:"+parts[i], "1") // … and not none
				}
				if s.Data["ne1:"+parts[i]] == "1" && s.Data["gt0:"+parts[i]] == "1" {
					s.SetData("fork", "1")
				}
			}
		}
		terms := x.Run(x.NewState(fn, nil, nil))
		if x.Exhausted {
			// an exploration that ran out of budget decides nothing: said aloud, not passed over
			account(c, x, rule, fn)
			continue
		}
		if len(x.Problems) > 0 {
			continue // the traversal rule reports what it cannot follow
		}
		var bad []string
		forks := 0
		for _, tm := range terms {
			if tm.Kind != "return" || len(tm.Ret) != 1 || tm.State.Data["fork"] != "1" {
				continue
			}
			forks++
			if !isEmptySlice(x, tm.Ret[0]) {
				bad = append(bad, fmt.Sprintf("%s: on a path that has met a node with more than one child the chain helper answers %s, not the empty list: the caller prints the partial chain as one joined row and never descends into the fork — every branch below it is missing from the collapsed report", c.P.Pos(tm.Pos), tm.Ret[0].Key()))
			}
		}
		if forks == 0 {
			continue
		}
		c.Universe(rule+" chain helpers", fname+" ("+pos+")")
		bad = uniq(bad)
		if len(bad) == 0 {
			c.Discharge(rule, fname, "fork", pos, fmt.Sprintf("every path that meets a fork answers with the empty list (%d paths)", forks))
		}
		for _, m := range bad {
			c.Violate(rule, fname, "fork", pos, m, nil)
		}
	}
}

func isEmptySlice(x *absint.Exec, v absint.Value) bool {
	if cst, ok := v.(absint.Const); ok {
		return cst.Nil || cst.V == nil
	}
	if t, ok := v.(*absint.Term); ok && t.Op == "slice" && len(t.Args) > 0 {
		// slice(&fresh array): empty when the literal has no elements
		if p, ok := t.Args[0].(absint.Ptr); ok {
			if n, known := x.ArrayLen(p.Loc); known {
				return n == 0
			}
		}
		return true
	}
	return false
}

func selfRecursiveQuiet(p *core.Program) []*ssa.Function {
	var out []*ssa.Function
	for _, fn := range p.Funcs {
		for _, b := range fn.Blocks {
			for _, in := range b.Instrs {
				if ci, ok := in.(ssa.CallInstruction); ok && core.Callee(ci.Common()) == fn {
					out = append(out, fn)
					goto next
				}
			}
		}
	next:
	}
	return out
}

// modeEnumOf: for a named integer type of the tree, the constants that the package's func(bool) T makes from the
// switch: constant (as text) → the switch value it stands for. nil when T is not such an enumeration.
func modeEnumOf(c *core.Ctx, t types.Type) map[string]bool {
	nt, ok := t.(*types.Named)
	if !ok {
		return nil
	}
	if b, ok := nt.Underlying().(*types.Basic); !ok || b.Info()&types.IsInteger == 0 {
		return nil
	}
	var out map[string]bool
	for _, g := range c.P.Funcs {
		if g.Parent() != nil || len(g.Params) != 1 || g.Signature.Recv() != nil || g.Signature.Results().Len() != 1 || !types.Identical(g.Signature.Results().At(0).Type(), t) {
			continue
		}
		if b, ok := g.Params[0].Type().Underlying().(*types.Basic); !ok || b.Kind() != types.Bool {
			continue
		}
		if out != nil {
			return nil // two makers: which one the callers use is not looked at
		}
		out = map[string]bool{}
		for _, on := range []bool{true, false} {
			x := newExec(c)
			for _, tm := range x.Run(x.NewState(g, []absint.Value{boolValue(on)}, nil)) {
				if tm.Kind != "return" || len(tm.Ret) != 1 {
					return nil
				}
				k, ok := tm.Ret[0].(absint.Const)
				if !ok || k.V == nil {
					return nil
				}
				if prev, dup := out[k.V.ExactString()]; dup && prev != on {
					return nil
				}
				out[k.V.ExactString()] = on
			}
		}
	}
	return out
}

// ruleTreePrinters is C03-R5: every printing traversal prints exactly one row per
// child with that child's own Total, and skips the child's subtree only where the
// display mode allows it.
func ruleTreePrinters(c *core.Ctx, rule string) {
	treeT := c.P.LookupType(core.LibPath, "TreeNode")
	if !requireAnchor(c, rule, "lib.TreeNode", treeT != nil) {
		return
	}
	n := 0
	firstChildOK := ruleFirstChild(c, rule)
	for _, fn := range selfRecursiveQuiet(c.P) {
		if core.FnPkgPath(fn) != balancePkg || len(fn.Params) == 0 || fn.Signature.Results().Len() != 1 || !isErrorType(fn.Signature.Results().At(0).Type()) {
			continue
		}
		pt, ok := fn.Params[0].Type().(*types.Pointer)
		if !ok || !types.Identical(pt.Elem(), treeT) {
			continue
		}
		n++
		// a walker that is told by a function value what to print and whether to descend (printRows(node, level, w,
		// label)) is judged once for each function of the package that calls it with such a function
		roots := []*ssa.Function{fn}
		if takesFuncs(fn) {
			roots = nil
			for _, g := range c.P.Funcs {
				if g == fn || g.Parent() != nil || core.FnPkgPath(g) != balancePkg {
					continue
				}
				for _, b := range g.Blocks {
					for _, in := range b.Instrs {
						if ci, ok := in.(ssa.CallInstruction); ok && core.Callee(ci.Common()) == fn {
							roots = append(roots, g)
						}
					}
				}
			}
			if len(roots) == 0 {
				roots = []*ssa.Function{fn}
			}
		}
		for _, root := range roots {
			wantFrames := 1
			if root != fn {
				wantFrames = 2
			}
			fname := core.FuncName(root)
			pos := c.P.Pos(root.Pos())
			c.Universe(rule+" tree printers", fname+" ("+pos+")")
			x := newExec(c)
			// rows printed through a row-printer interface with one implementation in the tree are followed into it
			x.Hooks.Devirt = func(in *ssa.Function, site ssa.CallInstruction) *ssa.Function {
				var only *ssa.Function
				for _, cal := range calleesOf(c.P, in, site, c.P.CallGraph()) {
					if only != nil || !c.P.InScope(cal) {
						return nil
					}
					only = cal
				}
				return only
			}
			var bad []string
			seenCases := map[string]bool{}
			modeEnum := modeEnumOf(c, fn.Params[len(fn.Params)-1].Type())
			// the loop that walks the children is the one whose body prints
			depthOf := func(x *absint.Exec, atom string) int {
				// how many lookups deep is the list whose length the atom tests? 1 = the child, 2 = a grandchild
				i := strings.Index(atom, "len(§@")
				if i < 0 {
					i = strings.Index(atom, "len(§j@")
				}
				if i < 0 {
					return 0
				}
				rest := atom[i+len("len(§"):]
				end := strings.IndexAny(rest, "),")
				if end < 0 {
					return 0
				}
				loc := locOf(x, absint.Sym{Name: rest[:end]})
				if !strings.HasSuffix(loc, "·Children") {
					return 0
				}
				d := strings.Count(loc, "lookup(")
				// nested load symbols hide inner lookups: resolve one level
				if j := strings.Index(loc, "lookup(§@"); j >= 0 {
					inner := loc[j+len("lookup(§"):]
					if e := strings.IndexAny(inner, ",)"); e > 0 {
						d += strings.Count(locOf(x, absint.Sym{Name: inner[:e]}), "lookup(")
					}
				}
				return d
			}
			x.Hooks.Decide = func(x *absint.Exec, s *absint.State, atom string, outs []string) {
				if !strings.HasPrefix(atom, "ord(") || !strings.Contains(atom, "len(") {
					modeName := fn.Params[len(fn.Params)-1].Name()
					if root != fn {
						for _, rp := range root.Params {
							if bt, ok := rp.Type().Underlying().(*types.Basic); ok && bt.Kind() == types.Bool {
								modeName = rp.Name() // the switch lives in the function that supplies the label
							}
						}
					}
					if strings.HasPrefix(atom, "b(§"+modeName) && len(outs) == 1 {
						s.SetData("mode", outs[0])
					}
					// the switch as the one boolean field of an options structure handed down the recursion
					if strings.HasPrefix(atom, "b(field(§"+modeName+",") && len(outs) == 1 {
						if st, ok := fn.Params[len(fn.Params)-1].Type().Underlying().(*types.Struct); ok {
							bools := 0
							for i := 0; i < st.NumFields(); i++ {
								if bt, isB := st.Field(i).Type().Underlying().(*types.Basic); isB && bt.Kind() == types.Bool {
									bools++
								}
							}
							if bools == 1 {
								s.SetData("mode", outs[0])
							}
						}
					}
					// the mode as an enumeration made from the switch by one function of the package (newLastLevel(bool))
					if modeEnum != nil && strings.HasPrefix(atom, "ord(") && strings.Contains(atom, "§"+modeName) && !strings.Contains(atom, "len(") {
						for k, on := range modeEnum {
							if !strings.Contains(atom, "c:"+k+",") && !strings.Contains(atom, "c:"+k+")") {
								continue
							}
							eq := len(outs) == 1 && outs[0] == "="
							ne := len(outs) > 0 && !strings.Contains(strings.Join(outs, ""), "=")
							switch {
							case eq:
								s.SetData("mode", map[bool]string{true: "T", false: "F"}[on])
							case ne && len(modeEnum) == 2:
								s.SetData("mode", map[bool]string{true: "F", false: "T"}[on])
							}
						}
					}
					return
				}
				d := depthOf(x, atom)
				if os.Getenv("HRDEBUG") != "" {
					loc := ""
					if i := strings.Index(atom, "len(§"); i >= 0 {
						r := atom[i+len("len(§"):]
						if e := strings.IndexAny(r, "),"); e > 0 {
							loc = locOf(x, absint.Sym{Name: r[:e]})
						}
					}
					fmt.Fprintf(os.Stderr, "decide %s %v depth=%d loc=%s\n", atom, outs, d, loc)
				}
				if d == 0 {
					if strings.Contains(atom, "§jump") && len(outs) > 0 {
						s.SetData("jump", strings.Join(outs, ""))
					}
					return
				}
				key := "kids"
				if d >= 2 {
					key = "grand"
				}
				which := "0"
				if strings.Contains(atom, "c:1,") || strings.Contains(atom, ",c:1)") {
					which = "1"
				}
				// orientation: ord(c:k, len(X)) — "<" means k < len
				s.SetData(key+which, strings.Join(outs, ""))
			}
			x.Hooks.Call = func(x *absint.Exec, s *absint.State, site ssa.CallInstruction, callee *ssa.Function, fnv absint.Value, args []absint.Value) (absint.Value, bool) {
				pos := c.P.Pos(site.Pos())
				switch {
				case callee == fn && len(s.Frames) > 0 && s.Frames[len(s.Frames)-1].Fn != fn && func() bool {
					for _, fr := range s.Frames {
						if fr.Fn == fn {
							return false
						}
					}
					return true
				}():
					return nil, false // the call that enters the walker from the function that supplies the label
				case callee == fn:
					s.SetData("rec", "1")
					// the depth the children are printed at is this node's depth plus one, for every child alike
					deeper := false
					for i, prm := range fn.Params {
						bt, ok := prm.Type().Underlying().(*types.Basic)
						if !ok || bt.Info()&types.IsInteger == 0 || i >= len(args) {
							continue
						}
						var self absint.Value = absint.Sym{Name: prm.Name()}
						if pv, ok := s.Frames[len(s.Frames)-1].Env[prm]; ok && s.Frames[len(s.Frames)-1].Fn == fn {
							self = pv // what this activation was given
						}
						one := absint.Const{V: constant.MakeInt64(1)}
						switch args[i].Key() {
						case self.Key():
						case absint.NewTerm("+", self, one).Key(), absint.NewTerm("+", one, self).Key():
							deeper = true
						default:
							bad = append(bad, fmt.Sprintf("%s: the children of a node are printed at depth %s, not at the node's own depth %s plus one: rows of the same level are indented differently and the report shows them under the wrong parent", pos, args[i].Key(), prm.Name()))
							deeper = true
						}
					}
					if !deeper {
						bad = append(bad, pos+": the children of a node are printed at the node's own depth: parent and child rows cannot be told apart")
					}
					return x.Fresh(s, "recerr"), true
				case isMethod(callee, core.LibPath, "TreeNode", "Keys"):
					return absint.Sym{Name: "keys"}, true
				case firstChildOK && isMethod(callee, core.LibPath, "TreeNode", "FirstChild") && len(args) == 1:
					// contract checked separately below: nil or one of the node's own children
					if p, ok := args[0].(absint.Ptr); ok {
						kids := x.Load(s, absint.Ptr{Loc: p.Loc + "·Children"}, nil)
						return absint.NewTerm("lookup", kids, absint.NewTerm("index", absint.Sym{Name: "keys"}, absint.Const{V: constant.MakeInt64(0)})), true
					}
					if t, ok := args[0].(*absint.Term); ok && t.Op == "lookup" {
						kids := x.Load(s, absint.Ptr{Loc: "L:" + t.Key() + "·Children"}, nil)
						return absint.NewTerm("lookup", kids, absint.NewTerm("index", absint.Sym{Name: "keys"}, absint.Const{V: constant.MakeInt64(0)})), true
					}
				case callee != nil && core.FnPkgPath(callee) == balancePkg && callee != fn && callee.Signature.Results().Len() == 1 && isSliceType(callee.Signature.Results().At(0).Type()) && len(callee.Params) == 1:
					// a helper that computes the joined path of a chain (getJump): opaque list
					return x.Fresh(s, "jump"), true
				case callee != nil && strings.HasPrefix(callee.String(), "fmt.Fprint"):
					rows := s.Data["rows"]
					if rows == "" {
						s.SetData("rows", "1")
					} else {
						s.SetData("rows", "many")
					}
					// the amount printed must be the visited child's own Total
					if len(args) > 0 {
						if t, ok := args[len(args)-1].(*absint.Term); ok && t.Op == "slice" {
							if p, ok := t.Args[0].(absint.Ptr); ok {
								var first absint.Value
								if hv, ok := s.Heap[p.Loc+"[c:0]"]; ok {
									first = hv
								}
								// the indentation of the row is the depth this call was given, untouched
								for i := 0; i < 6; i++ {
									iv, ok := s.Heap[fmt.Sprintf("%s[c:%d]", p.Loc, i)].(*absint.Iface)
									if !ok {
										continue
									}
									if rt, ok := iv.V.(*absint.Term); ok && rt.Op == "call:strings.Repeat" && len(rt.Args) == 2 {
										isParam := false
										for _, prm := range fn.Params {
											if rt.Args[1].Key() == (absint.Sym{Name: prm.Name()}).Key() {
												isParam = true
											}
											for _, fr := range s.Frames {
												if pv, ok := fr.Env[prm]; ok && fr.Fn == fn && pv.Key() == rt.Args[1].Key() {
													isParam = true
												}
											}
										}
										if !isParam {
											bad = append(bad, fmt.Sprintf("%s: a row is indented by %s, not by the depth the traversal was called with: rows of one level get different indentations", pos, rt.Args[1].Key()))
										}
									}
								}
								if iv, ok := first.(*absint.Iface); ok {
									loc := locOf(x, iv.V)
									if strings.HasSuffix(loc, "·Total") {
										if lookupDepth(x, loc) == 1 {
											s.SetData("total", "child")
										} else {
											s.SetData("wrongtotal", loc+" at "+pos)
										}
									}
								}
							}
						}
					}
					return nil, false
				}
				return nil, false
			}
			check := func(s *absint.State, where string) {
				d := s.Data
				if d["rows"] == "" && d["rec"] == "" {
					if where == "backedge" {
						bad = append(bad, "a child is passed over: no row is printed for it and its subtree is not visited ("+x.Valuation(s)+"): the branch, and everything below it, is missing from the report")
					}
					return
				}
				kids0, kids1 := d["kids0"], d["kids1"]               // outcomes of ord(0,len) and ord(1,len)
				leaf := kids0 != "" && !strings.Contains(kids0, "<") // 0 >= len  ⇒ no children
				single := kids1 == "="                               // len == 1
				grandLeaf := d["grand0"] != "" && !strings.Contains(d["grand0"], "<")
				caseKey := fmt.Sprintf("children=%s/%s grandchildren=%s mode=%s jump=%s → rows=%s rec=%s", kids0, kids1, d["grand0"], d["mode"], d["jump"], d["rows"], d["rec"])
				seenCases[caseKey] = true
				if d["rows"] != "1" {
					bad = append(bad, fmt.Sprintf("a child is visited and %s rows are printed for it (%s)", map[string]string{"": "no", "many": "several"}[d["rows"]], caseKey))
				}
				if d["wrongtotal"] != "" {
					bad = append(bad, "the amount printed for a child is not that child's own Total but "+d["wrongtotal"]+": quantities logged on the child itself disappear from the row")
				}
				if d["rec"] != "1" {
					// subtree skipped: allowed for a leaf, for a joined chain (non-empty jump), or collapse-last on a single leaf grandchild
					jumpNonEmpty := d["jump"] != "" && !strings.Contains(d["jump"], "=") && strings.Contains(d["jump"], "<") || d["jump"] == "<"
					okSkip := leaf || jumpNonEmpty || (d["mode"] == "T" && single && grandLeaf)
					if !okSkip {
						if os.Getenv("HRDEBUG") != "" {
							fmt.Fprintf(os.Stderr, "SKIP path=%v\n", s.Path)
						}
						bad = append(bad, fmt.Sprintf("the subtree of a child is skipped although it is not known to be a leaf, a single leaf grandchild under collapse-last, or a joined chain (%s): every branch below it is dropped from the report", caseKey))
					}
				}
			}
			x.Hooks.BackEdge = func(x *absint.Exec, s *absint.State, f *absint.Frame, h *ssa.BasicBlock) {
				if f.Fn != fn || len(s.Frames) != wantFrames {
					return
				}
				check(s, "backedge")
				for _, k := range []string{"rows", "rec", "kids0", "kids1", "grand0", "grand1", "jump", "total", "wrongtotal"} {
					s.SetData(k, "")
				}
			}
			x.Run(x.NewState(root, nil, nil))
			if !account(c, x, rule, root) {
				continue
			}
			for k := range seenCases {
				c.Valuations = append(c.Valuations, fname+": "+k)
			}
			bad = uniq(bad)
			if len(bad) == 0 {
				c.Discharge(rule, fname, "traversal", pos, fmt.Sprintf("one row per child with the child's own Total; a subtree is skipped only for a leaf, a joined chain, or collapse-last on a single leaf grandchild (%d cases)", len(seenCases)))
			}
			for _, m := range bad {
				c.Violate(rule, fname, "traversal", pos, m, nil)
			}
		}
	}
	if n == 0 {
		c.Undecide(rule, "balance", "universe", "-", "package balance has no recursive printer over *TreeNode", nil)
	}
}

// ruleTreeAdd is C03-R6: TreeNode.Add over exists ∈ {T,F}.
func ruleTreeAdd(c *core.Ctx, rule string) {
	fn := c.P.LookupMethod(core.LibPath, "TreeNode", "Add")
	if !requireAnchor(c, rule, "TreeNode.Add", fn != nil) {
		return
	}
	fname := core.FuncName(fn)
	x := newExec(c)
	var bad []string
	cases := map[string]bool{}
	x.Hooks.Decide = func(x *absint.Exec, s *absint.State, atom string, outs []string) {
		if strings.HasPrefix(atom, "b(has(") && len(outs) == 1 {
			s.SetData("exists", outs[0])
		}
	}
	x.Hooks.MapUpdate = func(x *absint.Exec, s *absint.State, in *ssa.MapUpdate, m, k, v absint.Value) {
		cases["insert exists="+s.Data["exists"]] = true
		if s.Data["exists"] != "F" {
			bad = append(bad, "a child is inserted although one with that name exists (exists="+s.Data["exists"]+"): the earlier subtree is replaced and its quantities are lost")
		}
		if v.Key() != "§"+fn.Params[1].Name() {
			bad = append(bad, "the inserted node is "+v.Key()+", not the argument")
		}
	}
	x.Hooks.Store = func(x *absint.Exec, s *absint.State, in *ssa.Store, addr, val absint.Value) {
		p, ok := addr.(absint.Ptr)
		if !ok || !strings.HasSuffix(p.Loc, "·Total") {
			return
		}
		cases["accumulate exists="+s.Data["exists"]] = true
		if s.Data["exists"] != "T" {
			bad = append(bad, "a Total is updated with exists="+s.Data["exists"])
		}
		okShape := isSumWith(x, val, p.Loc, func(d absint.Value) bool {
			return strings.HasSuffix(locOf(x, d), "§"+fn.Params[1].Name()+"·Total")
		})
		if !okShape {
			bad = append(bad, "an existing child's Total becomes "+val.Key()+", expected old + child.Total")
		}
	}
	x.Run(x.NewState(fn, nil, nil))
	if !account(c, x, rule, fn) {
		return
	}
	if !cases["insert exists=F"] || !cases["accumulate exists=T"] {
		bad = append(bad, fmt.Sprintf("expected one insert (new name) and one accumulate (existing name), saw %v", cases))
	}
	bad = uniq(bad)
	if len(bad) == 0 {
		c.Discharge(rule, fname, "exists∈{T,F}", c.P.Pos(fn.Pos()), "new name: the node is linked; existing name: Total += child.Total (2 cases, exhaustive)")
	}
	for _, m := range bad {
		c.Violate(rule, fname, "exists∈{T,F}", c.P.Pos(fn.Pos()), m, nil)
	}
}

// ruleGrandTotal is C03-R7: a reporter that keeps a tree and prints a grand total
// prints a scalar field that Process feeds together with the tree.
func ruleGrandTotal(c *core.Ctx, rule string) {
	for _, t := range reporterImpls(c.P) {
		if t.Obj().Pkg().Path() != balancePkg {
			continue
		}
		st, ok := t.Underlying().(*types.Struct)
		if !ok {
			continue
		}
		var scalars []string
		for i := 0; i < st.NumFields(); i++ {
			if bt, ok := st.Field(i).Type().Underlying().(*types.Basic); ok && bt.Info()&types.IsFloat != 0 {
				scalars = append(scalars, st.Field(i).Name())
			}
		}
		flush := c.P.LookupMethod(balancePkg, t.Obj().Name(), "Flush")
		proc := c.P.LookupMethod(balancePkg, t.Obj().Name(), "Process")
		if flush == nil || proc == nil {
			continue
		}
		fname := core.FuncName(flush)
		// which floats does Flush print directly (outside the tree printers)?
		x := newExec(c)
		x.Hooks.Inline = func(callee *ssa.Function, depth int) bool { return false }
		var printed []string
		x.Hooks.Call = func(x *absint.Exec, s *absint.State, site ssa.CallInstruction, callee *ssa.Function, fnv absint.Value, args []absint.Value) (absint.Value, bool) {
			if callee != nil && strings.HasPrefix(callee.String(), "fmt.Fprint") {
				for k, hv := range s.Heap {
					if !strings.HasPrefix(k, "A:") {
						continue
					}
					iv, ok := hv.(*absint.Iface)
					if !ok {
						continue
					}
					if bt, ok := iv.T.Underlying().(*types.Basic); ok && bt.Info()&types.IsFloat != 0 {
						printed = append(printed, iv.V.Key()+"|"+locOf(x, iv.V)+"|"+c.P.Pos(site.Pos()))
					}
				}
			}
			return nil, false
		}
		x.Run(x.NewState(flush, nil, nil))
		account(c, x, rule, flush)
		printed = uniq(printed)
		if len(printed) == 0 {
			continue
		}
		cons, _ := collectContributions(c, rule, proc)
		fed := map[string]bool{}
		for _, ct := range cons {
			if strings.HasPrefix(ct.sink, "field:") {
				fed[strings.TrimPrefix(ct.sink, "field:")] = true
			}
		}
		for _, pr := range printed {
			parts := strings.SplitN(pr, "|", 3)
			c.Universe(rule+" grand totals", fname+" prints "+parts[0]+" ("+parts[2]+")")
			okField := false
			for _, sc := range scalars {
				if strings.HasSuffix(parts[1], "·"+sc) && fed[sc] {
					okField = true
				}
			}
			if okField {
				c.Discharge(rule, fname, "grand-total", parts[2], "the grand total is a scalar field that Process feeds in the same branches as the tree (C03-R3)")
			} else {
				c.Violate(rule, fname, "grand-total", parts[2], fmt.Sprintf("the grand total printed is %s, not a scalar that Process accumulates together with the tree (fed fields: %v): it can disagree with the sum of the top-level rows, e.g. when a logged food is a path-prefix of another", parts[0], keysOf(fed)), nil)
			}
		}
	}
}

// ruleFirstChild checks the contract the tree printers rely on: FirstChild
// returns nil or one of the receiver's own children (a lookup in tn.Children).
// When it holds the printers are explored with FirstChild as that summary.
func ruleFirstChild(c *core.Ctx, rule string) bool {
	fn := c.P.LookupMethod(core.LibPath, "TreeNode", "FirstChild")
	if fn == nil {
		return false
	}
	x := newExec(c)
	x.Hooks.Call = func(x *absint.Exec, s *absint.State, site ssa.CallInstruction, callee *ssa.Function, fnv absint.Value, args []absint.Value) (absint.Value, bool) {
		if isMethod(callee, core.LibPath, "TreeNode", "Keys") {
			return absint.Sym{Name: "keys"}, true
		}
		return nil, false
	}
	terms := x.Run(x.NewState(fn, nil, nil))
	if len(x.Problems) > 0 || x.Exhausted {
		return false
	}
	recv := fn.Params[0].Name()
	rangedChild := returnsRangedChild(fn)
	for _, tm := range terms {
		if tm.Kind != "return" || len(tm.Ret) != 1 {
			return false
		}
		if isNilConst(tm.Ret[0]) {
			continue
		}
		t, ok := tm.Ret[0].(*absint.Term)
		if !ok && rangedChild {
			continue // a value the range over the receiver's own Children produced (a scan for the smallest key)
		}
		if !ok || t.Op != "lookup" || len(t.Args) != 2 || locOf(x, t.Args[0]) != "L:§"+recv+"·Children" {
			c.Violate(rule, core.FuncName(fn), "first-child", c.P.Pos(tm.Pos), "FirstChild returns "+tm.Ret[0].Key()+", which is not one of the node's own children: the collapsed balance would print a foreign row", nil)
			return false
		}
	}
	c.Discharge(rule, core.FuncName(fn), "first-child", c.P.Pos(fn.Pos()), "returns nil or an element of the receiver's Children")
	return true
}

// returnsRangedChild: every value the method returns is nil or the value variable of a range over the receiver's own
// Children map (possibly carried through the variables of a scan).
func returnsRangedChild(fn *ssa.Function) bool {
	recv := fn.Params[0]
	seen := map[ssa.Value]bool{}
	var ok func(v ssa.Value) bool
	ok = func(v ssa.Value) bool {
		if seen[v] {
			return true
		}
		seen[v] = true
		switch t := v.(type) {
		case *ssa.Const:
			return t.IsNil()
		case *ssa.Phi:
			for _, e := range t.Edges {
				if !ok(e) {
					return false
				}
			}
			return true
		case *ssa.Extract:
			nx, isNext := t.Tuple.(*ssa.Next)
			if !isNext || t.Index != 2 {
				return false
			}
			rg, isRange := nx.Iter.(*ssa.Range)
			if !isRange {
				return false
			}
			ld, isLoad := rg.X.(*ssa.UnOp)
			if !isLoad || ld.Op != token.MUL {
				return false
			}
			fa, isFA := ld.X.(*ssa.FieldAddr)
			return isFA && fa.X == ssa.Value(recv) && fieldName(fa.X.Type(), fa.Field) == "Children"
		}
		return false
	}
	n := 0
	for _, b := range fn.Blocks {
		if ret, isRet := b.Instrs[len(b.Instrs)-1].(*ssa.Return); isRet && len(ret.Results) == 1 {
			n++
			if !ok(ret.Results[0]) {
				return false
			}
		}
	}
	return n > 0
}

// lookupDepth: how many map lookups below the printer's node the location is (1 = a child, 2 = a grandchild).
func lookupDepth(x *absint.Exec, loc string) int {
	d := strings.Count(loc, "lookup(")
	if j := strings.Index(loc, "lookup(§@"); j >= 0 {
		inner := loc[j+len("lookup(§"):]
		if e := strings.IndexAny(inner, ",)"); e > 0 {
			d += strings.Count(locOf(x, absint.Sym{Name: inner[:e]}), "lookup(")
		}
	}
	return d
}

func keysOf(m map[string]bool) []string {
	var out []string
	for k := range m {
		out = append(out, k)
	}
	return sortedStrings(out)
}

func init() {
	register(&Property{
		ID:    "C03",
		Rules: []string{"C03-R1", "C03-R2", "C03-R3", "C03-R5", "C03-R6", "C03-R7", "C03-R8", "C03-R9", "C03-R10", "C03-R11", "C07-R9", "C01-R4", "C01-R5", "C02-R5", "C07-R6", "C15-R13"},
		Explain: "Decides the structure that makes the balance tree conserve quantities: C03-R1 every range over TreeNode.Children is collect-then-sort on the name (siblings sorted, no order-dependent accumulation); " +
			"C03-R2 chain collapsing propagates the empty 'forks below' sentinel; C03-R3 the single-element reporter expands like every other site and feeds tree and grand total in the same branches (C07-R1 restricted to balance); " +
			"C03-R5 every printing traversal prints exactly one row per child with the child's own Total and skips a subtree only for a leaf, a joined chain, or collapse-last on a single leaf grandchild; " +
			"C03-R6 TreeNode.Add links a new name and accumulates into an existing one; C03-R8 AddDeep gives every segment of the split name a node with the element's value, whatever the value or the segment; C03-R7 a printed grand total is a scalar Process feeds together with the tree; C03-R10 every row format of package balance is built from constants (a path is an argument, never part of the format); C03-R9 the balance reporter selector returns the element-filtering reporter exactly when a single element is requested, whatever the collapse switches; C03-R11 the amount of a tree node is written only where the node is made and where Add accumulates into it (old + added), never recomputed, reset or adjusted; C07-R9 (shared) the element asked for with --single-element is only compared for equality; " +
			"C01-R4/R5 and C02-R5 (shared) the resolved lists and the per-day food lists the balance sums over are merged by name, one slot per name, nothing dropped. Also: C03-R5 requires the depth handed to the children to be the node's own depth plus one and every row to be indented by the depth the call was given; display modes kept as an enumeration made from the switch by one function are mapped back to the switch; rows printed through a row-printer interface with one implementation are followed into it. Shared: C07-R6, C15-R13.",
		NotDecided: "conservation itself (parent = own + children is a fact about float sums over all trees), equality of leaf sets between display modes, the prefix-of-another-name case",
		Run: func(c *core.Ctx) {
			ruleNoFlagSkipped(c, "C15-R13")
			ruleEveryEntrySeen(c, "C07-R6")
			RuleMapRanges(c, "C03-R1", func(s mapRangeSite) bool {
				t := s.pkg.TypesInfo.Types[s.stmt.X].Type.String()
				return strings.Contains(t, "TreeNode")
			})
			ruleSentinel(c, "C03-R2")
			ruleExpansionSites(c, "C03-R3", func(fn *ssa.Function) bool { return inPkgs(fn, balancePkg) })
			ruleTreePrinters(c, "C03-R5")
			ruleTreeAdd(c, "C03-R6")
			ruleAddDeep(c, "C03-R8")
			ruleGrandTotal(c, "C03-R7")
			ruleConstFormats(c, "C03-R10", func(fn *ssa.Function) bool { return inPkgs(fn, balancePkg) })
			ruleReporterSelection(c, "C03-R9", func(fn *ssa.Function) bool { return inPkgs(fn, balancePkg) })
			ruleWhoWritesTotals(c, "C03-R11")
			ruleExactElementMatch(c, "C07-R9")
			// the single-element balance reads one amount per resolved element: the lists must be duplicate-free (C01's discipline),
			// and a day's foods are merged by name before they reach any reporter
			for _, r := range recursiveResolvers(c.P) {
				analyseResolver(c, r, map[string]bool{"C01-R5": true})
			}
			if fn := c.P.LookupMethod(core.LibPath, "Elements", "SumMerge"); requireAnchor(c, "C01-R4", "Elements.SumMerge", fn != nil) {
				ruleMergeByName(c, "C01-R4", fn, true)
			}
			if fn := c.P.LookupFunc(core.LibPath, "NewLogNodeFromElements"); requireAnchor(c, "C02-R5", "NewLogNodeFromElements", fn != nil) {
				ruleMergeByName(c, "C02-R5", fn, false)
			}
		},
	})
}

func isSliceType(t types.Type) bool {
	_, ok := t.Underlying().(*types.Slice)
	return ok
}

// ruleAddDeep is C03-R8: AddDeep adds the element's value to a node for every
// segment of the split name, whatever the value and whatever the segment.
func ruleAddDeep(c *core.Ctx, rule string) {
	fn := c.P.LookupMethod(core.LibPath, "TreeNode", "AddDeep")
	if !requireAnchor(c, rule, "TreeNode.AddDeep", fn != nil) {
		return
	}
	fname := core.FuncName(fn)
	x := newExec(c)
	var bad []string
	iterations := 0
	x.Hooks.Call = func(x *absint.Exec, s *absint.State, site ssa.CallInstruction, callee *ssa.Function, fnv absint.Value, args []absint.Value) (absint.Value, bool) {
		switch {
		case callee != nil && callee.String() == "strings.Split":
			s.SetData("split", "1")
			return absint.Sym{Name: "segments"}, true
		case callee != nil && callee != fn && len(s.Frames) > 0 && s.Frames[len(s.Frames)-1].Fn == callee && core.FnPkgPath(callee) == core.LibPath:
			// the walk over the segments written as a recursion: a helper that adds a node for the first segment and
			// calls itself on that node with the rest of the path and the same value
			iterations++
			if s.Data["added"] != "1" {
				bad = append(bad, "the helper calls itself for the rest of the path without having added a node for the current segment")
			}
			s.SetData("added", "")
			if len(args) > 0 && !absint.Mentions(args[0], "child") && !strings.Contains(args[0].Key(), "child") {
				bad = append(bad, "the rest of the path is added below "+args[0].Key()+", not below the node Add returned for the current segment")
			}
			top := s.Frames[len(s.Frames)-1]
			for i, prm := range callee.Params {
				if i >= len(args) || i == 0 {
					continue
				}
				var self absint.Value = absint.Sym{Name: prm.Name()}
				if pv, ok := top.Env[prm]; ok {
					self = pv // what this activation was given
				}
				switch prm.Type().Underlying().(type) {
				case *types.Slice:
					t, ok := args[i].(*absint.Term)
					if !ok || t.Op != "slice" || len(t.Args) != 3 || t.Args[0].Key() != self.Key() || t.Args[1].Key() != "c:1" || (t.Args[2].Key() != "zero" && !isNilConst(t.Args[2])) {
						bad = append(bad, "the helper calls itself with "+args[i].Key()+", not with the path without its first segment: a segment is skipped or visited twice")
					}
				case *types.Basic:
					if args[i].Key() != self.Key() {
						bad = append(bad, "the helper hands "+args[i].Key()+" down the path, not the amount it was given")
					}
				}
			}
			return absint.Const{}, true
		case callee != nil && callee != fn && isDescendHelper(c, callee) && len(args) == 3:
			// parent.descend(name, amount): get-or-create with the amount added, checked on its own
			s.SetData("added", "1")
			if !strings.Contains(args[2].Key(), `"Value"`) && !strings.HasSuffix(locOf(x, args[2]), "·Value") {
				bad = append(bad, "a segment's node receives "+args[2].Key()+", not the element's value")
			}
			return x.Fresh(s, "child"), true
		case isMethod(callee, core.LibPath, "TreeNode", "Add") && len(args) == 2:
			s.SetData("added", "1")
			// the node added carries the element's own value
			if p, ok := args[1].(absint.Ptr); ok {
				tv := x.Load(s, absint.Ptr{Loc: p.Loc + "·Total", Fresh: true}, nil)
				if !strings.Contains(tv.Key(), `"Value"`) && !strings.HasSuffix(locOf(x, tv), "·Value") {
					bad = append(bad, "a segment's node is created with total "+tv.Key()+", not the element's value")
				}
			}
			return x.Fresh(s, "child"), true
		}
		return nil, false
	}
	x.Hooks.Decide = func(x *absint.Exec, s *absint.State, atom string, outs []string) {
		// a decision that depends on the value or on a segment's text changes which nodes receive the amount
		if strings.Contains(atom, `"Value"`) || strings.Contains(atom, "§segments[") || strings.Contains(atom, "§@") && strings.Contains(atom, `c:""`) {
			bad = append(bad, "whether a node is updated depends on "+atom+": some path segments, or zero amounts, are skipped and the path (with everything below it) is missing from every display mode")
		}
	}
	x.Hooks.BackEdge = func(x *absint.Exec, s *absint.State, f *absint.Frame, h *ssa.BasicBlock) {
		if f.Fn != fn {
			// the walk may live in a helper that is handed the segments (AddPath(strings.Split(name, sep), value))
			handed := false
			for _, prm := range f.Fn.Params {
				if pv, ok := f.Env[prm]; ok && absint.Mentions(pv, "segments") {
					handed = true
				}
			}
			if !handed {
				return
			}
		}
		iterations++
		if s.Data["added"] != "1" {
			bad = append(bad, "an iteration over the path segments ends without adding a node")
		}
		s.SetData("added", "")
	}
	terms := x.Run(x.NewState(fn, nil, nil))
	if !account(c, x, rule, fn) {
		return
	}
	for _, tm := range terms {
		if tm.State.Data["split"] != "1" {
			bad = append(bad, "a path returns before the name is split into segments ("+x.Valuation(tm.State)+")")
		}
	}
	if iterations == 0 {
		bad = append(bad, "no loop over the path segments was explored")
	}
	bad = uniq(bad)
	if len(bad) == 0 {
		c.Discharge(rule, fname, "every-segment", c.P.Pos(fn.Pos()), "every segment of the split name gets a node carrying the element's value, unconditionally")
	}
	for _, m := range bad {
		c.Violate(rule, fname, "every-segment", c.P.Pos(fn.Pos()), m, nil)
	}
}

var descendHelperMemo = map[*ssa.Function]bool{}

// isDescendHelper: a method of TreeNode taking (name string, amount float64) and returning *TreeNode that adds the
// amount to the child of that name when there is one and otherwise links a new child made with that name and
// amount — what Add(NewTreeNode(name, amount)) does.
func isDescendHelper(c *core.Ctx, fn *ssa.Function) bool {
	if v, ok := descendHelperMemo[fn]; ok {
		return v
	}
	descendHelperMemo[fn] = false
	if fn.Signature.Recv() == nil || core.FnPkgPath(fn) != core.LibPath || len(fn.Params) != 3 || fn.Signature.Results().Len() != 1 || len(fn.Blocks) == 0 {
		return false
	}
	if !strings.HasSuffix(fn.Params[0].Type().String(), ".TreeNode") || !strings.HasSuffix(fn.Signature.Results().At(0).Type().String(), ".TreeNode") {
		return false
	}
	if b, ok := fn.Params[1].Type().Underlying().(*types.Basic); !ok || b.Info()&types.IsString == 0 {
		return false
	}
	if b, ok := fn.Params[2].Type().Underlying().(*types.Basic); !ok || b.Info()&types.IsFloat == 0 {
		return false
	}
	nameKey := absint.Sym{Name: fn.Params[1].Name()}.Key()
	amtKey := absint.Sym{Name: fn.Params[2].Name()}.Key()
	x := newExec(c)
	x.Hooks.Store = func(x *absint.Exec, s *absint.State, in *ssa.Store, addr, val absint.Value) {
		p, ok := addr.(absint.Ptr)
		if !ok || !strings.HasSuffix(p.Loc, "·Total") || p.Fresh || strings.HasPrefix(p.Loc, "A:") {
			return
		}
		if t, ok := val.(*absint.Term); ok && t.Op == "+" && len(t.Args) == 2 && (t.Args[0].Key() == amtKey || t.Args[1].Key() == amtKey) && strings.Contains(p.Loc, "lookup(") {
			s.SetData("acc", "1")
		} else {
			s.SetData("odd", "1")
		}
	}
	x.Hooks.MapUpdate = func(x *absint.Exec, s *absint.State, in *ssa.MapUpdate, m, k, v absint.Value) {
		vp, ok := v.(absint.Ptr)
		if !ok || k.Key() != nameKey {
			s.SetData("odd", "1")
			return
		}
		tot := x.Load(s, absint.Ptr{Loc: vp.Loc + "·Total", Fresh: true}, nil)
		nm := x.Load(s, absint.Ptr{Loc: vp.Loc + "·Name", Fresh: true}, nil)
		if tot.Key() == amtKey && nm.Key() == nameKey {
			s.SetData("linked", "1")
		} else {
			s.SetData("odd", "1")
		}
	}
	terms := x.Run(x.NewState(fn, nil, nil))
	if len(x.Problems) > 0 || x.Exhausted {
		return false
	}
	acc, linked := 0, 0
	for _, tm := range terms {
		d := tm.State.Data
		if tm.Kind != "return" || d["odd"] == "1" || (d["acc"] == "1") == (d["linked"] == "1") {
			return false
		}
		if d["acc"] == "1" {
			acc++
		} else {
			linked++
		}
	}
	descendHelperMemo[fn] = acc > 0 && linked > 0
	return descendHelperMemo[fn]
}

// ruleWhoWritesTotals is C03-R11: the amount of a tree node is written in two places only — where the node is made
// and where TreeNode.Add accumulates into an existing node (one += of the added node's amount). Any other write
// (a total recomputed from the children, reset, rounded, scaled) makes a category differ from the sum of the
// quantities logged under it: a food that is logged under a name that is also a prefix of other names has an amount
// of its own, which a rebuilt total loses.
func ruleWhoWritesTotals(c *core.Ctx, rule string) {
	tnT := c.P.LookupType(core.LibPath, "TreeNode")
	if !requireAnchor(c, rule, "lib.TreeNode", tnT != nil) {
		return
	}
	n, bad := 0, 0
	for _, fn := range c.P.Funcs {
		for _, b := range fn.Blocks {
			for _, in := range b.Instrs {
				st, ok := in.(*ssa.Store)
				if !ok {
					continue
				}
				fa, ok := st.Addr.(*ssa.FieldAddr)
				if !ok || fieldName(fa.X.Type(), fa.Field) != "Total" {
					continue
				}
				pt, ok := fa.X.Type().Underlying().(*types.Pointer)
				if !ok || !types.Identical(pt.Elem(), tnT) {
					continue
				}
				n++
				fname := core.FuncName(fn)
				pos := c.P.Pos(st.Pos())
				c.Universe(rule+" writes of a node's amount", fname+" ("+pos+")")
				// a node being made: the structure is a fresh allocation
				if _, fresh := fa.X.(*ssa.Alloc); fresh {
					c.Discharge(rule, fname, "total", pos, "the amount of a node that is being made")
					continue
				}
				// old + something, in TreeNode.Add
				if bo, ok := st.Val.(*ssa.BinOp); ok && bo.Op == token.ADD && core.FnPkgPath(fn) == core.LibPath {
					if ld, ok := bo.X.(*ssa.UnOp); ok && ld.Op == token.MUL && sameExpr(ld.X, fa, 0) {
						c.Discharge(rule, fname, "total", pos, "accumulates into the existing node: old amount + what is added")
						continue
					}
				}
				bad++
				c.Violate(rule, fname, "total", pos, "the amount of a tree node is written outside node creation and TreeNode.Add's accumulation: a total that is recomputed, reset or adjusted no longer is the sum of the quantities logged under that path (a category that was also logged under its own name loses that amount)", nil)
			}
		}
	}
	if n == 0 {
		c.Undecide(rule, "tree", "universe", "-", "no write of TreeNode.Total found: the balance tree must accumulate somewhere", nil)
	}
}

// sameExpr: a and b are the same expression written twice (no common-subexpression elimination in go/ssa): the same
// value, or the same operation on operands that are the same expression in turn.
func sameExpr(a, b ssa.Value, depth int) bool {
	if a == b {
		return true
	}
	if depth > 5 || a == nil || b == nil {
		return false
	}
	switch x := a.(type) {
	case *ssa.FieldAddr:
		y, ok := b.(*ssa.FieldAddr)
		return ok && x.Field == y.Field && sameExpr(x.X, y.X, depth+1)
	case *ssa.Field:
		y, ok := b.(*ssa.Field)
		return ok && x.Field == y.Field && sameExpr(x.X, y.X, depth+1)
	case *ssa.IndexAddr:
		y, ok := b.(*ssa.IndexAddr)
		return ok && sameExpr(x.X, y.X, depth+1) && sameExpr(x.Index, y.Index, depth+1)
	case *ssa.Lookup:
		y, ok := b.(*ssa.Lookup)
		return ok && !x.CommaOk && !y.CommaOk && sameExpr(x.X, y.X, depth+1) && sameExpr(x.Index, y.Index, depth+1)
	case *ssa.UnOp:
		y, ok := b.(*ssa.UnOp)
		return ok && x.Op == y.Op && x.Op == token.MUL && sameExpr(x.X, y.X, depth+1)
	case *ssa.Const:
		y, ok := b.(*ssa.Const)
		return ok && x.Value != nil && y.Value != nil && x.Value.ExactString() == y.Value.ExactString()
	}
	return false
}
