package rules

import (
	"fmt"
	"go/ast"
	"go/constant"
	"go/token"
	"go/types"
	"sort"
	"strings"

	"golang.org/x/tools/go/packages"
	"golang.org/x/tools/go/ssa"
	"golang.org/x/tools/go/types/typeutil"

	"hrverif/internal/core"
)

const cliPkg = "github.com/urfave/cli/v2"

// flagDecl is one cli.*Flag composite literal of the tree.
type flagDecl struct {
	Names    []string // Name split on commas and trimmed, as urfave/cli does
	Aliases  []string
	Kind     string // StringFlag | BoolFlag | IntFlag ...
	EnvVars  []string
	Default  constant.Value // nil when absent or not constant
	DefExpr  ast.Expr
	HasValue bool
	Command  string // "" for application-level flags, else the enclosing command's Name
	Pos      token.Pos
	Pkg      *packages.Package
	DefInfo  *types.Info // type information DefExpr belongs to when it is not Pkg's own
}

func constString(info *types.Info, e ast.Expr) (string, bool) {
	if tv, ok := info.Types[e]; ok && tv.Value != nil && tv.Value.Kind() == constant.String {
		return constant.StringVal(tv.Value), true
	}
	return "", false
}

func namedIs(t types.Type, pkg, name string) bool {
	if p, ok := t.(*types.Pointer); ok {
		t = p.Elem()
	}
	n, ok := t.(*types.Named)
	return ok && n.Obj().Pkg() != nil && n.Obj().Pkg().Path() == pkg && n.Obj().Name() == name
}

// collectFlags finds every flag literal of the tree, the names it can be
// declared under and the levels (application or command) it is declared on.
//
// A literal is usually spelled out inside a cli.Command literal or in the
// function that fills App.Flags. Two indirections are followed as well:
//   - a helper function that builds flags (PeriodFlags(), newStringFlag(name, …)):
//     its flags are declared wherever the helper is called, with the call's
//     arguments bound to the helper's parameters;
//   - a table of rows ([]flagSpec{{"begin","b",…}, …} with a method that turns a
//     row into a flag): one declaration per composite literal of the row type,
//     with the row's fields bound.
func collectFlags(p *core.Program) []flagDecl {
	type site struct {
		node  ast.Node
		stack []ast.Node
		pkg   *packages.Package
		fn    types.Object // enclosing function declaration, nil at package level
	}
	calls := map[types.Object][]site{}
	lits := map[string][]site{}
	var flagLits []site
	decls := map[types.Object]*ast.FuncDecl{}
	for _, pkg := range p.RootsInScope() {
		info := pkg.TypesInfo
		for _, f := range pkg.Syntax {
			var stack []ast.Node
			var fnStack []types.Object
			ast.Inspect(f, func(n ast.Node) bool {
				if n == nil {
					if fd, ok := stack[len(stack)-1].(*ast.FuncDecl); ok && len(fnStack) > 0 {
						_ = fd
						fnStack = fnStack[:len(fnStack)-1]
					}
					stack = stack[:len(stack)-1]
					return true
				}
				stack = append(stack, n)
				var cur types.Object
				if len(fnStack) > 0 {
					cur = fnStack[len(fnStack)-1]
				}
				switch x := n.(type) {
				case *ast.FuncDecl:
					o := info.Defs[x.Name]
					decls[o] = x
					fnStack = append(fnStack, o)
				case *ast.CallExpr:
					if o := typeutil.Callee(info, x); o != nil {
						calls[o] = append(calls[o], site{x, append([]ast.Node(nil), stack...), pkg, cur})
					}
				case *ast.CompositeLit:
					tv, ok := info.Types[x]
					if !ok {
						return true
					}
					nt, ok := tv.Type.(*types.Named)
					if !ok || nt.Obj().Pkg() == nil {
						return true
					}
					st := site{x, append([]ast.Node(nil), stack...), pkg, cur}
					if nt.Obj().Pkg().Path() == cliPkg && strings.HasSuffix(nt.Obj().Name(), "Flag") {
						flagLits = append(flagLits, st)
					} else if _, isStruct := nt.Underlying().(*types.Struct); isStruct && p.InScopePkg(nt.Obj().Pkg().Path()) {
						lits[nt.String()] = append(lits[nt.String()], st)
					}
				}
				return true
			})
		}
	}
	// the command a node is lexically inside, if any
	lexicalCommand := func(st site) (string, bool) {
		info := st.pkg.TypesInfo
		for i := len(st.stack) - 2; i >= 0; i-- {
			ocl, ok := st.stack[i].(*ast.CompositeLit)
			if !ok {
				continue
			}
			if otv, ok := info.Types[ocl]; ok && namedIs(otv.Type, cliPkg, "Command") {
				name := ""
				for _, el := range ocl.Elts {
					if kv, ok := el.(*ast.KeyValueExpr); ok {
						if k, _ := kv.Key.(*ast.Ident); k != nil && k.Name == "Name" {
							if s, ok := constString(info, kv.Value); ok {
								name = s
							}
						}
					}
				}
				if name == "" {
					name = "?"
				}
				return name, true
			}
		}
		return "", false
	}
	var levelsOf func(fn types.Object, depth int) []string
	levelsOf = func(fn types.Object, depth int) []string {
		if fn == nil || depth > 3 || len(calls[fn]) == 0 {
			return []string{""}
		}
		seen := map[string]bool{}
		var out []string
		for _, cs := range calls[fn] {
			var ls []string
			if c, ok := lexicalCommand(cs); ok {
				ls = []string{c}
			} else {
				ls = levelsOf(cs.fn, depth+1)
			}
			for _, l := range ls {
				if !seen[l] {
					seen[l] = true
					out = append(out, l)
				}
			}
		}
		return out
	}
	siteLevels := func(st site) []string {
		if c, ok := lexicalCommand(st); ok {
			return []string{c}
		}
		return levelsOf(st.fn, 0)
	}
	var out []flagDecl
	for _, fl := range flagLits {
		info := fl.pkg.TypesInfo
		cl := fl.node.(*ast.CompositeLit)
		nt := info.Types[cl].Type.(*types.Named)
		// environments: how the non-constant operands of the literal are bound
		type env struct {
			params map[types.Object]ast.Expr // parameter -> argument
			pinfo  *types.Info
			fields map[string]ast.Expr // row field -> value
			finfo  *types.Info
			levels []string
		}
		envs := []env{{levels: siteLevels(fl)}}
		var fdecl *ast.FuncDecl
		if fl.fn != nil {
			fdecl = decls[fl.fn]
		}
		usesParam, rowType := false, ""
		if fdecl != nil {
			ast.Inspect(cl, func(n ast.Node) bool {
				switch x := n.(type) {
				case *ast.SelectorExpr:
					if id, ok := x.X.(*ast.Ident); ok {
						if o := info.Uses[id]; o != nil {
							t := o.Type()
							if pt, ok := t.(*types.Pointer); ok {
								t = pt.Elem()
							}
							if named, ok := t.(*types.Named); ok && len(lits[named.String()]) > 0 {
								rowType = named.String()
							}
						}
					}
				case *ast.Ident:
					if o, ok := info.Uses[x].(*types.Var); ok && fdecl.Type.Params != nil {
						for _, fld := range fdecl.Type.Params.List {
							for _, nm := range fld.Names {
								if info.Defs[nm] == types.Object(o) {
									usesParam = true
								}
							}
						}
					}
				}
				return true
			})
		}
		switch {
		case rowType != "":
			envs = nil
			for _, row := range lits[rowType] {
				rl := row.node.(*ast.CompositeLit)
				st, _ := row.pkg.TypesInfo.Types[rl].Type.Underlying().(*types.Struct)
				fields := map[string]ast.Expr{}
				for i, el := range rl.Elts {
					if kv, ok := el.(*ast.KeyValueExpr); ok {
						if k, _ := kv.Key.(*ast.Ident); k != nil {
							fields[k.Name] = kv.Value
						}
					} else if st != nil && i < st.NumFields() {
						fields[st.Field(i).Name()] = el
					}
				}
				envs = append(envs, env{fields: fields, finfo: row.pkg.TypesInfo, levels: siteLevels(row)})
			}
		case usesParam && len(calls[fl.fn]) > 0:
			envs = nil
			for _, cs := range calls[fl.fn] {
				call := cs.node.(*ast.CallExpr)
				params := map[types.Object]ast.Expr{}
				i := 0
				for _, fld := range fdecl.Type.Params.List {
					for _, nm := range fld.Names {
						if i < len(call.Args) {
							params[info.Defs[nm]] = call.Args[i]
						}
						i++
					}
				}
				envs = append(envs, env{params: params, pinfo: cs.pkg.TypesInfo, levels: siteLevels(cs)})
			}
		}
		// assignments to the flag variable after the literal: f.Aliases = []string{x}; f.EnvVars = []string{x}
		type late struct {
			field string
			elems []ast.Expr
		}
		var lates []late
		if fdecl != nil {
			var flagVar types.Object
			ast.Inspect(fdecl, func(n ast.Node) bool {
				as, ok := n.(*ast.AssignStmt)
				if !ok {
					return true
				}
				for i, r := range as.Rhs {
					e := ast.Unparen(r)
					if u, ok := e.(*ast.UnaryExpr); ok {
						e = ast.Unparen(u.X)
					}
					if e == ast.Expr(cl) && i < len(as.Lhs) {
						if id, ok := as.Lhs[i].(*ast.Ident); ok {
							if o := info.Defs[id]; o != nil {
								flagVar = o
							} else {
								flagVar = info.Uses[id]
							}
						}
					}
				}
				return true
			})
			if flagVar != nil {
				ast.Inspect(fdecl, func(n ast.Node) bool {
					as, ok := n.(*ast.AssignStmt)
					if !ok || len(as.Lhs) != 1 || len(as.Rhs) != 1 {
						return true
					}
					sel, ok := as.Lhs[0].(*ast.SelectorExpr)
					if !ok {
						return true
					}
					id, ok := sel.X.(*ast.Ident)
					if !ok || info.Uses[id] != flagVar || (sel.Sel.Name != "Aliases" && sel.Sel.Name != "EnvVars") {
						return true
					}
					if l, ok := as.Rhs[0].(*ast.CompositeLit); ok {
						lates = append(lates, late{sel.Sel.Name, l.Elts})
					}
					return true
				})
			}
		}
		for _, ev := range envs {
			eval := func(e ast.Expr) (string, bool) {
				if s, ok := constString(info, e); ok {
					return s, true
				}
				switch x := ast.Unparen(e).(type) {
				case *ast.Ident:
					if ev.params != nil {
						if arg, ok := ev.params[info.Uses[x]]; ok {
							return constString(ev.pinfo, arg)
						}
					}
				case *ast.SelectorExpr:
					if ev.fields != nil {
						if v, ok := ev.fields[x.Sel.Name]; ok {
							return constString(ev.finfo, v)
						}
					}
				}
				return "", false
			}
			evalExpr := func(e ast.Expr) (ast.Expr, *types.Info) {
				switch x := ast.Unparen(e).(type) {
				case *ast.Ident:
					if ev.params != nil {
						if arg, ok := ev.params[info.Uses[x]]; ok {
							return arg, ev.pinfo
						}
					}
				case *ast.SelectorExpr:
					if ev.fields != nil {
						if v, ok := ev.fields[x.Sel.Name]; ok {
							return v, ev.finfo
						}
					}
				}
				return e, info
			}
			fd := flagDecl{Kind: nt.Obj().Name(), Pos: cl.Pos(), Pkg: fl.pkg}
			for _, el := range cl.Elts {
				kv, ok := el.(*ast.KeyValueExpr)
				if !ok {
					continue
				}
				key, _ := kv.Key.(*ast.Ident)
				if key == nil {
					continue
				}
				switch key.Name {
				case "Name":
					if s, ok := eval(kv.Value); ok {
						for _, part := range strings.Split(s, ",") {
							fd.Names = append(fd.Names, strings.TrimSpace(part))
						}
					}
				case "Aliases", "EnvVars":
					if l, ok := kv.Value.(*ast.CompositeLit); ok {
						for _, e := range l.Elts {
							if s, ok := eval(e); ok && s != "" {
								if key.Name == "Aliases" {
									fd.Aliases = append(fd.Aliases, s)
								} else {
									fd.EnvVars = append(fd.EnvVars, s)
								}
							}
						}
					}
				case "Value":
					fd.HasValue = true
					ve, vinfo := evalExpr(kv.Value)
					fd.DefExpr = ve
					if tv, ok := vinfo.Types[ve]; ok {
						fd.Default = tv.Value
					}
					if fd.Pkg.TypesInfo != vinfo {
						fd.DefInfo = vinfo
					}
				}
			}
			for _, lt := range lates {
				for _, e := range lt.elems {
					if s, ok := eval(e); ok && s != "" {
						if lt.field == "Aliases" {
							fd.Aliases = append(fd.Aliases, s)
						} else {
							fd.EnvVars = append(fd.EnvVars, s)
						}
					}
				}
			}
			for _, lv := range ev.levels {
				d := fd
				d.Command = lv
				out = append(out, d)
			}
		}
	}
	return out
}

// flagLevels: flag name -> set of levels ("" = application) that declare it.
func flagLevels(decls []flagDecl) map[string]map[string]bool {
	m := map[string]map[string]bool{}
	for _, d := range decls {
		for _, n := range d.Names {
			if m[n] == nil {
				m[n] = map[string]bool{}
			}
			m[n][d.Command] = true
		}
	}
	return m
}

// flagRead is a c.String/Int/Bool/IsSet("name") call with a constant name.
type flagRead struct {
	Fn       *ssa.Function
	Call     *ssa.Call
	Method   string
	Name     string
	LoopSite *ssa.Call // the call, in the function that walks the lineage, that hands the element on (nil: the read itself)
	OnIndex  bool      // receiver is an element of c.Lineage()
	Index    ssa.Value // its index expression
}

// flagAccess: the call reads a command-line flag — a method of *cli.Context, or
// the same method through an interface that abstracts the context (it must
// offer IsSet). Returns the method name and the operand that names the flag.
func flagAccess(ci ssa.CallInstruction) (method string, nameArg ssa.Value, ok bool) {
	com := ci.Common()
	names := []string{"String", "Int", "Bool", "IsSet", "Float64", "Duration", "StringSlice", "Int64", "Uint", "Path", "Timestamp", "Generic", "Value", "Count"}
	if com.IsInvoke() {
		it, isI := com.Value.Type().Underlying().(*types.Interface)
		if !isI || len(com.Args) != 1 {
			return "", nil, false
		}
		hasIsSet := false
		for i := 0; i < it.NumMethods(); i++ {
			if it.Method(i).Name() == "IsSet" {
				hasIsSet = true
			}
		}
		if !hasIsSet {
			return "", nil, false
		}
		for _, n := range names {
			if com.Method.Name() == n {
				return n, com.Args[0], true
			}
		}
		return "", nil, false
	}
	cal := core.Callee(com)
	if cal == nil || len(com.Args) < 2 {
		return "", nil, false
	}
	for _, n := range names {
		if isCtxMethod(cal, n) {
			return n, com.Args[1], true
		}
	}
	return "", nil, false
}

func isCtxMethod(callee *ssa.Function, name string) bool {
	return isMethod(callee, cliPkg, "Context", name)
}

// flagNames: the constant strings a flag-name argument can be — a literal, or a
// parameter/φ that only literals reach through the static callers (a helper such
// as stringSetting(c, "database", cur) reads the flag its callers name).
func flagNames(p *core.Program, v ssa.Value, depth int) ([]string, bool) {
	switch x := v.(type) {
	case *ssa.Const:
		if x.Value != nil && x.Value.Kind() == constant.String {
			return []string{constant.StringVal(x.Value)}, true
		}
	case *ssa.Phi:
		var out []string
		for _, e := range x.Edges {
			s, ok := flagNames(p, e, depth)
			if !ok {
				return nil, false
			}
			out = append(out, s...)
		}
		return out, len(out) > 0
	case *ssa.Field:
		return fieldStrings(p, x.X.Type(), x.Field)
	case *ssa.UnOp:
		if fa, ok := x.X.(*ssa.FieldAddr); ok && x.Op == token.MUL {
			return fieldStrings(p, fa.X.Type(), fa.Field)
		}
		return nil, false
	case *ssa.Parameter:
		if depth <= 0 {
			return nil, false
		}
		fn := x.Parent()
		idx := -1
		for i, prm := range fn.Params {
			if prm == x {
				idx = i
			}
		}
		if idx < 0 {
			return nil, false
		}
		var out []string
		for _, g := range p.Funcs {
			for _, b := range g.Blocks {
				for _, in := range b.Instrs {
					ci, ok := in.(ssa.CallInstruction)
					if !ok || core.Callee(ci.Common()) != fn || idx >= len(ci.Common().Args) {
						continue
					}
					s, ok := flagNames(p, ci.Common().Args[idx], depth-1)
					if !ok {
						return nil, false
					}
					out = append(out, s...)
				}
			}
		}
		return uniq(out), len(out) > 0
	}
	return nil, false
}

// fieldStrings: the constant strings ever stored into field i of the struct
// type t (a table row's "flag" column); fails if anything else is stored there.
func fieldStrings(p *core.Program, t types.Type, i int) ([]string, bool) {
	if pt, ok := t.Underlying().(*types.Pointer); ok {
		t = pt.Elem()
	}
	var out []string
	for _, fn := range p.Funcs {
		for _, b := range fn.Blocks {
			for _, in := range b.Instrs {
				st, ok := in.(*ssa.Store)
				if !ok {
					continue
				}
				fa, ok := st.Addr.(*ssa.FieldAddr)
				if !ok || fa.Field != i {
					continue
				}
				ft := fa.X.Type().Underlying().(*types.Pointer).Elem()
				if !types.Identical(ft, t) {
					continue
				}
				c, ok := st.Val.(*ssa.Const)
				if !ok || c.Value == nil || c.Value.Kind() != constant.String {
					return nil, false
				}
				out = append(out, constant.StringVal(c.Value))
			}
		}
	}
	return uniq(out), len(out) > 0
}

func collectFlagReads(p *core.Program) []flagRead {
	var out []flagRead
	for _, fn := range p.Funcs {
		for _, b := range fn.Blocks {
			for _, in := range b.Instrs {
				call, ok := in.(*ssa.Call)
				if !ok {
					continue
				}
				m, nameArg, isFlag := flagAccess(call)
				if !isFlag {
					continue
				}
				var names []string
				literal := false
				if cst, ok := nameArg.(*ssa.Const); ok && cst.Value != nil && cst.Value.Kind() == constant.String {
					names = []string{constant.StringVal(cst.Value)}
					literal = true
				} else if ns, ok := flagNames(p, nameArg, 3); ok && len(ns) > 0 {
					names = ns // the name comes in through a parameter of a helper: one read per name its callers pass
				}
				if len(names) == 0 {
					out = append(out, flagRead{Fn: fn, Call: call, Method: m, Name: ""})
					continue
				}
				for ni, nm := range names {
					fr := flagRead{Fn: fn, Call: call, Method: m, Name: nm}
					_ = ni
					// receiver: *IndexAddr(Lineage(), i) loaded
					recv := call.Call.Value
					if !call.Call.IsInvoke() {
						recv = call.Call.Args[0]
					}
					if idx, ok := lineageElem(recv); ok {
						fr.OnIndex = true
						fr.Index = idx
					} else if prm, isP := recv.(*ssa.Parameter); isP {
						// the context is handed in by the callers: a helper (or a callback) that is given Lineage()[i]
						if idx, site, ok := lineageFed(p, fn, prm); ok {
							fr.OnIndex = true
							fr.Index = idx
							fr.LoopSite = site
						}
					}
					if !literal && !fr.OnIndex {
						// a name that is not spelled out, read from a context the rule cannot place in the lineage: not judged
						fr.Name = ""
					}
					out = append(out, fr)
				}
			}
		}
	}
	return out
}

// loopDirection classifies an index expression of a counting loop:
// +1 ascending, -1 descending, 0 unknown. It follows idx = phi ± c and
// phi = [init, phi ± c].
func loopDirection(idx ssa.Value) (dir int, startsAtLast bool) {
	// len(l)-1-i with i counting up from 0: the mirror image of a descending index
	if sub, ok := idx.(*ssa.BinOp); ok && sub.Op == token.SUB {
		if inner, ok := sub.X.(*ssa.BinOp); ok && inner.Op == token.SUB {
			if one, ok := inner.Y.(*ssa.Const); ok && one.Value != nil && one.Int64() == 1 {
				if call, ok := inner.X.(*ssa.Call); ok {
					if b, ok := call.Call.Value.(*ssa.Builtin); ok && b.Name() == "len" {
						if d, _ := loopDirection(sub.Y); d == 1 {
							return -1, true
						}
					}
				}
			}
		}
	}
	v := idx
	for i := 0; i < 4; i++ {
		switch x := v.(type) {
		case *ssa.BinOp:
			if _, ok := x.Y.(*ssa.Const); ok && (x.Op == token.ADD || x.Op == token.SUB) {
				v = x.X
				continue
			}
			return 0, false
		case *ssa.Phi:
			for _, e := range x.Edges {
				be, ok := e.(*ssa.BinOp)
				if !ok {
					continue
				}
				base := be.X
				if base != ssa.Value(x) {
					// the increment may be computed from the phi through the index value itself
					if bb, ok := base.(*ssa.BinOp); ok && bb.X == ssa.Value(x) {
						base = x
					}
				}
				if base != ssa.Value(x) {
					continue
				}
				cst, ok := be.Y.(*ssa.Const)
				if !ok || cst.Value == nil {
					continue
				}
				n, _ := constant.Int64Val(constant.ToInt(cst.Value))
				if be.Op == token.SUB {
					n = -n
				}
				if be.Op != token.ADD && be.Op != token.SUB {
					continue
				}
				switch {
				case n > 0:
					dir = 1
				case n < 0:
					dir = -1
				}
			}
			// does the initial value derive from len(...) - 1 ?
			for _, e := range x.Edges {
				if be, ok := e.(*ssa.BinOp); ok && be.Op == token.SUB {
					if c, ok := be.X.(*ssa.Call); ok {
						if b, ok := c.Call.Value.(*ssa.Builtin); ok && b.Name() == "len" {
							startsAtLast = true
						}
					}
				}
			}
			return dir, startsAtLast
		default:
			return 0, false
		}
	}
	return 0, false
}

// ruleLineage: a flag that is declared on more than one level (application and
// command) must be read from the elements of c.Lineage() in an order that lets
// the innermost level win: descending index with overwrite. A read on the leaf
// context only consults the innermost declaring level (urfave/cli's
// lookupFlagSet), so the other position would be ignored.
func ruleLineage(c *core.Ctx, rule string, want func(name string) bool) {
	decls := collectFlags(c.P)
	levels := flagLevels(decls)
	n := 0
	for _, fr := range collectFlagReads(c.P) {
		// nested levels: the application and at least one command (sibling commands sharing a name do not nest)
		if fr.Name == "" || len(levels[fr.Name]) < 2 || !levels[fr.Name][""] || !want(fr.Name) {
			continue
		}
		n++
		fname := core.FuncName(fr.Fn)
		disc := fr.Method + "(" + fr.Name + ")"
		pos := c.P.Pos(fr.Call.Pos())
		var lv []string
		for l := range levels[fr.Name] {
			if l == "" {
				l = "application"
			}
			lv = append(lv, l)
		}
		c.Universe(rule+" reads of multi-level flags", fname+" "+disc+" ("+pos+")")
		if !fr.OnIndex {
			c.Violate(rule, fname, disc, pos, "flag --"+fr.Name+" is declared on several levels ("+strings.Join(sortedStrings(lv), ", ")+") but is read from the leaf context, which consults only the innermost declaring level: the flag given in the other position is ignored", nil)
			continue
		}
		dir, last := loopDirection(fr.Index)
		// "the first level that sets it wins": the branch taken when the flag is set leaves the walk at once
		loopCall := fr.Call
		if fr.LoopSite != nil {
			loopCall = fr.LoopSite
		}
		firstHit := leavesAtFirstHit(loopCall)
		switch {
		case firstHit && dir == 1:
			c.Discharge(rule, fname, disc, pos, "read from Lineage()[i], i ascending from the innermost context, leaving at the first level that sets the flag: the innermost level wins")
		case firstHit && dir == -1:
			c.Violate(rule, fname, disc, pos, "the lineage is walked from the root context inwards and left at the first level that sets --"+fr.Name+": the outermost (global) value wins over the sub-command's", nil)
		case dir == -1 && last:
			c.Discharge(rule, fname, disc, pos, "read from Lineage()[i], i descending from the root context: the innermost level is applied last and wins")
		case dir == 1:
			c.Violate(rule, fname, disc, pos, "the lineage is walked from the innermost context outwards with overwrite, so the outermost (global) --"+fr.Name+" wins over the sub-command's", nil)
		default:
			c.Undecide(rule, fname, disc, pos, "the order in which the lineage is walked is not a recognised counting loop", nil)
		}
	}
	if n == 0 {
		c.Note(rule + ": no flag is declared on more than one level (vacuous)")
	}
}

func sortedStrings(s []string) []string {
	out := append([]string(nil), s...)
	for i := 1; i < len(out); i++ {
		for j := i; j > 0 && out[j] < out[j-1]; j-- {
			out[j], out[j-1] = out[j-1], out[j]
		}
	}
	return out
}

// ruleNoFlagSkipped (C15-R13, shared): a method of the options that walks the context lineage looks at every one of
// its flags on every level. In the loop, each block that asks IsSet(name) dominates every back edge of the loop —
// unless it is nested in the set-branch of another such question, which then is held to the same rule. A continue or
// break placed in the branch of one flag makes the loop skip the questions that follow it: given together with that
// flag, the other flags of the level silently lose their effect.
func ruleNoFlagSkipped(c *core.Ctx, rule string) {
	n := 0
	for _, fn := range c.P.Funcs {
		if core.FnPkgPath(fn) != optionsPkg || len(fn.Blocks) == 0 {
			continue
		}
		fname := core.FuncName(fn)
		for _, h := range fn.Blocks {
			var latches []*ssa.BasicBlock
			for _, p := range h.Preds {
				if h.Dominates(p) {
					latches = append(latches, p)
				}
			}
			if len(latches) == 0 {
				continue
			}
			body := map[*ssa.BasicBlock]bool{h: true}
			work := append([]*ssa.BasicBlock(nil), latches...)
			for len(work) > 0 {
				b := work[len(work)-1]
				work = work[:len(work)-1]
				if body[b] {
					continue
				}
				body[b] = true
				work = append(work, b.Preds...)
			}
			// the questions asked in the loop: block → flag names
			type question struct {
				b     *ssa.BasicBlock
				names []string
				pos   string
			}
			var qs []question
			for b := range body {
				if b == h || inInnerLoop(b, h, body) {
					continue
				}
				for _, in := range b.Instrs {
					ci, ok := in.(ssa.CallInstruction)
					if !ok {
						continue
					}
					m, nameArg, ok := flagAccess(ci)
					if !ok || m != "IsSet" {
						continue
					}
					names, _ := flagNames(c.P, nameArg, 3)
					qs = append(qs, question{b, names, c.P.Pos(in.Pos())})
				}
			}
			if len(qs) < 2 {
				continue
			}
			sort.Slice(qs, func(i, j int) bool { return qs[i].b.Index < qs[j].b.Index })
			n++
			disc := fmt.Sprintf("loop@%s", c.P.Pos(lastPos(h)))
			c.Universe(rule+" loops that ask for flags", fname+" ("+c.P.Pos(lastPos(h))+")")
			asks := map[*ssa.BasicBlock]bool{}
			for _, q := range qs {
				asks[q.b] = true
			}
			domAll := func(b *ssa.BasicBlock) bool {
				for _, l := range latches {
					if !b.Dominates(l) {
						return false
					}
				}
				return true
			}
			var bad []string
			for _, q := range qs {
				if domAll(q.b) {
					continue
				}
				// nested in the set-branch of another question?
				nested := false
				for d := q.b.Idom(); d != nil && body[d] && d != h; d = d.Idom() {
					if asks[d] && len(d.Succs) == 2 && d.Succs[0].Dominates(q.b) {
						nested = true
						break
					}
				}
				if !nested {
					bad = append(bad, fmt.Sprintf("%s: the question IsSet(%s) is not asked on every round of the loop over the context lineage: a continue, break or return taken for another flag of the same level skips it, so that flag loses its effect whenever the two are given together", q.pos, strings.Join(q.names, "/")))
				}
			}
			if len(bad) == 0 {
				c.Discharge(rule, fname, disc, c.P.Pos(lastPos(h)), fmt.Sprintf("%d flags are asked for on every round", len(qs)))
			}
			for _, m := range uniq(bad) {
				c.Violate(rule, fname, disc, c.P.Pos(lastPos(h)), m, nil)
			}
		}
	}
	if n == 0 {
		c.Note(rule + ": no loop in package options asks for more than one flag (vacuous)")
	}
}

// inInnerLoop: block b of the loop headed by h (body) also lies in a loop nested inside it.
func inInnerLoop(b, h *ssa.BasicBlock, body map[*ssa.BasicBlock]bool) bool {
	for h2 := range body {
		if h2 == h {
			continue
		}
		// h2 heads a loop if one of its predecessors is dominated by it
		var latches []*ssa.BasicBlock
		for _, p := range h2.Preds {
			if h2.Dominates(p) {
				latches = append(latches, p)
			}
		}
		if len(latches) == 0 {
			continue
		}
		inner := map[*ssa.BasicBlock]bool{h2: true}
		work := append([]*ssa.BasicBlock(nil), latches...)
		for len(work) > 0 {
			x := work[len(work)-1]
			work = work[:len(work)-1]
			if inner[x] {
				continue
			}
			inner[x] = true
			work = append(work, x.Preds...)
		}
		if inner[b] {
			return true
		}
	}
	return false
}

// leavesAtFirstHit: the block in which the flag is read (for IsSet: the branch taken when it is set) runs straight
// into a return, without going round the loop again.
func leavesAtFirstHit(call *ssa.Call) bool {
	if call == nil || call.Block() == nil {
		return false
	}
	b := call.Block()
	if iff, ok := b.Instrs[len(b.Instrs)-1].(*ssa.If); ok && iff.Cond == ssa.Value(call) {
		b = b.Succs[0]
	}
	for i := 0; i < 4 && b != nil; i++ {
		switch t := b.Instrs[len(b.Instrs)-1].(type) {
		case *ssa.Return:
			return true
		case *ssa.Jump:
			if isLoopHead(b.Succs[0]) || len(b.Succs[0].Preds) > 1 && b.Succs[0].Dominates(b) {
				return false
			}
			b = b.Succs[0]
			_ = t
		default:
			return false
		}
	}
	return false
}

// lineageElem: v is Lineage()[i] (loaded); returns i.
func lineageElem(v ssa.Value) (ssa.Value, bool) {
	if u, ok := v.(*ssa.UnOp); ok && u.Op == token.MUL {
		if ia, ok := u.X.(*ssa.IndexAddr); ok {
			if lc, ok := ia.X.(*ssa.Call); ok && isCtxMethod(core.Callee(&lc.Call), "Lineage") {
				return ia.Index, true
			}
		}
	}
	return nil, false
}

// lineageFed: every call of fn the call graph knows hands an element of Lineage() to parameter prm; returns the
// index expression of one of them and the call, in the function that walks the lineage, that hands it on.
func lineageFed(p *core.Program, fn *ssa.Function, prm *ssa.Parameter) (ssa.Value, *ssa.Call, bool) {
	pi := -1
	for i, q := range fn.Params {
		if q == prm {
			pi = i
		}
	}
	n := p.CallGraph().Nodes[fn]
	if pi < 0 || n == nil || len(n.In) == 0 {
		return nil, nil, false
	}
	var idx ssa.Value
	var site *ssa.Call
	for _, e := range n.In {
		args := e.Site.Common().Args
		ai := pi
		if e.Site.Common().IsInvoke() {
			ai = pi - 1
		}
		if ai < 0 || ai >= len(args) {
			return nil, nil, false
		}
		st, _ := e.Site.(*ssa.Call)
		ix, ok := lineageElem(args[ai])
		if !ok {
			// forwarded once more: a parameter of the caller that is itself fed from the lineage
			if q, isP := args[ai].(*ssa.Parameter); isP && e.Caller.Func != fn {
				ix, st, ok = lineageFed(p, e.Caller.Func, q)
			}
		}
		if !ok {
			return nil, nil, false
		}
		idx, site = ix, st
	}
	return idx, site, idx != nil
}

// ruleEnvBoolFlags (C16-R11, shared): a boolean flag that can also be set from the environment is read by its value.
// urfave/cli counts a flag as set as soon as its environment variable exists, whatever it says, so a switch that is
// decided by IsSet alone is turned on by HR_X=false or HR_X=0.
func ruleEnvBoolFlags(c *core.Ctx, rule string) {
	decls := collectFlags(c.P)
	reads := collectFlagReads(c.P)
	n := 0
	for _, d := range decls {
		if d.Kind != "BoolFlag" || len(d.EnvVars) == 0 {
			continue
		}
		n++
		names := map[string]bool{}
		for _, nm := range d.Names {
			names[nm] = true
		}
		for _, a := range d.Aliases {
			names[a] = true
		}
		var isSet []flagRead
		byValue := false
		for _, r := range reads {
			if !names[r.Name] {
				continue
			}
			switch r.Method {
			case "IsSet":
				isSet = append(isSet, r)
			case "Bool":
				byValue = true
			}
		}
		disc := "--" + d.Names[0]
		pos := c.P.Pos(d.Pos)
		c.Universe(rule+" boolean flags with an environment variable", disc+" ["+strings.Join(d.EnvVars, ",")+"] ("+pos+")")
		if len(isSet) > 0 && !byValue {
			c.Violate(rule, "flags", disc, c.P.Pos(isSet[0].Call.Pos()), "the switch "+disc+" can be set from the environment ("+strings.Join(d.EnvVars, ", ")+") but is decided by IsSet alone: the library counts the flag as set whenever the variable exists, so "+d.EnvVars[0]+"=false (or =0) turns the switch on", nil)
		} else {
			c.Discharge(rule, "flags", disc, pos, "read by its value")
		}
	}
	if n == 0 {
		c.Note(rule + ": no boolean flag declares an environment variable")
	}
}
