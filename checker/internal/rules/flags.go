package rules

import (
	"go/ast"
	"go/constant"
	"go/token"
	"go/types"
	"strings"

	"golang.org/x/tools/go/packages"
	"golang.org/x/tools/go/ssa"

	"hrverif/internal/core"
)

const cliPkg = "github.com/urfave/cli/v2"

// flagDecl is one cli.*Flag composite literal of the tree.
type flagDecl struct {
	Names    []string // Name split on commas and trimmed, as urfave/cli does
	Aliases  []string
	Kind     string // StringFlag | BoolFlag | IntFlag ...
	EnvVars  []string
	Default  constant.Value // nil when absent or not constant
	DefExpr  ast.Expr
	HasValue bool
	Command  string // "" for application-level flags, else the enclosing command's Name
	Pos      token.Pos
	Pkg      *packages.Package
}

func constString(info *types.Info, e ast.Expr) (string, bool) {
	if tv, ok := info.Types[e]; ok && tv.Value != nil && tv.Value.Kind() == constant.String {
		return constant.StringVal(tv.Value), true
	}
	return "", false
}

func namedIs(t types.Type, pkg, name string) bool {
	if p, ok := t.(*types.Pointer); ok {
		t = p.Elem()
	}
	n, ok := t.(*types.Named)
	return ok && n.Obj().Pkg() != nil && n.Obj().Pkg().Path() == pkg && n.Obj().Name() == name
}

// collectFlags finds every flag literal and the command literal that encloses it.
func collectFlags(p *core.Program) []flagDecl {
	var out []flagDecl
	for _, pkg := range p.RootsInScope() {
		info := pkg.TypesInfo
		for _, f := range pkg.Syntax {
			var stack []ast.Node
			ast.Inspect(f, func(n ast.Node) bool {
				if n == nil {
					stack = stack[:len(stack)-1]
					return true
				}
				stack = append(stack, n)
				cl, ok := n.(*ast.CompositeLit)
				if !ok {
					return true
				}
				tv, ok := info.Types[cl]
				if !ok {
					return true
				}
				nt, ok := tv.Type.(*types.Named)
				if !ok || nt.Obj().Pkg() == nil || nt.Obj().Pkg().Path() != cliPkg || !strings.HasSuffix(nt.Obj().Name(), "Flag") {
					return true
				}
				fd := flagDecl{Kind: nt.Obj().Name(), Pos: cl.Pos(), Pkg: pkg}
				for _, el := range cl.Elts {
					kv, ok := el.(*ast.KeyValueExpr)
					if !ok {
						continue
					}
					key, _ := kv.Key.(*ast.Ident)
					if key == nil {
						continue
					}
					switch key.Name {
					case "Name":
						if s, ok := constString(info, kv.Value); ok {
							for _, part := range strings.Split(s, ",") {
								fd.Names = append(fd.Names, strings.TrimSpace(part))
							}
						}
					case "Aliases", "EnvVars":
						if l, ok := kv.Value.(*ast.CompositeLit); ok {
							for _, e := range l.Elts {
								if s, ok := constString(info, e); ok {
									if key.Name == "Aliases" {
										fd.Aliases = append(fd.Aliases, s)
									} else {
										fd.EnvVars = append(fd.EnvVars, s)
									}
								}
							}
						}
					case "Value":
						fd.HasValue = true
						fd.DefExpr = kv.Value
						if tv, ok := info.Types[kv.Value]; ok {
							fd.Default = tv.Value
						}
					}
				}
				// enclosing cli.Command literal, if any
				for i := len(stack) - 2; i >= 0; i-- {
					if ocl, ok := stack[i].(*ast.CompositeLit); ok {
						if otv, ok := info.Types[ocl]; ok && namedIs(otv.Type, cliPkg, "Command") {
							for _, el := range ocl.Elts {
								if kv, ok := el.(*ast.KeyValueExpr); ok {
									if k, _ := kv.Key.(*ast.Ident); k != nil && k.Name == "Name" {
										if s, ok := constString(info, kv.Value); ok {
											fd.Command = s
										}
									}
								}
							}
							if fd.Command == "" {
								fd.Command = "?"
							}
							break
						}
					}
				}
				out = append(out, fd)
				return true
			})
		}
	}
	return out
}

// flagLevels: flag name -> set of levels ("" = application) that declare it.
func flagLevels(decls []flagDecl) map[string]map[string]bool {
	m := map[string]map[string]bool{}
	for _, d := range decls {
		for _, n := range d.Names {
			if m[n] == nil {
				m[n] = map[string]bool{}
			}
			m[n][d.Command] = true
		}
	}
	return m
}

// flagRead is a c.String/Int/Bool/IsSet("name") call with a constant name.
type flagRead struct {
	Fn      *ssa.Function
	Call    *ssa.Call
	Method  string
	Name    string
	OnIndex bool      // receiver is an element of c.Lineage()
	Index   ssa.Value // its index expression
}

func isCtxMethod(callee *ssa.Function, name string) bool {
	return isMethod(callee, cliPkg, "Context", name)
}

// flagNames: the constant strings a flag-name argument can be — a literal, or a
// parameter/φ that only literals reach through the static callers (a helper such
// as stringSetting(c, "database", cur) reads the flag its callers name).
func flagNames(p *core.Program, v ssa.Value, depth int) ([]string, bool) {
	switch x := v.(type) {
	case *ssa.Const:
		if x.Value != nil && x.Value.Kind() == constant.String {
			return []string{constant.StringVal(x.Value)}, true
		}
	case *ssa.Phi:
		var out []string
		for _, e := range x.Edges {
			s, ok := flagNames(p, e, depth)
			if !ok {
				return nil, false
			}
			out = append(out, s...)
		}
		return out, len(out) > 0
	case *ssa.Parameter:
		if depth <= 0 {
			return nil, false
		}
		fn := x.Parent()
		idx := -1
		for i, prm := range fn.Params {
			if prm == x {
				idx = i
			}
		}
		if idx < 0 {
			return nil, false
		}
		var out []string
		for _, g := range p.Funcs {
			for _, b := range g.Blocks {
				for _, in := range b.Instrs {
					ci, ok := in.(ssa.CallInstruction)
					if !ok || ci.Common().StaticCallee() != fn || idx >= len(ci.Common().Args) {
						continue
					}
					s, ok := flagNames(p, ci.Common().Args[idx], depth-1)
					if !ok {
						return nil, false
					}
					out = append(out, s...)
				}
			}
		}
		return uniq(out), len(out) > 0
	}
	return nil, false
}

func collectFlagReads(p *core.Program) []flagRead {
	var out []flagRead
	for _, fn := range p.Funcs {
		for _, b := range fn.Blocks {
			for _, in := range b.Instrs {
				call, ok := in.(*ssa.Call)
				if !ok {
					continue
				}
				cal := call.Call.StaticCallee()
				if cal == nil {
					continue
				}
				m := ""
				for _, n := range []string{"String", "Int", "Bool", "IsSet", "Float64", "Duration", "StringSlice", "Int64", "Uint", "Path", "Timestamp", "Generic", "Value", "Count"} {
					if isCtxMethod(cal, n) {
						m = n
					}
				}
				if m == "" || len(call.Call.Args) < 2 {
					continue
				}
				cst, ok := call.Call.Args[1].(*ssa.Const)
				if !ok || cst.Value == nil || cst.Value.Kind() != constant.String {
					out = append(out, flagRead{Fn: fn, Call: call, Method: m, Name: ""})
					continue
				}
				fr := flagRead{Fn: fn, Call: call, Method: m, Name: constant.StringVal(cst.Value)}
				// receiver: *IndexAddr(Lineage(), i) loaded
				recv := call.Call.Args[0]
				if u, ok := recv.(*ssa.UnOp); ok && u.Op == token.MUL {
					if ia, ok := u.X.(*ssa.IndexAddr); ok {
						if lc, ok := ia.X.(*ssa.Call); ok && isCtxMethod(lc.Call.StaticCallee(), "Lineage") {
							fr.OnIndex = true
							fr.Index = ia.Index
						}
					}
				}
				out = append(out, fr)
			}
		}
	}
	return out
}

// loopDirection classifies an index expression of a counting loop:
// +1 ascending, -1 descending, 0 unknown. It follows idx = phi ± c and
// phi = [init, phi ± c].
func loopDirection(idx ssa.Value) (dir int, startsAtLast bool) {
	v := idx
	for i := 0; i < 4; i++ {
		switch x := v.(type) {
		case *ssa.BinOp:
			if _, ok := x.Y.(*ssa.Const); ok && (x.Op == token.ADD || x.Op == token.SUB) {
				v = x.X
				continue
			}
			return 0, false
		case *ssa.Phi:
			for _, e := range x.Edges {
				be, ok := e.(*ssa.BinOp)
				if !ok {
					continue
				}
				base := be.X
				if base != ssa.Value(x) {
					// the increment may be computed from the phi through the index value itself
					if bb, ok := base.(*ssa.BinOp); ok && bb.X == ssa.Value(x) {
						base = x
					}
				}
				if base != ssa.Value(x) {
					continue
				}
				cst, ok := be.Y.(*ssa.Const)
				if !ok || cst.Value == nil {
					continue
				}
				n, _ := constant.Int64Val(constant.ToInt(cst.Value))
				if be.Op == token.SUB {
					n = -n
				}
				if be.Op != token.ADD && be.Op != token.SUB {
					continue
				}
				switch {
				case n > 0:
					dir = 1
				case n < 0:
					dir = -1
				}
			}
			// does the initial value derive from len(...) - 1 ?
			for _, e := range x.Edges {
				if be, ok := e.(*ssa.BinOp); ok && be.Op == token.SUB {
					if c, ok := be.X.(*ssa.Call); ok {
						if b, ok := c.Call.Value.(*ssa.Builtin); ok && b.Name() == "len" {
							startsAtLast = true
						}
					}
				}
			}
			return dir, startsAtLast
		default:
			return 0, false
		}
	}
	return 0, false
}

// ruleLineage: a flag that is declared on more than one level (application and
// command) must be read from the elements of c.Lineage() in an order that lets
// the innermost level win: descending index with overwrite. A read on the leaf
// context only consults the innermost declaring level (urfave/cli's
// lookupFlagSet), so the other position would be ignored.
func ruleLineage(c *core.Ctx, rule string, want func(name string) bool) {
	decls := collectFlags(c.P)
	levels := flagLevels(decls)
	n := 0
	for _, fr := range collectFlagReads(c.P) {
		// nested levels: the application and at least one command (sibling commands sharing a name do not nest)
		if fr.Name == "" || len(levels[fr.Name]) < 2 || !levels[fr.Name][""] || !want(fr.Name) {
			continue
		}
		n++
		fname := core.FuncName(fr.Fn)
		disc := fr.Method + "(" + fr.Name + ")"
		pos := c.P.Pos(fr.Call.Pos())
		var lv []string
		for l := range levels[fr.Name] {
			if l == "" {
				l = "application"
			}
			lv = append(lv, l)
		}
		c.Universe(rule+" reads of multi-level flags", fname+" "+disc+" ("+pos+")")
		if !fr.OnIndex {
			c.Violate(rule, fname, disc, pos, "flag --"+fr.Name+" is declared on several levels ("+strings.Join(sortedStrings(lv), ", ")+") but is read from the leaf context, which consults only the innermost declaring level: the flag given in the other position is ignored", nil)
			continue
		}
		dir, last := loopDirection(fr.Index)
		switch {
		case dir == -1 && last:
			c.Discharge(rule, fname, disc, pos, "read from Lineage()[i], i descending from the root context: the innermost level is applied last and wins")
		case dir == 1:
			c.Violate(rule, fname, disc, pos, "the lineage is walked from the innermost context outwards with overwrite, so the outermost (global) --"+fr.Name+" wins over the sub-command's", nil)
		default:
			c.Undecide(rule, fname, disc, pos, "the order in which the lineage is walked is not a recognised counting loop", nil)
		}
	}
	if n == 0 {
		c.Note(rule + ": no flag is declared on more than one level (vacuous)")
	}
}

func sortedStrings(s []string) []string {
	out := append([]string(nil), s...)
	for i := 1; i < len(out); i++ {
		for j := i; j > 0 && out[j] < out[j-1]; j-- {
			out[j], out[j-1] = out[j-1], out[j]
		}
	}
	return out
}
