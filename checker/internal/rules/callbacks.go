package rules

import (
	"fmt"
	"go/constant"
	"go/token"
	"go/types"
	"sort"
	"strings"

	"golang.org/x/tools/go/ssa"

	"hrverif/internal/absint"
	"hrverif/internal/core"
)

// parseCallbacks: every function value converted to or passed as parser.ParseCallback.
func parseCallbacks(p *core.Program) []*ssa.Function {
	cbT := p.LookupType(parserPkg, "ParseCallback")
	if cbT == nil {
		return nil
	}
	seen := map[*ssa.Function]bool{}
	var out []*ssa.Function
	add := func(v ssa.Value) {
		f := funcOfValue(v)
		if f == nil || seen[f] {
			return
		}
		// a method value (st.visit) is a synthetic wrapper around a method of the tree: the wrapper is the callback
		inScope := p.InScope(f)
		if !inScope && strings.HasSuffix(f.Name(), "$bound") && len(f.Blocks) > 0 {
			if m, ok := f.Object().(*types.Func); ok {
				if target := p.SSA.FuncValue(m); target != nil && p.InScope(target) {
					inScope = true
				}
			}
		}
		if inScope {
			seen[f] = true
			out = append(out, f)
		}
	}
	for _, fn := range p.Funcs {
		for _, b := range fn.Blocks {
			for _, in := range b.Instrs {
				switch in := in.(type) {
				case *ssa.ChangeType:
					if types.Identical(in.Type(), cbT) {
						add(in.X)
					}
				case ssa.CallInstruction:
					sig := in.Common().Signature()
					for i, a := range in.Common().Args {
						pi := i
						if sig.Recv() != nil && !in.Common().IsInvoke() {
							pi = i - 1
						}
						if pi >= 0 && pi < sig.Params().Len() && types.Identical(sig.Params().At(pi).Type(), cbT) {
							add(a)
						}
					}
				}
			}
		}
	}
	return out
}

// retCases expands a callback's (stop, err) result into definite cases. A
// result of the form (e != nil, e) is the two cases (false, nil) and (true, e).
type retCase struct {
	stop, stopKnown bool
	err             absint.Value
	errNonNil       bool // the case assumes err != nil
}

func retCases(x *absint.Exec, st *absint.State, ret []absint.Value) []retCase {
	stop, known := boolOf(ret[0])
	if known {
		return []retCase{{stop, true, ret[1], false}}
	}
	if t, ok := ret[0].(*absint.Term); ok && (t.Op == "!=" || t.Op == "==") && len(t.Args) >= 2 {
		for i := 0; i < 2; i++ {
			if isNilConst(t.Args[1-i]) && t.Args[i].Key() == ret[1].Key() {
				neq := t.Op == "!="
				switch nilnessOf(x, st, ret[1]) {
				case "nil":
					return []retCase{{!neq, true, absint.Const{Nil: true}, false}}
				case "nonnil":
					return []retCase{{neq, true, ret[1], true}}
				}
				return []retCase{{!neq, true, absint.Const{Nil: true}, false}, {neq, true, ret[1], true}}
			}
		}
	}
	return []retCase{{false, false, ret[1], false}}
}

// ruleCallbackConsumers decides, for every ParseCallback of the tree,
//
//	C08-R1 (consumer): with (nil record, non-nil error) the record is never dereferenced;
//	C09-R3: with an error the callback stops with an error that derives from it, or writes it out and continues;
//	C17-R3b: a callback never returns a possibly non-nil error together with stop=false (the parser would drop it).
func ruleCallbackConsumers(c *core.Ctx, want map[string]bool) {
	cbs := parseCallbacks(c.P)
	if len(cbs) == 0 {
		for r := range want {
			c.Undecide(r, "callbacks", "universe", "-", "no value of type parser.ParseCallback found although the commands must consume the parser somehow", nil)
		}
		return
	}
	for _, cb := range cbs {
		if _, fwd := forwardingCallback(cb); fwd {
			continue // hands everything on to another callback and answers what that answers: judged there
		}
		fname := core.FuncName(cb)
		pos := c.P.Pos(cb.Pos())
		for r := range want {
			c.Universe(r+" ParseCallback values", fname+" ("+pos+")")
		}
		if len(cb.Params) != 2 {
			continue
		}
		// ---- error case ----
		x := newExec(c)
		var derefs []string
		x.Hooks.Deref = func(x *absint.Exec, s *absint.State, in ssa.Instruction, ptr absint.Value) {
			if cst, ok := ptr.(absint.Const); ok && cst.Nil {
				derefs = append(derefs, c.P.Pos(in.Pos()))
			}
		}
		wrote := false
		x.Hooks.Call = func(x *absint.Exec, s *absint.State, site ssa.CallInstruction, callee *ssa.Function, fnv absint.Value, args []absint.Value) (absint.Value, bool) {
			if callee != nil && (strings.HasPrefix(callee.String(), "fmt.Fprint") || strings.HasPrefix(callee.String(), "fmt.Print")) {
				for _, a := range args {
					if absint.Mentions(a, "perr") || mentionsCell(x, s, a, "perr") {
						s.SetData("reported", "1")
						wrote = true
					}
				}
			}
			if site.Common().IsInvoke() && site.Common().Method.Name() == "Process" {
				s.SetData("process", "1")
			}
			// the nil record handed to a function value (visit(n) before the error is looked at): what that function does
			// with it is read off the functions the call can reach
			if callee == nil && !site.Common().IsInvoke() && len(s.Frames) > 0 {
				for ai, a := range args {
					if cst, ok := a.(absint.Const); !ok || !cst.Nil {
						continue
					}
					if ai >= len(site.Common().Args) {
						continue
					}
					if pt, ok := site.Common().Args[ai].Type().(*types.Pointer); !ok || !strings.HasSuffix(pt.Elem().String(), ".ParserNode") {
						continue
					}
					for _, g := range calleesOf(c.P, s.Frames[len(s.Frames)-1].Fn, site, c.P.CallGraph()) {
						if c.P.InScope(g) && derefsParamUnchecked(g, ai) {
							derefs = append(derefs, c.P.Pos(site.Pos())+" (handed to "+core.FuncName(g)+", which dereferences it)")
						}
					}
				}
			}
			// a send of the error on a channel also reports it
			return nil, false
		}
		x.Hooks.Send = func(x *absint.Exec, s *absint.State, in *ssa.Send, ch, v absint.Value) {
			if absint.Mentions(v, "perr") {
				s.SetData("reported", "1")
			}
		}
		perr := absint.Sym{Name: "perr"}
		st := x.NewState(cb, []absint.Value{absint.Const{Nil: true}, perr}, nil)
		x.AssumeNil(st, perr, false)
		terms := x.Run(st)
		account(c, x, "C09-R3", cb)
		if want["C08-R1"] {
			if len(derefs) > 0 {
				c.Violate("C08-R1", fname, "consumer", derefs[0], fmt.Sprintf("with a parse error the record is nil, yet the callback dereferences it (%s): a malformed entry crashes the command", strings.Join(uniq(derefs), ", ")), nil)
			} else {
				c.Discharge("C08-R1", fname, "consumer", pos, "no dereference of the record when the parser reports an error")
			}
		}
		bad9, bad17, bad10 := 0, 0, 0
		for _, tm := range terms {
			if tm.Kind == "panic" {
				if want["C08-R1"] {
					c.Violate("C08-R1", fname, "consumer-panic", c.P.Pos(tm.Pos), "the callback panics when the parser reports an error", describe(x, tm))
				}
				continue
			}
			if len(tm.Ret) != 2 {
				continue
			}
			for _, rc := range retCases(x, tm.State, tm.Ret) {
				stop, stopKnown := rc.stop, rc.stopKnown
				errV := rc.err
				if isNilConst(errV) && absint.Mentions(tm.Ret[1], "perr") {
					continue // (perr != nil, perr) with perr known non-nil: the nil case cannot occur
				}
				derives := absint.Mentions(errV, "perr")
				reported := tm.State.Data["reported"] == "1"
				switch {
				case stopKnown && stop && derives:
				case stopKnown && stop && !isNilConst(errV) && (rc.errNonNil || nilnessOf(x, tm.State, errV) == "nonnil") && reported:
					// stops because reporting the error failed (lint on a broken sink)
				case stopKnown && !stop && reported && isNilConst(errV):
				default:
					if want["C09-R3"] {
						c.Violate("C09-R3", fname, "on-error", c.P.Pos(tm.Pos), fmt.Sprintf("given a parse error the callback returns (stop=%s, err=%s) having reported=%v: the command neither fails with that error nor prints it", tm.Ret[0].Key(), errV.Key(), reported), describe(x, tm))
					}
					bad9++
				}
				if !(stopKnown && stop) && !isNilConst(errV) {
					if want["C17-R3"] {
						c.Violate("C17-R3", fname, "stop-with-error", c.P.Pos(tm.Pos), fmt.Sprintf("the callback returns the error %s with stop=%s: the parser only propagates a callback's error when it stops, so this error is lost", errV.Key(), tm.Ret[0].Key()), describe(x, tm))
					}
					bad17++
				}
			}
		}
		_ = wrote
		// ---- record case: contract only ----
		x2 := newExec(c)
		node := absint.Sym{Name: "node"}
		st2 := x2.NewState(cb, []absint.Value{node, absint.Const{Nil: true}}, nil)
		x2.AssumeNil(st2, node, false)
		x2.Track = func(string) bool { return false }
		terms2 := x2.Run(st2)
		account(c, x2, "C17-R3", cb)
		for _, tm := range terms2 {
			if len(tm.Ret) != 2 {
				continue
			}
			for _, rc := range retCases(x2, tm.State, tm.Ret) {
				if want["C10-R3"] && !(rc.stopKnown && !rc.stop) && (isNilConst(rc.err) || (!rc.errNonNil && nilnessOf(x2, tm.State, rc.err) == "nil")) {
					c.Violate("C10-R3", fname, "stop-without-error", c.P.Pos(tm.Pos), fmt.Sprintf("given a good record the callback may return stop=%s with a nil error: the parser stops reading and the command reports success on a prefix of the file", tm.Ret[0].Key()), describe(x2, tm))
					bad10++
				}
				if !(rc.stopKnown && rc.stop) && !isNilConst(rc.err) {
					if want["C17-R3"] {
						c.Violate("C17-R3", fname, "stop-with-error", c.P.Pos(tm.Pos), fmt.Sprintf("the callback returns the error %s with stop=%s: the parser only propagates a callback's error when it stops, so this error is lost", tm.Ret[1].Key(), tm.Ret[0].Key()), describe(x2, tm))
					}
					bad17++
				}
			}
		}
		if want["C09-R3"] && bad9 == 0 {
			c.Discharge("C09-R3", fname, "on-error", pos, fmt.Sprintf("on a parse error: stops with that error, or prints it and continues (%d paths)", len(terms)))
		}
		if want["C10-R3"] && bad10 == 0 {
			c.Discharge("C10-R3", fname, "stop-without-error", pos, "given a good record the callback stops the parse only together with an error")
		}
		if want["C17-R3"] && bad17 == 0 {
			c.Discharge("C17-R3", fname, "stop-with-error", pos, "an error is only ever returned together with stop=true")
		}
	}
}

func mentionsCell(x *absint.Exec, s *absint.State, v absint.Value, name string) bool {
	// variadic arguments arrive as slice(&cell,…): look into the cell
	t, ok := v.(*absint.Term)
	if !ok || t.Op != "slice" || len(t.Args) == 0 {
		return false
	}
	p, ok := t.Args[0].(absint.Ptr)
	if !ok {
		return false
	}
	for k, hv := range s.Heap {
		if strings.HasPrefix(k, p.Loc) && absint.Mentions(hv, name) {
			return true
		}
	}
	return false
}

func uniq(in []string) []string {
	seen := map[string]bool{}
	var out []string
	for _, s := range in {
		if !seen[s] {
			seen[s] = true
			out = append(out, s)
		}
	}
	return out
}

// ruleLineCounter is C09-R1: the integer that becomes LineNumber is a loop-carried
// value with 0 on entry and the same φ+1 on every back edge of the scan loop,
// and the value handed to the error constructors is the incremented one.
func ruleLineCounter(c *core.Ctx, rule string) {
	psc := c.P.LookupFunc(parserPkg, "ParseStreamCallback")
	if !requireAnchor(c, rule, "parser.ParseStreamCallback", psc != nil) {
		return
	}
	psc = parserLoopFunc(psc)
	fname := core.FuncName(psc)
	n := 0
	// the constructor calls of the loop itself, and those of the helpers the loop hands the number to
	// (parseEntry(trimmed, line, lineNumber) building the error for that line)
	type lineUse struct {
		cal  *ssa.Function
		arg  ssa.Value // the value in ParseStreamCallback
		call *ssa.Call // the call in ParseStreamCallback
		via  string
	}
	var uses []lineUse
	var inHelper func(g *ssa.Function, depth int) (byParam map[int][]*ssa.Function, other []string)
	inHelper = func(g *ssa.Function, depth int) (map[int][]*ssa.Function, []string) {
		byParam := map[int][]*ssa.Function{}
		var other []string
		paramIdx := func(v ssa.Value) int {
			for i, p := range g.Params {
				if ssa.Value(p) == v {
					return i
				}
			}
			return -1
		}
		for _, b := range g.Blocks {
			for _, in := range b.Instrs {
				call, ok := in.(*ssa.Call)
				if !ok || core.Callee(&call.Call) == nil {
					continue
				}
				cal := core.Callee(&call.Call)
				if isErrCtor(cal) {
					for i, p := range cal.Params {
						if fld, ok := fieldSetFromParam(cal, p); ok && fld == "LineNumber" && i < len(call.Call.Args) {
							if k := paramIdx(call.Call.Args[i]); k >= 0 {
								byParam[k] = append(byParam[k], cal)
							} else {
								other = append(other, c.P.Pos(call.Pos())+": the line number handed to "+cal.Name()+" is "+call.Call.Args[i].String()+", not the number the scan loop passed in")
							}
						}
					}
					continue
				}
				if depth > 0 && cal != g && core.FnPkgPath(cal) == parserPkg && len(cal.Blocks) > 0 {
					sub, o2 := inHelper(cal, depth-1)
					other = append(other, o2...)
					for j, ctors := range sub {
						if j >= len(call.Call.Args) {
							continue
						}
						if k := paramIdx(call.Call.Args[j]); k >= 0 {
							byParam[k] = append(byParam[k], ctors...)
						} else {
							other = append(other, c.P.Pos(call.Pos())+": the line number handed on to "+cal.Name()+" is "+call.Call.Args[j].String()+", not the number the scan loop passed in")
						}
					}
				}
			}
		}
		return byParam, other
	}
	for _, b := range psc.Blocks {
		for _, in := range b.Instrs {
			call, ok := in.(*ssa.Call)
			if !ok || core.Callee(&call.Call) == nil {
				continue
			}
			cal := core.Callee(&call.Call)
			if isErrCtor(cal) {
				for i, p := range cal.Params {
					if fld, ok := fieldSetFromParam(cal, p); ok && fld == "LineNumber" && i < len(call.Call.Args) {
						uses = append(uses, lineUse{cal, call.Call.Args[i], call, ""})
					}
				}
				continue
			}
			if core.FnPkgPath(cal) != parserPkg || len(cal.Blocks) == 0 || cal == psc || cal.Signature.Recv() != nil {
				continue
			}
			byParam, other := inHelper(cal, 2)
			for _, m := range other {
				n++
				c.Violate(rule, fname, cal.Name(), c.P.Pos(call.Pos()), m, nil)
			}
			for j, ctors := range byParam {
				for _, ct := range ctors {
					if j < len(call.Call.Args) {
						uses = append(uses, lineUse{ct, call.Call.Args[j], call, " via " + cal.Name()})
					}
				}
			}
		}
	}
	sort.SliceStable(uses, func(i, j int) bool {
		if uses[i].call.Pos() != uses[j].call.Pos() {
			return uses[i].call.Pos() < uses[j].call.Pos()
		}
		return uses[i].cal.Name() < uses[j].cal.Name()
	})
	{
		{
			for _, u := range uses {
				cal, call := u.cal, u.call
				n++
				arg := u.arg
				disc := cal.Name() + u.via
				pos := c.P.Pos(call.Pos())
				inc, ok := arg.(*ssa.BinOp)
				if !ok || inc.Op != token.ADD {
					c.Violate(rule, fname, disc, pos, "the line number handed to "+cal.Name()+" is "+arg.String()+", not the counter incremented for the current line", nil)
					continue
				}
				phi, ok := inc.X.(*ssa.Phi)
				one, ok2 := inc.Y.(*ssa.Const)
				if !ok || !ok2 || one.Int64() != 1 {
					c.Violate(rule, fname, disc, pos, "the line number is not <loop counter>+1", nil)
					continue
				}
				// the loop must call Scan once per iteration in the φ's block
				scanInHead := false
				for _, hi := range phi.Block().Instrs {
					if hc, ok := hi.(*ssa.Call); ok && isMethod(core.Callee(&hc.Call), "bufio", "Scanner", "Scan") {
						scanInHead = true
					}
				}
				okPhi := scanInHead
				var why string
				if !scanInHead {
					why = "the counter's loop is not headed by Scanner.Scan()"
				}
				for ei, e := range phi.Edges {
					pred := phi.Block().Preds[ei]
					if phi.Block().Dominates(pred) {
						if e != ssa.Value(inc) {
							okPhi = false
							why = fmt.Sprintf("on the back edge from block %d (%s) the counter is %s, not the incremented value: lines that take this path are not counted", pred.Index, c.P.Pos(lastPos(pred)), e.Name())
						}
					} else {
						if cst, ok := e.(*ssa.Const); !ok || cst.Int64() != 0 {
							okPhi = false
							why = "the counter does not start at 0"
						}
					}
				}
				// (every back edge carries the incremented value, so no line is passed over uncounted; what may come before
				// the increment is a way out of the loop, such as a cancellation test, not work on the line)
				if !inc.Block().Dominates(call.Block()) || !phi.Block().Dominates(inc.Block()) {
					okPhi = false
					if why == "" {
						why = "the increment does not come before every use of the line number for the scanned line"
					}
				}
				if okPhi {
					c.Discharge(rule, fname, disc, pos, "LineNumber = φ+1 with φ = 0 on entry and the same φ+1 on every back edge of the Scan loop: the 1-based index of the physical line")
				} else {
					c.Violate(rule, fname, disc, pos, why, nil)
				}
			}
		}
	}
	if n == 0 {
		ruleLineCounterCell(c, rule, psc)
	}
}

// ruleLineCounterCell is the second form of C09-R1: the line counter is not a
// loop-carried value of ParseStreamCallback itself but a cell (a field of the
// loop's state object) that methods update. The loop is explored with the
// methods inlined: in every iteration of the Scan loop the cell is incremented
// by one exactly once, before any positioned error is built from it, it starts
// at 0, and nothing else is stored into it.
func ruleLineCounterCell(c *core.Ctx, rule string, psc *ssa.Function) {
	fname := core.FuncName(psc)
	var loopHead *ssa.BasicBlock
	for _, b := range psc.Blocks {
		for _, in := range b.Instrs {
			if call, ok := in.(*ssa.Call); ok && isMethod(core.Callee(&call.Call), "bufio", "Scanner", "Scan") && isLoopHead(b) {
				loopHead = b
			}
		}
	}
	if loopHead == nil {
		c.Undecide(rule, fname, "universe", c.P.Pos(psc.Pos()), "no loop headed by Scanner.Scan() in ParseStreamCallback: the line counter cannot be located", nil)
		return
	}
	lineArg := func(callee *ssa.Function, args []absint.Value) (absint.Value, bool) {
		if !isErrCtor(callee) {
			return nil, false
		}
		for i, p := range callee.Params {
			if fld, ok := fieldSetFromParam(callee, p); ok && fld == "LineNumber" && i < len(args) {
				return args[i], true
			}
		}
		return nil, false
	}
	// pass 1: which cell holds the number handed to the error constructors
	cells := map[string]bool{}
	ctors := 0
	x1 := newExec(c)
	x1.Hooks.Call = func(x *absint.Exec, s *absint.State, site ssa.CallInstruction, callee *ssa.Function, fnv absint.Value, args []absint.Value) (absint.Value, bool) {
		if v, ok := lineArg(callee, args); ok {
			ctors++
			found := false
			if l := locOf(x, v); strings.HasPrefix(l, "A:r/") {
				cells[l], found = true, true
			}
			for k, hv := range s.Heap {
				if strings.HasPrefix(k, "A:r/") && hv.Key() == v.Key() {
					cells[k], found = true, true
				}
			}
			if !found {
				cells["?"+v.Key()] = true
			}
		}
		return nil, false
	}
	x1.Run(x1.NewState(psc, nil, nil))
	if !account(c, x1, rule, psc) {
		return
	}
	if ctors == 0 || len(cells) != 1 {
		var ks []string
		for k := range cells {
			ks = append(ks, k)
		}
		c.Undecide(rule, fname, "universe", c.P.Pos(psc.Pos()), fmt.Sprintf("the line number handed to the positioned errors is not one loop-carried value or one cell of the loop's state (%d constructor calls, candidates %v)", ctors, sortedStrings(ks)), nil)
		return
	}
	cell := ""
	for k := range cells {
		cell = k
	}
	if strings.HasPrefix(cell, "?") {
		c.Violate(rule, fname, "counter", c.P.Pos(psc.Pos()), "the line number handed to the positioned errors is "+cell[1:]+", not a counter kept by the scan loop", nil)
		return
	}
	// pass 2: the cell is a once-per-iteration counter
	x := newExec(c)
	var bad []string
	x.Hooks.Store = func(x *absint.Exec, s *absint.State, in *ssa.Store, addr, val absint.Value) {
		p, ok := addr.(absint.Ptr)
		if !ok || p.Loc != cell {
			return
		}
		var old absint.Value = absint.Const{V: constant.MakeInt64(0)}
		if hv, ok := s.Heap[cell]; ok {
			old = hv
		}
		isInc := false
		switch t := val.(type) {
		case absint.Const:
			if t.Key() == "c:0" || t.Key() == "zero" {
				if old.Key() != "c:0" && old.Key() != "zero" {
					bad = append(bad, fmt.Sprintf("%s: the line counter is reset to 0", c.P.Pos(in.Pos())))
				}
				return // explicit initialisation
			}
			// k+1 folded while the first lines are followed exactly
			if oc, ok := old.(absint.Const); ok && oc.V != nil && t.V != nil && oc.V.Kind() == constant.Int && t.V.Kind() == constant.Int {
				a, _ := constant.Int64Val(oc.V)
				b, _ := constant.Int64Val(t.V)
				isInc = b == a+1
			}
		case *absint.Term:
			if t.Op == "+" && len(t.Args) == 2 {
				for i := 0; i < 2; i++ {
					if t.Args[i].Key() == "c:1" && t.Args[1-i].Key() == old.Key() {
						isInc = true
					}
				}
			}
		}
		if !isInc {
			bad = append(bad, fmt.Sprintf("%s: the line counter becomes %s, not its old value plus one", c.P.Pos(in.Pos()), val.Key()))
			return
		}
		switch s.Data["inc"] {
		case "":
			s.SetData("inc", "1")
		default:
			s.SetData("inc", "many")
		}
	}
	x.Hooks.Call = func(x *absint.Exec, s *absint.State, site ssa.CallInstruction, callee *ssa.Function, fnv absint.Value, args []absint.Value) (absint.Value, bool) {
		if _, ok := lineArg(callee, args); ok && s.Data["inc"] != "1" {
			bad = append(bad, fmt.Sprintf("%s: a positioned error is built when the counter was incremented %q times for the current line", c.P.Pos(site.Pos()), s.Data["inc"]))
		}
		return nil, false
	}
	x.Hooks.BackEdge = func(x *absint.Exec, s *absint.State, f *absint.Frame, h *ssa.BasicBlock) {
		if f.Fn != psc || h != loopHead {
			return
		}
		if s.Data["inc"] != "1" {
			bad = append(bad, fmt.Sprintf("a scanned line ends with the counter incremented %q times (%s): lines that take this path are not counted, so later errors name the wrong line", s.Data["inc"], x.Valuation(s)))
		}
		s.SetData("inc", "")
	}
	x.Run(x.NewState(psc, nil, nil))
	if !account(c, x, rule, psc) {
		return
	}
	bad = uniq(bad)
	if len(bad) == 0 {
		c.Discharge(rule, fname, "counter-cell", c.P.Pos(psc.Pos()), "the line number is the cell "+cell+": 0 on entry, +1 exactly once for every scanned line before any positioned error is built")
	}
	for _, m := range bad {
		c.Violate(rule, fname, "counter-cell", c.P.Pos(psc.Pos()), m, nil)
	}
}

func lastPos(b *ssa.BasicBlock) token.Pos {
	for i := len(b.Instrs) - 1; i >= 0; i-- {
		if b.Instrs[i].Pos().IsValid() {
			return b.Instrs[i].Pos()
		}
	}
	return token.NoPos
}

// ruleLintVerdict is C09-R4: lint's success message depends on what it saw.
// Lint is explored with the real parser inlined; writes to the output are
// classified as per-error writes (an argument that is not a constant) or
// message writes (constants only). After a callback invocation with an error,
// no message write may follow on a nil-returning path; with no error the
// message is written unless the silent switch is on.
func ruleLintVerdict(c *core.Ctx, rule string) {
	lintPkg := core.CmdPath + "/internal/lint"
	fn := c.P.LookupFunc(lintPkg, "Lint")
	if !requireAnchor(c, rule, "lint.Lint", fn != nil) {
		return
	}
	fname := core.FuncName(fn)
	x := newExec(c)
	var bad []string
	x.Hooks.Call = func(x *absint.Exec, s *absint.State, site ssa.CallInstruction, callee *ssa.Function, fnv absint.Value, args []absint.Value) (absint.Value, bool) {
		if callee == nil || !strings.HasPrefix(callee.String(), "fmt.Fprint") || len(args) < 2 {
			return nil, false
		}
		allConst := true
		for _, a := range args[1:] {
			t, ok := a.(*absint.Term)
			if !ok || t.Op != "slice" {
				if _, isC := a.(absint.Const); !isC {
					allConst = false
				}
				continue
			}
			if p, ok := t.Args[0].(absint.Ptr); ok {
				for k, hv := range s.Heap {
					if strings.HasPrefix(k, p.Loc) {
						v := hv
						if iv, ok := v.(*absint.Iface); ok {
							v = iv.V
						}
						if _, isC := v.(absint.Const); !isC {
							allConst = false
						}
					}
				}
			}
		}
		// a formatted line that is given values to print (a count of errors) is a report, not the message, even when
		// the exploration happens to know the value
		if allConst && strings.HasSuffix(callee.String(), "Fprintf") && len(args) >= 3 {
			if t, ok := args[2].(*absint.Term); ok && t.Op == "slice" {
				allConst = false
			}
		}
		if allConst {
			s.SetData("okmsg", "1")
			s.Event("message write at %s", c.P.Pos(site.Pos()))
			if s.Data["sawerr"] == "1" {
				m := "the success message is written at " + c.P.Pos(site.Pos()) + " although a malformed line was reported earlier on the same path"
				bad = append(bad, m)
			}
		} else {
			s.SetData("sawerr", "1")
			s.Event("error write at %s", c.P.Pos(site.Pos()))
		}
		return nil, false
	}
	terms := x.Run(x.NewState(fn, nil, nil))
	if !account(c, x, rule, fn) {
		return
	}
	msgSeen := false
	for _, tm := range terms {
		if tm.Kind != "return" || len(tm.Ret) != 1 {
			continue
		}
		d := tm.State.Data
		if d["sawerr"] == "1" {
			continue
		}
		if !isNilConst(tm.Ret[0]) && d["okmsg"] != "1" {
			continue // failed before the verdict
		}
		if d["okmsg"] == "1" {
			msgSeen = true
			continue
		}
		// no errors, no message: only acceptable under the silent switch
		silent := false
		for k := range tm.State.PC {
			if strings.Contains(k, `"Silent"`) {
				o := x.Possible(tm.State, k)
				if len(o) == 1 && o[0] == "T" {
					silent = true
				}
			}
		}
		if !silent {
			bad = append(bad, "a run that found no malformed line ends successfully without the success message and without --silent ("+x.Valuation(tm.State)+")")
		}
	}
	if !msgSeen {
		bad = append(bad, "no path writes a success message when the file has no malformed line")
	}
	bad = uniq(bad)
	if len(bad) == 0 {
		c.Discharge(rule, fname, "verdict", c.P.Pos(fn.Pos()), fmt.Sprintf("success message exactly when no error was seen (and not silent); %d paths", len(terms)))
		return
	}
	for _, m := range bad {
		c.Violate(rule, fname, "verdict", c.P.Pos(fn.Pos()), m, nil)
	}
}

// derefsParamUnchecked: g reads a field of (or loads through) its parameter idx and never compares it with nil.
func derefsParamUnchecked(g *ssa.Function, idx int) bool {
	if idx >= len(g.Params) {
		return false
	}
	prm := g.Params[idx]
	deref, checked := false, false
	if prm.Referrers() == nil {
		return false
	}
	for _, r := range *prm.Referrers() {
		switch t := r.(type) {
		case *ssa.FieldAddr:
			deref = deref || t.X == ssa.Value(prm)
		case *ssa.UnOp:
			deref = deref || (t.Op == token.MUL && t.X == ssa.Value(prm))
		case *ssa.BinOp:
			if t.Op == token.EQL || t.Op == token.NEQ {
				checked = true
			}
		}
	}
	return deref && !checked
}

// forwardingCallback: cb hands its own (record, error) to another callback it captured and answers with that
// callback's answer on every path (a wrapper that counts or logs on the way). The index of the captured variable.
func forwardingCallback(cb *ssa.Function) (int, bool) {
	if cb == nil || len(cb.Params) != 2 || len(cb.FreeVars) == 0 {
		return 0, false
	}
	idx := -1
	rets := 0
	for _, b := range cb.Blocks {
		ret, ok := b.Instrs[len(b.Instrs)-1].(*ssa.Return)
		if !ok {
			continue
		}
		rets++
		if len(ret.Results) != 2 {
			return 0, false
		}
		e0, ok0 := ret.Results[0].(*ssa.Extract)
		e1, ok1 := ret.Results[1].(*ssa.Extract)
		if !ok0 || !ok1 || e0.Tuple != e1.Tuple || e0.Index != 0 || e1.Index != 1 {
			return 0, false
		}
		call, ok := e0.Tuple.(*ssa.Call)
		if !ok || call.Call.IsInvoke() || len(call.Call.Args) != 2 || call.Call.Args[0] != ssa.Value(cb.Params[0]) || call.Call.Args[1] != ssa.Value(cb.Params[1]) {
			return 0, false
		}
		v := call.Call.Value
		if ld, isLd := v.(*ssa.UnOp); isLd && ld.Op == token.MUL {
			v = ld.X
		}
		fv, ok := v.(*ssa.FreeVar)
		if !ok {
			return 0, false
		}
		for i, f := range cb.FreeVars {
			if f == fv {
				if idx >= 0 && idx != i {
					return 0, false
				}
				idx = i
			}
		}
	}
	return idx, rets > 0 && idx >= 0
}

// forwardingWrapperOf: fn answers with a forwarding callback around one of its parameters (countingCallback(cb, p));
// the index of that parameter.
func forwardingWrapperOf(fn *ssa.Function) (int, bool) {
	if fn == nil || len(fn.Blocks) == 0 {
		return 0, false
	}
	res := -1
	for _, b := range fn.Blocks {
		ret, ok := b.Instrs[len(b.Instrs)-1].(*ssa.Return)
		if !ok {
			continue
		}
		if len(ret.Results) != 1 {
			return 0, false
		}
		v := ret.Results[0]
		if ct, isCT := v.(*ssa.ChangeType); isCT {
			v = ct.X
		}
		mc, ok := v.(*ssa.MakeClosure)
		if !ok {
			return 0, false
		}
		inner, _ := mc.Fn.(*ssa.Function)
		fi, ok := forwardingCallback(inner)
		if !ok || fi >= len(mc.Bindings) {
			return 0, false
		}
		bound := mc.Bindings[fi]
		// a captured parameter lives in a cell of its own: the cell holds the parameter if that is its only store
		if al, isAl := bound.(*ssa.Alloc); isAl && al.Referrers() != nil {
			var only ssa.Value
			stores := 0
			for _, r := range *al.Referrers() {
				if st, isSt := r.(*ssa.Store); isSt && st.Addr == ssa.Value(al) {
					stores++
					only = st.Val
				}
			}
			if stores == 1 {
				bound = only
			}
		}
		pi := -1
		for i, prm := range fn.Params {
			if bound == ssa.Value(prm) {
				pi = i
			}
		}
		if pi < 0 || (res >= 0 && res != pi) {
			return 0, false
		}
		res = pi
	}
	return res, res >= 0
}
