package rules

import (
	"fmt"
	"go/token"
	"go/types"
	"strings"

	"golang.org/x/tools/go/ssa"

	"hrverif/internal/core"
)

// nondeterminism sources other than map order (C05-R3)
var clockLike = map[string]bool{
	"time.Now": true, "time.Since": true, "time.Until": true,
	"os.Getpid": true, "os.Getppid": true, "os.Hostname": true,
	"time.After": true, "time.Tick": true, "time.NewTimer": true, "time.NewTicker": true, "time.Sleep": true,
}

// allowedClock: enclosing function -> callee -> reason. Three lines, each read and confirmed.
var allowedClock = map[string]map[string]string{
	"options.NewDefaultGlobalConfig": {"time.Now": "the default for 'today'; --today and the config file override it (C06-R5/C16-R5 check the override)"},
	"main.GetApp":                    {"time.Now": "cli.App.Compiled build metadata; not part of any report"},
}

func ruleC05R3(c *core.Ctx, rule string, allowed map[string]map[string]string) {
	for _, fn := range c.P.Funcs {
		name := core.FuncName(fn)
		for _, b := range fn.Blocks {
			for _, in := range b.Instrs {
				var what string
				switch in := in.(type) {
				case *ssa.Go:
					what = "go statement"
				case *ssa.Select:
					if !in.Blocking || len(in.States) > 1 {
						what = "select"
					}
				case ssa.CallInstruction:
					if cal := core.Callee(in.Common()); cal != nil {
						full := cal.String()
						if clockLike[full] || strings.HasPrefix(full, "math/rand.") || strings.HasPrefix(full, "math/rand/v2.") || strings.HasPrefix(full, "crypto/rand.") {
							what = full
						}
					}
				}
				if what == "" {
					continue
				}
				c.Universe(rule+" run-to-run variation sources", fmt.Sprintf("%s: %s (%s)", name, what, c.P.Pos(in.Pos())))
				top := name
				if i := strings.IndexByte(top, '$'); i >= 0 {
					top = top[:i]
				}
				if r, ok := allowed[top][what]; ok {
					c.Discharge(rule, name, what, c.P.Pos(in.Pos()), "allowed: "+r)
				} else if v, isVal := in.(ssa.Value); isVal && what == "time.Now" && clockOnlyToMetadata(c.P, fn, v, 0) {
					// the same two destinations reached through a seam (a clock interface, a function variable)
					c.Discharge(rule, name, what, c.P.Pos(in.Pos()), "allowed: the value only ever becomes cli.App.Compiled (build metadata) or the default of GlobalConfig.Now, which --today and the configuration file override")
				} else {
					c.Violate(rule, name, what, c.P.Pos(in.Pos()), fmt.Sprintf("%s in %s: a source of run-to-run variation that is not in the allowed table", what, name), nil)
				}
			}
		}
	}
}

func init() {
	register(&Property{
		ID:    "C05",
		Rules: []string{"C05-R1", "C05-R2", "C05-R3", "C05-R4"},
		Explain: "Decides that no source of run-to-run variation reaches output or the error result in repository code: " +
			"C05-R1 every range over a map is collect-then-sort on a total key order or has a commutative body; " +
			"C05-R2 comparators used for that sort are total on the map key (a sort on the value alone keeps map order among ties); " +
			"C05-R3 time.Now/rand/pid/go/select occur only at the sites of a two-line allowed table; " +
			"C05-R4 no package-level variable or map is written outside init functions, and what a package-level map, slice or pointer refers to is not changed either (no element stored, no entry set or deleted, not handed to code of the tree that does so, not handed out by a return): no state survives from one reporter or run to the next.",
		NotDecided: "determinism of third-party code (text/template, encoding/csv, gcfg, urfave/cli are trusted), byte equality of two outputs",
		Assumptions: []string{
			"sort.Strings/sort.Sort/sort.Slice* are deterministic functions of their input sequence",
			"third-party packages (text/template, encoding/csv, gcfg, urfave/cli, naturaldate) are deterministic",
		},
		Run: func(c *core.Ctx) {
			n := RuleMapRanges(c, "C05-R1", nil)
			if n == 0 {
				c.Note("no range over a map in the tree (vacuous)")
			}
			ruleC05R3(c, "C05-R3", allowedClock)
			ruleGlobalState(c, "C05-R4")
		},
		Canary: func(c *core.Ctx) {
			RuleMapRanges(c, "C05-R1", nil)
			ruleC05R3(c, "C05-R3", map[string]map[string]string{"canary/maprange.GoodC05R3_allowed": {"time.Now": "canary"}})
			ruleGlobalState(c, "C05-R4")
		},
	})
}

// ruleGlobalState is C05-R4: repository code writes no package-level variable
// after initialisation — state that survives from one use of a command (or one
// reporter) to the next makes output depend on what ran before.
func ruleGlobalState(c *core.Ctx, rule string) {
	n, lazy := 0, 0
	isGlobalPtr := func(v ssa.Value) (string, bool) {
		for depth := 0; depth < 6; depth++ {
			switch x := v.(type) {
			case *ssa.Global:
				return x.Name(), true
			case *ssa.FieldAddr:
				v = x.X
			case *ssa.IndexAddr:
				v = x.X
			case *ssa.UnOp:
				v = x.X
			default:
				return "", false
			}
		}
		return "", false
	}
	for _, fn := range c.P.Funcs {
		if fn.Name() == "init" || strings.HasPrefix(fn.Name(), "init#") {
			continue
		}
		fname := core.FuncName(fn)
		for _, b := range fn.Blocks {
			for _, in := range b.Instrs {
				switch in := in.(type) {
				case *ssa.Store:
					if g, ok := isGlobalPtr(in.Addr); ok {
						if constDerived(in.Val, 0) {
							// a lazily initialised constant (a template or pattern compiled once from literals)
							c.Discharge(rule, fname, "global "+g, c.P.Pos(in.Pos()), "package-level variable "+g+" is assigned a value computed from constants only: the same on every use")
							lazy++
							continue
						}
						n++
						c.Violate(rule, fname, "global "+g, c.P.Pos(in.Pos()), "package-level variable "+g+" is written while a command runs: what this run prints can depend on what an earlier reporter or run in the same process left there", nil)
					}
				case *ssa.MapUpdate:
					if g, ok := isGlobalPtr(in.Map); ok {
						n++
						c.Violate(rule, fname, "global "+g, c.P.Pos(in.Pos()), "package-level map "+g+" is updated while a command runs (a cache or registry keyed by less than everything the value depends on makes output depend on earlier use)", nil)
					}
				}
			}
		}
	}
	// a package-level map, slice or pointer is only read: what it refers to is not changed, handed to code of the
	// tree that changes it, or handed out
	for _, fn := range c.P.Funcs {
		if fn.Name() == "init" || strings.HasPrefix(fn.Name(), "init#") {
			continue
		}
		for _, b := range fn.Blocks {
			for _, in := range b.Instrs {
				ld, ok := in.(*ssa.UnOp)
				if !ok || ld.Op != token.MUL {
					continue
				}
				g, ok := ld.X.(*ssa.Global)
				if !ok || g.Pkg == nil || !(strings.HasPrefix(g.Pkg.Pkg.Path(), core.LibPath) || strings.HasPrefix(g.Pkg.Pkg.Path(), core.CmdPath) || strings.HasPrefix(g.Pkg.Pkg.Path(), "canary/")) {
					continue
				}
				switch ld.Type().Underlying().(type) {
				case *types.Map, *types.Slice, *types.Pointer:
				default:
					continue
				}
				if why := mutatedThrough(c.P, ld, 0); why != "" {
					n++
					c.Violate(rule, core.FuncName(fn), "global "+g.Name(), c.P.Pos(ld.Pos()), "what the package-level variable "+g.Name()+" refers to is changed while a command runs ("+why+"): it survives from one use to the next, so what is printed depends on what was processed before", nil)
				}
			}
		}
	}
	if n == 0 {
		c.Discharge(rule, "repository", "no-global-writes", "-", "no store to a package-level variable, no update of a package-level map and no change of what a package-level map, slice or pointer refers to outside init functions")
	}
}

// mutatedThrough: how the memory the reference value v refers to may be changed by what is done with v ("" if it
// is only read): an element or field stored into, a map entry set or deleted, handed to a function of the tree that
// does so with its parameter, or returned to callers unknown.
func mutatedThrough(p *core.Program, v ssa.Value, depth int) string {
	if depth > 5 || v.Referrers() == nil {
		return ""
	}
	switch v.Type().Underlying().(type) {
	case *types.Map, *types.Slice, *types.Pointer, *types.Tuple, *types.Interface:
	default:
		if _, isIter := v.(*ssa.Range); !isIter {
			return "" // a copy of a value (a key, a number, a string): nothing is reached through it
		}
	}
	for _, r := range *v.Referrers() {
		switch t := r.(type) {
		case *ssa.DebugRef, *ssa.If, *ssa.Lookup, *ssa.Index:
		case *ssa.BinOp:
		case *ssa.MapUpdate:
			if t.Map == v {
				return "a map entry is set at " + p.Pos(t.Pos())
			}
		case *ssa.Store:
			if t.Addr == v {
				return "stored through at " + p.Pos(t.Pos())
			}
			return "kept in another variable at " + p.Pos(t.Pos())
		case *ssa.IndexAddr, *ssa.FieldAddr, *ssa.Phi, *ssa.Slice, *ssa.ChangeType, *ssa.Range, *ssa.Next, *ssa.Extract, *ssa.MakeInterface:
			if w := mutatedThrough(p, r.(ssa.Value), depth+1); w != "" {
				return w
			}
		case *ssa.UnOp:
			// a load through the pointer: a copy of a value, or another reference (an element that is a slice or map)
			switch t.Type().Underlying().(type) {
			case *types.Map, *types.Slice, *types.Pointer:
				if w := mutatedThrough(p, t, depth+1); w != "" {
					return w
				}
			}
		case *ssa.Return:
			return "handed out by a return at " + p.Pos(t.Pos())
		case ssa.CallInstruction:
			cc := t.Common()
			if b, ok := cc.Value.(*ssa.Builtin); ok {
				switch b.Name() {
				case "len", "cap":
					continue
				case "delete":
					return "an entry is deleted at " + p.Pos(t.Pos())
				case "append", "copy":
					if len(cc.Args) > 0 && cc.Args[0] == v {
						return b.Name() + " at " + p.Pos(t.Pos())
					}
					continue
				}
			}
			cal := core.Callee(cc)
			if cal == nil || !p.InScope(cal) {
				continue // code outside the tree (regexp, text/template): taken to read only
			}
			for i, a := range cc.Args {
				if a != v || i >= len(cal.Params) {
					continue
				}
				if w := mutatedThrough(p, cal.Params[i], depth+1); w != "" {
					return "handed to " + core.FuncName(cal) + ": " + w
				}
			}
		default:
			return ""
		}
	}
	return ""
}

// constDerived: v is computed from compile-time constants only (through calls,
// conversions and tuple extraction), so it is the same whenever it is computed.
func constDerived(v ssa.Value, depth int) bool {
	if depth > 10 {
		return false
	}
	switch x := v.(type) {
	case *ssa.Const, *ssa.Function:
		return true
	case *ssa.MakeInterface:
		return constDerived(x.X, depth+1)
	case *ssa.Convert:
		return constDerived(x.X, depth+1)
	case *ssa.ChangeType:
		return constDerived(x.X, depth+1)
	case *ssa.Extract:
		return constDerived(x.Tuple, depth+1)
	case *ssa.BinOp:
		return constDerived(x.X, depth+1) && constDerived(x.Y, depth+1)
	case *ssa.MakeClosure:
		for _, b := range x.Bindings {
			if !constDerived(b, depth+1) {
				return false
			}
		}
		return true
	case *ssa.MakeMap:
		// a map literal: every key and value put into it is constant-derived
		for _, r := range *x.Referrers() {
			switch r := r.(type) {
			case *ssa.MapUpdate:
				if r.Map == ssa.Value(x) && (!constDerived(r.Key, depth+1) || !constDerived(r.Value, depth+1)) {
					return false
				}
			case *ssa.Store, *ssa.DebugRef:
			default:
				return false
			}
		}
		return true
	case *ssa.Alloc:
		// a local cell (a captured variable, a composite literal): everything stored into it is constant-derived
		for _, r := range *x.Referrers() {
			switch r := r.(type) {
			case *ssa.Store:
				if r.Addr == ssa.Value(x) && !constDerived(r.Val, depth+1) {
					return false
				}
			case *ssa.FieldAddr, *ssa.IndexAddr:
				for _, rr := range *r.(ssa.Value).Referrers() {
					if st, ok := rr.(*ssa.Store); ok && st.Addr == r.(ssa.Value) && !constDerived(st.Val, depth+1) {
						return false
					}
				}
			}
		}
		return true
	case *ssa.UnOp:
		if x.Op == token.MUL {
			switch a := x.X.(type) {
			case *ssa.Alloc:
				return constDerived(a, depth+1)
			case *ssa.FreeVar:
				// a variable of the enclosing function: constant-derived when the cell bound to it is
				fn := a.Parent()
				if fn == nil || fn.Parent() == nil {
					return false
				}
				idx := -1
				for i, fv := range fn.FreeVars {
					if fv == a {
						idx = i
					}
				}
				ok := false
				for _, b := range fn.Parent().Blocks {
					for _, in := range b.Instrs {
						if mc, isMC := in.(*ssa.MakeClosure); isMC && mc.Fn == ssa.Value(fn) && idx >= 0 && idx < len(mc.Bindings) {
							if !constDerived(mc.Bindings[idx], depth+1) {
								return false
							}
							ok = true
						}
					}
				}
				return ok
			}
		}
		return false
	case *ssa.Call:
		if x.Call.IsInvoke() || core.Callee(&x.Call) == nil {
			return false
		}
		if mc, ok := x.Call.Value.(*ssa.MakeClosure); ok && !constDerived(mc, depth+1) {
			return false
		}
		for _, a := range x.Call.Args {
			if !constDerived(a, depth+1) {
				return false
			}
		}
		return true
	}
	return false
}

// clockOnlyToMetadata: every use of the clock value v (in fn, and of fn's result in its callers) ends in a store
// into a field named Compiled or into GlobalConfig's Now — the two destinations of the allowed table.
func clockOnlyToMetadata(p *core.Program, fn *ssa.Function, v ssa.Value, depth int) bool {
	if depth > 5 || v.Referrers() == nil {
		return false
	}
	uses := 0
	for _, r := range *v.Referrers() {
		switch t := r.(type) {
		case *ssa.DebugRef:
		case *ssa.Store:
			if t.Val != v {
				return false
			}
			fa, ok := t.Addr.(*ssa.FieldAddr)
			if !ok {
				return false
			}
			switch fieldName(fa.X.Type(), fa.Field) {
			case "Compiled":
			case "Now":
				if !strings.HasSuffix(fa.X.Type().String(), "options.GlobalConfig") {
					return false
				}
			default:
				return false
			}
			uses++
		case *ssa.MakeInterface, *ssa.ChangeType, *ssa.Phi, *ssa.Extract:
			if !clockOnlyToMetadata(p, fn, t.(ssa.Value), depth+1) {
				return false
			}
			uses++
		case *ssa.Call:
			cal := core.Callee(&t.Call)
			if cal == nil {
				return false
			}
			switch {
			case cal.String() == "(time.Time).Local" || cal.String() == "(time.Time).UTC" || cal.String() == "(time.Time).In":
				// the same instant in another zone: still the clock
				if !clockOnlyToMetadata(p, fn, t, depth+1) {
					return false
				}
			case p.InScope(cal):
				// handed to a function of the tree (NewDefaultGlobalConfigAt(now)): what that does with its parameter,
				// and with a structure it builds around it
				ok := false
				for i, a := range t.Call.Args {
					if a == v && i < len(cal.Params) {
						if !clockOnlyToMetadata(p, cal, cal.Params[i], depth+1) {
							return false
						}
						ok = true
					}
				}
				if !ok {
					return false
				}
			default:
				return false
			}
			uses++
		case *ssa.Return:
			// the callers of fn, through whatever they call it
			n := p.CallGraph().Nodes[fn]
			if n == nil || len(n.In) == 0 {
				return false
			}
			for _, e := range n.In {
				if cn := p.CallGraph().Nodes[e.Caller.Func]; e.Caller.Func.Synthetic != "" && (cn == nil || len(cn.In) == 0) {
					continue // a wrapper nobody calls
				}
				cv, ok := e.Site.(ssa.Value)
				if !ok || !clockOnlyToMetadata(p, e.Caller.Func, cv, depth+1) {
					return false
				}
			}
			uses++
		default:
			return false
		}
	}
	return uses > 0
}
