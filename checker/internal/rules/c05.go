package rules

import (
	"fmt"
	"strings"

	"golang.org/x/tools/go/ssa"

	"hrverif/internal/core"
)

// nondeterminism sources other than map order (C05-R3)
var clockLike = map[string]bool{
	"time.Now": true, "time.Since": true, "time.Until": true,
	"os.Getpid": true, "os.Getppid": true, "os.Hostname": true,
	"time.After": true, "time.Tick": true, "time.NewTimer": true, "time.NewTicker": true, "time.Sleep": true,
}

// allowedClock: enclosing function -> callee -> reason. Three lines, each read and confirmed.
var allowedClock = map[string]map[string]string{
	"options.NewDefaultGlobalConfig": {"time.Now": "the default for 'today'; --today and the config file override it (C06-R5/C16-R5 check the override)"},
	"main.GetApp":                    {"time.Now": "cli.App.Compiled build metadata; not part of any report"},
}

func ruleC05R3(c *core.Ctx, rule string, allowed map[string]map[string]string) {
	for _, fn := range c.P.Funcs {
		name := core.FuncName(fn)
		for _, b := range fn.Blocks {
			for _, in := range b.Instrs {
				var what string
				switch in := in.(type) {
				case *ssa.Go:
					what = "go statement"
				case *ssa.Select:
					if !in.Blocking || len(in.States) > 1 {
						what = "select"
					}
				case ssa.CallInstruction:
					if cal := in.Common().StaticCallee(); cal != nil {
						full := cal.String()
						if clockLike[full] || strings.HasPrefix(full, "math/rand.") || strings.HasPrefix(full, "math/rand/v2.") || strings.HasPrefix(full, "crypto/rand.") {
							what = full
						}
					}
				}
				if what == "" {
					continue
				}
				c.Universe(rule+" run-to-run variation sources", fmt.Sprintf("%s: %s (%s)", name, what, c.P.Pos(in.Pos())))
				top := name
				if i := strings.IndexByte(top, '$'); i >= 0 {
					top = top[:i]
				}
				if r, ok := allowed[top][what]; ok {
					c.Discharge(rule, name, what, c.P.Pos(in.Pos()), "allowed: "+r)
				} else {
					c.Violate(rule, name, what, c.P.Pos(in.Pos()), fmt.Sprintf("%s in %s: a source of run-to-run variation that is not in the allowed table", what, name), nil)
				}
			}
		}
	}
}

func init() {
	register(&Property{
		ID:    "C05",
		Rules: []string{"C05-R1", "C05-R2", "C05-R3"},
		Explain: "Decides that no source of run-to-run variation reaches output or the error result in repository code: " +
			"C05-R1 every range over a map is collect-then-sort on a total key order or has a commutative body; " +
			"C05-R2 comparators used for that sort are total on the map key (a sort on the value alone keeps map order among ties); " +
			"C05-R3 time.Now/rand/pid/go/select occur only at the sites of a two-line allowed table.",
		NotDecided: "determinism of third-party code (text/template, encoding/csv, gcfg, urfave/cli are trusted), byte equality of two outputs",
		Assumptions: []string{
			"sort.Strings/sort.Sort/sort.Slice* are deterministic functions of their input sequence",
			"third-party packages (text/template, encoding/csv, gcfg, urfave/cli, naturaldate) are deterministic",
		},
		Run: func(c *core.Ctx) {
			n := RuleMapRanges(c, "C05-R1", nil)
			if n == 0 {
				c.Note("no range over a map in the tree (vacuous)")
			}
			ruleC05R3(c, "C05-R3", allowedClock)
		},
		Canary: func(c *core.Ctx) {
			RuleMapRanges(c, "C05-R1", nil)
			ruleC05R3(c, "C05-R3", map[string]map[string]string{"canary/maprange.GoodC05R3_allowed": {"time.Now": "canary"}})
		},
	})
}
