package rules

import (
	"fmt"
	"go/types"
	"regexp"
	"strconv"
	"strings"

	"golang.org/x/tools/go/ssa"

	"hrverif/internal/absint"
	"hrverif/internal/core"
	"hrverif/internal/flow"
)

const csvPkg = core.CmdPath + "/internal/csv"

// ruleCSVWriters is C13-R1: in the csv package the output is written only
// through encoding/csv.
func ruleCSVWriters(c *core.Ctx, rule string) {
	n, bad := 0, 0
	for _, fn := range c.P.Funcs {
		if core.FnPkgPath(fn) != csvPkg {
			continue
		}
		for _, b := range fn.Blocks {
			for _, in := range b.Instrs {
				ci, ok := in.(ssa.CallInstruction)
				if !ok {
					continue
				}
				cal := core.Callee(ci.Common())
				full := ""
				if cal != nil {
					full = cal.String()
				} else if ci.Common().IsInvoke() {
					full = "invoke " + ci.Common().Method.FullName()
				}
				switch {
				case full == "(*encoding/csv.Writer).Write" || full == "(*encoding/csv.Writer).WriteAll":
					n++
				case strings.HasPrefix(full, "fmt.Fprint"), strings.HasPrefix(full, "fmt.Print"), strings.HasPrefix(full, "(*bufio.Writer).Write"), full == "bufio.NewWriter", full == "io.WriteString", full == "invoke (io.Writer).Write", strings.HasPrefix(full, "(*os.File).Write"):
					bad++
					c.Violate(rule, core.FuncName(fn), full, c.P.Pos(in.Pos()), "the CSV export writes through "+full+" instead of encoding/csv: quoting and escaping of commas, quotes and line breaks in names are then hand-made", nil)
				}
			}
		}
	}
	if n == 0 {
		c.Violate(rule, "csv", "universe", "-", "no row is written through encoding/csv.Writer in package csv", nil)
	} else if bad == 0 {
		c.Discharge(rule, "csv", "who-may-write", "-", fmt.Sprintf("rows are written only through encoding/csv.Writer.Write (%d call sites); no raw writer is used in the package", n))
	}
}

// ruleCSVRows is C13-R2/R4: each row field is an untouched parsed name, a date
// formatted with the row layout, or fmt.Sprintf(<fixed precision>, float) used as is.
func ruleCSVRows(c *core.Ctx, ruleNames, ruleNums string) {
	n := 0
	for _, fn := range c.P.Funcs {
		if core.FnPkgPath(fn) != csvPkg || fn.Name() != "Process" || fn.Signature.Recv() == nil {
			continue
		}
		n++
		fname := core.FuncName(fn)
		pos := c.P.Pos(fn.Pos())
		c.Universe(ruleNames+" row builders", fname+" ("+pos+")")
		x := newExec(c)
		var badNames, badNums []string
		fields := map[string]bool{}
		x.Hooks.Call = func(x *absint.Exec, s *absint.State, site ssa.CallInstruction, callee *ssa.Function, fnv absint.Value, args []absint.Value) (absint.Value, bool) {
			if callee == nil || callee.String() != "(*encoding/csv.Writer).Write" || len(args) != 2 {
				return nil, false
			}
			s.SetData("wrote", "1")
			t, ok := args[1].(*absint.Term)
			if !ok || t.Op != "slice" {
				badNames = append(badNames, "the row handed to Write is "+args[1].Key()+", not a literal list of fields")
				return nil, false
			}
			p, ok := t.Args[0].(absint.Ptr)
			if !ok {
				return nil, false
			}
			for i := 0; i < 16; i++ {
				hv, ok := s.Heap[fmt.Sprintf("%s[c:%d]", p.Loc, i)]
				if !ok {
					break
				}
				switch v := hv.(type) {
				case absint.Sym:
					loc := locOf(x, v)
					if strings.HasSuffix(loc, "·Name") || strings.HasSuffix(loc, "·Header") {
						fields[fmt.Sprintf("field %d: parsed %s", i, loc[strings.LastIndex(loc, "·")+len("·"):])] = true
					} else {
						badNames = append(badNames, fmt.Sprintf("field %d of the row is %s (%s), not a parsed name", i, v.Key(), loc))
					}
				case *absint.Term:
					switch {
					case v.Op == "call:(time.Time).Format":
						fields[fmt.Sprintf("field %d: date", i)] = true
					case v.Op == "call:fmt.Sprintf" && len(v.Args) == 2:
						f, _ := v.Args[0].(absint.Const)
						fs := ""
						if f.V != nil {
							fs, _ = strconv.Unquote(f.V.ExactString())
						}
						fixed := regexp.MustCompile(`^%0?\.[0-9]+f$`)
						if f.V == nil {
							// the layout is kept in a field of the reporter: every value the tree ever stores there
							loc := locOf(x, v.Args[0])
							if ft, isT := v.Args[0].(*absint.Term); isT && ft.Op == "field" && len(ft.Args) == 2 {
								if nm, ok := absConstString(ft.Args[1]); ok {
									loc = "·" + nm // a field of the reporter held by value
								}
							}
							if strings.Contains(loc, "·") {
								if all, ok := fieldConstStrings(c.P, csvPkg, loc[strings.LastIndex(loc, "·")+len("·"):]); ok {
									fs = ""
									for _, one := range all {
										if !fixed.MatchString(one) {
											fs = one
											break
										}
										if fs == "" {
											fs = one
										}
									}
								}
							}
						}
						if !fixed.MatchString(fs) {
							badNums = append(badNums, fmt.Sprintf("field %d is formatted with %q, not a single fixed-precision verb %%.Nf: precision is not fixed (%%g/%%v/%%e switch notation for tiny or large amounts)", i, fs))
						} else {
							fields[fmt.Sprintf("field %d: number %s", i, fs)] = true
						}
						// what is formatted is the entry's own amount, not something computed from it on the way
						if at, ok := v.Args[1].(*absint.Term); ok && at.Op == "slice" {
							if ap, ok := at.Args[0].(absint.Ptr); ok {
								if av, ok := s.Heap[ap.Loc+"[c:0]"]; ok {
									if iv, isI := av.(*absint.Iface); isI {
										av = iv.V
									}
									if loc := locOf(x, av); !strings.HasSuffix(loc, "·Value") {
										badNums = append(badNums, fmt.Sprintf("field %d formats %s, not the amount of the entry as parsed: a value that is adjusted before formatting (clamped, truncated, scaled) is no longer within half a unit of the last digit of the true value", i, av.Key()))
									}
								}
							}
						}
					case v.Op == "call:strconv.FormatFloat" && len(v.Args) == 4:
						// FormatFloat(x, 'f', N, 64) is the %.Nf rendering
						if v.Args[1].Key() == "c:102" && intConst(v.Args[2]) >= 0 && intConst(v.Args[2]) < 1<<30 && intConst(v.Args[3]) == 64 {
							fields[fmt.Sprintf("field %d: number FormatFloat 'f' %d", i, intConst(v.Args[2]))] = true
						} else {
							badNums = append(badNums, fmt.Sprintf("field %d is %s: not the fixed-precision 'f' rendering of the float64 value (a bit size of 32 rounds through float32 first: large amounts lose their last digits)", i, v.Key()))
						}
					default:
						// a name or number passed through further code
						if strings.Contains(v.Key(), "fmt.Sprintf") {
							badNums = append(badNums, fmt.Sprintf("field %d is %s: the formatted amount is post-processed, so it no longer is the correctly rounded fixed-precision rendering", i, v.Key()))
						} else {
							badNames = append(badNames, fmt.Sprintf("field %d is %s: a name that is transformed on its way into the row is not preserved exactly", i, v.Key()))
						}
					}
				default:
					badNames = append(badNames, fmt.Sprintf("field %d is %s", i, hv.Key()))
				}
			}
			return nil, false
		}
		// one row per element: no iteration over the elements ends without a Write
		x.Hooks.BackEdge = func(x *absint.Exec, s *absint.State, f *absint.Frame, h *ssa.BasicBlock) {
			if f.Fn != fn {
				return
			}
			if s.Data["wrote"] != "1" {
				badNames = append(badNames, "an element is passed over without a row being written for it ("+x.Valuation(s)+"): the export has fewer rows than the day (or the recipe) has entries")
			}
			s.SetData("wrote", "")
		}
		x.Run(x.NewState(fn, nil, nil))
		if !account(c, x, ruleNames, fn) {
			continue
		}
		badNames, badNums = uniq(badNames), uniq(badNums)
		var fs []string
		for k := range fields {
			fs = append(fs, k)
		}
		if len(badNames) == 0 {
			c.Discharge(ruleNames, fname, "names", pos, "names go into the row untouched: "+strings.Join(sortedStrings(fs), "; "))
		}
		for _, m := range badNames {
			c.Violate(ruleNames, fname, "names", pos, m, nil)
		}
		if len(badNums) == 0 {
			c.Discharge(ruleNums, fname, "numbers", pos, "amounts are fmt.Sprintf(constant %.Nf, value) used as is")
		}
		for _, m := range badNums {
			c.Violate(ruleNums, fname, "numbers", pos, m, nil)
		}
	}
	if n == 0 {
		c.Undecide(ruleNames, "csv", "universe", "-", "package csv has no Process method building rows", nil)
	}
}

// ruleCSVDialect is C13-R3: the separator handed to encoding/csv is only ever ','.
func ruleCSVDialect(c *core.Ctx, rule string) {
	g := buildFlow(c)
	n := 0
	for _, fn := range c.P.Funcs {
		for _, b := range fn.Blocks {
			for _, in := range b.Instrs {
				st, ok := in.(*ssa.Store)
				if !ok {
					continue
				}
				fa, ok := st.Addr.(*ssa.FieldAddr)
				if !ok || fieldName(fa.X.Type(), fa.Field) != "Comma" || !strings.Contains(fa.X.Type().String(), "encoding/csv.Writer") {
					continue
				}
				n++
				fname := core.FuncName(fn)
				srcs := g.Sources(flow.ValueNode(st.Val))
				okAll := len(srcs) > 0
				for _, s := range srcs {
					if string(s.Node) != "c:44" || s.Transformed {
						okAll = false
					}
				}
				if okAll {
					c.Discharge(rule, fname, "Comma", c.P.Pos(st.Pos()), "the separator's only source is the constant ','")
				} else {
					c.Violate(rule, fname, "Comma", c.P.Pos(st.Pos()), "the CSV separator can come from {"+describeSources(srcs)+"}; the exports must use ',' (RFC 4180)", nil)
				}
			}
		}
	}
	if n == 0 {
		c.Note(rule + ": Writer.Comma is never assigned; encoding/csv's default ',' applies")
		c.Discharge(rule, "csv", "Comma", "-", "Writer.Comma is never assigned: the library default ',' applies")
	}
}

func init() {
	register(&Property{
		ID:    "C13",
		Rules: []string{"C13-R1", "C13-R2", "C13-R3", "C13-R4", "C13-R5", "C01-R1", "C01-R2", "C01-R4", "C01-R5", "C02-R5", "C06-R7", "C04-R1", "C04-R3", "C14-R1", "C07-R6"},
		Explain: "Decides the mechanisms that make the CSV exports lossless: C13-R1 in package csv the output is written only through encoding/csv.Writer (quoting of commas, quotes and line breaks is the library's); C13-R2 the name fields of each row are the parsed Name/Header values untouched; " +
			"C13-R3 the separator's only source is the constant ',' and row dates use the constant ISO layout; C13-R4 each amount is fmt.Sprintf(constant %.Nf, value) used as is (Go's %f is correctly rounded); C13-R5 the resolved export collects recipe names and sorts them (element order inside a recipe is C01's); " +
			"C01-R4 and C02-R5 (shared) one row per (recipe, resolved element) and per (day, distinct food) rests on the two merge-by-name loops keeping one slot per name in first-appearance position; " +
			"C14-R1 (shared) the only constant-only layout in the tree is the ISO layout 2006-01-02 of the CSV rows; C06-R7 (shared) row dates are the log's own dates: nothing converts them to another zone; C04-R1/R3 (shared) names reach the exporter as the tokenizer cut them at the last blank, with the documented trim sets (no field splitting that would collapse inner blanks). Also: C13-R4 requires the value formatted into an amount field to be the entry's own parsed amount. Shared: C07-R6. C13-R5 the raw-book export hands every record the parser delivers to the row writer on the spot.",
		NotDecided:  "that reading the output back yields the same strings (follows from R1+R2 and the library), the number of rows per day, what the precision is",
		Assumptions: []string{"encoding/csv quotes fields per RFC 4180", "fmt's %f formatting is correctly rounded"},
		Run: func(c *core.Ctx) {
			ruleRawBookRecords(c, "C13-R5")
			ruleEveryEntrySeen(c, "C07-R6")
			ruleCSVWriters(c, "C13-R1")
			ruleCSVRows(c, "C13-R2", "C13-R4")
			ruleCSVDialect(c, "C13-R3")
			RuleMapRanges(c, "C13-R5", func(s mapRangeSite) bool { return s.pkg.PkgPath == csvPkg })
			for _, r := range recursiveResolvers(c.P) {
				analyseResolver(c, r, map[string]bool{"C01-R1": true, "C01-R5": true})
			}
			ruleLessByName(c, "C01-R2")
			ruleZoneAPIs(c, "C06-R7")
			ruleDateLayouts(c, "C14-R1")
			analyseParserLoop(c, map[string]bool{"C04-R1": true, "C04-R3": true})
			if fn := c.P.LookupMethod(core.LibPath, "Elements", "SumMerge"); requireAnchor(c, "C01-R4", "Elements.SumMerge", fn != nil) {
				ruleMergeByName(c, "C01-R4", fn, true)
			}
			if fn := c.P.LookupFunc(core.LibPath, "NewLogNodeFromElements"); requireAnchor(c, "C02-R5", "NewLogNodeFromElements", fn != nil) {
				ruleMergeByName(c, "C02-R5", fn, false)
			}
		},
	})
}

// ruleRawBookRecords is C13-R5: the raw-book export writes the records of the file as the parser delivers them —
// the callback it hands to the parser exports each record it receives without an error, at that moment. Collecting
// the records into a map first (keyed by header) and exporting from the map loses the first of two records that
// share a header and prints the second one twice.
func ruleRawBookRecords(c *core.Ctx, rule string) {
	fn := c.P.LookupFunc(csvPkg, "CSVDatabase")
	psc := c.P.LookupFunc(parserPkg, "ParseStreamCallback")
	if !requireAnchor(c, rule, "csv.CSVDatabase", fn != nil) || !requireAnchor(c, rule, "parser.ParseStreamCallback", psc != nil) {
		return
	}
	var cbs []*ssa.Function
	for _, p := range psc.Params {
		if n, ok := p.Type().(*types.Named); ok && n.Obj().Name() == "ParseCallback" {
			for i, q := range psc.Params {
				if q == p {
					cbs = closuresPassedTo(fn, psc, i)
				}
			}
		}
	}
	if len(cbs) == 0 {
		c.Note(rule + ": CSVDatabase hands no callback of its own to the parser (the records reach the export some other way; not decided)")
		return
	}
	for _, cb := range cbs {
		if len(cb.Params) != 2 {
			continue
		}
		fname := core.FuncName(cb)
		pos := c.P.Pos(cb.Pos())
		c.Universe(rule+" raw-book callbacks", fname+" ("+pos+")")
		x := newExec(c)
		node := absint.Sym{Name: "node"}
		x.Hooks.Call = func(x *absint.Exec, s *absint.State, site ssa.CallInstruction, callee *ssa.Function, fnv absint.Value, args []absint.Value) (absint.Value, bool) {
			name := ""
			if callee != nil {
				name = callee.Name()
			} else if site.Common().IsInvoke() {
				name = site.Common().Method.Name()
			}
			if name == "Process" {
				s.SetData("exported", "1")
				return x.Fresh(s, "perr"), true
			}
			return nil, false
		}
		st := x.NewState(cb, []absint.Value{node, absint.Const{Nil: true}}, nil)
		x.AssumeNil(st, node, false)
		terms := x.Run(st)
		if !account(c, x, rule, cb) {
			continue
		}
		bad := ""
		paths := 0
		for _, tm := range terms {
			if tm.Kind != "return" || len(tm.Ret) != 2 {
				continue
			}
			paths++
			if tm.State.Data["exported"] != "1" && bad == "" {
				bad = fmt.Sprintf("%s: a record delivered without an error is not exported by the callback itself (%s): the export is made from a collection of the records, so records that share a header are not written once each, in file order", c.P.Pos(tm.Pos), x.Valuation(tm.State))
			}
		}
		if bad != "" {
			c.Violate(rule, fname, "each-record", pos, bad, nil)
		} else {
			c.Discharge(rule, fname, "each-record", pos, fmt.Sprintf("every record delivered without an error is handed to Process on the spot (%d paths)", paths))
		}
	}
}

// fieldConstStrings: the compile-time strings that the tree ever stores into the field called name of a structure
// declared in package pkgPath (directly, or through parameters of named functions whose every call hands over a
// constant). False when some store is not such a string or the field's address escapes.
func fieldConstStrings(p *core.Program, pkgPath, name string) ([]string, bool) {
	constStringsProg = p
	var out []string
	for _, fn := range p.Funcs {
		for _, b := range fn.Blocks {
			for _, in := range b.Instrs {
				fa, ok := in.(*ssa.FieldAddr)
				if !ok || fieldName(fa.X.Type(), fa.Field) != name {
					continue
				}
				pt, ok := fa.X.Type().Underlying().(*types.Pointer)
				if !ok {
					continue
				}
				nt, ok := pt.Elem().(*types.Named)
				if !ok || nt.Obj().Pkg() == nil || nt.Obj().Pkg().Path() != pkgPath {
					continue
				}
				for _, r := range *fa.Referrers() {
					switch r := r.(type) {
					case *ssa.Store:
						if r.Addr != ssa.Value(fa) {
							return nil, false
						}
						one, ok := constStrings(r.Val, 0)
						if !ok {
							return nil, false
						}
						out = append(out, one...)
					case *ssa.UnOp, *ssa.DebugRef:
					default:
						return nil, false
					}
				}
			}
		}
	}
	return out, len(out) > 0
}
