package rules

import (
	"fmt"
	"go/types"
	"regexp"
	"strings"

	"golang.org/x/tools/go/ssa"

	"hrverif/internal/absint"
	"hrverif/internal/core"
)

var slotLocRe = regexp.MustCompile(`^(.*lookup\(.*\))\[c:([01])\]$`)

// ruleSumOfRegisters (C15-R12, shared with C02): the register report keeps a positive and a negative register per
// name. Whatever the old reporter and the templates compute from the two — the "=" column — is exactly their sum:
// the only arithmetic (besides showing the negative register without its sign) a register value takes part in, anywhere in packages register and reporter, is
// positive + negative of one and the same name. A rounded, scaled or differently combined figure makes the
// templates disagree with each other on the number shown.
func ruleSumOfRegisters(c *core.Ctx, rule string) {
	n, sums := 0, 0
	for _, fn := range c.P.Funcs {
		if fn.Parent() != nil || len(fn.Blocks) == 0 || (core.FnPkgPath(fn) != registerPkg && core.FnPkgPath(fn) != reporterPkg) {
			continue
		}
		reads := false
		for _, b := range fn.Blocks {
			for _, in := range b.Instrs {
				if lk, ok := in.(*ssa.Lookup); ok && strings.HasSuffix(lk.X.Type().String(), ".Accumulator") {
					reads = true
				}
			}
		}
		if !reads {
			continue
		}
		n++
		fname := core.FuncName(fn)
		pos := c.P.Pos(fn.Pos())
		c.Universe(rule+" readers of the registers", fname+" ("+pos+")")
		x := newExec(c)
		slot := func(v absint.Value) (string, string, bool) {
			m := slotLocRe.FindStringSubmatch(locOf(x, v))
			if m == nil {
				return "", "", false
			}
			return m[1], m[2], true
		}
		arith := func(op string) bool {
			switch op {
			case "+", "-", "*", "/", "neg", "%":
				return true
			}
			return strings.HasPrefix(op, "call:math.")
		}
		var mentions func(v absint.Value) bool
		mentions = func(v absint.Value) bool {
			if _, _, ok := slot(v); ok {
				return true
			}
			if t, ok := v.(*absint.Term); ok && arith(t.Op) {
				// as a number: a width computed from the text of a formatted figure is not a figure
				for _, a := range t.Args {
					if mentions(a) {
						return true
					}
				}
			}
			if iv, ok := v.(*absint.Iface); ok {
				return mentions(iv.V)
			}
			return false
		}
		var bad []string
		good := map[string]bool{}
		var judge func(v absint.Value, where string)
		judge = func(v absint.Value, where string) {
			if iv, ok := v.(*absint.Iface); ok {
				v = iv.V
			}
			t, ok := v.(*absint.Term)
			if !ok {
				return
			}
			if !arith(t.Op) {
				for _, a := range t.Args {
					judge(a, where)
				}
				return
			}
			if !mentions(t) {
				for _, a := range t.Args {
					judge(a, where)
				}
				return
			}
			if t.Op == "+" && len(t.Args) == 2 {
				b0, i0, ok0 := slot(t.Args[0])
				b1, i1, ok1 := slot(t.Args[1])
				if ok0 && ok1 && b0 == b1 && i0 != i1 {
					good[where] = true
					return
				}
			}
			// the negative register shown without its sign
			if t.Op == "neg" && len(t.Args) == 1 {
				if _, _, ok := slot(t.Args[0]); ok {
					return
				}
			}
			if t.Op == "*" && len(t.Args) == 2 {
				for i := 0; i < 2; i++ {
					if _, _, ok := slot(t.Args[i]); ok && (t.Args[1-i].Key() == "c:-1") {
						return
					}
				}
			}
			bad = append(bad, fmt.Sprintf("%s: a figure computed from the registers is %s, not the positive plus the negative register of one name: reporters that show the plain sum and this one disagree on the number", where, t.Key()))
		}
		x.Hooks.Inline = func(callee *ssa.Function, depth int) bool {
			if core.FnPkgPath(callee) == registerPkg || core.FnPkgPath(callee) == reporterPkg {
				return true
			}
			// accessors of the pair of registers (AccValues.Sum()): where the sum is computed when it has a name
			if recv := callee.Signature.Recv(); recv != nil && core.FnPkgPath(callee) == core.LibPath {
				t := recv.Type()
				if p, ok := t.Underlying().(*types.Pointer); ok {
					t = p.Elem()
				}
				return strings.HasSuffix(t.String(), ".AccValues")
			}
			return false
		}
		x.Hooks.Store = func(x *absint.Exec, s *absint.State, in *ssa.Store, addr, val absint.Value) {
			judge(val, c.P.Pos(in.Pos()))
		}
		x.Hooks.Call = func(x *absint.Exec, s *absint.State, site ssa.CallInstruction, callee *ssa.Function, fnv absint.Value, args []absint.Value) (absint.Value, bool) {
			for _, a := range args {
				judge(a, c.P.Pos(site.Pos()))
			}
			return nil, false
		}
		terms := x.Run(x.NewState(fn, nil, nil))
		for _, tm := range terms {
			for _, r := range tm.Ret {
				judge(r, c.P.Pos(tm.Pos))
			}
		}
		if !account(c, x, rule, fn) {
			continue
		}
		bad = uniq(bad)
		sums += len(good)
		if len(bad) == 0 {
			c.Discharge(rule, fname, "sum", pos, fmt.Sprintf("the only arithmetic on register values is positive + negative of one name (%d places)", len(good)))
		}
		for _, m := range bad {
			c.Violate(rule, fname, "sum", pos, m, nil)
		}
	}
	if n == 0 || sums == 0 {
		c.Undecide(rule, "register", "universe", "-", fmt.Sprintf("%d functions read the registers and %d sums of the two were seen: the '=' column cannot be located", n, sums), nil)
	}
}
