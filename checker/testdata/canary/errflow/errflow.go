// Package errflow holds violating and conforming twins for the must-flow error rules.
package errflow

import (
	"bufio"
	"io"
	"os"
)

func BadC10R2_dropped(name string) error {
	f, err := os.Open(name)
	if err != nil {
		return nil
	}
	f.Close()
	return nil
}

func BadC10R2_shadowed(name string) (err error) {
	if _, err := os.Open(name); err != nil {
		_ = err
	}
	return err
}

func GoodC10R2_propagated(name string) error {
	f, err := os.Open(name)
	if err != nil {
		return err
	}
	return f.Close()
}

func GoodC10R2_wrapped(name string) (io.Reader, error) {
	f, err := os.Open(name)
	if err != nil {
		return nil, &os.PathError{Op: "open", Path: name, Err: err}
	}
	return f, nil
}

func BadC17R1_deferFlush(w io.Writer) error {
	b := bufio.NewWriter(w)
	defer b.Flush()
	b.WriteString("x")
	return nil
}

func BadC17R1_onlyOnError(w io.Writer, fail bool) error {
	b := bufio.NewWriter(w)
	b.WriteString("x")
	err := b.Flush()
	if fail {
		return err
	}
	return nil
}

func GoodC17R1_namedResult(w io.Writer, work func() error) (err error) {
	b := bufio.NewWriter(w)
	defer func() {
		if ferr := b.Flush(); err == nil {
			err = ferr
		}
	}()
	return work()
}

func GoodC17R1_direct(w io.Writer) error {
	b := bufio.NewWriter(w)
	b.WriteString("x")
	return b.Flush()
}

// C17-R4: a writer that lives inside one function

func BadC17R4_silentReturn(w io.Writer, silent bool) error {
	b := bufio.NewWriter(w)
	b.WriteString("x")
	if silent {
		return nil
	}
	return b.Flush()
}

func BadC17R4_writeAfterFlush(w io.Writer) error {
	b := bufio.NewWriter(w)
	if err := b.Flush(); err != nil {
		return err
	}
	b.WriteString("x")
	return nil
}

func GoodC17R4_flushLast(w io.Writer, silent bool) error {
	b := bufio.NewWriter(w)
	if !silent {
		b.WriteString("x")
	}
	return b.Flush()
}

func GoodC17R4_errorPath(w io.Writer, work func(io.Writer) error) error {
	b := bufio.NewWriter(w)
	if err := work(b); err != nil {
		return err
	}
	return b.Flush()
}
