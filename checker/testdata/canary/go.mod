module canary

go 1.17
