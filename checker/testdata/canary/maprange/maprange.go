// Package maprange holds violating and conforming twins for the map-order rules.
package maprange

import (
	"fmt"
	"io"
	"regexp"
	"sort"
	"time"
)

type tuple struct {
	name  string
	value float64
}

func BadC05R1_direct(w io.Writer, m map[string]bool) {
	for name := range m {
		fmt.Fprintln(w, name)
	}
}

func BadC05R1_unsorted(m map[string]int) []string {
	var keys []string
	for k := range m {
		keys = append(keys, k)
	}
	return keys
}

func BadC05R1_earlyReturn(m map[string]int, f func(string) error) error {
	for k := range m {
		if err := f(k); err != nil {
			return err
		}
	}
	return nil
}

func BadC05R1_valueOnly(m map[string]float64) []tuple {
	s := make([]tuple, 0, len(m))
	for k, v := range m {
		s = append(s, tuple{k, v})
	}
	sort.SliceStable(s, func(i, j int) bool { return s[i].value < s[j].value })
	return s
}

func BadC05R1_floatSum(m map[string]float64) float64 {
	t := 0.0
	for _, v := range m {
		t += v
	}
	return t
}

func GoodC05R1_sorted(m map[string]int) []string {
	keys := make([]string, len(m))
	i := 0
	for k := range m {
		keys[i] = k
		i++
	}
	sort.Strings(keys)
	return keys
}

func GoodC05R1_stringSlice(m map[string]int) []string {
	var ss sort.StringSlice
	for k := range m {
		ss = append(ss, k)
	}
	sort.Sort(ss)
	return ss
}

func GoodC05R1_keyThenValue(m map[string]float64) []tuple {
	s := make([]tuple, 0, len(m))
	for k, v := range m {
		s = append(s, tuple{k, v})
	}
	sort.SliceStable(s, func(i, j int) bool { return s[i].name < s[j].name })
	sort.SliceStable(s, func(i, j int) bool { return s[i].value < s[j].value })
	return s
}

func GoodC05R1_tieBreak(m map[string]float64) []tuple {
	s := make([]tuple, 0, len(m))
	for k, v := range m {
		s = append(s, tuple{k, v})
	}
	sort.Slice(s, func(i, j int) bool {
		if s[i].value != s[j].value {
			return s[i].value > s[j].value
		}
		return s[i].name < s[j].name
	})
	return s
}

func GoodC05R1_count(m map[string]int) (n int, set map[string]bool) {
	set = map[string]bool{}
	for k, v := range m {
		if v > 0 {
			n++
		}
		set[k] = true
	}
	return
}

func BadC05R3_clock(w io.Writer) {
	fmt.Fprintln(w, time.Now())
}

func GoodC05R3_allowed() time.Time {
	return time.Now()
}

var cache = map[string]int{}
var counter int

func BadC05R4_cache(k string, v int) int {
	if c, ok := cache[k]; ok {
		return c
	}
	cache[k] = v
	return v
}

func BadC05R4_counter() int {
	counter++
	return counter
}

func GoodC05R4_local(k string) int {
	m := map[string]int{}
	m[k] = 1
	return m[k]
}

var lazyRe *regexp.Regexp

func GoodC05R4_lazyConst(s string) bool {
	if lazyRe == nil {
		lazyRe = regexp.MustCompile("^[a-z]+$")
	}
	return lazyRe.MatchString(s)
}

func GoodC05R1_minKey(m map[string]int) (string, int) {
	first, found, val := "", false, 0
	for k, v := range m {
		if !found || k < first {
			first, found, val = k, true, v
		}
	}
	return first, val
}

func BadC05R1_minValue(m map[string]int) string {
	best, found, bv := "", false, 0
	for k, v := range m {
		if !found || v < bv {
			best, found, bv = k, true, v
		}
	}
	return best
}
