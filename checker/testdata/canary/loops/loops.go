// Package loops holds violating and conforming twins for the loop-progress rule (C08-R10).
package loops

import "strings"

// a trimming loop whose step may leave the text unchanged: "#x" starts with "#" but not with "# "
func BadC08R10_trimOther(s string) string {
	for strings.HasPrefix(s, "#") {
		s = strings.TrimPrefix(s, "# ")
	}
	return s
}

// a stutter path: with skip set the iteration changes nothing and takes the same path again
func BadC08R10_stutter(n int, skip bool) int {
	i := 0
	for i < n {
		if skip {
			continue
		}
		i++
	}
	return i
}

func GoodC08R10_trimSame(s string) string {
	for strings.HasPrefix(s, "# ") {
		s = strings.TrimPrefix(s, "#")
	}
	return s
}

func GoodC08R10_counter(xs []string) int {
	n := 0
	for i := 0; i < len(xs); i++ {
		if xs[i] == "" {
			continue
		}
		n++
	}
	return n
}
