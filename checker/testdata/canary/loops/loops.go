// Package loops holds violating and conforming twins for the loop-progress rule (C08-R10).
package loops

import "strings"

// a trimming loop whose step may leave the text unchanged: "#x" starts with "#" but not with "# "
func BadC08R10_trimOther(s string) string {
	for strings.HasPrefix(s, "#") {
		s = strings.TrimPrefix(s, "# ")
	}
	return s
}

// a stutter path: with skip set the iteration changes nothing and takes the same path again
func BadC08R10_stutter(n int, skip bool) int {
	i := 0
	for i < n {
		if skip {
			continue
		}
		i++
	}
	return i
}

func GoodC08R10_trimSame(s string) string {
	for strings.HasPrefix(s, "# ") {
		s = strings.TrimPrefix(s, "#")
	}
	return s
}

func GoodC08R10_counter(xs []string) int {
	n := 0
	for i := 0; i < len(xs); i++ {
		if xs[i] == "" {
			continue
		}
		n++
	}
	return n
}

// ---- C08-R11: a getter that answers nil for "there is none" ----

type node struct {
	name string
	kids []*node
}

func (n *node) first() *node {
	if len(n.kids) == 0 {
		return nil
	}
	return n.kids[0]
}

// the getter's answer is used before the question "is there one" is settled
func BadC08R11_derefFirst(n *node) bool {
	return len(n.first().kids) == 0 && len(n.kids) == 1
}

func GoodC08R11_guarded(n *node) bool {
	return len(n.kids) == 1 && len(n.first().kids) == 0
}

func GoodC08R11_nilChecked(n *node) string {
	if f := n.first(); f != nil {
		return f.name
	}
	return ""
}

// ---- C15-R14: a name cut as runes but measured in bytes ----

func BadC15R14_byteWidth(t string, max int) string {
	if len(t) <= max {
		return t
	}
	r := []rune(t)
	return string(r[:max-1]) + "…"
}

func GoodC15R14_runeWidth(t string, max int) string {
	r := []rune(t)
	if len(r) <= max {
		return t
	}
	return string(r[:max-1]) + "…"
}

// ---- C08-R13: integer division by a computed value ----

func BadC08R13_average(total int, xs []string) int {
	return total / len(xs)
}

func GoodC08R13_guarded(total int, xs []string) int {
	if len(xs) == 0 {
		return 0
	}
	return total / len(xs)
}
